(* MapKeyProofs.v - the dictionary over distinct keys (Ks/MapKeySpec.v, THE specification of C20's map
   clause) against the table model of libks/map.c:

     kd_removed_absent     a clause of the SPECIFICATION: after MAP_REMOVE(k), as long as k is not inserted
                           again, every answer the specification allows for MAP_FIND(k) is NULL
     dup_remove_present    REFUTED for the model of map.c, any hash function, any reachable state in which k
                           is present: MAP_INSERT(k); MAP_REMOVE(k); MAP_FIND(k) answers an entry - a second
                           element was created and one MAP_REMOVE takes out only one of them
     kd_rejects_dup        ... so the specification rejects EVERY trace of the model that contains it
     kd_det / mrun_nr      PARTIAL, exact guard [no_reinsert] (no insert of a present key): the specification
                           allows exactly one trace, the deterministic dictionary's [drun], and the model
                           produces it - for any hash function, after any such sequence *)
From Coq Require Import Lia.
From Robsd Require Import Ks.MapMultiSpec Ks.MapKeySpec Ks.MapProofs Ks.MapIterProofs Ks.MapDup Ks.MapMultiDet.
Local Open Scope N_scope.

(* ---- the specification on sequences that never insert a present key ------------------------------ *)

Lemma kdsteps_fresh d op o : insert_fresh d op = true ->
  kdsteps d op o = if mout_eqb o (snd (dstep d op)) then [fst (dstep d op)] else [].
Proof.
  destruct op as [k v|k|k| | |]; try reflexivity.
  cbn [insert_fresh kdsteps]. destruct (dfind (d_ents d) k); [discriminate|]. reflexivity.
Qed.

Lemma kdrun_nil : forall ops outs, kdrun [] ops outs = [].
Proof. induction ops as [|op ops IH]; intros [|o outs]; try reflexivity. cbn [kdrun flat_map]. apply IH. Qed.

Theorem kd_det : forall ops d outs,
  no_reinsert d ops = true ->
  kdrun [d] ops outs = if mouts_eqb outs (snd (drun d ops)) then [fst (drun d ops)] else [].
Proof.
  induction ops as [|op ops IH]; intros d outs Hn.
  - destruct outs; reflexivity.
  - cbn [no_reinsert] in Hn. apply andb_true_iff in Hn. destruct Hn as [Hf Hrest].
    destruct outs as [|o outs]; cbn [kdrun drun].
    + destruct (dstep d op) as [d1 o1]. destruct (drun d1 ops). reflexivity.
    + cbn [flat_map]. rewrite app_nil_r, kdsteps_fresh by assumption.
      destruct (dstep d op) as [d1 o1]. cbn [fst snd] in *.
      specialize (IH d1 outs Hrest). destruct (drun d1 ops) as [d2 os]. cbn [fst snd mouts_eqb] in *.
      destruct (mout_eqb o o1); cbn [andb]; [exact IH|apply kdrun_nil].
Qed.

(* the guarded form, specification side: exactly the deterministic dictionary's answers are allowed *)
Corollary spec_ok_kdict_partial ops outs :
  no_reinsert dict0 ops = true -> (spec_ok_kdict ops outs = true <-> outs = snd (drun dict0 ops)).
Proof.
  intros Hn. unfold spec_ok_kdict. rewrite (kd_det ops dict0 outs Hn).
  rewrite <- mouts_eqb_eq. destruct (mouts_eqb outs (snd (drun dict0 ops))); split; congruence.
Qed.

(* ---- the multi-dictionary (what the code does) is deterministic under the same guard -------------- *)

Lemma dinv_step_nr d op : dinv d -> insert_fresh d op = true -> dinv (fst (dstep d op)).
Proof.
  intros (Hk & Hi & Hlt) Hok.
  assert (Hrm : forall k it, dinv (mkdict (dremove (d_ents d) k) (d_next d) it)).
  { intros k it. unfold dinv, dremove. cbn [d_ents d_next].
    split; [apply nodup_map_filter; assumption|]. split; [apply nodup_map_filter; assumption|].
    intros e He. apply filter_In in He. apply Hlt. tauto. }
  destruct op as [k v|k|k| | |]; cbn [dstep fst].
  - cbn [insert_fresh] in Hok. destruct (dfind (d_ents d) k) as [e0|] eqn:Ef; [discriminate|].
    unfold dinv. cbn [d_ents d_next]. rewrite !map_app. cbn [map]. unfold ent_key, ent_id. cbn [fst snd].
    split; [apply NoDup_app_one; [assumption|]|split; [apply NoDup_app_one; [assumption|]|]].
    + intros Hin. apply in_map_iff in Hin. destruct Hin as (x & E & Hx).
      unfold dfind in Ef. rewrite find_none_iff in Ef. specialize (Ef x Hx). unfold ent_key in Ef.
      rewrite E, beq_refl in Ef. discriminate.
    + intros Hin. apply in_map_iff in Hin. destruct Hin as (x & E & Hx). specialize (Hlt x Hx). unfold ent_id in Hlt. lia.
    + intros e He. apply in_app_iff in He. destruct He as [He|[<-|[]]]; [specialize (Hlt e He); unfold ent_id in *; lia|unfold ent_id in *; cbn; lia].
  - repeat split; assumption.
  - apply Hrm.
  - repeat split; assumption.
  - destruct (diterate d) as [[it [e|]]|]; cbn [fst]; repeat split; assumption.
  - destruct (diterate d) as [[it [e|]]|]; cbn [fst]; [apply Hrm|repeat split; assumption|repeat split; assumption].
Qed.

Lemma mdrun_nil : forall ops outs, mdrun [] ops outs = [].
Proof. induction ops as [|op ops IH]; intros [|o outs]; try reflexivity. cbn [mdrun flat_map]. apply IH. Qed.

Theorem multi_det_nr : forall ops d outs,
  dinv d -> no_reinsert d ops = true ->
  mdrun [d] ops outs = if mouts_eqb outs (snd (drun d ops)) then [fst (drun d ops)] else [].
Proof.
  induction ops as [|op ops IH]; intros d outs Hd Hn.
  - destruct outs; reflexivity.
  - cbn [no_reinsert] in Hn. apply andb_true_iff in Hn. destruct Hn as [Hok Hrest].
    destruct outs as [|o outs]; cbn [mdrun drun].
    + destruct (dstep d op) as [d1 o1]. destruct (drun d1 ops). reflexivity.
    + cbn [flat_map]. rewrite app_nil_r, mdsteps_det by assumption.
      pose proof (dinv_step_nr d op Hd Hok) as Hd1.
      destruct (dstep d op) as [d1 o1]. cbn [fst snd] in *.
      specialize (IH d1 outs Hd1 Hrest). destruct (drun d1 ops) as [d2 os]. cbn [fst snd mouts_eqb] in *.
      destruct (mout_eqb o o1); cbn [andb]; [exact IH|apply mdrun_nil].
Qed.

(* on a sequence inside the guard the multi-dictionary oracle accepts exactly the dictionary's answers *)
Corollary spec_ok_multi_nr ops outs :
  no_reinsert dict0 ops = true -> (spec_ok_multi ops outs = true <-> outs = snd (drun dict0 ops)).
Proof.
  intros Hn. unfold spec_ok_multi. rewrite (multi_det_nr ops dict0 outs dinv0 Hn).
  rewrite <- mouts_eqb_eq. destruct (mouts_eqb outs (snd (drun dict0 ops))); split; congruence.
Qed.

(* ---- "removed keys absent", a clause of the specification ------------------------------------------ *)

Definition absent (k : bytes) (d : dict) : Prop := dfind (d_ents d) k = None.
Definition not_insert_of (k : bytes) (op : mop) : Prop := forall v, op <> MInsert k v.

Lemma dfind_none_iff l k : dfind l k = None <-> forall e, In e l -> beq (ent_key e) k = false.
Proof. unfold dfind. apply find_none_iff. Qed.

Lemma dfind_dremove l k : dfind (dremove l k) k = None.
Proof.
  apply dfind_none_iff. intros e He. unfold dremove in He. apply filter_In in He. destruct He as [_ He].
  destruct (beq (ent_key e) k); [discriminate|reflexivity].
Qed.

Lemma absent_dremove l k k' : dfind l k = None -> dfind (dremove l k') k = None.
Proof.
  rewrite !dfind_none_iff. intros H e He. unfold dremove in He. apply filter_In in He. apply H. tauto.
Qed.

Lemma dstep_absent k d op : absent k d -> not_insert_of k op -> absent k (fst (dstep d op)).
Proof.
  unfold absent. intros Ha Hni. destruct op as [k' v|k'|k'| | |]; cbn [dstep fst d_ents]; try assumption.
  - apply dfind_none_iff. intros e He. apply in_app_iff in He. destruct He as [He|[<-|[]]].
    + rewrite dfind_none_iff in Ha. apply Ha. assumption.
    + unfold ent_key. cbn [fst]. destruct (beq_spec k' k) as [E|E]; [|reflexivity]. subst k'. exfalso. exact (Hni v eq_refl).
  - apply absent_dremove. assumption.
  - destruct (diterate d) as [[it [e|]]|]; cbn [fst d_ents]; assumption.
  - destruct (diterate d) as [[it [e|]]|]; cbn [fst d_ents]; try assumption. apply absent_dremove. assumption.
Qed.

Lemma kdsteps_absent k d op o d' : absent k d -> not_insert_of k op -> In d' (kdsteps d op o) -> absent k d'.
Proof.
  intros Ha Hni Hin.
  assert (Hgen : (if mout_eqb o (snd (dstep d op)) then [fst (dstep d op)] else []) = kdsteps d op o \/
                 exists k' v, op = MInsert k' v /\ k' <> k).
  { destruct op as [k' v|k'|k'| | |]; try (left; reflexivity). right. exists k', v. split; [reflexivity|].
    intros ->. exact (Hni v eq_refl). }
  destruct Hgen as [E|(k' & v & -> & Hne)].
  - rewrite <- E in Hin. destruct (mout_eqb o (snd (dstep d op))); [|destruct Hin].
    destruct Hin as [<-|[]]. apply dstep_absent; assumption.
  - cbn [kdsteps] in Hin. destruct (mout_eqb o (MoPtr (d_next d) v)); [|destruct Hin].
    destruct (dfind (d_ents d) k') as [e0|] eqn:Ef.
    + destruct Hin as [<-|[<-|[]]]; unfold absent in *; cbn [d_ents]; [assumption|].
      apply dfind_none_iff. intros e He. unfold replace_ent in He. apply in_map_iff in He. destruct He as (x & <- & Hx).
      destruct (beq_spec (ent_key x) k') as [E|E].
      * unfold ent_key. cbn [fst]. destruct (beq_spec k' k) as [E'|E']; [contradiction|reflexivity].
      * rewrite dfind_none_iff in Ha. apply Ha. assumption.
    + destruct Hin as [<-|[]]. apply (dstep_absent k d (MInsert k' v)); assumption.
Qed.

Lemma kdrun_mono : forall ops outs (a b : list dict),
  (forall x, In x a -> In x b) -> forall y, In y (kdrun a ops outs) -> In y (kdrun b ops outs).
Proof.
  induction ops as [|op ops IH]; intros [|o outs] a b Hs y Hy; cbn [kdrun] in *; try assumption; try (destruct Hy).
  - apply Hs. assumption.
  - eapply IH; [|exact Hy]. intros x Hx. apply in_flat_map in Hx. destruct Hx as (z & Hz & Hx).
    apply in_flat_map. exists z. split; [apply Hs; assumption|assumption].
Qed.

Lemma kdrun_in : forall ops outs ds d', In d' (kdrun ds ops outs) ->
  length outs = length ops /\ exists d, In d ds /\ In d' (kdrun [d] ops outs).
Proof.
  induction ops as [|op ops IH]; intros [|o outs] ds d' Hin; cbn [kdrun] in Hin; try (destruct Hin).
  - split; [reflexivity|]. exists d'. split; [assumption|now left].
  - apply IH in Hin. destruct Hin as (Hl & d1 & H1 & Hin). apply in_flat_map in H1. destruct H1 as (d & Hd & H1).
    split; [cbn [length]; congruence|]. exists d. split; [assumption|]. cbn [kdrun flat_map]. rewrite app_nil_r.
    eapply kdrun_mono; [|exact Hin]. intros x [<-|[]]. assumption.
Qed.

Lemma kdrun_absent k : forall ops outs d d', absent k d -> Forall (not_insert_of k) ops ->
  In d' (kdrun [d] ops outs) -> absent k d'.
Proof.
  induction ops as [|op ops IH]; intros [|o outs] d d' Ha Hf Hin; cbn [kdrun] in Hin.
  - destruct Hin as [<-|[]]. assumption.
  - destruct Hin.
  - destruct Hin.
  - cbn [flat_map] in Hin. rewrite app_nil_r in Hin. inversion Hf as [|? ? Hop Hrest]; subst.
    apply kdrun_in in Hin. destruct Hin as (_ & d1 & H1 & Hin).
    eapply IH; [|exact Hrest|exact Hin]. eapply kdsteps_absent; eassumption.
Qed.

Lemma kdrun_app : forall ops1 ops2 outs ds,
  kdrun ds (ops1 ++ ops2) outs =
  kdrun (kdrun ds ops1 (firstn (length ops1) outs)) ops2 (skipn (length ops1) outs) \/
  (length outs < length ops1)%nat.
Proof.
  induction ops1 as [|op ops1 IH]; intros ops2 outs ds; [left; reflexivity|].
  destruct outs as [|o outs]; [right; cbn; lia|].
  cbn [app kdrun length firstn skipn]. destruct (IH ops2 outs (flat_map (fun d => kdsteps d op o) ds)) as [E|E]; [left; exact E|right; lia].
Qed.

Lemma last_app_ne {A} (l1 l2 : list A) d : l2 <> [] -> last (l1 ++ l2) d = last l2 d.
Proof.
  intros Hne. induction l1 as [|y l1 IH]; [reflexivity|]. cbn [app].
  destruct (l1 ++ l2) as [|a l] eqn:E; [destruct l1; [contradiction|discriminate]|].
  change (last (a :: l) d = last l2 d). exact IH.
Qed.

(* REMOVED KEYS ARE ABSENT: whatever came before, after MAP_REMOVE(k) and any operations that do not insert k
   again, the specification allows one answer to MAP_FIND(k): NULL *)
Theorem kd_removed_absent pre mid k outs :
  Forall (not_insert_of k) mid ->
  spec_ok_kdict (pre ++ MRemove k :: mid ++ [MFind k]) outs = true -> last outs MoUB = MoNull.
Proof.
  intros Hmid Hok. unfold spec_ok_kdict in Hok.
  destruct (kdrun [dict0] (pre ++ MRemove k :: mid ++ [MFind k]) outs) as [|dl rest] eqn:E; [discriminate|]. clear Hok.
  assert (Hin : In dl (kdrun [dict0] (pre ++ MRemove k :: mid ++ [MFind k]) outs)) by (rewrite E; now left). clear E.
  pose proof (kdrun_in _ _ _ _ Hin) as [Hlen _].
  destruct (kdrun_app pre (MRemove k :: mid ++ [MFind k]) outs [dict0]) as [E1|E1];
    [|rewrite app_length in Hlen; cbn [length] in Hlen; lia].
  rewrite E1 in Hin. clear E1.
  set (o2 := skipn (length pre) outs) in *.
  assert (Hl2 : length o2 = S (length mid + 1)).
  { unfold o2. rewrite skipn_length, Hlen, !app_length. cbn [length]. rewrite app_length. cbn [length]. lia. }
  assert (Hlast : last outs MoUB = last o2 MoUB).
  { rewrite <- (firstn_skipn (length pre) outs) at 1. fold o2. apply last_app_ne. destruct o2; discriminate. }
  rewrite Hlast. clear Hlast.
  apply kdrun_in in Hin. destruct Hin as (_ & d0 & _ & Hin).
  destruct o2 as [|o o2]; [discriminate|]. cbn [kdrun flat_map] in Hin. rewrite app_nil_r in Hin.
  apply kdrun_in in Hin. destruct Hin as (_ & d1 & H1 & Hin).
  assert (Ha1 : absent k d1).
  { cbn [kdsteps dstep fst snd] in H1. destruct (mout_eqb o MoUnit); [|destruct H1]. destruct H1 as [<-|[]].
    unfold absent. cbn [d_ents]. apply dfind_dremove. }
  clear H1 d0.
  destruct (kdrun_app mid [MFind k] o2 [d1]) as [E2|E2]; [|cbn [length] in Hl2; lia].
  rewrite E2 in Hin. clear E2.
  assert (Hl3 : length (skipn (length mid) o2) = 1%nat) by (rewrite skipn_length; cbn [length] in Hl2; lia).
  assert (Hlast : last (o :: o2) MoUB = last (skipn (length mid) o2) MoUB).
  { destruct (skipn (length mid) o2) as [|z [|]] eqn:Es; try discriminate.
    rewrite <- (firstn_skipn (length mid) o2), Es.
    change (o :: firstn (length mid) o2 ++ [z]) with ((o :: firstn (length mid) o2) ++ [z]). apply last_last. }
  rewrite Hlast. clear Hlast.
  destruct (skipn (length mid) o2) as [|z [|]]; try discriminate.
  apply kdrun_in in Hin. destruct Hin as (_ & d2 & H2 & Hin).
  pose proof (kdrun_absent k mid _ d1 d2 Ha1 Hmid H2) as Ha2.
  cbn [kdrun flat_map] in Hin. rewrite app_nil_r in Hin. cbn [kdsteps dstep fst snd] in Hin.
  unfold absent in Ha2. rewrite Ha2 in Hin. cbn [last].
  destruct (mout_eqb z MoNull) eqn:Ez; [apply mout_eqb_eq in Ez; exact Ez|destruct Hin].
Qed.

(* ---- the model of map.c ---------------------------------------------------------------------------- *)
Section Model.
Variable hash : bytes -> N.
Variables init_nb init_log2 thresh : N.
Hypothesis init_pow2 : exists k, init_nb = 2 ^ k.

Notation hfind := (hfind hash).
Notation mstep := (mstep hash init_nb init_log2 thresh).
Notation mrun := (mrun hash init_nb init_log2 thresh).
Notation minv := (minv hash).

(* PARTIAL, model side: a sequence that never inserts a present key gets the deterministic dictionary's answers
   and ends in its state - no hypothesis about the iterator *)
Theorem mrun_nr ops :
  no_reinsert dict0 ops = true ->
  map fst (snd (mrun map0 ops)) = snd (drun dict0 ops) /\ absm (fst (mrun map0 ops)) = fst (drun dict0 ops).
Proof.
  intros Hn.
  pose proof (mrun_multi hash init_nb init_log2 thresh init_pow2 ops map0 (minv0 hash)) as [H _].
  change (absm map0) with dict0 in H. rewrite (multi_det_nr ops dict0 _ dinv0 Hn) in H.
  destruct (mouts_eqb (map fst (snd (mrun map0 ops))) (snd (drun dict0 ops))) eqn:E; [|destruct H].
  apply mouts_eqb_eq in E. split; [exact E|]. destruct H as [H|[]]. symmetry. exact H.
Qed.

(* REFUTED, model side, from ANY structurally sound state in which the key is present: insert it again, remove
   it once, look it up - the answer is an entry, not NULL *)
Theorem dup_remove_present m k v :
  minv m -> hfind m k <> None ->
  exists i w, map fst (snd (mrun m [MInsert k v; MRemove k; MFind k])) = [MoPtr (m_next m) v; MoUnit; MoPtr i w].
Proof.
  intros Hi Hf.
  destruct (hfind m k) as [e0|] eqn:Ef0; [clear Hf|contradiction].
  destruct (hfind_sound hash m k e0 Hi Ef0) as [Hin0 Hk0].
  pose proof (hinsert_inv hash init_nb init_log2 thresh init_pow2 m k v Hi) as Hi1.
  cbn [MapDefs.mrun MapDefs.mstep].
  assert (Hl1 : m_list (fst (hinsert hash init_nb init_log2 thresh m k v)) = m_list m ++ [mkelt (m_next m) k v (hash k)] /\
                snd (hinsert hash init_nb init_log2 thresh m k v) = mkelt (m_next m) k v (hash k)).
  { unfold hinsert. unfold MapDefs.hfind in Ef0. destruct (m_tbl m); [split; reflexivity|discriminate]. }
  destruct (hinsert hash init_nb init_log2 thresh m k v) as [m1 e1]. cbn [fst snd] in *. destruct Hl1 as [Hl1 ->].
  cbn [e_id e_val map fst snd].
  pose proof (mremove_one hash init_nb init_log2 thresh m1 k Hi1) as (Hi2 & _ & _ & Hrm).
  unfold mremove in Hi2, Hrm. cbn [MapDefs.mstep fst] in Hi2, Hrm.
  set (m2 := match hfind m1 k with Some e => hdelete m1 e | None => m1 end) in *.
  assert (Hpres : In k (map e_key (m_list m2))).
  { destruct (hfind m1 k) as [e|] eqn:Ef1.
    - destruct Hrm as (Hine & Hke & Hl2). rewrite Hl2.
      destruct Hi as (_ & Hlt & _). specialize (Hlt e0 Hin0).
      destruct (N.eq_dec (e_id e) (e_id e0)) as [E|E].
      + (* the old element was removed: the new one stays *)
        apply in_map_iff. exists (mkelt (m_next m) k v (hash k)). split; [reflexivity|].
        apply drop_id_in. split; [rewrite Hl1; apply in_app_iff; right; now left|]. cbn [e_id]. lia.
      + apply in_map_iff. exists e0. split; [assumption|]. apply drop_id_in. split; [rewrite Hl1; apply in_app_iff; now left|congruence].
    - exfalso. destruct Hrm as [Hno _]. apply Hno. rewrite Hl1, map_app. apply in_app_iff. right. now left. }
  destruct (hfind m2 k) as [e2|] eqn:Ef2.
  - exists (e_id e2), (e_val e2). reflexivity.
  - exfalso. apply (hfind_none_iff hash m2 k Hi2) in Ef2. contradiction.
Qed.

(* ... after any operation sequence from the empty map *)
Corollary reach_dup_remove_present pre k v :
  hfind (fst (mrun map0 pre)) k <> None ->
  exists i w, map fst (snd (mrun (fst (mrun map0 pre)) [MInsert k v; MRemove k; MFind k])) =
              [MoPtr (m_next (fst (mrun map0 pre))) v; MoUnit; MoPtr i w].
Proof.
  apply dup_remove_present. apply (mrun_inv hash init_nb init_log2 thresh init_pow2). apply minv0.
Qed.

Lemma mrun_app : forall a b m,
  mrun m (a ++ b) = let '(m1, t1) := mrun m a in let '(m2, t2) := mrun m1 b in (m2, t1 ++ t2).
Proof.
  induction a as [|op a IH]; intros b m; cbn [app MapDefs.mrun].
  - destruct (mrun m b). reflexivity.
  - destruct (mstep m op) as [m1 o]. rewrite IH. destruct (mrun m1 a) as [m2 t1]. destruct (mrun m2 b) as [m3 t2]. reflexivity.
Qed.

(* hence the specification REJECTS every trace of the model that inserts a present key, removes it once and
   looks it up *)
Theorem kd_rejects_dup pre k v :
  hfind (fst (mrun map0 pre)) k <> None ->
  spec_ok_kdict (pre ++ [MInsert k v; MRemove k; MFind k])
                (map fst (snd (mrun map0 (pre ++ [MInsert k v; MRemove k; MFind k])))) = false.
Proof.
  intros Hf. destruct (spec_ok_kdict _ _) eqn:Eok; [|reflexivity]. exfalso.
  change (pre ++ [MInsert k v; MRemove k; MFind k]) with (pre ++ [MInsert k v] ++ MRemove k :: [] ++ [MFind k]) in Eok.
  rewrite app_assoc in Eok.
  apply (kd_removed_absent (pre ++ [MInsert k v]) [] k) in Eok; [|constructor].
  rewrite <- app_assoc in Eok. cbn [app] in Eok.
  destruct (reach_dup_remove_present pre k v Hf) as (i & w & E).
  rewrite mrun_app in Eok. destruct (mrun map0 pre) as [m1 t1]. cbn [fst] in E.
  destruct (mrun m1 [MInsert k v; MRemove k; MFind k]) as [m2 t2]. cbn [snd] in E, Eok.
  rewrite map_app, E in Eok.
  change [MoPtr (m_next m1) v; MoUnit; MoPtr i w] with ([MoPtr (m_next m1) v; MoUnit] ++ [MoPtr i w]) in Eok.
  rewrite app_assoc, last_last in Eok. discriminate.
Qed.

End Model.
