(* BufferMem.v - the buffer at the level of bytes: what a reallocation keeps.

   buffer.c never touches bf_ptr's bytes except to append behind bf_len; the block is
   replaced only in buffer_reserve through
       bf_callbacks.realloc(bf->bf_ptr, <old size>, newsiz, arg)
   [mv] is ANY function returning a block of the new size whose first <old size> bytes are
   the old ones (realloc(3); arena_realloc's memcpy of old_size bytes).  [oldsize len siz]
   is the old size buffer_reserve passes (regenerated: Gen_KsConst.buffer_oldlen).  If it
   covers the live bytes and does not exceed the block (len <= oldsize <= siz), the live
   bytes [firstn len raw] are the same before and after every growth - whatever lies
   beyond them.  BufferDefs.v keeps the live bytes as a list; this lemma is what justifies
   that a growth step copies them unchanged. *)
From Coq Require Import Lia.
From Robsd Require Import Base.Bytes Ks.BufferSpec Ks.VectorProofs.
Local Open Scope Z_scope.

Section BMem.
Variable mv : bytes -> Z -> Z -> bytes.
Variable oldsize : Z -> Z -> Z.
Hypothesis mv_len : forall raw old new, 0 <= new -> zlen (mv raw old new) = new.
Hypothesis mv_keep : forall raw old new, 0 <= old <= zlen raw -> old <= new ->
  firstn (Z.to_nat old) (mv raw old new) = firstn (Z.to_nat old) raw.
Hypothesis oldsize_ok : forall len siz, 0 <= len <= siz -> len <= oldsize len siz <= siz.

Theorem buffer_growth_keeps (raw : bytes) (len siz new : Z) :
  zlen raw = siz -> 0 <= len <= siz -> siz <= new ->
  zlen (mv raw (oldsize len siz) new) = new /\
  firstn (Z.to_nat len) (mv raw (oldsize len siz) new) = firstn (Z.to_nat len) raw.
Proof.
  intros Hraw Hl Hn. pose proof (oldsize_ok len siz Hl) as [H1 H2].
  split; [apply mv_len; lia|].
  pose proof (mv_keep raw (oldsize len siz) new ltac:(lia) ltac:(lia)) as Hk.
  assert (E : forall l : bytes, firstn (Z.to_nat len) l = firstn (Z.to_nat len) (firstn (Z.to_nat (oldsize len siz)) l))
    by (intros l; rewrite firstn_firstn; f_equal; lia).
  rewrite (E (mv raw (oldsize len siz) new)), (E raw), Hk. reflexivity.
Qed.

(* appending s behind the live bytes of a block that has room: the live bytes become data ++ s *)
Theorem buffer_append_bytes (raw s : bytes) (len : nat) :
  (len + length s <= length raw)%nat ->
  firstn (len + length s) (firstn len raw ++ s ++ skipn (len + length s) raw) = firstn len raw ++ s.
Proof.
  intros H. rewrite app_assoc, firstn_app.
  assert (Hl : length (firstn len raw ++ s) = (len + length s)%nat) by (rewrite app_length, firstn_length; lia).
  rewrite Hl, Nat.sub_diag. cbn [firstn]. rewrite app_nil_r. rewrite <- Hl. apply firstn_all.
Qed.

End BMem.
