(* SortGen.v - qsort(3) with a comparator on records: what VECTOR_SORT guarantees for
   elements that are not bare integers (VectorProofs.sorts_is_isort is the instance
   A = Z, key = identity).

   A comparator "compare the keys" ([cmp a b] has the sign of key a - key b, as every
   comparator passed to VECTOR_SORT in the repository does on a string or integer
   field) makes any correct qsort return a permutation that is sorted by key.  Then
     - the sequence of KEYS of the result is determined: the insertion sort of the keys;
     - elements with equal keys may come out in any order (qsort is not stable), nothing
       more can be said about them;
     - when the keys of the input are pairwise distinct the result itself is determined:
       two correct sorts agree. *)
From Coq Require Import ZArith List Lia Sorting.Sorted Sorting.Permutation.
From Robsd Require Import Ks.VectorSpec Ks.VectorProofs.
Import ListNotations.
Local Open Scope Z_scope.

Section SortGen.
Variable A : Type.
Variable key : A -> Z.

Definition key_le (a b : A) : Prop := key a <= key b.
Definition sorts_by (f : list A -> list A) : Prop :=
  forall l, Permutation l (f l) /\ Sorted key_le (f l).

Lemma sorted_map_key l : Sorted key_le l -> Sorted Z.le (map key l).
Proof.
  induction 1 as [|a l Hs IH Hd]; cbn [map]; constructor; [assumption|].
  destruct Hd as [|b l' Hab]; cbn [map]; constructor. exact Hab.
Qed.

(* the keys of the result: the sorted keys of the input *)
Theorem sort_keys_unique f : sorts_by f -> forall l, map key (f l) = isort (map key l).
Proof.
  intros Hf l. destruct (Hf l) as [Hp Hs]. apply sorted_perm_unique.
  - apply Sorted_StronglySorted; [intros x y z; lia|]. apply sorted_map_key. assumption.
  - apply isort_sorted.
  - rewrite <- (isort_perm (map key l)). apply Permutation_map. symmetry. assumption.
Qed.

(* a list sorted by key whose keys are pairwise distinct is determined by its set of elements *)
Lemma sorted_distinct_unique : forall l1 l2,
  NoDup (map key l1) -> StronglySorted key_le l1 -> StronglySorted key_le l2 -> Permutation l1 l2 -> l1 = l2.
Proof.
  induction l1 as [|a l1 IH]; intros l2 Hnd H1 H2 Hp.
  - apply Permutation_nil in Hp. now subst.
  - destruct l2 as [|b l2]; [apply Permutation_sym, Permutation_nil in Hp; discriminate|].
    inversion H1 as [|? ? Hs1 Ha]; subst. inversion H2 as [|? ? Hs2 Hb]; subst.
    cbn [map] in Hnd. inversion Hnd as [|? ? Hna Hnd']; subst.
    assert (a = b) as ->.
    { assert (In a (b :: l2)) as Hina by (eapply Permutation_in; [exact Hp|now left]).
      assert (In b (a :: l1)) as Hinb by (eapply Permutation_in; [symmetry; exact Hp|now left]).
      rewrite Forall_forall in Ha, Hb.
      destruct Hina as [->|Hina]; [reflexivity|]. destruct Hinb as [->|Hinb]; [reflexivity|].
      specialize (Ha _ Hinb). specialize (Hb _ Hina). unfold key_le in *.
      exfalso. apply Hna. assert (key a = key b) as -> by lia. now apply in_map. }
    f_equal. apply IH; [assumption|assumption|assumption|]. eapply Permutation_cons_inv; exact Hp.
Qed.

Theorem sort_distinct_keys_unique f g :
  sorts_by f -> sorts_by g -> forall l, NoDup (map key l) -> f l = g l.
Proof.
  intros Hf Hg l Hnd. destruct (Hf l) as [Pf Sf]. destruct (Hg l) as [Pg Sg].
  assert (Htr : forall x y z : A, key_le x y -> key_le y z -> key_le x z) by (unfold key_le; intros; lia).
  apply sorted_distinct_unique.
  - eapply Permutation_NoDup; [apply Permutation_map; exact Pf|assumption].
  - apply Sorted_StronglySorted; assumption.
  - apply Sorted_StronglySorted; assumption.
  - rewrite <- Pf. assumption.
Qed.

End SortGen.

(* ties: a stable and an unstable sort of records with equal keys are both correct and differ *)
Example sort_ties_not_determined :
  exists (f g : list (Z * Z) -> list (Z * Z)) l,
    Permutation l (f l) /\ Sorted (key_le (Z * Z) fst) (f l) /\
    Permutation l (g l) /\ Sorted (key_le (Z * Z) fst) (g l) /\ f l <> g l.
Proof.
  exists (fun l => l), (fun l => rev l), [(1, 10); (1, 20)]. cbn [rev app].
  split; [reflexivity|]. split; [repeat constructor; unfold key_le; cbn; lia|].
  split; [apply perm_swap|]. split; [repeat constructor; unfold key_le; cbn; lia|]. discriminate.
Qed.
