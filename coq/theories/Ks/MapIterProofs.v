(* MapIterProofs.v - iteration: a fresh iterator returns every live entry exactly
   once, in insertion order, then NULL - also when any of the entries is removed
   right after it has been returned (MAP_ITERATE followed by MAP_REMOVE of the
   current key, as regress-html.c and robsd-wait.c do).  Proved on the
   dictionary and carried to the table model by the refinement theorem.
   Also: the model never alters or copies an element (values never move). *)
From Coq Require Import Lia.
From Robsd Require Import Ks.MapSpec Ks.MapProofs.
Local Open Scope N_scope.

Definition ent_out (e : entry) : mout := MoEnt (ent_id e) (ent_key e) (ent_val e).
Definition head_id (l : list entry) : option N := match l with [] => None | e :: _ => Some (ent_id e) end.

(* the entries not selected for removal *)
Fixpoint keep {A} (sel : list bool) (l : list A) : list A :=
  match sel, l with
  | b :: s, e :: l' => if b then keep s l' else e :: keep s l'
  | _, _ => l
  end.

(* one MAP_ITERATE per entry, each optionally followed by the removal of the entry just returned, and a
   final MAP_ITERATE that must return NULL *)
Lemma keep_In {A} (s : list bool) : forall (l : list A) x, In x (keep s l) -> In x l.
Proof.
  induction s as [|b s IH]; intros [|y l] x H; cbn in *; try assumption.
  destruct b; [right; now apply IH|]. destruct H as [->|H]; [now left|right; now apply IH].
Qed.

Lemma keep_map {A B} (f : A -> B) (s : list bool) : forall l, keep s (map f l) = map f (keep s l).
Proof. induction s as [|b s IH]; intros [|x l]; cbn; try reflexivity. destruct b; [apply IH|now rewrite IH]. Qed.

(* abs_e forgets the cached hash; on lists that store hash(key) it is injective *)
Lemma abs_e_inj (hash : bytes -> N) : forall l1 l2,
  (forall e, In e l1 -> e_hash e = hash (e_key e)) -> (forall e, In e l2 -> e_hash e = hash (e_key e)) ->
  map abs_e l1 = map abs_e l2 -> l1 = l2.
Proof.
  induction l1 as [|a l1 IH]; intros [|b l2] H1 H2 E; try discriminate; [reflexivity|].
  cbn [map] in E. injection E as Ea El.
  f_equal; [|apply IH; [intros; apply H1; now right|intros; apply H2; now right|assumption]].
  pose proof (H1 a (or_introl eq_refl)) as Pa. pose proof (H2 b (or_introl eq_refl)) as Pb.
  destruct a, b. unfold abs_e in Ea. simpl in *. inversion Ea; subst. congruence.
Qed.

Definition iter_ops (sel : list bool) : list mop :=
  map (fun b : bool => if b then MIterNextDel else MIterNext) sel ++ [MIterNext].

Lemma dlocate_app pre e rest :
  ~ In (ent_id e) (map ent_id pre) -> dlocate (ent_id e) (pre ++ e :: rest) = Some (e, head_id rest).
Proof.
  induction pre as [|x pre IH]; intros Hn; simpl.
  - rewrite N.eqb_refl. destruct rest; reflexivity.
  - destruct (N.eqb_spec (ent_id x) (ent_id e)) as [E|E]; [exfalso; apply Hn; left; assumption|].
    apply IH. intros H. apply Hn. now right.
Qed.

Lemma dremove_absent_key l k : ~ In k (map ent_key l) -> dremove l k = l.
Proof.
  induction l as [|x l IH]; intros Hn; simpl; [reflexivity|].
  destruct (beq_spec (ent_key x) k) as [E|E]; [exfalso; apply Hn; left; assumption|].
  simpl. f_equal. apply IH. intros H. apply Hn. now right.
Qed.

Lemma dremove_mid pre e rest :
  NoDup (map ent_key (pre ++ e :: rest)) -> dremove (pre ++ e :: rest) (ent_key e) = pre ++ rest.
Proof.
  intros Hn. rewrite map_app in Hn. cbn [map] in Hn.
  pose proof (NoDup_remove_2 _ _ _ Hn) as Hnot. rewrite in_app_iff in Hnot.
  unfold dremove. rewrite filter_app. cbn [filter]. rewrite beq_refl. cbn [negb].
  fold (dremove pre (ent_key e)). fold (dremove rest (ent_key e)).
  rewrite !dremove_absent_key by tauto. reflexivity.
Qed.

Lemma nodup_drop_mid {A B} (f : A -> B) pre e rest :
  NoDup (map f (pre ++ e :: rest)) -> NoDup (map f (pre ++ rest)).
Proof. rewrite !map_app. cbn [map]. apply NoDup_remove_1. Qed.

Lemma iter_sel : forall rest sel pre nx,
  length sel = length rest ->
  NoDup (map ent_id (pre ++ rest)) -> NoDup (map ent_key (pre ++ rest)) ->
  let d := mkdict (pre ++ rest) nx (Some (head_id rest)) in
  disciplined d (iter_ops sel) = true /\
  snd (drun d (iter_ops sel)) = map ent_out rest ++ [MoNull] /\
  d_ents (fst (drun d (iter_ops sel))) = pre ++ keep sel rest.
Proof.
  induction rest as [|e rest IH]; intros sel pre nx Hl Hid Hk.
  - destruct sel; [|discriminate]. cbn. rewrite app_nil_r. repeat split.
  - destruct sel as [|b sel]; [discriminate|]. cbn [length] in Hl. injection Hl as Hl.
    assert (Hloc : dlocate (ent_id e) (pre ++ e :: rest) = Some (e, head_id rest)).
    { apply dlocate_app. rewrite map_app in Hid. cbn [map] in Hid.
      pose proof (NoDup_remove_2 _ _ _ Hid) as H. rewrite in_app_iff in H. tauto. }
    cbv zeta. unfold iter_ops. cbn [map app head_id].
    destruct b.
    + (* returned, then removed *)
      specialize (IH sel pre nx Hl (nodup_drop_mid _ _ _ _ Hid) (nodup_drop_mid _ _ _ _ Hk)). cbv zeta in IH.
      cbn [disciplined drun op_ok dstep]. unfold diterate. cbn [d_it d_ents d_next]. rewrite Hloc.
      cbn [fst snd andb]. rewrite dremove_mid by assumption.
      fold (iter_ops sel).
      destruct IH as (I1 & I2 & I3).
      destruct (drun (mkdict (pre ++ rest) nx (Some (head_id rest))) (iter_ops sel)) as [d2 os] eqn:Er.
      cbn [fst snd] in *. split; [assumption|]. split; [cbn [map app ent_out]; now rewrite I2|].
      cbn [keep]. assumption.
    + (* returned, kept *)
      assert (Hre : pre ++ e :: rest = (pre ++ [e]) ++ rest) by (rewrite <- app_assoc; reflexivity).
      specialize (IH sel (pre ++ [e]) nx Hl). cbv zeta in IH. rewrite <- Hre in IH. specialize (IH Hid Hk).
      cbn [disciplined drun op_ok dstep]. unfold diterate. cbn [d_it d_ents d_next]. rewrite Hloc.
      cbn [fst snd andb]. fold (iter_ops sel).
      destruct IH as (I1 & I2 & I3).
      destruct (drun (mkdict (pre ++ e :: rest) nx (Some (head_id rest))) (iter_ops sel)) as [d2 os] eqn:Er.
      cbn [fst snd] in *. split; [assumption|]. split; [cbn [map app ent_out]; now rewrite I2|].
      cbn [keep]. rewrite I3, <- app_assoc. reflexivity.
Qed.

(* from a fresh iterator *)
Theorem iter_fresh_sel ents sel nx :
  length sel = length ents -> NoDup (map ent_id ents) -> NoDup (map ent_key ents) ->
  let d := mkdict ents nx None in
  disciplined d (iter_ops sel) = true /\
  snd (drun d (iter_ops sel)) = map ent_out ents ++ [MoNull] /\
  d_ents (fst (drun d (iter_ops sel))) = keep sel ents.
Proof.
  intros Hl Hid Hk. destruct ents as [|e l].
  - destruct sel; [|discriminate]. cbn. repeat split.
  - destruct sel as [|b sel]; [discriminate|].
    pose proof (iter_sel (e :: l) (b :: sel) [] nx Hl Hid Hk) as H. cbv zeta in H. cbn [app head_id] in H.
    cbv zeta.
    (* the first call behaves the same from the fresh iterator and from one that points at the head *)
    assert (Hsame : forall op, op = MIterNext \/ op = MIterNextDel ->
       dstep (mkdict (e :: l) nx None) op = dstep (mkdict (e :: l) nx (Some (Some (ent_id e)))) op /\
       op_ok (mkdict (e :: l) nx None) op = op_ok (mkdict (e :: l) nx (Some (Some (ent_id e)))) op).
    { intros op [-> | ->]; cbn [dstep op_ok]; unfold diterate; cbn [d_it d_ents dlocate]; rewrite N.eqb_refl;
        destruct l; split; reflexivity. }
    unfold iter_ops in *. cbn [map app] in *.
    set (op := if b then MIterNextDel else MIterNext) in *.
    destruct (Hsame op ltac:(unfold op; destruct b; tauto)) as [Hs Ho].
    cbn [disciplined drun] in *. rewrite Hs, Ho. exact H.
Qed.

(* ---- carried to the table model ------------------------------------------------- *)

Section Model.
Variable hash : bytes -> N.
Variables init_nb init_log2 thresh : N.
Hypothesis init_pow2 : exists k, init_nb = 2 ^ k.

Notation mrun := (mrun hash init_nb init_log2 thresh).
Notation mstep := (mstep hash init_nb init_log2 thresh).

Definition elt_out (e : elt) : mout := MoEnt (e_id e) (e_key e) (e_val e).

Theorem map_iteration m sel :
  minv hash m -> keys_nodup m -> m_it m = None -> length sel = length (m_list m) ->
  map fst (snd (mrun m (iter_ops sel))) = map elt_out (m_list m) ++ [MoNull] /\
  m_list (fst (mrun m (iter_ops sel))) = keep sel (m_list m).
Proof.
  intros Hi Hk Hit Hl.
  set (d := mkdict (map abs_e (m_list m)) (m_next m) None).
  assert (HR : R hash m d) by (unfold R, d; cbn; rewrite Hit; repeat split; try assumption; apply Hi).
  destruct Hi as (Hh & Hid & Hnd & Ht).
  assert (Hid' : NoDup (map ent_id (map abs_e (m_list m)))) by (rewrite map_map; exact Hnd).
  assert (Hk' : NoDup (map ent_key (map abs_e (m_list m)))) by (rewrite map_map; exact Hk).
  pose proof (iter_fresh_sel (map abs_e (m_list m)) sel (m_next m) ltac:(now rewrite map_length) Hid' Hk') as (D1 & D2 & D3).
  fold d in D1, D2, D3.
  destruct (mrun_refines hash init_nb init_log2 thresh init_pow2 (iter_ops sel) m d HR D1) as [Ho HR'].
  split.
  - rewrite Ho, D2, map_map. reflexivity.
  - destruct HR' as (He & _ & _ & (Hh' & _) & _). rewrite D3, keep_map in He.
    symmetry. apply (abs_e_inj hash); [|assumption|assumption].
    intros e He'. apply Hh. eapply keep_In. exact He'.
Qed.

(* values never move: an operation never alters or copies an element - every element of the new list is an
   element of the old list, or the one element the insert just allocated *)
Theorem elements_never_change m op e :
  In e (m_list (fst (mstep m op))) ->
  In e (m_list m) \/ exists k v, op = MInsert k v /\ e = mkelt (m_next m) k v (hash k).
Proof.
  assert (Hdel : forall m0 d x, In x (m_list (hdelete m0 d)) -> In x (m_list m0)).
  { intros m0 d x. unfold hdelete. destruct (m_tbl m0); [|tauto].
    destruct (drop_id (e_id d) (m_list m0)) as [|y l'] eqn:El; cbn [m_list]; [intros []|].
    rewrite <- El. intros H. apply drop_id_in in H. tauto. }
  assert (Hrm : forall m0 k x, In x (m_list (match hfind hash m0 k with Some d => hdelete m0 d | None => m0 end)) -> In x (m_list m0)).
  { intros m0 k x. destruct (hfind hash m0 k); [apply Hdel|tauto]. }
  destruct op as [k v|k|k| | |]; cbn [MapDefs.mstep].
  - unfold hinsert. destruct (m_tbl m); cbn [fst m_list]; intros H.
    + apply in_app_iff in H. destruct H as [H|[<-|[]]]; [left; assumption|right; eauto].
    + destruct H as [<-|[]]. right; eauto.
  - cbn [fst]. tauto.
  - cbn [fst]. intros H. left. eapply Hrm; exact H.
  - cbn [fst set_it m_list]. tauto.
  - destruct (iterate m) as [[it [x|]]|]; cbn [fst set_it m_list]; tauto.
  - destruct (iterate m) as [[it [x|]]|]; cbn [fst set_it m_list]; try tauto.
    intros H. left. apply Hrm in H. exact H.
Qed.

End Model.

Lemma keep_none {A} (l : list A) : keep (repeat false (length l)) l = l.
Proof. induction l as [|x l IH]; cbn; [reflexivity|now rewrite IH]. Qed.

Lemma mout_eqb_refl o : mout_eqb o o = true.
Proof. destruct o; simpl; rewrite ?N.eqb_refl, ?Z.eqb_refl, ?beq_refl; reflexivity. Qed.

Lemma mouts_eqb_refl l : mouts_eqb l l = true.
Proof. induction l; simpl; [reflexivity|]. now rewrite mout_eqb_refl. Qed.

Section ModelPlain.
Variable hash : bytes -> N.
Variables init_nb init_log2 thresh : N.
Hypothesis init_pow2 : exists k, init_nb = 2 ^ k.

Lemma iter_ops_none n : iter_ops (repeat false n) = repeat MIterNext (S n).
Proof.
  unfold iter_ops. induction n as [|n IH]; [reflexivity|].
  cbn [repeat map app]. rewrite IH. reflexivity.
Qed.

Theorem map_iteration_plain m :
  minv hash m -> keys_nodup m -> m_it m = None ->
  let ops := repeat MIterNext (S (length (m_list m))) in
  map fst (snd (mrun hash init_nb init_log2 thresh m ops)) = map elt_out (m_list m) ++ [MoNull] /\
  m_list (fst (mrun hash init_nb init_log2 thresh m ops)) = m_list m.
Proof.
  intros Hi Hk Hit. cbv zeta. rewrite <- iter_ops_none.
  pose proof (map_iteration hash init_nb init_log2 thresh init_pow2 m (repeat false (length (m_list m))) Hi Hk Hit
                (repeat_length _ _)) as [H1 H2].
  split; [assumption|]. rewrite H2. apply keep_none.
Qed.
End ModelPlain.
