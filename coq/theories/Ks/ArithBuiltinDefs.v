(* ArithBuiltinDefs.v - the compiler builtin the KS_<ty>_<op>_overflow entry points of
   libks/arithmetic.h use when it is available:

     return __builtin_<op>_overflow(a, b, c) ? 1 : 0;      (a, b, *c of one integer type t)

   GCC / clang documentation ("Built-in Functions to Perform Arithmetic with Overflow
   Checking"): the operation is performed as if in infinite precision, the result is
   converted to the type of *c and stored there - wrapped modulo 2^N when it does not
   fit - and the builtin returns true exactly when the stored value differs from the
   exact one.  It never traps.  This contract is an ASSUMPTION about the compiler
   (trusted base); the harness compares what the compiled entry points do with it on
   the boundary grid in three builds.

   Imported by the generated coq/gen/Gen_Arith.v, which names one instance per entry
   point after harness/t_arith.py has checked the shape of its body. *)
From Coq Require Import ZArith.
From Robsd Require Import Base.CInt.
Local Open Scope Z_scope.

Inductive bop3 := BAdd | BSub | BMul.

Definition bexact (o : bop3) (a b : Z) : Z :=
  match o with BAdd => a + b | BSub => a - b | BMul => a * b end.

Definition cbuiltin_overflow (t : cty) (o : bop3) (a b : Z) : cres :=
  Some (if in_rangeb t (bexact o a b) then 0 else 1, Some (cwrap t (bexact o a b))).
