(* KsInstProofs3.v - the executed buffer instance with its getline iterator: the oracle of Ks/GetlineSpec.v
   accepts every trace of the model, for every interleaving of buffer operations and getline calls. *)
From Coq Require Import Lia.
From Robsd Require Import Ks.KsInst Ks.VectorProofs Ks.BufferProofs Ks.KsInstProofs Ks.KsInstProofs2 Ks.GetlineRun Ks.BufferRun.
From RobsdGen Require Import Gen_KsConst.
Local Open Scope Z_scope.

Lemma alloc_f_nil_small sz : sz <= 1125899906842624 -> alloc_ok_f [] sz = true.
Proof. intros H. unfold alloc_ok_f. cbn [existsb negb]. rewrite andb_true_r. apply Z.leb_le. assumption. Qed.
Lemma alloc_f_nil_bounded sz : alloc_ok_f [] sz = true -> sz <= 4611686018427387904.
Proof. unfold alloc_ok_f. intros H. apply andb_true_iff in H. destruct H as [H _]. apply Z.leb_le in H. lia. Qed.

Theorem grun_inst_ok init ops :
  0 <= init <= ULONG_MAX -> Forall gop_wf ops ->
  match grun_instf [] init ops with
  | None => True
  | Some (_, tr) => spec_ok_gbuf_inst (gtrace_of ops tr) = true
  end.
Proof.
  intros Hinit Hwf. unfold grun_instf, spec_ok_gbuf_inst.
  destruct (balloc buffer_init_cap (alloc_ok_f []) init) as [b|] eqn:Eb; [|exact I].
  pose proof (binv_alloc buffer_init_cap (alloc_ok_f []) buffer_init_cap_ok alloc_f_nil_bounded init b Hinit Eb) as [Hi Hd].
  pose proof (grun_refines buffer_init_cap (alloc_ok_f []) buffer_init_cap_ok alloc_f_nil_bounded alloc_f_nil_small
                ops (mkgbuf b 0) Hi Hwf) as H.
  destruct (grun buffer_init_cap (alloc_ok_f []) (mkgbuf b 0) ops) as [g' tr]. cbn [snd g_buf g_off] in *.
  destruct H as (_ & Hok & _). rewrite Hd in Hok. exact Hok.
Qed.

(* the buffer at byte level over whole sequences, with the old size buffer_reserve passes (regenerated:
   Gen_KsConst.buffer_oldlen) and the reservation of buffer_vprintf (Gen_KsConst.printf_reserve, inside bmstep) *)
Theorem buffer_bytes_run (init_cap : Z) (alloc_ok : Z -> bool) (mv : list N -> Z -> Z -> list N) :
  0 < init_cap <= 65536 ->
  (forall sz, alloc_ok sz = true -> sz <= 4611686018427387904) ->
  (forall raw old new, 0 <= new -> zlen (mv raw old new) = new) ->
  (forall raw old new, 0 <= old <= zlen raw -> old <= new -> firstn (Z.to_nat old) (mv raw old new) = firstn (Z.to_nat old) raw) ->
  forall (ops : list bop) (m : mbuf), MI m -> Forall bop_wf ops -> Forall bsize_ok ops ->
  let '(m', os) := bmrun init_cap alloc_ok mv buffer_oldlen m ops in
  view m' = fst (brun init_cap alloc_ok (view m) ops) /\
  os = map fst (snd (brun init_cap alloc_ok (view m) ops)) /\
  MI m'.
Proof.
  intros Hi Hb Hl Hk ops m. apply (bmrun_views init_cap alloc_ok mv buffer_oldlen Hi Hb Hl Hk buffer_oldlen_ok).
Qed.

(* the old size matters for buffers too: a callback told 0 bytes keeps nothing *)
Definition keep_mv (raw : list N) (old new : Z) : list N :=
  firstn (Z.to_nat old) raw ++ repeat 165%N (Z.to_nat (new - old)).

Theorem buffer_oldlen_matters :
  let ops := [BPuts [1%N; 2%N; 3%N]; BPuts (repeat 7%N 20); BDump] in
  let m0 := mbuf_alloc 16 (repeat 0%N 16) in
  last (snd (bmrun 16 (fun _ => true) keep_mv buffer_oldlen m0 ops)) BoUnit = BoBytes ([1%N; 2%N; 3%N] ++ repeat 7%N 20) /\
  last (snd (bmrun 16 (fun _ => true) keep_mv (fun _ _ => 0) m0 ops)) BoUnit = BoBytes (repeat 165%N 3 ++ repeat 7%N 20).
Proof. vm_compute. split; reflexivity. Qed.
