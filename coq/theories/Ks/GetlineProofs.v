(* GetlineProofs.v - one buffer_getline call is the specification's call; calling until NULL
   from ANY offset returns exactly the lines of the rest of the buffer (so bytes appended
   between calls are picked up and lines already returned are not repeated), and the NULL
   rewinds the iterator. *)
From Coq Require Import Lia.
From Robsd Require Import Ks.GetlineDefs Ks.BufferSpec Ks.BufferProofs Ks.VectorProofs.
Local Open Scope nat_scope.

Lemma skipn_nil_iff {A} (l : list A) n : skipn n l = [] <-> length l <= n.
Proof.
  split; [intros H; pose proof (skipn_length n l) as E; rewrite H in E; simpl in E; lia|apply skipn_all2].
Qed.

Lemma getlines_nil_iff l : getlines l = [] <-> l = [].
Proof.
  split; [|intros ->; reflexivity]. destruct l as [|c l]; [reflexivity|].
  rewrite getlines_cut. discriminate.
Qed.

(* the regenerated advance, on lengths *)
Lemma advance_nat n : Z.to_nat (Gen_KsConst.getline_advance (Z.of_nat n)) = n + 1.
Proof. unfold Gen_KsConst.getline_advance. lia. Qed.

(* the model's call is the specification's call *)
Theorem gline_is_spec data off : gline data off = gline_spec data off.
Proof.
  unfold gline, gline_spec. destruct (Nat.leb_spec (length data) off) as [H|H].
  - rewrite (proj2 (skipn_nil_iff data off) H). reflexivity.
  - destruct (skipn off data) as [|c r] eqn:E; [apply skipn_nil_iff in E; lia|].
    rewrite getlines_cut. destruct (cut_line (c :: r)) as [line rest]. cbn [fst]. rewrite advance_nat, Nat.add_assoc. reflexivity.
Qed.

(* the iterator called until it answers NULL *)
Fixpoint gl_until (fuel : nat) (data : bytes) (off : nat) : list bytes * nat :=
  match fuel with
  | O => ([], off)
  | S f => match gline data off with
           | (off', None) => ([], off')
           | (off', Some l) => let '(ls, o) := gl_until f data off' in (l :: ls, o)
           end
  end.

Lemma cut_line_skipn : forall l, snd (cut_line l) = skipn (length (fst (cut_line l)) + 1) l.
Proof.
  induction l as [|c l IH]; [reflexivity|]. cbn [cut_line].
  destruct (c =? 10)%N; [reflexivity|]. destruct (cut_line l) as [a r]. cbn [fst snd length] in *.
  rewrite IH. reflexivity.
Qed.

Lemma skipn_add {A} (l : list A) a b : skipn a (skipn b l) = skipn (b + a) l.
Proof.
  revert l. induction b as [|b IH]; intros l; [reflexivity|].
  destruct l; [rewrite !skipn_nil; reflexivity|]. cbn [skipn Nat.add]. apply IH.
Qed.

(* from any offset inside or beyond the buffer: exactly the lines of the rest, then NULL and offset 0 *)
Theorem gl_until_lines : forall fuel data off,
  length data - off < fuel -> gl_until fuel data off = (clines (skipn off data), 0).
Proof.
  induction fuel as [|f IH]; intros data off Hf; [lia|].
  cbn [gl_until]. unfold gline. destruct (Nat.leb_spec (length data) off) as [H|H].
  - rewrite (proj2 (skipn_nil_iff data off) H). reflexivity.
  - destruct (skipn off data) as [|c r] eqn:E; [apply skipn_nil_iff in E; lia|].
    unfold clines. rewrite getlines_cut. pose proof (cut_line_skipn (c :: r)) as Hs.
    destruct (cut_line (c :: r)) as [line rest] eqn:Ec. cbn [fst snd map] in *. rewrite advance_nat.
    assert (Hlen : length line < length (c :: r) \/ True) by tauto.
    rewrite IH.
    + unfold clines. rewrite Hs, <- E, skipn_add. replace (off + (length line + 1)) with (off + length line + 1) by lia. reflexivity.
    + assert (length (c :: r) = length data - off) by (rewrite <- E; apply skipn_length). simpl in *. lia.
Qed.

(* a whole pass from a zeroed iterator = BufferDefs.getline_loop = the lines of the buffer *)
Corollary gl_until_all data : gl_until (S (length data)) data 0 = (clines data, 0).
Proof. rewrite gl_until_lines by lia. reflexivity. Qed.

(* bytes appended between two calls: the calls that follow return the lines of the rest of the NEW contents *)
Corollary gl_until_after_append data s off :
  gl_until (S (length (data ++ s))) (data ++ s) off = (clines (skipn off (data ++ s)), 0).
Proof. apply gl_until_lines. lia. Qed.
