(* ArithSpec.v - what an overflow-checked operation has to do, stated over the
   mathematical integers and independently of Base/CInt.v and of the
   translator: the ranges are written down here as powers of two (size_t is
   64 bits: LP64 is an assumption of the whole development). *)
From Robsd Require Export Ks.ArithDefs.
Local Open Scope Z_scope.

Definition ty_lo (ty : aty) : Z :=
  match ty with I32 => - 2 ^ 31 | I64 => - 2 ^ 63 | U32 | U64 | USize => 0 end.
Definition ty_hi (ty : aty) : Z :=
  match ty with
  | I32 => 2 ^ 31 - 1 | I64 => 2 ^ 63 - 1
  | U32 => 2 ^ 32 - 1 | U64 | USize => 2 ^ 64 - 1
  end.
Definition representable (ty : aty) (z : Z) : Prop := ty_lo ty <= z <= ty_hi ty.
Definition representableb (ty : aty) (z : Z) : bool := (ty_lo ty <=? z) && (z <=? ty_hi ty).

Definition exact (op : aop) (a b : Z) : Z :=
  match op with OAdd => a + b | OSub => a - b | OMul => a * b end.

(* An observation of one call: None = the call trapped / had undefined
   behaviour; Some (flag, st) = it returned flag, st = Some v if v was stored
   through the result pointer. *)
Definition checked_post (ty : aty) (op : aop) (a b : Z) (r : cres) : Prop :=
  exists flag st, r = Some (flag, st) /\
    (representable ty (exact op a b) -> flag = 0 /\ st = Some (exact op a b)) /\
    (~ representable ty (exact op a b) -> flag = 1).

(* the statement of the property for one function: for ALL operands of the type *)
Definition checked_exact (ty : aty) (op : aop) (f : Z -> Z -> cres) : Prop :=
  forall a b, representable ty a -> representable ty b -> checked_post ty op a b (f a b).

Definition oeqb (x : option Z) (z : Z) : bool :=
  match x with Some v => v =? z | None => false end.

(* the oracle applied to what the compiled code did *)
Definition spec_ok_checked (ty : aty) (op : aop) (a b : Z) (r : cres) : bool :=
  match r with
  | None => false
  | Some (flag, st) =>
      if representableb ty (exact op a b) then (flag =? 0) && oeqb st (exact op a b)
      else flag =? 1
  end.
