(* MapProofs.v - for ANY hash function, the table model of MapDefs.v refines
   the dictionary of MapSpec.v on every disciplined operation sequence.

   The invariant ([minv]): the table exists exactly when the list is non-empty;
   the bucket array has num_buckets = 2^k entries; an element is in the chain of
   bucket i exactly when it is in the application-order list and HASH_TO_BKT of
   its hash is i; stored hashes are the hashes of the keys; ids are distinct and
   below the insert counter.  It is preserved by insertion (with or without
   expansion - the rehash lemma [place_fold]), deletion and iteration. *)
From Coq Require Import Lia.
From Robsd Require Import Ks.MapSpec.
Local Open Scope N_scope.

(* ---- lists ------------------------------------------------------------------- *)

Lemma upd_length {A} (f : A -> A) l : forall i, length (upd i f l) = length l.
Proof. induction l as [|x l IH]; intros [|i]; simpl; auto. Qed.

Lemma nth_upd {A} (f : A -> A) d l : forall i j,
  (i < length l)%nat -> nth j (upd i f l) d = if Nat.eqb i j then f (nth i l d) else nth j l d.
Proof.
  induction l as [|x l IH]; intros i j Hi; simpl in Hi; [lia|].
  destruct i as [|i], j as [|j]; simpl; try reflexivity.
  apply IH. lia.
Qed.

Lemma nth_repeat {A} (x : A) n i d : (i < n)%nat -> nth i (repeat x n) d = x.
Proof. revert i; induction n as [|n IH]; intros [|i] H; simpl; try lia; [reflexivity|apply IH; lia]. Qed.

Lemma in_concat_nth (bk : list bucket) e :
  In e (concat (map bk_chain bk)) <-> exists i, (i < length bk)%nat /\ In e (bk_chain (nth i bk empty_bkt)).
Proof.
  induction bk as [|b bk IH]; simpl.
  - split; [tauto|intros (i & Hi & _); lia].
  - rewrite in_app_iff, IH. split.
    + intros [H|(i & Hi & H)]; [exists 0%nat; split; [lia|assumption]|exists (S i); split; [lia|assumption]].
    + intros ([|i] & Hi & H); [left; assumption|right; exists i; split; [lia|assumption]].
Qed.

Lemma find_ext {A} (f g : A -> bool) l : (forall x, In x l -> f x = g x) -> find f l = find g l.
Proof.
  induction l as [|x l IH]; intros H; simpl; [reflexivity|].
  rewrite (H x (or_introl eq_refl)). destruct (g x); [reflexivity|]. apply IH. intros; apply H; now right.
Qed.

Lemma find_none_iff {A} (f : A -> bool) l : find f l = None <-> forall x, In x l -> f x = false.
Proof.
  induction l as [|x l IH]; simpl; [split; [intros _ ? []|reflexivity]|].
  destruct (f x) eqn:E.
  - split; [discriminate|]. intros H. rewrite (H x (or_introl eq_refl)) in E. discriminate.
  - rewrite IH. split; [intros H y [<-|Hy]; auto|intros H y Hy; apply H; now right].
Qed.

Lemma nodup_map_inj {A B} (f : A -> B) l a b :
  NoDup (map f l) -> In a l -> In b l -> f a = f b -> a = b.
Proof.
  induction l as [|x l IH]; simpl; intros Hn Ha Hb E; [tauto|].
  inversion Hn as [|? ? Hx Hn']; subst.
  destruct Ha as [->|Ha], Hb as [->|Hb]; try reflexivity.
  - exfalso. apply Hx. rewrite E. now apply in_map.
  - exfalso. apply Hx. rewrite <- E. now apply in_map.
  - now apply IH.
Qed.

Lemma NoDup_app_one {A} (l : list A) x : NoDup l -> ~ In x l -> NoDup (l ++ [x]).
Proof.
  induction 1 as [|y l Hy Hn IH]; simpl; intros Hx; [constructor; [intros []|constructor]|].
  constructor; [rewrite in_app_iff; simpl; intros [H|[H|[]]]; [contradiction|apply Hx; now left]|apply IH; tauto].
Qed.

Lemma filter_ext_in {A} (f g : A -> bool) l : (forall x, In x l -> f x = g x) -> filter f l = filter g l.
Proof.
  induction l as [|x l IH]; intros H; simpl; [reflexivity|].
  rewrite (H x (or_introl eq_refl)), IH; [reflexivity|]. intros; apply H; now right.
Qed.

Lemma filter_map_comm {A B} (f : A -> B) p l : filter p (map f l) = map f (filter (fun x => p (f x)) l).
Proof. induction l as [|x l IH]; simpl; [reflexivity|]. destruct (p (f x)); simpl; now rewrite IH. Qed.

Lemma nodup_map_filter {A B} (f : A -> B) p l : NoDup (map f l) -> NoDup (map f (filter p l)).
Proof.
  induction l as [|x l IH]; simpl; intros H; [constructor|].
  inversion H as [|? ? Hx Hn]; subst. destruct (p x); simpl; [|now apply IH].
  constructor; [|now apply IH]. intros Hin. apply Hx.
  apply in_map_iff in Hin. destruct Hin as (y & E & Hy). apply filter_In in Hy.
  rewrite <- E. apply in_map. tauto.
Qed.

(* ---- HASH_TO_BKT --------------------------------------------------------------- *)

Lemma to_bkt_lt h k : (to_bkt h (2 ^ k) < N.to_nat (2 ^ k))%nat.
Proof.
  unfold to_bkt. assert (N.land h (2 ^ k - 1) < 2 ^ k); [|lia].
  replace (2 ^ k - 1) with (N.ones k) by (rewrite N.ones_equiv; lia).
  rewrite N.land_ones. apply N.mod_lt. apply N.pow_nonzero. discriminate.
Qed.

(* ---- the invariant -------------------------------------------------------------- *)

Section Refinement.
Variable hash : bytes -> N.
Variables init_nb init_log2 thresh : N.
Hypothesis init_pow2 : exists k, init_nb = 2 ^ k.

Notation hfind := (hfind hash).
Notation hinsert := (hinsert hash init_nb init_log2 thresh).
Notation mstep := (mstep hash init_nb init_log2 thresh).
Notation mrun := (mrun hash init_nb init_log2 thresh).

Definition bkt_ok (t : table) (l : list elt) : Prop :=
  length (t_bkts t) = N.to_nat (t_nb t) /\ (exists k, t_nb t = 2 ^ k) /\
  forall i e, (i < length (t_bkts t))%nat ->
    (In e (bk_chain (nth i (t_bkts t) empty_bkt)) <-> In e l /\ to_bkt (e_hash e) (t_nb t) = i).

Definition minv (m : hmap) : Prop :=
  (forall e, In e (m_list m) -> e_hash e = hash (e_key e)) /\
  (forall e, In e (m_list m) -> e_id e < m_next m) /\
  NoDup (map e_id (m_list m)) /\
  match m_tbl m with
  | None => m_list m = []
  | Some t => m_list m <> [] /\ bkt_ok t (m_list m)
  end.

Lemma minv0 : minv map0.
Proof. unfold minv, map0; simpl. repeat split; try (intros ? []); constructor. Qed.

(* the rehash loop: afterwards an element is in new bucket i iff it was there before or it is one of the
   moved elements and hashes to i *)
Lemma place_fold nb2 ideal : forall es bk ni,
  (forall e, In e es -> (to_bkt (e_hash e) nb2 < length bk)%nat) ->
  let '(bk', _) := fold_left (place nb2 ideal) es (bk, ni) in
  length bk' = length bk /\
  forall i e, (i < length bk)%nat ->
    (In e (bk_chain (nth i bk' empty_bkt)) <->
     In e (bk_chain (nth i bk empty_bkt)) \/ (In e es /\ to_bkt (e_hash e) nb2 = i)).
Proof.
  induction es as [|x es IH]; intros bk ni Hidx; simpl.
  - split; [reflexivity|]. intros i e _. tauto.
  - set (j := to_bkt (e_hash x) nb2).
    set (b := nth j bk empty_bkt).
    set (mult' := if (ideal <? nlen (bk_chain b) + 1) && (bk_mult b * ideal <? nlen (bk_chain b) + 1) then bk_mult b + 1 else bk_mult b).
    set (bk1 := upd j (fun _ => mkbkt (x :: bk_chain b) mult') bk).
    assert (Hj : (j < length bk)%nat) by (apply Hidx; now left).
    assert (Hl1 : length bk1 = length bk) by apply upd_length.
    specialize (IH bk1 (if ideal <? nlen (bk_chain b) + 1 then ni + 1 else ni)).
    change (place nb2 ideal (bk, ni) x) with (bk1, if ideal <? nlen (bk_chain b) + 1 then ni + 1 else ni).
    destruct (fold_left (place nb2 ideal) es (bk1, if ideal <? nlen (bk_chain b) + 1 then ni + 1 else ni)) as [bk' ni'] eqn:Ef.
    destruct IH as [IHl IHm].
    { intros e He. rewrite Hl1. apply Hidx. now right. }
    split; [congruence|]. intros i e Hi. rewrite IHm by (rewrite Hl1; assumption).
    unfold bk1. rewrite nth_upd by assumption.
    destruct (Nat.eqb_spec j i) as [E|E]; simpl.
    + subst i. fold b. split.
      * intros [[<-|H]|[H1 H2]]; [right; split; [now left|reflexivity]|left; assumption|right; split; [now right|assumption]].
      * intros [H|[[<-|H1] H2]]; [left; now right|left; now left|right; split; assumption].
    + split.
      * intros [H|[H1 H2]]; [left; assumption|right; split; [now right|assumption]].
      * intros [H|[[<-|H1] H2]]; [left; assumption|contradiction|right; split; assumption].
Qed.

Lemma expand_ok t l : bkt_ok t l -> bkt_ok (expand t) l.
Proof.
  intros (Hlen & (k & Hk) & Hmem). unfold expand.
  set (nb2 := 2 * t_nb t).
  set (ideal := N.shiftr (t_items t) (t_log2 t + 1) + (if N.land (t_items t) (nb2 - 1) =? 0 then 0 else 1)).
  assert (Hnb2 : nb2 = 2 ^ (k + 1)) by (unfold nb2; rewrite Hk, N.add_1_r, N.pow_succ_r'; reflexivity).
  pose proof (place_fold nb2 ideal (concat (map bk_chain (t_bkts t))) (repeat empty_bkt (N.to_nat nb2)) 0) as H.
  destruct (fold_left (place nb2 ideal) (concat (map bk_chain (t_bkts t))) (repeat empty_bkt (N.to_nat nb2), 0)) as [bk nonideal].
  destruct H as [Hl Hm].
  { intros e _. rewrite repeat_length, Hnb2. apply to_bkt_lt. }
  rewrite repeat_length in Hl.
  unfold bkt_ok. cbn [t_bkts t_nb]. split; [assumption|]. split; [eexists; exact Hnb2|].
  intros i e Hi. rewrite Hl in Hi. rewrite Hm by (rewrite repeat_length; assumption).
  rewrite nth_repeat by assumption. cbn [bk_chain empty_bkt].
  rewrite in_concat_nth. split.
  - intros [[]|[(j & Hj & Hin) Hb]]. split; [|assumption]. apply (Hmem j e Hj) in Hin. tauto.
  - intros [Hin Hb]. right. split; [|assumption].
    exists (to_bkt (e_hash e) (t_nb t)).
    assert (Hlt : (to_bkt (e_hash e) (t_nb t) < length (t_bkts t))%nat) by (rewrite Hlen, Hk; apply to_bkt_lt).
    split; [assumption|]. apply Hmem; [assumption|]. split; [assumption|reflexivity].
Qed.

Lemma add_to_table_ok t l e :
  bkt_ok t l -> bkt_ok (add_to_table thresh t e) (l ++ [e]).
Proof.
  intros (Hlen & (k & Hk) & Hmem). unfold add_to_table.
  set (i := to_bkt (e_hash e) (t_nb t)). set (b := nth i (t_bkts t) empty_bkt).
  assert (Hi : (i < length (t_bkts t))%nat) by (unfold i; rewrite Hlen, Hk; apply to_bkt_lt).
  match goal with |- bkt_ok (if _ then expand ?tt else ?tt) _ => set (t1 := tt) end.
  assert (H1 : bkt_ok t1 (l ++ [e])).
  { unfold bkt_ok, t1. cbn [t_bkts t_nb]. rewrite upd_length. split; [assumption|]. split; [eauto|].
    intros j x Hj. rewrite nth_upd by assumption. rewrite in_app_iff.
    destruct (Nat.eqb_spec i j) as [E|E]; cbn [bk_chain].
    - subst j. pose proof (Hmem i x Hi) as Hm. fold b in Hm. cbn [In]. rewrite Hm. split.
      + intros [<-|[H2 H3]]; [split; [right; now left|reflexivity]|split; [now left|assumption]].
      + intros [[H2|[<-|[]]] H3]; [right; split; assumption|now left].
    - rewrite (Hmem j x Hj). cbn [In]. split.
      + intros [H2 H3]. split; [now left|assumption].
      + intros [[H2|[<-|[]]] H3]; [split; assumption|]. unfold i in E. contradiction. }
  destruct (_ && _); [apply expand_ok; assumption|assumption].
Qed.

Lemma make_table_ok : bkt_ok (make_table init_nb init_log2) [].
Proof.
  destruct init_pow2 as [k Hk]. unfold bkt_ok, make_table. cbn [t_bkts t_nb].
  rewrite repeat_length. split; [reflexivity|]. split; [eauto|].
  intros i e Hi. rewrite nth_repeat by assumption. simpl. tauto.
Qed.

Lemma hinsert_inv m k v : minv m -> minv (fst (hinsert m k v)).
Proof.
  intros (Hh & Hid & Hnd & Ht). unfold MapDefs.hinsert.
  set (e := mkelt (m_next m) k v (hash k)).
  destruct (m_tbl m) as [t|] eqn:Et; cbn [fst].
  - destruct Ht as [Hne Hok]. unfold minv. cbn [m_list m_tbl m_next].
    split; [intros x Hx; apply in_app_iff in Hx; destruct Hx as [Hx|[<-|[]]]; [now apply Hh|reflexivity]|].
    split; [intros x Hx; apply in_app_iff in Hx; destruct Hx as [Hx|[<-|[]]]; [specialize (Hid x Hx); lia|simpl; lia]|].
    split.
    + rewrite map_app. simpl. apply NoDup_app_one; [assumption|].
      intros Hin. apply in_map_iff in Hin. destruct Hin as (x & E & Hx). specialize (Hid x Hx). rewrite E in Hid. lia.
    + split; [destruct (m_list m); discriminate|]. now apply add_to_table_ok.
  - unfold minv. cbn [m_list m_tbl m_next]. rewrite Ht in *.
    split; [intros x [<-|[]]; reflexivity|]. split; [intros x [<-|[]]; simpl; lia|].
    split; [simpl; constructor; [intros []|constructor]|].
    split; [discriminate|]. change [e] with ([] ++ [e]). apply add_to_table_ok. exact make_table_ok.
Qed.

(* ---- lookup ------------------------------------------------------------------------ *)

Definition keys_nodup (m : hmap) : Prop := NoDup (map e_key (m_list m)).

Lemma hfind_spec m k :
  minv m -> keys_nodup m -> hfind m k = find (fun e => beq (e_key e) k) (m_list m).
Proof.
  intros (Hh & Hid & Hnd & Ht) Hk. unfold MapDefs.hfind.
  destruct (m_tbl m) as [t|]; [|rewrite Ht; reflexivity].
  destruct Ht as [Hne (Hlen & (kk & Hkk) & Hmem)].
  set (i := to_bkt (hash k) (t_nb t)).
  assert (Hi : (i < length (t_bkts t))%nat) by (unfold i; rewrite Hlen, Hkk; apply to_bkt_lt).
  set (c := bk_chain (nth i (t_bkts t) empty_bkt)).
  destruct (find (fun e => beq (e_key e) k) (m_list m)) as [e|] eqn:Ef.
  - apply find_some in Ef. destruct Ef as [Hin Hb]. apply beq_eq in Hb.
    assert (Hc : In e c) by (apply Hmem; [assumption|]; split; [assumption|]; unfold i; rewrite (Hh e Hin), Hb; reflexivity).
    destruct (find (key_matches (hash k) k) c) as [e'|] eqn:Ef'.
    + apply find_some in Ef'. destruct Ef' as [Hin' Hm']. unfold key_matches in Hm'.
      apply andb_true_iff in Hm'. destruct Hm' as [_ Hb']. apply beq_eq in Hb'.
      apply (Hmem i e' Hi) in Hin'. destruct Hin' as [Hin' _].
      f_equal. eapply nodup_map_inj; [exact Hk|assumption|assumption|congruence].
    + exfalso. rewrite find_none_iff in Ef'. specialize (Ef' e Hc). unfold key_matches in Ef'.
      rewrite (Hh e Hin), Hb, N.eqb_refl, beq_refl in Ef'. discriminate.
  - apply find_none_iff. intros e He. apply (Hmem i e Hi) in He. destruct He as [He _].
    rewrite find_none_iff in Ef. unfold key_matches. rewrite (Ef e He). apply andb_false_r.
Qed.

(* ---- deletion ---------------------------------------------------------------------- *)

Lemma drop_id_in i l e : In e (drop_id i l) <-> In e l /\ e_id e <> i.
Proof.
  unfold drop_id, id_is. rewrite filter_In, negb_true_iff, N.eqb_neq. reflexivity.
Qed.

Lemma hdelete_spec m d :
  minv m -> keys_nodup m -> In d (m_list m) ->
  minv (hdelete m d) /\ keys_nodup (hdelete m d) /\
  m_list (hdelete m d) = drop_id (e_id d) (m_list m) /\
  m_next (hdelete m d) = m_next m /\ m_it (hdelete m d) = m_it m.
Proof.
  intros (Hh & Hid & Hnd & Ht) Hk Hd. unfold hdelete.
  destruct (m_tbl m) as [t|] eqn:Et; [|rewrite Ht in Hd; destruct Hd].
  destruct Ht as [Hne (Hlen & (kk & Hkk) & Hmem)].
  assert (Hsub : forall e, In e (drop_id (e_id d) (m_list m)) -> In e (m_list m)) by (intros e He; apply drop_id_in in He; tauto).
  assert (Hnd' : NoDup (map e_id (drop_id (e_id d) (m_list m)))) by (apply nodup_map_filter; assumption).
  assert (Hk' : NoDup (map e_key (drop_id (e_id d) (m_list m)))) by (apply nodup_map_filter; assumption).
  destruct (drop_id (e_id d) (m_list m)) as [|y l'] eqn:El.
  - cbn [m_list m_tbl m_next m_it]. split; [|split; [constructor|repeat split]].
    unfold minv. cbn [m_list m_tbl m_next]. repeat split; try (intros ? []); constructor.
  - rewrite <- El in *. cbn [m_list m_tbl m_next m_it]. split; [|split; [exact Hk'|repeat split]].
    unfold minv. cbn [m_list m_tbl m_next].
    split; [intros e He; apply Hh, Hsub, He|]. split; [intros e He; apply Hid, Hsub, He|].
    split; [assumption|]. split; [rewrite El; discriminate|].
    set (i := to_bkt (e_hash d) (t_nb t)).
    assert (Hi : (i < length (t_bkts t))%nat) by (unfold i; rewrite Hlen, Hkk; apply to_bkt_lt).
    unfold bkt_ok. cbn [t_bkts t_nb]. rewrite upd_length. split; [assumption|]. split; [eauto|].
    intros j e Hj. rewrite nth_upd by assumption.
    destruct (Nat.eqb_spec i j) as [E|E]; cbn [bk_chain].
    + subst j. rewrite !drop_id_in, (Hmem i e Hi). tauto.
    + rewrite (Hmem j e Hj), drop_id_in. split; [|tauto].
      intros [Hin Hb]. split; [split; [assumption|]|assumption].
      intros Eid. assert (e = d) by (eapply nodup_map_inj; [exact Hnd|assumption|assumption|assumption]).
      subst e. unfold i in E. contradiction.
Qed.

(* ---- abstraction ------------------------------------------------------------------- *)

Definition abs_e (e : elt) : entry := (e_key e, (e_id e, e_val e)).

Definition R (m : hmap) (d : dict) : Prop :=
  d_ents d = map abs_e (m_list m) /\ d_next d = m_next m /\ d_it d = m_it m /\ minv m /\ keys_nodup m.

Lemma R0 : R map0 dict0.
Proof. unfold R. split; [reflexivity|]. split; [reflexivity|]. split; [reflexivity|]. split; [exact minv0|constructor]. Qed.

Lemma dfind_abs l k : dfind (map abs_e l) k = option_map abs_e (find (fun e => beq (e_key e) k) l).
Proof.
  unfold dfind. induction l as [|e l IH]; simpl; [reflexivity|].
  unfold ent_key in *. cbn [abs_e fst] in *. destruct (beq (e_key e) k); [reflexivity|exact IH].
Qed.

Lemma dlocate_abs i l :
  dlocate i (map abs_e l) = option_map (fun p => (abs_e (fst p), snd p)) (locate i l).
Proof.
  induction l as [|e l IH]; simpl; [reflexivity|].
  unfold ent_id, id_is in *. cbn [abs_e fst snd] in *.
  destruct (e_id e =? i); [|exact IH]. destruct l; reflexivity.
Qed.

Lemma dremove_abs l d :
  NoDup (map e_id l) -> NoDup (map e_key l) -> In d l ->
  dremove (map abs_e l) (e_key d) = map abs_e (drop_id (e_id d) l).
Proof.
  intros Hi Hk Hd. unfold dremove, drop_id.
  transitivity (map abs_e (filter (fun e => negb (beq (e_key e) (e_key d))) l)).
  - rewrite filter_map_comm. reflexivity.
  - f_equal. apply filter_ext_in. intros e He. f_equal. unfold id_is.
    destruct (beq_spec (e_key e) (e_key d)) as [E|E], (N.eqb_spec (e_id e) (e_id d)) as [E'|E']; try reflexivity.
    + exfalso. apply E'. f_equal. eapply nodup_map_inj; [exact Hk|assumption|assumption|assumption].
    + exfalso. apply E. f_equal. eapply nodup_map_inj; [exact Hi|assumption|assumption|assumption].
Qed.

Lemma dremove_absent l k :
  find (fun e => beq (e_key e) k) l = None -> dremove (map abs_e l) k = map abs_e l.
Proof.
  intros H. rewrite find_none_iff in H. unfold dremove. rewrite filter_map_comm. f_equal.
  induction l as [|e l IH]; simpl; [reflexivity|].
  unfold ent_key. cbn [abs_e fst]. rewrite (H e (or_introl eq_refl)). simpl. f_equal. apply IH.
  intros x Hx. apply H. now right.
Qed.

(* removal by key, shared by MRemove and MIterNextDel *)
Lemma remove_refines m d k :
  R m d ->
  R (match hfind m k with Some e => hdelete m e | None => m end)
    (mkdict (dremove (d_ents d) k) (d_next d) (d_it d)).
Proof.
  intros (He & Hn & Hit & Hi & Hk). rewrite hfind_spec by assumption.
  destruct (find (fun e => beq (e_key e) k) (m_list m)) as [e|] eqn:Ef.
  - pose proof Ef as Ef'. apply find_some in Ef'. destruct Ef' as [Hin Hb]. apply beq_eq in Hb. subst k.
    destruct (hdelete_spec m e Hi Hk Hin) as (Hi' & Hk' & Hl & Hn' & Hit').
    destruct Hi as (Hh & Hid & Hnd & Ht).
    unfold R. cbn [d_ents d_next d_it]. rewrite Hl, Hn', Hit', He.
    split; [apply dremove_abs; [exact Hnd|exact Hk|exact Hin]|]. split; [assumption|]. split; [assumption|]. split; assumption.
  - unfold R. cbn [d_ents d_next d_it]. rewrite He, dremove_absent by assumption.
    split; [reflexivity|]. split; [assumption|]. split; [assumption|]. split; assumption.
Qed.

Lemma R_set_it m d it : R m d -> R (set_it m it) (mkdict (d_ents d) (d_next d) it).
Proof.
  intros (He & Hn & Hit & Hi & Hk). unfold R, set_it. cbn [d_ents d_next d_it m_list m_next m_it].
  split; [assumption|]. split; [assumption|]. split; [reflexivity|]. split; [exact Hi|exact Hk].
Qed.

Lemma iterate_abs m d :
  R m d ->
  diterate d = option_map (fun p => (fst p, option_map abs_e (snd p))) (iterate m).
Proof.
  intros (He & Hn & Hit & Hi & Hk). unfold diterate, iterate. rewrite Hit, He.
  destruct (m_it m) as [[i|]|].
  - rewrite dlocate_abs. destruct (locate i (m_list m)) as [[e nx]|]; reflexivity.
  - reflexivity.
  - destruct (m_list m) as [|e [|e' l]]; reflexivity.
Qed.

(* one operation *)
Lemma mstep_refines m d op :
  R m d -> op_ok d op = true ->
  snd (mstep m op) = snd (dstep d op) /\ R (fst (mstep m op)) (fst (dstep d op)).
Proof.
  intros HR Hok. pose proof HR as (He & Hn & Hit & Hi & Hk).
  destruct op as [k v|k|k| | |]; cbn [MapDefs.mstep dstep].
  - (* insert: the key is absent *)
    cbn [op_ok] in Hok. rewrite He, dfind_abs in Hok.
    destruct (find (fun e => beq (e_key e) k) (m_list m)) as [e0|] eqn:Ef; [discriminate|]. clear Hok.
    assert (Hnew : ~ In k (map e_key (m_list m))).
    { intros Hin. apply in_map_iff in Hin. destruct Hin as (x & E & Hx).
      rewrite find_none_iff in Ef. specialize (Ef x Hx). cbn in Ef. rewrite E, beq_refl in Ef. discriminate. }
    pose proof (hinsert_inv m k v Hi) as Hi'.
    destruct Hi as (Hh & Hid & Hnd & Ht).
    unfold MapDefs.hinsert in *.
    destruct (m_tbl m) as [t|] eqn:Et; cbn [fst snd e_id e_val] in *.
    + split; [rewrite Hn; reflexivity|]. unfold R. cbn [m_list m_next m_it d_ents d_next d_it].
      rewrite map_app, He, Hn. split; [reflexivity|]. split; [reflexivity|]. split; [assumption|].
      split; [exact Hi'|]. unfold keys_nodup. cbn [m_list]. rewrite map_app. apply NoDup_app_one; assumption.
    + rewrite Ht in He. split; [rewrite Hn; reflexivity|]. unfold R. cbn [m_list m_next m_it d_ents d_next d_it].
      rewrite He, Hn. split; [reflexivity|]. split; [reflexivity|]. split; [assumption|].
      split; [exact Hi'|]. unfold keys_nodup. cbn. constructor; [intros []|constructor].
  - (* find *)
    cbn [fst snd]. split; [|assumption]. rewrite hfind_spec, He, dfind_abs by assumption.
    destruct (find (fun e => beq (e_key e) k) (m_list m)); reflexivity.
  - (* remove *)
    cbn [fst snd]. split; [reflexivity|]. apply remove_refines. assumption.
  - cbn [fst snd]. split; [reflexivity|]. apply R_set_it. assumption.
  - (* next *)
    rewrite (iterate_abs m d HR). destruct (iterate m) as [[it [e|]]|]; cbn [option_map fst snd].
    + split; [reflexivity|]. apply R_set_it. assumption.
    + split; [reflexivity|]. apply R_set_it. assumption.
    + split; [reflexivity|assumption].
  - (* next + remove the returned entry *)
    rewrite (iterate_abs m d HR). destruct (iterate m) as [[it [e|]]|]; cbn [option_map fst snd].
    + split; [reflexivity|]. cbn [abs_e ent_key fst].
      apply (remove_refines (set_it m it) (mkdict (d_ents d) (d_next d) it) (e_key e)). apply R_set_it. assumption.
    + split; [reflexivity|]. apply R_set_it. assumption.
    + split; [reflexivity|assumption].
Qed.

(* every disciplined operation sequence, from any pair of related states *)
Theorem mrun_refines : forall ops m d,
  R m d -> disciplined d ops = true ->
  map fst (snd (mrun m ops)) = snd (drun d ops) /\ R (fst (mrun m ops)) (fst (drun d ops)).
Proof.
  induction ops as [|op ops IH]; intros m d HR Hd; [split; [reflexivity|assumption]|].
  cbn [disciplined] in Hd. apply andb_true_iff in Hd. destruct Hd as [Hok Hd].
  destruct (mstep_refines m d op HR Hok) as [Ho HR1].
  cbn [MapDefs.mrun drun]. destruct (mstep m op) as [m1 o]. destruct (dstep d op) as [d1 o']. cbn [fst snd] in *.
  specialize (IH m1 d1 HR1 Hd).
  destruct (mrun m1 ops) as [m2 tr]. destruct (drun d1 ops) as [d2 os]. cbn [fst snd map] in *.
  destruct IH as [IH1 IH2]. split; [congruence|assumption].
Qed.

End Refinement.
