(* SortCells.v - an instance of the cell sort assumed by Ks/VectorMem.v: qsort permutes the live SLOTS (byte
   strings) comparing them through the decoded key.  The insertion sort of the cells by decoded key is a
   permutation of the cells and decodes to the insertion sort of the decoded keys - so the two hypotheses about
   [sortc] in C20_vector_growth_preserves_bytes are jointly satisfiable with [sorts sortf] (sortf = isort), for
   every decoder. *)
From Coq Require Import Lia Sorting.Permutation.
From Robsd Require Import Base.Bytes Ks.VectorSpec Ks.VectorProofs.
Local Open Scope Z_scope.

Section Cells.
Variable dec : bytes -> Z.

Fixpoint cinsert (x : bytes) (l : list bytes) : list bytes :=
  match l with
  | [] => [x]
  | y :: l' => if dec x <=? dec y then x :: l else y :: cinsert x l'
  end.

Fixpoint csort (l : list bytes) : list bytes :=
  match l with [] => [] | x :: l' => cinsert x (csort l') end.

Lemma cinsert_perm x l : Permutation (x :: l) (cinsert x l).
Proof.
  induction l as [|y l IH]; cbn [cinsert]; [reflexivity|].
  destruct (dec x <=? dec y); [reflexivity|]. rewrite perm_swap. constructor. exact IH.
Qed.

Lemma csort_perm l : Permutation l (csort l).
Proof. induction l as [|x l IH]; cbn [csort]; [constructor|]. rewrite <- cinsert_perm. constructor. exact IH. Qed.

Lemma cinsert_map x l : map dec (cinsert x l) = zinsert (dec x) (map dec l).
Proof.
  induction l as [|y l IH]; cbn [cinsert map zinsert]; [reflexivity|].
  destruct (dec x <=? dec y); cbn [map]; [reflexivity|]. now rewrite IH.
Qed.

Lemma csort_map l : map dec (csort l) = isort (map dec l).
Proof. induction l as [|x l IH]; cbn [csort map isort]; [reflexivity|]. now rewrite cinsert_map, IH. Qed.

End Cells.

Theorem cell_sort_instance (dec : bytes -> Z) :
  sorts isort /\ (forall cs, Permutation cs (csort dec cs)) /\ (forall cs, map dec (csort dec cs) = isort (map dec cs)).
Proof. split; [exact isort_sorts|]. split; [apply csort_perm|apply csort_map]. Qed.
