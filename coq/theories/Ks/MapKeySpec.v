(* MapKeySpec.v - THE specification of the map for property C20: a dictionary over the DISTINCT
   inserted keys ("answers lookups like a dictionary over the distinct inserted keys (removed keys
   absent, ...) and iterates live entries exactly once in insertion order").

   State: the association list of MapSpec.v (an entry is key |-> (handle, value), in insertion
   order), in which a key occurs AT MOST ONCE.  Operations other than the insert of a key that is
   present are the ones of MapSpec.dstep (find answers the entry of the key or NULL; remove deletes
   the entry of the key - afterwards the key is absent; the iterator walks the list).  The insert of
   a key that is PRESENT must not create a second entry.  The property text does not say whether a
   dictionary keeps the old entry or replaces it by the new one, so the specification allows both
   (the choice is made at the insert and is fixed from then on); in either case the key has ONE
   entry, one MAP_REMOVE makes it absent, and the iterator returns it once:
     keep      the entry of the key stays as it was (the new handle is not part of the dictionary)
     replace   the entry of the key becomes (new handle, new value), at the place of the old one
   [kdsteps d op o] lists the states the specification allows after [op] was observed to answer [o]
   from state [d] (empty = the answer is not allowed); [spec_ok_kdict] replays an observed trace.
   As long as no present key is inserted again ([no_reinsert]) there is exactly one candidate state
   and the answers must be those of the deterministic run [drun] (Ks/MapKeyProofs.v).

   What libks/map.c does instead (a second element per insert: Ks/MapMultiSpec.v) is NOT this
   specification; Ks/MapKeyProofs.v refutes it for the code's model and proves the guarded form.

   Definitions only. *)
From Robsd Require Export Ks.MapSpec.
Local Open Scope N_scope.

(* the entry of key k replaced, in place, by (k, hv) *)
Definition replace_ent (l : list entry) (k : bytes) (hv : N * Z) : list entry :=
  map (fun e => if beq (ent_key e) k then (k, hv) else e) l.

Definition kdsteps (d : dict) (op : mop) (o : mout) : list dict :=
  match op with
  | MInsert k v =>
      if mout_eqb o (MoPtr (d_next d) v) then
        match dfind (d_ents d) k with
        | None => [fst (dstep d op)]
        | Some _ =>
            [mkdict (d_ents d) (d_next d + 1) (d_it d);
             mkdict (replace_ent (d_ents d) k (d_next d, v)) (d_next d + 1) (d_it d)]
        end
      else []
  | _ => if mout_eqb o (snd (dstep d op)) then [fst (dstep d op)] else []
  end.

Fixpoint kdrun (ds : list dict) (ops : list mop) (outs : list mout) : list dict :=
  match ops, outs with
  | [], [] => ds
  | op :: ops', o :: outs' => kdrun (flat_map (fun d => kdsteps d op o) ds) ops' outs'
  | _, _ => []
  end.

(* the oracle: some resolution of keep / replace explains every observed answer *)
Definition spec_ok_kdict (ops : list mop) (outs : list mout) : bool :=
  match kdrun [dict0] ops outs with [] => false | _ => true end.

(* the guard of the partial theorem, decided along the specification's own deterministic run:
   no MAP_INSERT of a key that is present *)
Definition insert_fresh (d : dict) (op : mop) : bool :=
  match op with
  | MInsert k _ => match dfind (d_ents d) k with None => true | Some _ => false end
  | _ => true
  end.

Fixpoint no_reinsert (d : dict) (ops : list mop) : bool :=
  match ops with
  | [] => true
  | op :: ops' => insert_fresh d op && no_reinsert (fst (dstep d op)) ops'
  end.

(* diagnosis for the harness (no verdict depends on it): the index of the first operation whose observed
   answer no candidate state allows, with the answers the candidates would have allowed *)
Definition kd_expected (d : dict) (op : mop) : mout :=
  match op with
  | MInsert k v => MoPtr (d_next d) v
  | _ => snd (dstep d op)
  end.

Fixpoint kd_first_reject (ds : list dict) (ops : list mop) (outs : list mout) (i : nat) : option (nat * list mout) :=
  match ops, outs with
  | op :: ops', o :: outs' =>
      match flat_map (fun d => kdsteps d op o) ds with
      | [] => Some (i, map (fun d => kd_expected d op) ds)
      | ds' => kd_first_reject ds' ops' outs' (S i)
      end
  | _, _ => None
  end.
