(* GetlineRun.v - the model of buffer.c with its getline iterator ([grun]: buffer operations and single
   buffer_getline calls in ANY interleaving) refines the specification of Ks/GetlineSpec.v: every answer of a
   getline call is the first line of the rest of the contents AT THAT MOMENT, a NULL rewinds, buffer
   operations behave as in BufferSpec - for every sequence, from every state satisfying the invariant and
   every iterator offset. *)
From Coq Require Import Lia.
From Robsd Require Import Ks.GetlineSpec Ks.BufferProofs Ks.GetlineProofs Ks.VectorProofs.
Local Open Scope Z_scope.

Section GRun.
Variable init_cap : Z.
Variable alloc_ok : Z -> bool.
Hypothesis init_ok : 0 < init_cap <= 65536.
Hypothesis alloc_bounded : forall sz, alloc_ok sz = true -> sz <= 4611686018427387904.
Hypothesis alloc_small : forall sz, sz <= 1125899906842624 -> alloc_ok sz = true.

Definition gop_wf (op : gop) : Prop := match op with GBuf o => bop_wf o /\ bsize_ok o | GLine => True end.

Lemma gline_out_ok_refl o : gline_out_ok o o = true.
Proof. destruct o as [l|]; [apply beq_refl|reflexivity]. Qed.

Theorem grun_refines : forall ops g,
  binv (g_buf g) -> Forall gop_wf ops ->
  let '(g', tr) := grun init_cap alloc_ok g ops in
  length tr = length ops /\
  spec_ok_gbuf (b_data (g_buf g)) (g_off g) (gtrace_of ops tr) = true /\
  (b_data (g_buf g'), g_off g') = gspec_final (b_data (g_buf g)) (g_off g) (gtrace_of ops tr) /\
  binv (g_buf g').
Proof.
  induction ops as [|op ops IH]; intros g Hi Hwf.
  - simpl. split; [reflexivity|]. split; [reflexivity|]. split; [reflexivity|assumption].
  - inversion Hwf as [|? ? Hop Hops]; subst. cbn [grun]. destruct op as [o|].
    + destruct Hop as [Hw Hs]. cbn [gstep].
      assert (Hsz' : forall s, o = BPuts s \/ o = BPrintf s -> zlen s < ULONG_MAX) by (intros s [->| ->]; exact Hs).
      pose proof (bstep_refines init_cap alloc_ok init_ok alloc_bounded alloc_small (g_buf g) o Hi Hw Hsz') as Hst.
      destruct (bstep init_cap alloc_ok (g_buf g) o) as [b1 r]. destruct Hst as [Hi1 Hst].
      specialize (IH (mkgbuf b1 (g_off g)) Hi1 Hops).
      destruct (grun init_cap alloc_ok (mkgbuf b1 (g_off g)) ops) as [g2 tr]. cbn [g_buf g_off] in *.
      destruct IH as (Hl & Hok & Hfin & Hi2).
      unfold gtrace_of in *. cbn [map fst combine length spec_ok_gbuf gspec_final].
      split; [now rewrite Hl|].
      destruct (bis_failure o r) eqn:Ef.
      * destruct Hst as [-> Hsm]. rewrite Hsm. cbn [negb andb]. split; [assumption|]. split; assumption.
      * destruct Hst as (Hm & Ho & El). rewrite Hm, Ho. cbn [negb andb]. rewrite <- El. split; [assumption|]. split; assumption.
    + cbn [gstep]. rewrite gline_is_spec.
      destruct (gline_spec (b_data (g_buf g)) (g_off g)) as [off' r] eqn:Eg.
      specialize (IH (mkgbuf (g_buf g) off') Hi Hops).
      destruct (grun init_cap alloc_ok (mkgbuf (g_buf g) off') ops) as [g2 tr]. cbn [g_buf g_off] in *.
      destruct IH as (Hl & Hok & Hfin & Hi2).
      unfold gtrace_of in *. cbn [map fst combine length spec_ok_gbuf gspec_final]. rewrite Eg. cbn [fst snd].
      rewrite gline_out_ok_refl. cbn [andb]. split; [now rewrite Hl|]. split; [assumption|]. split; assumption.
Qed.

End GRun.

(* what a getline call of the specification answers, spelled out: NULL exactly when the offset is at or behind
   the end; otherwise the bytes from the offset up to the next newline (or the end), cut at the first NUL,
   and the offset moves behind that newline *)
Theorem gline_spec_meaning (l : bytes) (off : nat) :
  ((length l <= off)%nat -> gline_spec l off = (0%nat, None)) /\
  ((off < length l)%nat -> exists line, hd_error (getlines (skipn off l)) = Some line /\
                              gline_spec l off = ((off + length line + 1)%nat, Some (cstr line))).
Proof.
  unfold gline_spec. split.
  - intros H. rewrite (proj2 (skipn_nil_iff l off) H). reflexivity.
  - intros H. destruct (getlines (skipn off l)) as [|x xs] eqn:E.
    + apply getlines_nil_iff in E. apply skipn_nil_iff in E. lia.
    + exists x. split; reflexivity.
Qed.
