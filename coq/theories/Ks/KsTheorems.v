(* KsTheorems.v - the statements of Properties_C20.v that are about states REACHED from the
   empty map, assembled from the per-step lemmas (MapDup, MapIterGen, MapAllocProofs,
   VectorMem, GetlineProofs, SortGen).  Lemmas only. *)
From Coq Require Import Lia Sorting.Sorted Sorting.Permutation.
From Robsd Require Import Ks.KsInst Ks.VectorProofs Ks.BufferProofs Ks.KsInstProofs Ks.KsInstProofs2 Ks.VectorMem
  Ks.MapProofs Ks.MapIterProofs Ks.MapDup Ks.MapIterGen Ks.MapAllocProofs Ks.GetlineProofs Ks.BufferMem.
From RobsdGen Require Import Gen_KsConst.
Local Open Scope N_scope.

Section Reach.
Variable hash : list N -> N.
Variables init_nb init_log2 thresh : N.
Hypothesis init_pow2 : exists k, init_nb = 2 ^ k.

Notation mrun := (mrun hash init_nb init_log2 thresh).
Notation mstep := (mstep hash init_nb init_log2 thresh).

(* lookups after ANY operation sequence - keys may have been inserted twice *)
Lemma reach_lookup ops k :
  let m := fst (mrun map0 ops) in
  (forall e, hfind hash m k = Some e -> In e (m_list m) /\ e_key e = k) /\
  (hfind hash m k = None <-> ~ In k (map e_key (m_list m))).
Proof.
  cbv zeta. apply (hfind_sound_complete hash).
  apply (mrun_inv hash init_nb init_log2 thresh init_pow2). apply minv0.
Qed.

(* MAP_REMOVE after any operation sequence takes out exactly the entry the lookup answers *)
Lemma reach_remove_one ops k :
  let m := fst (mrun map0 ops) in
  let m' := fst (mstep m (MRemove k)) in
  minv hash m' /\ m_next m' = m_next m /\ m_it m' = m_it m /\
  match hfind hash m k with
  | None => ~ In k (map e_key (m_list m)) /\ m' = m
  | Some e => In e (m_list m) /\ e_key e = k /\ m_list m' = drop_id (e_id e) (m_list m)
  end.
Proof.
  cbv zeta. apply (mremove_one hash init_nb init_log2 thresh).
  apply (mrun_inv hash init_nb init_log2 thresh init_pow2). apply minv0.
Qed.

(* every operation sequence is a run of the multi-dictionary: the oracle's relation explains the trace *)
Lemma reach_multi ops :
  let '(m, tr) := mrun map0 ops in
  mdtrace dict0 ops (map fst tr) (absm m) /\ minv hash m.
Proof.
  pose proof (mrun_multi hash init_nb init_log2 thresh init_pow2 ops map0 (minv0 hash)) as [H Hi].
  destruct (mrun map0 ops) as [m tr]. cbn [fst snd] in *. split; [|assumption].
  apply mdrun_spec in H. destruct H as (d & [<-|[]] & Ht). exact Ht.
Qed.

(* the iterator under arbitrary interleaving, from the empty map *)
Lemma reach_iter ops :
  let '(m', t) := irun hash init_nb init_log2 thresh map0 ops (mkit [] []) in
  m' = fst (mrun map0 ops) /\
  StronglySorted N.lt (it_rets t) /\ NoDup (it_rets t) /\
  match m_it m' with Some (Some j) => Forall (fun i => i < j) (it_rets t) | _ => True end /\
  forall e, In e (m_list m') ->
    In (e_id e) (it_rets t) \/ In (e_id e) (it_missed t) \/
    match m_it m' with None => True | Some (Some j) => j <= e_id e | Some None => False end.
Proof.
  pose proof (iter_interleaved hash init_nb init_log2 thresh init_pow2 ops map0 (minv2_0 hash) eq_refl) as H.
  pose proof (irun_fst hash init_nb init_log2 thresh ops map0 (mkit [] [])) as Hf.
  destruct (irun hash init_nb init_log2 thresh map0 ops (mkit [] [])) as [m' t]. cbn [fst] in Hf.
  destruct H as (H1 & H2 & H3). split; [assumption|]. split; [assumption|].
  split; [apply ssorted_nodup; assumption|]. split; assumption.
Qed.

(* a call of the iterator after any prefix returns an entry that is live at that moment *)
Lemma reach_iter_sound pre op i k v :
  (op = MIterNext \/ op = MIterNextDel) ->
  snd (mstep (fst (mrun map0 pre)) op) = MoEnt i k v ->
  exists e, In e (m_list (fst (mrun map0 pre))) /\ e_id e = i /\ e_key e = k /\ e_val e = v.
Proof. apply iter_ret_sound. Qed.

(* the usual loop from a state reached by any prefix: restart, then any mix of iterate / iterate+remove /
   lookups / removals by key without inserts; once the cursor is past the end every surviving entry has been
   returned exactly once *)
Lemma reach_iter_loop pre ops :
  (forall k v, ~ In (MInsert k v) ops) ->
  let m := set_it (fst (mrun map0 pre)) None in
  let '(m', t) := irun hash init_nb init_log2 thresh m ops (mkit [] []) in
  m_it m' = Some None ->
  NoDup (it_rets t) /\ forall e, In e (m_list m') -> In (e_id e) (it_rets t).
Proof.
  intros Hno. cbv zeta.
  apply (iter_loop_complete hash init_nb init_log2 thresh init_pow2); [|reflexivity|assumption].
  apply (mrun_inv2 hash init_nb init_log2 thresh init_pow2 pre map0 (minv2_0 hash)).
Qed.

(* the allocator-aware run from the empty map, ANY failure plan: allocator calls are legal and account
   exactly for the blocks owned; no call names the block of an element that stays live *)
Variable fails : N -> bool.
Notation arun := (MapAllocDefs.arun hash init_nb init_log2 thresh fails).
Notation astep := (MapAllocDefs.astep hash init_nb init_log2 thresh fails).

Lemma reach_alloc ops op :
  let a := fst (arun amap0 ops) in
  let '(a', o, evs) := astep a op in
  legal (live a) evs /\ (forall b, after (live a) evs b <-> live a' b) /\
  minv hash (a_map a') /\
  (forall e, In e (m_list (a_map a)) -> In (e_id e) (map e_id (m_list (a_map a'))) ->
     forall ev, In ev evs -> ev_blk ev <> BElt (e_id e)).
Proof.
  cbv zeta. pose proof (arun_ainv hash init_nb init_log2 thresh fails init_pow2 ops amap0 (ainv0 hash)) as Ha.
  pose proof (astep_events hash init_nb init_log2 thresh fails init_pow2 _ op Ha) as H.
  pose proof (fun e => live_elt_untouched hash init_nb init_log2 thresh fails _ op e Ha) as Hu.
  destruct (astep (fst (arun amap0 ops)) op) as [[a' o] evs]. cbn [fst snd] in *.
  destruct H as (H1 & H2 & H3). split; [assumption|]. split; [assumption|]. split; [apply H3|].
  intros e He He' ev Hev. exact (Hu e He He' ev Hev).
Qed.

(* what a NULL from MAP_INSERT means for the map *)
Lemma reach_insert_outcomes ops k v :
  let a := fst (arun amap0 ops) in
  let '(a', o, evs) := astep a (MInsert k v) in
  match o with
  | AOk mo => a_map a' = fst (mstep (a_map a) (MInsert k v)) /\ mo = snd (mstep (a_map a) (MInsert k v))
  | ANullFresh => a_map a' = a_map a
  | ANullLeak id => m_list (a_map a') = m_list (a_map a) /\ m_tbl (a_map a') = m_tbl (a_map a) /\ m_list (a_map a) = [] /\
                    a_leaked a' = id :: a_leaked a
  | ANullLinked id => m_list (a_map a') = m_list (a_map a) ++ [mkelt id k 0 (hash k)] /\
                      hfind hash (a_map a') k <> None
  end.
Proof.
  cbv zeta. pose proof (arun_ainv hash init_nb init_log2 thresh fails init_pow2 ops amap0 (ainv0 hash)) as [Hi _].
  pose proof (astep_cases hash init_nb init_log2 thresh fails (fst (arun amap0 ops)) (MInsert k v)) as H. cbv zeta in H.
  pose proof (null_linked_found hash init_nb init_log2 thresh fails init_pow2 (fst (arun amap0 ops)) k v) as Hn.
  destruct (astep (fst (arun amap0 ops)) (MInsert k v)) as [[a' o] evs]. cbn [fst snd] in *.
  destruct o as [mo| |id|id].
  - destruct H as (H1 & H2 & _). split; assumption.
  - destruct H as (_ & H1 & _). assumption.
  - destruct H as (_ & _ & Ht & -> & Hl). unfold bump. cbn [m_list m_tbl]. repeat split; try assumption.
    destruct Hi as (_ & _ & _ & Hi). rewrite Ht in Hi. exact Hi.
  - destruct H as (k' & v' & E & -> & Hm & _). injection E as <- <-.
    destruct (Hn _ Hi eq_refl) as (e & Hf & _). split; [|rewrite Hf; discriminate].
    rewrite Hm. unfold linked_state. destruct (m_tbl (a_map (fst (arun amap0 ops)))) eqn:Et; cbn [m_list]; [reflexivity|].
    destruct Hi as (_ & _ & _ & Hi). rewrite Et in Hi. rewrite Hi. reflexivity.
Qed.

End Reach.

(* ---- vector: bytes ----------------------------------------------------------------------- *)
Local Open Scope Z_scope.

(* with the old size vector_reserve1 passes (regenerated: Gen_KsConst.vector_oldlen), for every allocator,
   every realloc that keeps the first oldsize bytes, every element codec: the block decodes to the abstract
   elements after every operation sequence *)
Lemma vector_bytes
  (stride hdr init_cap : Z) (alloc_ok : Z -> bool) (sortf : list Z -> list Z)
  (enc : Z -> list N) (dec : list N -> Z) (mv : list N -> Z -> Z -> list N) (sortc : list (list N) -> list (list N)) :
  0 < stride <= 65536 -> 0 <= hdr <= 65536 -> 0 < init_cap <= 65536 -> sorts sortf ->
  (forall x, length (enc x) = Z.to_nat stride) -> (forall x, dec (enc x) = x) -> dec (repeat 0%N (Z.to_nat stride)) = 0 ->
  (forall raw old new, 0 <= new -> zlen (mv raw old new) = new) ->
  (forall raw old new, 0 <= old <= zlen raw -> old <= new -> firstn (Z.to_nat old) (mv raw old new) = firstn (Z.to_nat old) raw) ->
  (forall cs, Permutation cs (sortc cs)) -> (forall cs, map dec (sortc cs) = sortf (map dec cs)) ->
  forall (ops : list vop) (header : list N), zlen header = hdr -> Forall op_wf ops ->
  let '(m', os) := mvrun stride hdr init_cap alloc_ok sortf enc mv vector_oldlen sortc (mkmvec vec0 header) ops in
  mv_v m' = fst (vrun stride hdr init_cap alloc_ok sortf vec0 ops) /\
  os = map fst (snd (vrun stride hdr init_cap alloc_ok sortf vec0 ops)) /\
  decode stride hdr dec (mv_v m') (mv_raw m') = v_elems (mv_v m') /\
  zlen (mv_raw m') = hdr + v_siz (mv_v m') * stride /\
  firstn (Z.to_nat hdr) (mv_raw m') = header.
Proof.
  intros Hs Hh Hc Hsf He Hd Hz Hml Hmk Hp Hsd ops header Hhl Hwf.
  assert (HM : MInv stride hdr dec (mkmvec vec0 header)).
  { split; [apply vinv0; assumption|]. split; [cbn [mv_raw mv_v vec0 v_siz]; lia|].
    unfold nlen. cbn [mv_v vec0 v_elems length]. intros i Hi. lia. }
  pose proof (mvrun_decodes stride hdr init_cap alloc_ok sortf enc dec mv vector_oldlen sortc Hs Hh Hc Hsf He Hd Hz Hml Hmk
                (fun len siz H => vector_oldlen_ok hdr stride len siz ltac:(lia) H) Hp Hsd ops _ HM Hwf) as H.
  destruct (mvrun stride hdr init_cap alloc_ok sortf enc mv vector_oldlen sortc (mkmvec vec0 header) ops) as [m' os].
  destruct H as (H1 & H2 & H3 & H4 & H5). repeat split; try assumption.
  rewrite H5. cbn [mv_raw]. unfold zlen in Hhl. rewrite <- (firstn_all header) at 2. f_equal. lia.
Qed.

(* buffer: with the old size buffer_reserve passes (regenerated: Gen_KsConst.buffer_oldlen) every growth keeps
   the live bytes, for every realloc that keeps the first oldsize bytes *)
Lemma buffer_bytes (mv : list N -> Z -> Z -> list N) :
  (forall raw old new, 0 <= new -> zlen (mv raw old new) = new) ->
  (forall raw old new, 0 <= old <= zlen raw -> old <= new -> firstn (Z.to_nat old) (mv raw old new) = firstn (Z.to_nat old) raw) ->
  forall (raw : list N) (len siz new : Z), zlen raw = siz -> 0 <= len <= siz -> siz <= new ->
  zlen (mv raw (buffer_oldlen len siz) new) = new /\
  firstn (Z.to_nat len) (mv raw (buffer_oldlen len siz) new) = firstn (Z.to_nat len) raw.
Proof. intros Hl Hk. apply (buffer_growth_keeps mv buffer_oldlen Hl Hk buffer_oldlen_ok). Qed.
