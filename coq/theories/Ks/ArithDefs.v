(* ArithDefs.v - the 15 portable overflow-checked operations of
   libks/arithmetic.c.  The bodies are NOT written here: they are regenerated
   from the C source on every check (coq/gen/Gen_Arith.v, translator
   harness/t_arith.py, C semantics in Base/CInt.v).  This file only names them
   by (type, operation) so that the driver and the theorems can quantify over
   the table. *)
From Coq Require Export ZArith List Bool.
From Robsd Require Export Base.CInt.
From RobsdGen Require Gen_Arith.
Local Open Scope Z_scope.

Inductive aty := I32 | I64 | U32 | U64 | USize.
Inductive aop := OAdd | OSub | OMul.

(* KS_<ty>_<op>_overflow0 *)
Definition fallback (ty : aty) (op : aop) : Z -> Z -> cres :=
  match ty, op with
  | I32, OAdd => Gen_Arith.KS_i32_add_overflow0
  | I32, OSub => Gen_Arith.KS_i32_sub_overflow0
  | I32, OMul => Gen_Arith.KS_i32_mul_overflow0
  | I64, OAdd => Gen_Arith.KS_i64_add_overflow0
  | I64, OSub => Gen_Arith.KS_i64_sub_overflow0
  | I64, OMul => Gen_Arith.KS_i64_mul_overflow0
  | U32, OAdd => Gen_Arith.KS_u32_add_overflow0
  | U32, OSub => Gen_Arith.KS_u32_sub_overflow0
  | U32, OMul => Gen_Arith.KS_u32_mul_overflow0
  | U64, OAdd => Gen_Arith.KS_u64_add_overflow0
  | U64, OSub => Gen_Arith.KS_u64_sub_overflow0
  | U64, OMul => Gen_Arith.KS_u64_mul_overflow0
  | USize, OAdd => Gen_Arith.KS_size_add_overflow0
  | USize, OSub => Gen_Arith.KS_size_sub_overflow0
  | USize, OMul => Gen_Arith.KS_size_mul_overflow0
  end.

(* the C types the translator found in the definitions: (operands, pointee) *)
Definition fallback_sig (ty : aty) (op : aop) : list cty * cty :=
  match ty, op with
  | I32, OAdd => Gen_Arith.KS_i32_add_overflow0_sig
  | I32, OSub => Gen_Arith.KS_i32_sub_overflow0_sig
  | I32, OMul => Gen_Arith.KS_i32_mul_overflow0_sig
  | I64, OAdd => Gen_Arith.KS_i64_add_overflow0_sig
  | I64, OSub => Gen_Arith.KS_i64_sub_overflow0_sig
  | I64, OMul => Gen_Arith.KS_i64_mul_overflow0_sig
  | U32, OAdd => Gen_Arith.KS_u32_add_overflow0_sig
  | U32, OSub => Gen_Arith.KS_u32_sub_overflow0_sig
  | U32, OMul => Gen_Arith.KS_u32_mul_overflow0_sig
  | U64, OAdd => Gen_Arith.KS_u64_add_overflow0_sig
  | U64, OSub => Gen_Arith.KS_u64_sub_overflow0_sig
  | U64, OMul => Gen_Arith.KS_u64_mul_overflow0_sig
  | USize, OAdd => Gen_Arith.KS_size_add_overflow0_sig
  | USize, OSub => Gen_Arith.KS_size_sub_overflow0_sig
  | USize, OMul => Gen_Arith.KS_size_mul_overflow0_sig
  end.

(* the entry points of arithmetic.h, KS_<ty>_<op>_overflow: what they do when the compiler has the builtin
   (the builtin's documented contract, Ks/ArithBuiltinDefs.v) and when it has not (the fallback) *)
Definition builtin (ty : aty) (op : aop) : Z -> Z -> cres :=
  match ty, op with
  | I32, OAdd => Gen_Arith.KS_i32_add_overflow_builtin
  | I32, OSub => Gen_Arith.KS_i32_sub_overflow_builtin
  | I32, OMul => Gen_Arith.KS_i32_mul_overflow_builtin
  | I64, OAdd => Gen_Arith.KS_i64_add_overflow_builtin
  | I64, OSub => Gen_Arith.KS_i64_sub_overflow_builtin
  | I64, OMul => Gen_Arith.KS_i64_mul_overflow_builtin
  | U32, OAdd => Gen_Arith.KS_u32_add_overflow_builtin
  | U32, OSub => Gen_Arith.KS_u32_sub_overflow_builtin
  | U32, OMul => Gen_Arith.KS_u32_mul_overflow_builtin
  | U64, OAdd => Gen_Arith.KS_u64_add_overflow_builtin
  | U64, OSub => Gen_Arith.KS_u64_sub_overflow_builtin
  | U64, OMul => Gen_Arith.KS_u64_mul_overflow_builtin
  | USize, OAdd => Gen_Arith.KS_size_add_overflow_builtin
  | USize, OSub => Gen_Arith.KS_size_sub_overflow_builtin
  | USize, OMul => Gen_Arith.KS_size_mul_overflow_builtin
  end.
Definition nobuiltin (ty : aty) (op : aop) : Z -> Z -> cres :=
  match ty, op with
  | I32, OAdd => Gen_Arith.KS_i32_add_overflow_nobuiltin
  | I32, OSub => Gen_Arith.KS_i32_sub_overflow_nobuiltin
  | I32, OMul => Gen_Arith.KS_i32_mul_overflow_nobuiltin
  | I64, OAdd => Gen_Arith.KS_i64_add_overflow_nobuiltin
  | I64, OSub => Gen_Arith.KS_i64_sub_overflow_nobuiltin
  | I64, OMul => Gen_Arith.KS_i64_mul_overflow_nobuiltin
  | U32, OAdd => Gen_Arith.KS_u32_add_overflow_nobuiltin
  | U32, OSub => Gen_Arith.KS_u32_sub_overflow_nobuiltin
  | U32, OMul => Gen_Arith.KS_u32_mul_overflow_nobuiltin
  | U64, OAdd => Gen_Arith.KS_u64_add_overflow_nobuiltin
  | U64, OSub => Gen_Arith.KS_u64_sub_overflow_nobuiltin
  | U64, OMul => Gen_Arith.KS_u64_mul_overflow_nobuiltin
  | USize, OAdd => Gen_Arith.KS_size_add_overflow_nobuiltin
  | USize, OSub => Gen_Arith.KS_size_sub_overflow_nobuiltin
  | USize, OMul => Gen_Arith.KS_size_mul_overflow_nobuiltin
  end.
Definition entry_point (has_builtin : bool) (ty : aty) (op : aop) : Z -> Z -> cres :=
  if has_builtin then builtin ty op else nobuiltin ty op.
