(* BufferProofs.v - the buffer model refines the byte string program for every
   operation sequence; the getline iterator enumerates exactly the lines. *)
From Robsd Require Import Ks.BufferSpec Ks.VectorProofs.
Local Open Scope Z_scope.

(* ---- getline ---------------------------------------------------------------- *)

Lemma cut_line_length l : (length (snd (cut_line l)) <= length l)%nat.
Proof.
  induction l as [|c l IH]; simpl; [lia|].
  destruct (c =? 10)%N; simpl; [lia|]. destruct (cut_line l); simpl in *. lia.
Qed.

Lemma cut_line_length_cons c l : (length (snd (cut_line (c :: l))) <= length l)%nat.
Proof.
  cbn [cut_line]. destruct (c =? 10)%N; [simpl; lia|].
  pose proof (cut_line_length l). destruct (cut_line l); simpl in *. lia.
Qed.

Lemma getlines_cut c l :
  getlines (c :: l) = fst (cut_line (c :: l)) :: getlines (snd (cut_line (c :: l))).
Proof.
  revert c. induction l as [|d l IH]; intros c.
  - simpl. destruct (c =? 10)%N; reflexivity.
  - cbn [getlines cut_line]. destruct (c =? 10)%N; [reflexivity|].
    specialize (IH d). cbn [getlines cut_line] in IH. rewrite IH.
    destruct (d =? 10)%N; [reflexivity|]. destruct (cut_line l); reflexivity.
Qed.

Lemma getline_loop_getlines fuel : forall l,
  (length l < fuel)%nat -> getline_loop fuel l = map cstr (getlines l).
Proof.
  induction fuel as [|f IH]; intros l Hl; [lia|].
  destruct l as [|c l]; [reflexivity|].
  cbn [getline_loop]. rewrite getlines_cut.
  destruct (cut_line (c :: l)) as [line rest] eqn:E. cbn [fst snd map]. f_equal.
  apply IH. pose proof (cut_line_length_cons c l) as H. rewrite E in H. cbn [snd length] in *. lia.
Qed.

(* the iterator returns exactly the lines of the buffer, as C strings *)
Lemma getline_loop_clines l : getline_loop (S (length l)) l = clines l.
Proof. apply getline_loop_getlines. lia. Qed.

Lemma getlines_nonul l : nonul l -> Forall nonul (getlines l).
Proof.
  induction 1 as [|c l Hc Hl IH]; simpl; [constructor|].
  destruct (c =? 10)%N.
  - constructor; [constructor|assumption].
  - destruct (getlines l) as [|x xs]; [repeat constructor; assumption|].
    inversion IH; subst. constructor; [constructor; assumption|assumption].
Qed.

Lemma clines_nonul_id l : nonul l -> clines l = getlines l.
Proof.
  intros H. unfold clines. apply getlines_nonul in H.
  induction H as [|x xs Hx _ IH]; simpl; [reflexivity|]. now rewrite cstr_id, IH.
Qed.

(* ---- comparison ----------------------------------------------------------------- *)

Lemma memcmp_sign_zero a : forall b, length a = length b -> (memcmp_sign a b = 0 <-> a = b).
Proof.
  induction a as [|x a IH]; intros [|y b] Hl; simpl in *; try discriminate; [tauto|].
  destruct (N.ltb_spec x y); [split; [discriminate|intros H'; injection H'; lia]|].
  destruct (N.ltb_spec y x); [split; [discriminate|intros H'; injection H'; lia]|].
  assert (x = y) by lia. subst. rewrite IH by lia. split; [intros ->; reflexivity|intros H'; injection H'; auto].
Qed.

Lemma cstr_snoc_nul l : cstr (l ++ [0%N]) = cstr l.
Proof. induction l as [|c l IH]; simpl; [reflexivity|]. destruct (c =? 0)%N; [reflexivity|now rewrite IH]. Qed.

Lemma lines_eqb_refl l : lines_eqb l l = true.
Proof. induction l; simpl; [reflexivity|]. now rewrite beq_refl. Qed.

Lemma zlen_firstn {A} (l : list A) k : 0 <= k <= zlen l -> zlen (firstn (Z.to_nat k) l) = k.
Proof. intros H. unfold zlen in *. rewrite firstn_length. lia. Qed.

(* ---- the refinement ------------------------------------------------------------- *)

Section Refinement.
Variable init_cap : Z.
Variable alloc_ok : Z -> bool.
Hypothesis init_range : 0 < init_cap <= 65536.
(* no allocator hands out 2^62 bytes or more (only used for the "huge length" probe) *)
Hypothesis alloc_bounded : forall sz, alloc_ok sz = true -> sz <= 4611686018427387904.

Notation breserve := (breserve init_cap alloc_ok).
Notation bstep := (bstep init_cap alloc_ok).
Notation brun := (brun init_cap alloc_ok).

(* every live byte lies inside the allocation *)
Definition binv (b : buf) : Prop :=
  zlen (b_data b) <= b_siz b /\ 0 <= b_siz b <= 4611686018427387904.

Definition bop_wf (op : bop) : Prop :=
  match op with
  | BPutsHuge n => n = 0 \/ 9223372036854775808 < n <= ULONG_MAX
  | BPop n => 0 <= n <= ULONG_MAX
  | _ => True
  end.

(* why a reservation may fail: the request is not small, or the allocator refused at most 2^50 bytes *)
Definition brefusal (b : buf) (n : Z) : Prop :=
  SMALL < zlen (b_data b) + n \/ exists sz, sz <= 1125899906842624 /\ alloc_ok sz = false.

Lemma breserve_spec b n :
  binv b -> 0 <= n <= ULONG_MAX ->
  match breserve b n with
  | Some s => zlen (b_data b) + n <= s /\ b_siz b <= s /\ 0 < s <= 4611686018427387904
  | None => brefusal b n
  end.
Proof.
  intros (Hlen & Hsiz) Hn. unfold BufferDefs.breserve.
  pose proof (zlen_nonneg (b_data b)) as Hl0.
  destruct (Z.ltb_spec (ULONG_MAX - zlen (b_data b)) n) as [Hov|Hov].
  { left. unfold SMALL, ULONG_MAX in *. lia. }
  destruct (Z.ltb_spec 0 (b_siz b)) as [Hpos|Hz]; cbn [andb].
  - destruct (Z.leb_spec (zlen (b_data b) + n) (b_siz b)) as [Hfit|Hfit]; [lia|].
    replace (b_siz b =? 0) with false by (symmetry; apply Z.eqb_neq; lia).
    destruct (grow GROW_FUEL (b_siz b) (zlen (b_data b) + n)) as [s|] eqn:Eg.
    + apply grow_some in Eg. destruct Eg as (G1 & G2 & G3).
      destruct (alloc_ok s) eqn:Ea.
      * apply alloc_bounded in Ea. lia.
      * destruct (Z.leb_spec (zlen (b_data b) + n) SMALL) as [Hsm|]; [right|left; assumption].
        exists s. split; [unfold SMALL in *; lia|assumption].
    + left. apply grow_none in Eg; [|assumption]. unfold SMALL. lia.
  - assert (b_siz b = 0) as Ez by lia. rewrite Ez. cbn [Z.eqb].
    destruct (grow GROW_FUEL init_cap (zlen (b_data b) + n)) as [s|] eqn:Eg.
    + apply grow_some in Eg. destruct Eg as (G1 & G2 & G3).
      destruct (alloc_ok s) eqn:Ea.
      * apply alloc_bounded in Ea. lia.
      * destruct (Z.leb_spec (zlen (b_data b) + n) SMALL) as [Hsm|]; [right|left; assumption].
        exists s. split; [unfold SMALL in *; lia|assumption].
    + left. apply grow_none in Eg; [|lia]. unfold SMALL. lia.
Qed.

Lemma bputs_spec b s :
  binv b -> s <> [] -> zlen s <= ULONG_MAX ->
  let '(b', o) := bputs init_cap alloc_ok b s in
  binv b' /\
  match o with
  | BoInt 1 => b' = b /\ brefusal b (zlen s)
  | _ => o = BoInt 0 /\ b_data b' = b_data b ++ s /\ zlen (b_data b) + zlen s <= ULONG_MAX
  end.
Proof.
  intros Hi Hs Hls. unfold bputs. destruct s as [|c s]; [congruence|].
  pose proof (zlen_nonneg (c :: s)).
  pose proof (breserve_spec b (zlen (c :: s)) Hi ltac:(lia)) as Hr.
  destruct (breserve b (zlen (c :: s))) as [siz|].
  - destruct Hr as (H1 & H2 & H3). split.
    + unfold binv. cbn [b_siz b_data]. rewrite zlen_app. lia.
    + split; [reflexivity|]. split; [reflexivity|]. unfold ULONG_MAX. lia.
  - split; [assumption|]. split; [reflexivity|assumption].
Qed.

Lemma ends_with_nul_rev l :
  match rev l with [] => true | c :: _ => negb (c =? 0)%N end = negb (ends_with_nul l).
Proof. unfold ends_with_nul. destruct (rev l); reflexivity. Qed.

Definition brefusal_op (b : buf) (op : bop) : Prop :=
  match brequest (b_data b) op with Some n => brefusal b n | None => False end.

(* one operation, ANY allocator (bounded above only): a failure changes nothing and has a reason *)
Lemma bstep_refines_gen b op :
  binv b -> bop_wf op ->
  (forall s, op = BPuts s \/ op = BPrintf s -> zlen s < ULONG_MAX) ->
  let '(b', o) := bstep b op in
  binv b' /\
  if bis_failure op o
  then b' = b /\ brefusal_op b op
  else bmust_fail (b_data b) op = false /\ bout_ok op o (snd (sstep (b_data b) op)) = true /\
       b_data b' = fst (sstep (b_data b) op).
Proof.
  intros Hi Hwf Hsz. pose proof Hi as (Hlen & Hsiz).
  pose proof (zlen_nonneg (b_data b)) as Hl0.
  destruct op as [s|c|s|n| | |n|s| | |]; cbn [BufferDefs.bstep].
  - (* puts *)
    destruct s as [|c s].
    + cbn [bputs bis_failure]. split; [assumption|]. unfold bmust_fail. cbn [brequest zlen length Z.of_nat Z.eqb sstep fst snd bout_ok].
      rewrite app_nil_r. repeat split.
    + pose proof (bputs_spec b (c :: s) Hi ltac:(discriminate) ltac:(specialize (Hsz (c :: s) (or_introl eq_refl)); lia)) as Hp.
      destruct (bputs init_cap alloc_ok b (c :: s)) as [b' o]. destruct Hp as [Hi' Ho].
      split; [assumption|].
      assert (Hnz : (zlen (c :: s) =? 0) = false) by (apply Z.eqb_neq; unfold zlen; simpl; lia).
      unfold brefusal_op, bmust_fail. cbn [brequest]. rewrite Hnz.
      destruct o as [r| | | |]; try (destruct Ho as (? & _); discriminate).
      destruct (Z.eq_dec r 1) as [->|Hr].
      * cbn [bis_failure]. destruct Ho as [-> Hbig]. split; [reflexivity|]. assumption.
      * assert (bis_failure (BPuts (c :: s)) (BoInt r) = false) as ->
          by (cbn [bis_failure]; destruct r as [|[p|p|]|]; try reflexivity; congruence).
        assert (Ho' : BoInt r = BoInt 0 /\ b_data b' = b_data b ++ c :: s /\ zlen (b_data b) + zlen (c :: s) <= ULONG_MAX)
          by (destruct r as [|[p|p|]|]; try exact Ho; congruence).
        destruct Ho' as (E & Ed & Hrep). injection E as ->.
        split; [apply Z.ltb_ge; assumption|]. split; [reflexivity|assumption].
  - (* putc *)
    pose proof (bputs_spec b [c] Hi ltac:(discriminate) ltac:(unfold zlen, ULONG_MAX; simpl; lia)) as Hp.
    destruct (bputs init_cap alloc_ok b [c]) as [b' o]. destruct Hp as [Hi' Ho].
    split; [assumption|]. unfold brefusal_op, bmust_fail. cbn [brequest].
    destruct o as [r| | | |]; try (destruct Ho as (? & _); discriminate).
    destruct (Z.eq_dec r 1) as [->|Hr].
    + cbn [bis_failure]. destruct Ho as [-> Hbig]. split; [reflexivity|]. exact Hbig.
    + assert (bis_failure (BPutc c) (BoInt r) = false) as ->
        by (cbn [bis_failure]; destruct r as [|[p|p|]|]; try reflexivity; congruence).
      assert (Ho' : BoInt r = BoInt 0 /\ b_data b' = b_data b ++ [c] /\ zlen (b_data b) + zlen [c] <= ULONG_MAX)
        by (destruct r as [|[p|p|]|]; try exact Ho; congruence).
      destruct Ho' as (E & Ed & Hrep). injection E as ->.
      split; [apply Z.ltb_ge; exact Hrep|]. split; [reflexivity|assumption].
  - (* printf *)
    change (Gen_KsConst.printf_reserve (zlen s)) with (zlen s + 1).
    pose proof (zlen_nonneg s) as Hs0. specialize (Hsz s (or_intror eq_refl)).
    pose proof (breserve_spec b (zlen s + 1) Hi ltac:(lia)) as Hr.
    unfold brefusal_op, bmust_fail. cbn [brequest].
    destruct (breserve b (zlen s + 1)) as [siz|].
    + destruct Hr as (H1 & H2 & H3).
      destruct (Z.leb_spec (siz - zlen (b_data b)) (zlen s)) as [Hbad|Hgood]; [lia|].
      cbn [bis_failure]. split; [unfold binv; cbn [b_siz b_data]; rewrite zlen_app; lia|].
      split; [apply Z.ltb_ge; unfold ULONG_MAX; lia|]. split; reflexivity.
    + cbn [bis_failure]. split; [assumption|]. split; [reflexivity|]. assumption.
  - (* huge *)
    cbn [bop_wf] in Hwf. unfold brefusal_op, bmust_fail. cbn [brequest].
    destruct (Z.eqb_spec n 0) as [->|Hn0].
    + cbn [bis_failure]. split; [assumption|]. repeat split.
    + destruct Hwf as [->|Hn]; [congruence|].
      pose proof (breserve_spec b n Hi ltac:(lia)) as Hr.
      destruct (breserve b n) as [siz|]; [lia|].
      cbn [bis_failure]. split; [assumption|]. split; [reflexivity|]. assumption.
  - (* str *)
    rewrite ends_with_nul_rev. unfold brefusal_op, bmust_fail. cbn [brequest sstep fst snd].
    destruct (ends_with_nul (b_data b)) eqn:En; cbn [negb].
    + cbn [bis_failure bout_ok]. split; [unfold binv; cbn [b_siz b_data]; change (zlen []) with 0; lia|].
      rewrite beq_refl. repeat split.
    + pose proof (breserve_spec b 1 Hi ltac:(unfold ULONG_MAX; lia)) as Hr.
      destruct (breserve b 1) as [siz|].
      * cbn [bis_failure bout_ok]. split; [unfold binv; cbn [b_siz b_data]; change (zlen []) with 0; lia|].
        rewrite cstr_snoc_nul, beq_refl. split; [apply Z.ltb_ge; unfold ULONG_MAX; lia|]. split; reflexivity.
      * cbn [bis_failure]. split; [assumption|]. split; [reflexivity|]. assumption.
  - (* reset *)
    cbn [bis_failure]. unfold bmust_fail. cbn [brequest sstep fst snd bout_ok b_data].
    split; [unfold binv; cbn [b_siz b_data]; change (zlen []) with 0; lia|]. repeat split.
  - (* pop *)
    cbn [bop_wf] in Hwf. cbn [bis_failure]. unfold bmust_fail. cbn [brequest sstep fst snd bout_ok b_data].
    assert (Hk : (if zlen (b_data b) <? n then zlen (b_data b) else n) = zmin (zlen (b_data b)) n).
    { unfold zmin. destruct (Z.ltb_spec (zlen (b_data b)) n); reflexivity. }
    rewrite Hk. assert (0 <= zmin (zlen (b_data b)) n <= zlen (b_data b)) by (unfold zmin; destruct (Z.ltb_spec (zlen (b_data b)) n); lia).
    split.
    + unfold binv. cbn [b_siz b_data]. rewrite zlen_firstn by lia. lia.
    + rewrite Z.eqb_refl. repeat split.
  - (* cmp *)
    cbn [bis_failure]. split; [assumption|]. unfold bmust_fail. cbn [brequest sstep fst snd bout_ok].
    split; [reflexivity|]. split; [|reflexivity].
    destruct (beq_spec (b_data b) s) as [->|Hne].
    + rewrite Z.eqb_refl. cbn [negb].
      destruct (Z.eqb_spec (zlen s) 0); [reflexivity|].
      replace (memcmp_sign s s) with 0 by (symmetry; apply memcmp_sign_zero; reflexivity). reflexivity.
    + destruct (Z.eqb_spec (zlen (b_data b)) (zlen s)) as [El|El]; cbn [negb]; [|reflexivity].
      destruct (Z.eqb_spec (zlen (b_data b)) 0) as [E0|E0].
      * exfalso. apply Hne. unfold zlen in *. destruct (b_data b), s; simpl in *; try lia. reflexivity.
      * destruct (Z.eqb_spec (memcmp_sign (b_data b) s) 0) as [Em|Em]; [|reflexivity].
        exfalso. apply Hne. apply memcmp_sign_zero; [unfold zlen in El; lia|assumption].
  - cbn [bis_failure]. split; [assumption|]. unfold bmust_fail. cbn [brequest sstep fst snd bout_ok]. rewrite Z.eqb_refl. repeat split.
  - cbn [bis_failure]. split; [assumption|]. unfold bmust_fail. cbn [brequest sstep fst snd bout_ok]. rewrite beq_refl. repeat split.
  - cbn [bis_failure]. split; [assumption|]. unfold bmust_fail. cbn [brequest sstep fst snd bout_ok].
    rewrite getline_loop_clines, lines_eqb_refl. repeat split.
Qed.

Definition bsize_ok (op : bop) : Prop :=
  match op with BPuts s | BPrintf s => zlen s < ULONG_MAX | _ => True end.

Definition btrace_of (ops : list bop) (tr : list (bout * Z)) : list (bop * bout) :=
  combine ops (map fst tr).

(* a failed operation leaves the buffer exactly as it was *)
Corollary bstep_fail_unchanged b op :
  binv b -> bop_wf op -> bsize_ok op -> bis_failure op (snd (bstep b op)) = true -> fst (bstep b op) = b.
Proof.
  intros Hi Hwf Hsz Hf.
  assert (Hsz' : forall s, op = BPuts s \/ op = BPrintf s -> zlen s < ULONG_MAX) by (intros s [->| ->]; exact Hsz).
  pose proof (bstep_refines_gen b op Hi Hwf Hsz') as H.
  destruct (bstep b op) as [b' o]. cbn [fst snd] in *. rewrite Hf in H. tauto.
Qed.

(* every operation sequence, ANY allocator: the fault-tolerant byte-string oracle accepts the model's trace *)
Theorem brun_refines_any : forall ops b,
  binv b -> Forall bop_wf ops -> Forall bsize_ok ops ->
  let '(b', tr) := brun b ops in
  length tr = length ops /\
  spec_ok_buf_faulty (b_data b) (btrace_of ops tr) = true /\
  b_data b' = bspec_final (b_data b) (btrace_of ops tr) /\
  binv b'.
Proof.
  induction ops as [|op ops IH]; intros b Hi Hwf Hsz.
  - simpl. split; [reflexivity|]. split; [reflexivity|]. split; [reflexivity|assumption].
  - inversion Hwf as [|? ? Hop Hops]; subst. inversion Hsz as [|? ? Hs1 Hs2]; subst. cbn [BufferDefs.brun].
    assert (Hsz' : forall s, op = BPuts s \/ op = BPrintf s -> zlen s < ULONG_MAX).
    { intros s [->| ->]; exact Hs1. }
    pose proof (bstep_refines_gen b op Hi Hop Hsz') as Hs.
    destruct (bstep b op) as [b1 o]. destruct Hs as [Hi1 Hs].
    specialize (IH b1 Hi1 Hops Hs2). destruct (brun b1 ops) as [b2 tr].
    destruct IH as (Hl & Hok & Hfin & Hi2).
    unfold btrace_of in *. cbn [map fst combine length spec_ok_buf_faulty bspec_final].
    split; [now rewrite Hl|].
    destruct (bis_failure op o) eqn:Ef.
    + destruct Hs as [-> _]. split; [assumption|]. split; assumption.
    + destruct Hs as (Hm & Ho & El). rewrite Hm, Ho. cbn [negb andb].
      rewrite <- El. split; [assumption|]. split; assumption.
Qed.

(* ---- an allocator that grants every request of at most 2^50 bytes ------------------------- *)
Hypothesis alloc_small : forall sz, sz <= 1125899906842624 -> alloc_ok sz = true.

Lemma bstep_refines b op :
  binv b -> bop_wf op ->
  (forall s, op = BPuts s \/ op = BPrintf s -> zlen s < ULONG_MAX) ->
  let '(b', o) := bstep b op in
  binv b' /\
  if bis_failure op o
  then b' = b /\ bsmall_request (b_data b) op = false
  else bmust_fail (b_data b) op = false /\ bout_ok op o (snd (sstep (b_data b) op)) = true /\
       b_data b' = fst (sstep (b_data b) op).
Proof.
  intros Hi Hwf Hsz. pose proof (bstep_refines_gen b op Hi Hwf Hsz) as H.
  destruct (bstep b op) as [b' o]. destruct H as [Hi' H]. split; [assumption|].
  destruct (bis_failure op o); [|assumption].
  destruct H as [-> Hr]. split; [reflexivity|].
  unfold brefusal_op in Hr. unfold bsmall_request. destruct (brequest (b_data b) op) as [n|]; [|destruct Hr].
  destruct Hr as [Hr|(sz & Hsz1 & Ha)]; [apply Z.leb_gt; assumption|].
  rewrite alloc_small in Ha by assumption. discriminate.
Qed.

Theorem brun_refines : forall ops b,
  binv b -> Forall bop_wf ops -> Forall bsize_ok ops ->
  let '(b', tr) := brun b ops in
  length tr = length ops /\
  spec_ok_buf (b_data b) (btrace_of ops tr) = true /\
  b_data b' = bspec_final (b_data b) (btrace_of ops tr) /\
  binv b'.
Proof.
  induction ops as [|op ops IH]; intros b Hi Hwf Hsz.
  - simpl. split; [reflexivity|]. split; [reflexivity|]. split; [reflexivity|assumption].
  - inversion Hwf as [|? ? Hop Hops]; subst. inversion Hsz as [|? ? Hs1 Hs2]; subst. cbn [BufferDefs.brun].
    assert (Hsz' : forall s, op = BPuts s \/ op = BPrintf s -> zlen s < ULONG_MAX).
    { intros s [->| ->]; exact Hs1. }
    pose proof (bstep_refines b op Hi Hop Hsz') as Hs.
    destruct (bstep b op) as [b1 o]. destruct Hs as [Hi1 Hs].
    specialize (IH b1 Hi1 Hops Hs2). destruct (brun b1 ops) as [b2 tr].
    destruct IH as (Hl & Hok & Hfin & Hi2).
    unfold btrace_of in *. cbn [map fst combine length spec_ok_buf bspec_final].
    split; [now rewrite Hl|].
    destruct (bis_failure op o) eqn:Ef.
    + destruct Hs as [-> Hsm]. rewrite Hsm. cbn [negb andb]. split; [assumption|]. split; assumption.
    + destruct Hs as (Hm & Ho & El). rewrite Hm, Ho. cbn [negb andb].
      rewrite <- El. split; [assumption|]. split; assumption.
Qed.

Lemma binv_alloc n b : 0 <= n <= ULONG_MAX -> balloc init_cap alloc_ok n = Some b -> binv b /\ b_data b = [].
Proof.
  intros Hn H. unfold balloc in H.
  assert (Hi0 : binv (mkbuf 0 [])) by (unfold binv; cbn; change (zlen []) with 0; lia).
  pose proof (breserve_spec (mkbuf 0 []) n Hi0 Hn) as Hr.
  destruct (breserve (mkbuf 0 []) n) as [s|]; [|discriminate]. injection H as <-.
  destruct Hr as (H1 & H2 & H3). cbn [b_data] in *. change (zlen []) with 0 in H1.
  split; [unfold binv; cbn [b_siz b_data]; change (zlen []) with 0; lia|reflexivity].
Qed.

End Refinement.
