(* MapIterGen.v - the iterator under ARBITRARY interleaving of inserts, lookups,
   removals and restarts with MAP_ITERATE calls, stated over element identities
   ([e_id], the allocation order) and the live list [m_list] only - not against
   the dictionary's copy of the iterator (MapSpec.diterate).  No call-site
   discipline is assumed: keys may repeat, and a sequence that removes the element
   the C iterator points to (undefined behaviour in C, [MoUB] in the model) simply
   returns nothing at that call.

   [irun] runs the model and keeps, since the last MIterStart (a zeroed struct
   map_iterator):
     it_rets     the identities MAP_ITERATE returned, in call order
     it_missed   the identities inserted while the iterator had already returned
                 the last element of the list (its nx pointer is NULL: map_iterate
                 answers NULL from then on, whatever is appended)
   Theorem [iter_interleaved], for every operation sequence from a fresh iterator:
     - it_rets is strictly increasing: every entry at most once, in insertion order;
     - every returned identity is below the cursor: nothing pending was returned;
     - every entry live at the end has been returned, or is still pending (at or
       after the cursor; all of them while the iterator is fresh), or is in
       it_missed - complete for the survivors.
   [iter_ret_sound]: what a call returns is an entry live at that moment, with
   its key and value.  [irun_no_insert_missed]: without inserts nothing is missed. *)
From Coq Require Import Lia Sorting.Sorted.
From Robsd Require Import Ks.MapSpec Ks.MapProofs Ks.MapDup.
Local Open Scope N_scope.

(* ---- sorted lists of identities ---------------------------------------------------- *)

Lemma ssorted_app_one (l : list N) x : StronglySorted N.lt l -> Forall (fun y => y < x) l -> StronglySorted N.lt (l ++ [x]).
Proof.
  induction 1 as [|y l Hs IH Hall]; intros Hx; simpl; [repeat constructor|].
  inversion Hx as [|? ? Hy Hx']; subst. constructor; [apply IH; assumption|].
  apply Forall_app. split; [assumption|]. constructor; [assumption|constructor].
Qed.

Lemma ssorted_map_filter {A} (f : A -> N) p l : StronglySorted N.lt (map f l) -> StronglySorted N.lt (map f (filter p l)).
Proof.
  induction l as [|x l IH]; simpl; intros H; [constructor|].
  inversion H as [|? ? Hs Hall]; subst. destruct (p x); simpl; [|apply IH; assumption].
  constructor; [apply IH; assumption|].
  rewrite Forall_forall in *. intros y Hy. apply Hall.
  apply in_map_iff in Hy. destruct Hy as (z & <- & Hz). apply filter_In in Hz. apply in_map. tauto.
Qed.

Lemma ssorted_app_inv (a b : list N) : StronglySorted N.lt (a ++ b) ->
  StronglySorted N.lt a /\ StronglySorted N.lt b /\ forall x y, In x a -> In y b -> x < y.
Proof.
  induction a as [|z a IH]; simpl; intros H.
  - split; [constructor|]. split; [assumption|]. intros ? ? [].
  - inversion H as [|? ? Hs Hall]; subst. destruct (IH Hs) as (Ha & Hb & Hab).
    split; [constructor; [assumption|]|].
    + apply Forall_app in Hall. tauto.
    + split; [assumption|]. intros x y [<-|Hx] Hy; [|apply Hab; assumption].
      rewrite Forall_forall in Hall. apply Hall. apply in_or_app. now right.
Qed.

Section IterGen.
Variable hash : bytes -> N.
Variables init_nb init_log2 thresh : N.
Hypothesis init_pow2 : exists k, init_nb = 2 ^ k.

Notation hfind := (hfind hash).
Notation mstep := (mstep hash init_nb init_log2 thresh).
Notation mrun := (mrun hash init_nb init_log2 thresh).
Notation minv := (minv hash).

Definition ids (m : hmap) : list N := map e_id (m_list m).

(* the structural invariant plus: the application-order list is in allocation order *)
Definition minv2 (m : hmap) : Prop := minv m /\ StronglySorted N.lt (ids m).

Lemma minv2_0 : minv2 map0.
Proof. split; [apply minv0|constructor]. Qed.

Lemma remove_key_list m k :
  minv m ->
  let m' := match hfind m k with Some e => hdelete m e | None => m end in
  (exists p, m_list m' = filter p (m_list m)) /\ m_next m' = m_next m /\ m_it m' = m_it m.
Proof.
  intros Hi. destruct (hfind m k) as [e|] eqn:Hf; cbv zeta.
  - destruct (hfind_sound hash m k e Hi Hf) as [Hin _].
    destruct (hdelete_inv hash m e Hi Hin) as (_ & Hl & Hn & Hit).
    split; [eexists; exact Hl|]. split; assumption.
  - split; [exists (fun _ => true)|split; reflexivity].
    symmetry. clear. induction (m_list m) as [|x l IH]; simpl; [reflexivity|]. f_equal. exact IH.
Qed.

Lemma mstep_inv2 m op : minv2 m -> minv2 (fst (mstep m op)).
Proof.
  intros [Hi Hs]. split; [apply mstep_inv; assumption|]. unfold ids in *.
  assert (Hrm : forall m0 k, minv m0 -> StronglySorted N.lt (map e_id (m_list m0)) ->
            StronglySorted N.lt (map e_id (m_list (match hfind m0 k with Some e => hdelete m0 e | None => m0 end)))).
  { intros m0 k Hi0 Hs0. destruct (remove_key_list m0 k Hi0) as ((p & Hp) & _). cbv zeta in Hp. rewrite Hp.
    apply ssorted_map_filter. assumption. }
  destruct op as [k v|k|k| | |]; cbn [MapDefs.mstep].
  - destruct Hi as (_ & Hid & _ & Ht). unfold MapDefs.hinsert.
    destruct (m_tbl m) as [t|]; cbn [fst m_list].
    + rewrite map_app. cbn [map e_id]. apply ssorted_app_one; [assumption|].
      rewrite Forall_forall. intros y Hy. apply in_map_iff in Hy. destruct Hy as (x & <- & Hx). apply Hid. assumption.
    + cbn [map e_id]. repeat constructor.
  - assumption.
  - cbn [fst]. apply Hrm; assumption.
  - assumption.
  - destruct (iterate m) as [[it [e|]]|]; cbn [fst]; assumption.
  - destruct (iterate m) as [[it [e|]]|]; cbn [fst]; try assumption.
    apply (Hrm (set_it m it)); assumption.
Qed.

Theorem mrun_inv2 : forall ops m, minv2 m -> minv2 (fst (mrun m ops)).
Proof.
  induction ops as [|op ops IH]; intros m Hi; [assumption|].
  cbn [MapDefs.mrun]. pose proof (mstep_inv2 m op Hi) as H1.
  destruct (mstep m op) as [m1 o]. cbn [fst] in H1. specialize (IH m1 H1).
  destruct (mrun m1 ops) as [m2 tr]. exact IH.
Qed.

(* ---- the instrumented run ------------------------------------------------------------ *)

Record itrace := mkit { it_rets : list N; it_missed : list N }.

Definition track (m : hmap) (op : mop) (o : mout) (t : itrace) : itrace :=
  match op with
  | MIterStart => mkit [] []
  | MInsert _ _ => match m_it m with Some None => mkit (it_rets t) (it_missed t ++ [m_next m]) | _ => t end
  | MIterNext | MIterNextDel => match o with MoEnt i _ _ => mkit (it_rets t ++ [i]) (it_missed t) | _ => t end
  | _ => t
  end.

Fixpoint irun (m : hmap) (ops : list mop) (t : itrace) : hmap * itrace :=
  match ops with
  | [] => (m, t)
  | op :: ops' => let '(m1, o) := mstep m op in irun m1 ops' (track m op o t)
  end.

(* it is the model's run *)
Lemma irun_fst : forall ops m t, fst (irun m ops t) = fst (mrun m ops).
Proof.
  induction ops as [|op ops IH]; intros m t; [reflexivity|].
  cbn [irun MapDefs.mrun]. destruct (mstep m op) as [m1 o]. rewrite IH.
  destruct (mrun m1 ops); reflexivity.
Qed.

(* ---- locate -------------------------------------------------------------------------- *)

Definition head_eid (l : list elt) : option N := match l with [] => None | e :: _ => Some (e_id e) end.

Lemma locate_split i : forall l e nx,
  locate i l = Some (e, nx) -> exists pre post, l = pre ++ e :: post /\ e_id e = i /\ nx = head_eid post.
Proof.
  induction l as [|x l IH]; intros e nx H; [discriminate|]. cbn [locate] in H. unfold id_is in H.
  destruct (N.eqb_spec (e_id x) i) as [E|E].
  - injection H as <- <-. exists [], l. split; [reflexivity|]. split; [assumption|destruct l; reflexivity].
  - destruct (IH e nx H) as (pre & post & -> & Hid & Hnx). exists (x :: pre), post. split; [reflexivity|]. split; assumption.
Qed.

(* what one MAP_ITERATE call returns is a live entry *)
Lemma iterate_live m it e : iterate m = Some (it, Some e) -> In e (m_list m).
Proof.
  unfold iterate. destruct (m_it m) as [[i|]|].
  - destruct (locate i (m_list m)) as [[x nx]|] eqn:El; [|discriminate]. intros H. injection H as _ <-.
    destruct (locate_split i _ _ _ El) as (pre & post & -> & _). apply in_or_app. right. now left.
  - discriminate.
  - destruct (m_list m) as [|x l]; [discriminate|]. intros H. injection H as _ <-. now left.
Qed.

Theorem iter_ret_sound m op i k v :
  (op = MIterNext \/ op = MIterNextDel) -> snd (mstep m op) = MoEnt i k v ->
  exists e, In e (m_list m) /\ e_id e = i /\ e_key e = k /\ e_val e = v.
Proof.
  intros [-> | ->] H; cbn [MapDefs.mstep] in H;
    destruct (iterate m) as [[it [e|]]|] eqn:Ei; cbn [snd] in H; try discriminate;
    injection H as <- <- <-; exists e; (split; [eapply iterate_live; exact Ei|repeat split]).
Qed.

(* ---- the invariant of the instrumented run ------------------------------------------- *)

Definition IInv (m : hmap) (t : itrace) : Prop :=
  StronglySorted N.lt (it_rets t) /\
  match m_it m with
  | None => it_rets t = [] /\ it_missed t = []
  | Some (Some j) =>
      j < m_next m /\ Forall (fun i => i < j) (it_rets t) /\ it_missed t = [] /\
      forall e, In e (m_list m) -> e_id e < j -> In (e_id e) (it_rets t)
  | Some None => forall e, In e (m_list m) -> In (e_id e) (it_rets t) \/ In (e_id e) (it_missed t)
  end.

(* a state with fewer live entries, the same counter and the same cursor keeps the invariant *)
Lemma IInv_shrink m m' t :
  (forall e, In e (m_list m') -> In e (m_list m)) -> m_next m' = m_next m -> m_it m' = m_it m ->
  IInv m t -> IInv m' t.
Proof.
  intros Hsub Hn Hit [Hs H]. split; [assumption|]. rewrite Hit, Hn.
  destruct (m_it m) as [[j|]|].
  - destruct H as (H1 & H2 & H3 & H4). repeat split; try assumption. intros e He. apply H4. apply Hsub. assumption.
  - intros e He. apply H. apply Hsub. assumption.
  - assumption.
Qed.

Lemma IInv_remove_key m k t : minv m -> IInv m t -> IInv (match hfind m k with Some e => hdelete m e | None => m end) t.
Proof.
  intros Hi HI. destruct (remove_key_list m k Hi) as ((p & Hp) & Hn & Hit). cbv zeta in *.
  eapply IInv_shrink; [|exact Hn|exact Hit|exact HI].
  intros e He. rewrite Hp in He. apply filter_In in He. tauto.
Qed.

(* one MAP_ITERATE call: new cursor and returned entry against the invariant *)
Lemma IInv_iterate m t it r :
  minv2 m -> IInv m t -> iterate m = Some (it, r) ->
  IInv (set_it m it) (match r with Some e => mkit (it_rets t ++ [e_id e]) (it_missed t) | None => t end).
Proof.
  intros [Hi Hs2] [Hs H] Hiter. unfold ids in Hs2. unfold iterate in Hiter.
  destruct Hi as (_ & Hid & _ & _).
  (* the common part: the returned entry [e] sits at a split of the list, the cursor moves to the head of the rest *)
  assert (Hstep : forall pre e post,
            m_list m = pre ++ e :: post ->
            StronglySorted N.lt (it_rets t) -> Forall (fun i => i < e_id e) (it_rets t) -> it_missed t = [] ->
            (forall x, In x pre -> In (e_id x) (it_rets t)) ->
            IInv (set_it m (Some (head_eid post))) (mkit (it_rets t ++ [e_id e]) (it_missed t))).
  { intros pre e post El Hsr Hlt Hmiss Hpre.
    rewrite El, map_app in Hs2. cbn [map] in Hs2.
    destruct (ssorted_app_inv _ _ Hs2) as (_ & Hspost & Hcross).
    inversion Hspost as [|? ? Hspost' Hpostgt]; subst. rewrite Forall_forall in Hpostgt.
    split; [cbn [it_rets]; apply ssorted_app_one; assumption|].
    cbn [set_it m_it m_list m_next it_rets it_missed].
    destruct post as [|e' post']; cbn [head_eid].
    - intros x Hx. left. rewrite El in Hx. apply in_app_iff in Hx. apply in_or_app.
      destruct Hx as [Hx|[<-|[]]]; [left; apply Hpre; assumption|right; now left].
    - assert (Hee' : e_id e < e_id e') by (apply Hpostgt; now left).
      split; [apply Hid; rewrite El; apply in_or_app; right; right; now left|].
      split; [apply Forall_app; split; [eapply Forall_impl; [|exact Hlt]; intros; cbv beta in *; lia|repeat constructor; assumption]|].
      split; [assumption|].
      intros x Hx Hlt'. rewrite El in Hx. apply in_app_iff in Hx. apply in_or_app.
      destruct Hx as [Hx|[<-|Hx]]; [left; apply Hpre; assumption|right; now left|exfalso].
      cbn [map] in Hspost'. inversion Hspost' as [|? ? _ Hgt']; subst. rewrite Forall_forall in Hgt'.
      destruct Hx as [<-|Hx]; [lia|]. specialize (Hgt' (e_id x) (in_map e_id _ _ Hx)). lia. }
  destruct (m_it m) as [[j|]|] eqn:Eit.
  - (* the cursor points at entry j *)
    destruct (locate j (m_list m)) as [[e nx]|] eqn:El; [|discriminate]. injection Hiter as <- <-.
    destruct (locate_split j _ _ _ El) as (pre & post & Hl & Hj & ->).
    destruct H as (H1 & H2 & H3 & H4). subst j.
    apply (Hstep pre e post Hl Hs H2 H3).
    intros x Hx. apply H4; [rewrite Hl; apply in_or_app; now left|].
    rewrite Hl, map_app in Hs2. cbn [map] in Hs2.
    destruct (ssorted_app_inv _ _ Hs2) as (_ & _ & Hcross). apply Hcross; [now apply in_map|now left].
  - (* the last entry has been returned: NULL from now on *)
    injection Hiter as <- <-. split; [assumption|]. cbn [set_it m_it m_list]. assumption.
  - (* fresh iterator *)
    destruct H as [Hr Hm].
    destruct (m_list m) as [|e l'] eqn:El.
    + injection Hiter as <- <-. split; [assumption|]. cbn [set_it m_it]. split; assumption.
    + injection Hiter as <- <-.
      assert (Hn : match l' with [] => None | e' :: _ => Some (e_id e') end = head_eid l') by (destruct l'; reflexivity).
      rewrite Hn. apply (Hstep [] e l'); [reflexivity|assumption|rewrite Hr; constructor|assumption|intros ? []].
Qed.

Lemma IInv_step m op t :
  minv2 m -> IInv m t -> IInv (fst (mstep m op)) (track m op (snd (mstep m op)) t).
Proof.
  intros Hi2 HI. pose proof Hi2 as [Hi Hs2].
  destruct op as [k v|k|k| | |]; cbn [MapDefs.mstep track].
  - (* insert: appended behind everything; missed when the iterator is past the end *)
    destruct HI as [Hs H]. destruct Hi as (_ & Hid & _ & Ht).
    assert (Hl : forall x, In x (m_list (fst (hinsert hash init_nb init_log2 thresh m k v))) ->
                 In x (m_list m) \/ e_id x = m_next m).
    { unfold hinsert. destruct (m_tbl m); cbn [fst m_list]; intros x Hx.
      - apply in_app_iff in Hx. destruct Hx as [Hx|[<-|[]]]; [now left|now right].
      - destruct Hx as [<-|[]]. now right. }
    assert (Hn : m_next (fst (hinsert hash init_nb init_log2 thresh m k v)) = m_next m + 1)
      by (unfold hinsert; destruct (m_tbl m); reflexivity).
    assert (Hit : m_it (fst (hinsert hash init_nb init_log2 thresh m k v)) = m_it m)
      by (unfold hinsert; destruct (m_tbl m); reflexivity).
    destruct (hinsert hash init_nb init_log2 thresh m k v) as [m' e] eqn:Eh. cbn [fst snd] in *.
    unfold IInv. rewrite Hit, Hn.
    destruct (m_it m) as [[j|]|].
    + split; [assumption|]. destruct H as (H1 & H2 & H3 & H4).
      split; [lia|]. split; [assumption|]. split; [assumption|].
      intros x Hx Hlt. destruct (Hl x Hx) as [Hx'|Hx']; [apply H4; assumption|lia].
    + cbn [it_rets it_missed]. split; [assumption|]. intros x Hx.
      destruct (Hl x Hx) as [Hx'|Hx'].
      * destruct (H x Hx') as [Hr|Hm]; [now left|right; apply in_or_app; now left].
      * right. apply in_or_app. right. left. symmetry. assumption.
    + split; assumption.
  - exact HI.
  - cbn [fst snd]. apply IInv_remove_key; assumption.
  - split; [constructor|]. cbn [set_it m_it fst]. split; reflexivity.
  - destruct (iterate m) as [[it [e|]]|] eqn:Ei; cbn [fst snd].
    + exact (IInv_iterate m t it (Some e) Hi2 HI Ei).
    + exact (IInv_iterate m t it None Hi2 HI Ei).
    + exact HI.
  - destruct (iterate m) as [[it [e|]]|] eqn:Ei; cbn [fst snd].
    + apply (IInv_remove_key (set_it m it)); [exact Hi|]. exact (IInv_iterate m t it (Some e) Hi2 HI Ei).
    + exact (IInv_iterate m t it None Hi2 HI Ei).
    + exact HI.
Qed.

Lemma irun_IInv : forall ops m t, minv2 m -> IInv m t ->
  minv2 (fst (irun m ops t)) /\ IInv (fst (irun m ops t)) (snd (irun m ops t)).
Proof.
  induction ops as [|op ops IH]; intros m t Hi HI; [split; assumption|].
  cbn [irun]. pose proof (mstep_inv2 m op Hi) as Hi1. pose proof (IInv_step m op t Hi HI) as HI1.
  destruct (mstep m op) as [m1 o]. cbn [fst snd] in *. apply IH; assumption.
Qed.

(* ---- the theorem ----------------------------------------------------------------------- *)

Theorem iter_interleaved : forall ops m,
  minv2 m -> m_it m = None ->
  let '(m', t) := irun m ops (mkit [] []) in
  StronglySorted N.lt (it_rets t) /\
  match m_it m' with Some (Some j) => Forall (fun i => i < j) (it_rets t) | _ => True end /\
  forall e, In e (m_list m') ->
    In (e_id e) (it_rets t) \/ In (e_id e) (it_missed t) \/
    match m_it m' with None => True | Some (Some j) => j <= e_id e | Some None => False end.
Proof.
  intros ops m Hi Hit.
  assert (H0 : IInv m (mkit [] [])) by (split; [constructor|]; rewrite Hit; split; reflexivity).
  destruct (irun_IInv ops m _ Hi H0) as [_ HI].
  destruct (irun m ops (mkit [] [])) as [m' t]. cbn [fst snd] in HI. destruct HI as [Hs H].
  split; [assumption|].
  destruct (m_it m') as [[j|]|].
  - destruct H as (H1 & H2 & H3 & H4). split; [assumption|]. intros e He.
    destruct (N.ltb_spec (e_id e) j); [left; apply H4; assumption|right; right; assumption].
  - split; [exact I|]. intros e He. destruct (H e He); [now left|right; now left].
  - split; [exact I|]. intros e He. right. right. exact I.
Qed.

(* strictly increasing identities are pairwise distinct: "exactly once" *)
Lemma ssorted_nodup (l : list N) : StronglySorted N.lt l -> NoDup l.
Proof.
  induction 1 as [|x l Hs IH Hall]; constructor; [|assumption].
  intros Hin. rewrite Forall_forall in Hall. specialize (Hall x Hin). lia.
Qed.

(* nothing is missed unless something is inserted *)
Lemma irun_no_insert_missed : forall ops m t,
  (forall k v, ~ In (MInsert k v) ops) -> it_missed t = [] -> it_missed (snd (irun m ops t)) = [].
Proof.
  induction ops as [|op ops IH]; intros m t Hno Hm; [assumption|].
  cbn [irun]. destruct (mstep m op) as [m1 o]. apply IH; [intros k v H; apply (Hno k v); now right|].
  destruct op as [k v|k|k| | |]; cbn [track]; try assumption; try reflexivity.
  - exfalso. apply (Hno k v). now left.
  - destruct o; assumption.
  - destruct o; assumption.
Qed.

(* the usual loop: iterate (possibly removing entries, by key or through the iterator) until NULL, no
   inserts: when the cursor is past the end, every entry still live has been returned exactly once *)
Corollary iter_loop_complete : forall ops m,
  minv2 m -> m_it m = None -> (forall k v, ~ In (MInsert k v) ops) ->
  let '(m', t) := irun m ops (mkit [] []) in
  m_it m' = Some None ->
  NoDup (it_rets t) /\ forall e, In e (m_list m') -> In (e_id e) (it_rets t).
Proof.
  intros ops m Hi Hit Hno. pose proof (iter_interleaved ops m Hi Hit) as H.
  pose proof (irun_no_insert_missed ops m (mkit [] []) Hno eq_refl) as Hm.
  destruct (irun m ops (mkit [] [])) as [m' t]. cbn [snd] in Hm. intros He.
  destruct H as (Hs & _ & Hc). split; [apply ssorted_nodup; assumption|].
  intros e Hin. specialize (Hc e Hin). rewrite He, Hm in Hc. destruct Hc as [?|[[]|[]]]. assumption.
Qed.

End IterGen.
