(* MapDefs.v - executable model of libks/map.c (the uthash-derived table) with
   its real structure:

     - [m_list]: the elements in application (insertion) order - the doubly
       linked prev/next list from m->head to tbl->tail;
     - [m_tbl]: the UT_hash_table, absent exactly when the map is empty
       (HASH_DELETE of the only element frees it, HASH_ADD into an empty map
       makes a new one with the initial bucket count);
     - buckets: chain (hh_head first; count = its length) and expand_mult;
     - expansion: doubling, rehash in bucket order which reverses the relative
       order inside a chain, ideal_chain_maxlen, nonideal_items, expand_mult,
       ineff_expands, noexpand - transcribed from HASH_EXPAND_BUCKETS;
     - the iterator (it->el, it->nx): fresh, or the element to return next,
       remembered when its predecessor was returned.

   An element is identified by [e_id], the number of the successful insert that
   allocated it: it stands for the address calloc returned, which never
   changes while the element is live (the harness checks exactly that: the
   pointers handed out by insert, find and iterate are translated to these
   numbers).  Keys are byte strings (integer keys: their object
   representation); [e_val] is what the caller stored through the value pointer.

   The hash function is a parameter of every definition here ([hash]); the
   executed instance uses [hash_jen] below, a transcription of HASH_JEN for
   little-endian machines.  Allocation failure paths (calloc returning NULL,
   num_buckets * 2 overflowing 32 bits) are not modelled; counters are
   unbounded N (the C code uses unsigned int; 2^32 items are out of reach). *)
From Robsd Require Export Base.Bytes.
Local Open Scope N_scope.

Record elt := mkelt { e_id : N; e_key : bytes; e_val : Z; e_hash : N }.
Record bucket := mkbkt { bk_chain : list elt; bk_mult : N }.
Record table := mktbl {
  t_bkts : list bucket; t_nb : N; t_log2 : N; t_items : N;
  t_ideal : N; t_nonideal : N; t_ineff : N; t_noexpand : bool }.
(* iterator: None = fresh (el == NULL && nx == NULL); Some nx = started, nx the id of the element to return next *)
Record hmap := mkmap { m_list : list elt; m_tbl : option table; m_next : N; m_it : option (option N) }.

Definition empty_bkt : bucket := mkbkt [] 0.
Definition map0 : hmap := mkmap [] None 0 None.   (* map_init *)

Inductive mop :=
  | MInsert (k : bytes) (v : Z)   (* MAP_INSERT_VALUE *)
  | MFind (k : bytes)
  | MRemove (k : bytes)
  | MIterStart                    (* a zeroed struct map_iterator *)
  | MIterNext                     (* MAP_ITERATE *)
  | MIterNextDel.                 (* MAP_ITERATE, then MAP_REMOVE of the key just returned *)

Inductive mout :=
  | MoPtr (id : N) (v : Z)               (* pointer to the value of element id, which holds v *)
  | MoNull
  | MoUnit
  | MoEnt (id : N) (k : bytes) (v : Z)   (* iterator: element, its key, its value *)
  | MoUB.                                (* the C code would dereference a freed element *)

(* HASH_TO_BKT *)
Definition to_bkt (h nb : N) : nat := N.to_nat (N.land h (nb - 1)).

Fixpoint upd {A} (i : nat) (f : A -> A) (l : list A) : list A :=
  match l, i with
  | [], _ => []
  | x :: l', O => f x :: l'
  | x :: l', S j => x :: upd j f l'
  end.

Definition nlen {A} (l : list A) : N := N.of_nat (length l).

Section Map.
Variable hash : bytes -> N.
Variables init_nb init_log2 thresh : N.

Definition key_matches (h : N) (k : bytes) (e : elt) : bool := (e_hash e =? h) && beq (e_key e) k.

(* HASH_FIND *)
Definition hfind (m : hmap) (k : bytes) : option elt :=
  match m_tbl m with
  | None => None
  | Some t => find (key_matches (hash k) k) (bk_chain (nth (to_bkt (hash k) (t_nb t)) (t_bkts t) empty_bkt))
  end.

(* one element moved into the new bucket array (body of the while loop of HASH_EXPAND_BUCKETS) *)
Definition place (nb2 ideal : N) (acc : list bucket * N) (e : elt) : list bucket * N :=
  let '(bk, nonideal) := acc in
  let i := to_bkt (e_hash e) nb2 in
  let b := nth i bk empty_bkt in
  let cnt := nlen (bk_chain b) + 1 in
  let nonideal' := if ideal <? cnt then nonideal + 1 else nonideal in
  let mult' := if (ideal <? cnt) && (bk_mult b * ideal <? cnt) then bk_mult b + 1 else bk_mult b in
  (upd i (fun _ => mkbkt (e :: bk_chain b) mult') bk, nonideal').

(* HASH_EXPAND_BUCKETS *)
Definition expand (t : table) : table :=
  let nb2 := 2 * t_nb t in
  let ideal := N.shiftr (t_items t) (t_log2 t + 1) + (if N.land (t_items t) (nb2 - 1) =? 0 then 0 else 1) in
  let '(bk, nonideal) :=
    fold_left (place nb2 ideal) (concat (map bk_chain (t_bkts t))) (repeat empty_bkt (N.to_nat nb2), 0) in
  let ineff := if N.shiftr (t_items t) 1 <? nonideal then t_ineff t + 1 else 0 in
  mktbl bk nb2 (t_log2 t + 1) (t_items t) ideal nonideal ineff (t_noexpand t || (1 <? ineff)).

(* HASH_ADD_TO_TABLE *)
Definition add_to_table (t : table) (e : elt) : table :=
  let i := to_bkt (e_hash e) (t_nb t) in
  let b := nth i (t_bkts t) empty_bkt in
  let t1 := mktbl (upd i (fun _ => mkbkt (e :: bk_chain b) (bk_mult b)) (t_bkts t)) (t_nb t) (t_log2 t)
                  (t_items t + 1) (t_ideal t) (t_nonideal t) (t_ineff t) (t_noexpand t) in
  if ((bk_mult b + 1) * thresh <=? nlen (bk_chain b) + 1) && negb (t_noexpand t) then expand t1 else t1.

(* HASH_MAKE_TABLE *)
Definition make_table : table :=
  mktbl (repeat empty_bkt (N.to_nat init_nb)) init_nb init_log2 0 0 0 0 false.

(* map_insert_n + HASH_ADD *)
Definition hinsert (m : hmap) (k : bytes) (v : Z) : hmap * elt :=
  let e := mkelt (m_next m) k v (hash k) in
  match m_tbl m with
  | None => (mkmap [e] (Some (add_to_table make_table e)) (m_next m + 1) (m_it m), e)
  | Some t => (mkmap (m_list m ++ [e]) (Some (add_to_table t e)) (m_next m + 1) (m_it m), e)
  end.

Definition id_is (i : N) (e : elt) : bool := e_id e =? i.
Definition drop_id (i : N) (l : list elt) : list elt := filter (fun e => negb (id_is i e)) l.

(* HASH_DELETE + HASH_DEL_IN_BKT *)
Definition hdelete (m : hmap) (d : elt) : hmap :=
  match m_tbl m with
  | None => m
  | Some t =>
      match drop_id (e_id d) (m_list m) with
      | [] => mkmap [] None (m_next m) (m_it m)          (* prev == NULL && next == NULL: the table is freed *)
      | l' =>
          let i := to_bkt (e_hash d) (t_nb t) in
          mkmap l' (Some (mktbl (upd i (fun b => mkbkt (drop_id (e_id d) (bk_chain b)) (bk_mult b)) (t_bkts t))
                                (t_nb t) (t_log2 t) (t_items t - 1) (t_ideal t) (t_nonideal t) (t_ineff t) (t_noexpand t)))
                (m_next m) (m_it m)
      end
  end.

(* the element with that id and the id of its successor in application order *)
Fixpoint locate (i : N) (l : list elt) : option (elt * option N) :=
  match l with
  | [] => None
  | e :: l' => if id_is i e then Some (e, match l' with [] => None | e' :: _ => Some (e_id e') end)
               else locate i l'
  end.

(* map_iterate: (new iterator, element returned); None in the outer option = use after free *)
Definition iterate (m : hmap) : option (option (option N) * option elt) :=
  match m_it m with
  | None =>
      match m_list m with
      | [] => Some (None, None)
      | e :: l' => Some (Some (match l' with [] => None | e' :: _ => Some (e_id e') end), Some e)
      end
  | Some None => Some (Some None, None)
  | Some (Some i) =>
      match locate i (m_list m) with
      | None => None
      | Some (e, nx) => Some (Some nx, Some e)
      end
  end.

Definition set_it (m : hmap) (it : option (option N)) : hmap := mkmap (m_list m) (m_tbl m) (m_next m) it.

Definition mstep (m : hmap) (op : mop) : hmap * mout :=
  match op with
  | MInsert k v => let '(m', e) := hinsert m k v in (m', MoPtr (e_id e) (e_val e))
  | MFind k => (m, match hfind m k with Some e => MoPtr (e_id e) (e_val e) | None => MoNull end)
  | MRemove k => (match hfind m k with Some e => hdelete m e | None => m end, MoUnit)
  | MIterStart => (set_it m None, MoUnit)
  | MIterNext =>
      match iterate m with
      | None => (m, MoUB)
      | Some (it, None) => (set_it m it, MoNull)
      | Some (it, Some e) => (set_it m it, MoEnt (e_id e) (e_key e) (e_val e))
      end
  | MIterNextDel =>
      match iterate m with
      | None => (m, MoUB)
      | Some (it, None) => (set_it m it, MoNull)
      | Some (it, Some e) =>
          let m1 := set_it m it in
          (match hfind m1 (e_key e) with Some d => hdelete m1 d | None => m1 end, MoEnt (e_id e) (e_key e) (e_val e))
      end
  end.

(* second observation channel: the shape of the table after the operation *)
Record shape := mkshape { s_nb : N; s_items : N; s_noexpand : bool; s_ineff : N; s_nonideal : N; s_ideal : N }.
Definition shape_of (m : hmap) : option shape :=
  match m_tbl m with
  | None => None
  | Some t => Some (mkshape (t_nb t) (t_items t) (t_noexpand t) (t_ineff t) (t_nonideal t) (t_ideal t))
  end.

Fixpoint mrun (m : hmap) (ops : list mop) : hmap * list (mout * option shape) :=
  match ops with
  | [] => (m, [])
  | op :: ops' =>
      let '(m1, o) := mstep m op in
      let '(m2, tr) := mrun m1 ops' in
      (m2, (o, shape_of m1) :: tr)
  end.

(* full structure: for every bucket, expand_mult and the ids of its chain, head first *)
Definition structure_of (m : hmap) : list (N * list N) :=
  match m_tbl m with
  | None => []
  | Some t => map (fun b => (bk_mult b, map e_id (bk_chain b))) (t_bkts t)
  end.

End Map.

(* ---- HASH_JEN (Bob Jenkins' one-at-a-time mix as used by uthash), 32-bit wrap-around,
        little-endian 32-bit reads ------------------------------------------------------ *)
Definition M32 : N := 4294967296.
Definition w32 (x : N) : N := x mod M32.
Definition sub32 (a b : N) : N := (a + M32 - w32 b) mod M32.
Definition shl32 (a k : N) : N := w32 (N.shiftl a k).

Definition jen_mix (a b c : N) : N * N * N :=
  let a := N.lxor (sub32 (sub32 a b) c) (N.shiftr c 13) in
  let b := N.lxor (sub32 (sub32 b c) a) (shl32 a 8) in
  let c := N.lxor (sub32 (sub32 c a) b) (N.shiftr b 13) in
  let a := N.lxor (sub32 (sub32 a b) c) (N.shiftr c 12) in
  let b := N.lxor (sub32 (sub32 b c) a) (shl32 a 16) in
  let c := N.lxor (sub32 (sub32 c a) b) (N.shiftr b 5) in
  let a := N.lxor (sub32 (sub32 a b) c) (N.shiftr c 3) in
  let b := N.lxor (sub32 (sub32 b c) a) (shl32 a 10) in
  let c := N.lxor (sub32 (sub32 c a) b) (N.shiftr b 15) in
  (a, b, c).

Definition le32 (b0 b1 b2 b3 : N) : N := b0 + 256 * b1 + 65536 * b2 + 16777216 * b3.

(* the tail switch: bytes 0-3 go to i, 4-7 to j, 8-10 to the upper three bytes of hashv *)
Definition jen_tail (l : bytes) (i j h : N) : N * N * N :=
  let g n := nth n l 0 in
  let len := length l in
  let has n := Nat.ltb n len in
  let i := w32 (i + (if has 0%nat then g 0%nat else 0) + (if has 1%nat then 256 * g 1%nat else 0)
                 + (if has 2%nat then 65536 * g 2%nat else 0) + (if has 3%nat then 16777216 * g 3%nat else 0)) in
  let j := w32 (j + (if has 4%nat then g 4%nat else 0) + (if has 5%nat then 256 * g 5%nat else 0)
                 + (if has 6%nat then 65536 * g 6%nat else 0) + (if has 7%nat then 16777216 * g 7%nat else 0)) in
  let h := w32 (h + (if has 8%nat then 256 * g 8%nat else 0) + (if has 9%nat then 65536 * g 9%nat else 0)
                 + (if has 10%nat then 16777216 * g 10%nat else 0)) in
  (i, j, h).

Fixpoint jen_loop (fuel : nat) (l : bytes) (i j h : N) : bytes * N * N * N :=
  match fuel, l with
  | S f, b0 :: b1 :: b2 :: b3 :: b4 :: b5 :: b6 :: b7 :: b8 :: b9 :: b10 :: b11 :: l' =>
      let '(i, j, h) := jen_mix (w32 (i + le32 b0 b1 b2 b3)) (w32 (j + le32 b4 b5 b6 b7)) (w32 (h + le32 b8 b9 b10 b11)) in
      jen_loop f l' i j h
  | _, _ => (l, i, j, h)
  end.

Definition hash_jen (k : bytes) : N :=
  let '(rest, i, j, h) := jen_loop (length k) k 2654435769 2654435769 4276993775 in
  let h := w32 (h + nlen k) in
  let '(i, j, h) := jen_tail rest i j h in
  let '(_, _, h) := jen_mix i j h in h.
