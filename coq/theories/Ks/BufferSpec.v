(* BufferSpec.v - the buffer as a plain byte string program (no capacity, no
   doubling, no offsets), and the oracle replaying an observed trace.

   Lines are specified by Base/Bytes.v: [getlines] splits at newlines (a final
   line without newline counts, an empty tail does not), [clines] is what the
   caller of buffer_getline sees (each line as a C string). *)
From Robsd Require Export Ks.BufferDefs Ks.VectorSpec.
Local Open Scope Z_scope.

Definition ends_with_nul (l : bytes) : bool :=
  match rev l with c :: _ => (c =? 0)%N | [] => false end.

Definition zmin (a b : Z) : Z := if a <? b then a else b.

Definition sstep (l : bytes) (op : bop) : bytes * bout :=
  match op with
  | BPuts s => (l ++ s, BoInt 0)
  | BPutc c => (l ++ [c], BoInt 0)
  | BPrintf s => (l ++ s, BoInt 0)
  | BPutsHuge _ => (l, BoInt 0)
  | BStr => ([], BoBytes (cstr l))                       (* the contents as a C string *)
  | BReset => ([], BoUnit)
  | BPop n => (firstn (Z.to_nat (zlen l - zmin (zlen l) n)) l, BoInt (zmin (zlen l) n))
  | BCmp s => (l, BoInt (if beq l s then 0 else 1))      (* only "zero iff equal" is specified *)
  | BLen => (l, BoInt (zlen l))
  | BDump => (l, BoBytes l)
  | BLines => (l, BoLines (clines l))
  end.

Definition brequest (l : bytes) (op : bop) : option Z :=
  match op with
  | BPuts s => if zlen s =? 0 then None else Some (zlen s)
  | BPutc _ => Some 1
  | BPrintf s => Some (zlen s + 1)
  | BPutsHuge n => if n =? 0 then None else Some n
  | BStr => if ends_with_nul l then None else Some 1
  | _ => None
  end.

Definition bis_failure (op : bop) (o : bout) : bool :=
  match op, o with
  | BPuts _, BoInt 1 | BPutc _, BoInt 1 | BPrintf _, BoInt 1 | BPutsHuge _, BoInt 1 => true
  | BStr, BoNull => true
  | _, _ => false
  end.

Definition bmust_fail (l : bytes) (op : bop) : bool :=
  match brequest l op with Some n => ULONG_MAX <? zlen l + n | None => false end.
Definition bsmall_request (l : bytes) (op : bop) : bool :=
  match brequest l op with Some n => zlen l + n <=? SMALL | None => true end.

Fixpoint lines_eqb (a b : list bytes) : bool :=
  match a, b with
  | [], [] => true
  | x :: a', y :: b' => beq x y && lines_eqb a' b'
  | _, _ => false
  end.

(* observed result against specified result *)
Definition bout_ok (op : bop) (o spec : bout) : bool :=
  match op, o, spec with
  | BCmp _, BoInt r, BoInt z => Bool.eqb (r =? 0) (z =? 0)
  | _, BoInt r, BoInt z => r =? z
  | _, BoBytes a, BoBytes b => beq a b
  | _, BoNull, BoNull | _, BoUnit, BoUnit => true
  | _, BoLines a, BoLines b => lines_eqb a b
  | _, _, _ => false
  end.

Fixpoint spec_ok_buf (l : bytes) (tr : list (bop * bout)) : bool :=
  match tr with
  | [] => true
  | (op, o) :: tr' =>
      if bis_failure op o then negb (bsmall_request l op) && spec_ok_buf l tr'
      else negb (bmust_fail l op) && bout_ok op o (snd (sstep l op)) && spec_ok_buf (fst (sstep l op)) tr'
  end.

(* the same replay when allocation failures may strike anywhere: a failed puts / putc / printf / str is
   accepted at any size and must change nothing *)
Fixpoint spec_ok_buf_faulty (l : bytes) (tr : list (bop * bout)) : bool :=
  match tr with
  | [] => true
  | (op, o) :: tr' =>
      if bis_failure op o then spec_ok_buf_faulty l tr'
      else negb (bmust_fail l op) && bout_ok op o (snd (sstep l op)) && spec_ok_buf_faulty (fst (sstep l op)) tr'
  end.

Fixpoint bspec_final (l : bytes) (tr : list (bop * bout)) : bytes :=
  match tr with
  | [] => l
  | (op, o) :: tr' => if bis_failure op o then bspec_final l tr' else bspec_final (fst (sstep l op)) tr'
  end.
