(* GetlineSpec.v - the byte-string program of Ks/BufferSpec.v extended by single buffer_getline calls that are
   INTERLEAVED with the other operations: the specification keeps the contents [l] (BufferSpec.sstep) and the
   offset [off] of the iterator; a call answers the first line of what lies at and after the offset in the
   CURRENT contents ([gline_spec], stated through Base/Bytes.getlines only), or NULL - which rewinds the
   iterator - when nothing is left.  [spec_ok_gbuf] replays an observed trace; the harness applies it to
   libks/buffer.c, Ks/GetlineRun.v proves that it accepts every run of the model [grun]. *)
From Robsd Require Export Ks.GetlineDefs Ks.BufferSpec.
Local Open Scope Z_scope.

Definition gline_out_ok (o spec : option bytes) : bool :=
  match o, spec with
  | None, None => true
  | Some a, Some b => beq a b
  | _, _ => false
  end.

Fixpoint spec_ok_gbuf (l : bytes) (off : nat) (tr : list (gop * gout)) : bool :=
  match tr with
  | [] => true
  | (GBuf op, GoBuf o) :: tr' =>
      if bis_failure op o then negb (bsmall_request l op) && spec_ok_gbuf l off tr'
      else negb (bmust_fail l op) && bout_ok op o (snd (sstep l op)) && spec_ok_gbuf (fst (sstep l op)) off tr'
  | (GLine, GoLine r) :: tr' =>
      gline_out_ok r (snd (gline_spec l off)) && spec_ok_gbuf l (fst (gline_spec l off)) tr'
  | _ => false
  end.

(* contents and offset the specification ends with *)
Fixpoint gspec_final (l : bytes) (off : nat) (tr : list (gop * gout)) : bytes * nat :=
  match tr with
  | [] => (l, off)
  | (GBuf op, GoBuf o) :: tr' => if bis_failure op o then gspec_final l off tr' else gspec_final (fst (sstep l op)) off tr'
  | (GLine, _) :: tr' => gspec_final l (fst (gline_spec l off)) tr'
  | _ :: tr' => gspec_final l off tr'
  end.

Definition gtrace_of (ops : list gop) (tr : list (gout * Z)) : list (gop * gout) := combine ops (map fst tr).
