(* MapMultiSpec.v - the map as a MULTI-dictionary: what libks/map.c promises when
   callers do NOT keep to "insert only while absent" (report.c regress_suites and
   robsd-wait.c parse_pids call MAP_INSERT_VALUE without a preceding MAP_FIND, so a
   repeated regress path / pid creates a second element with the same key).

   State: the association list of MapSpec.v (entries in insertion order, an entry
   is key |-> (handle, value)), now WITHOUT the assumption that keys are distinct.
   No hashing, no buckets, no chain order.  Where several live entries carry the
   key, the specification does not say which of them MAP_FIND / MAP_REMOVE picks:
     insert k v      appends a new entry, always
     find k          NULL iff no live entry has key k; otherwise SOME live entry
                     with key k (its handle and its value)
     remove k        nothing if no live entry has key k; otherwise removes exactly
                     ONE live entry with key k, every other entry stays
     iterate         walks the list in insertion order (MapSpec.diterate);
                     iterate+remove removes ONE entry carrying the key of the
                     entry just returned (with duplicates: not necessarily that one)
   [mdsteps d op o] lists the states the specification allows after [op] was
   observed to answer [o] from state [d]; an empty list = the answer is not
   allowed.  [spec_ok_multi] replays a whole observed trace (the set of
   candidate states stays a singleton as long as keys are distinct).

   Definitions only; proofs in Ks/MapDup.v. *)
From Robsd Require Export Ks.MapSpec.
Local Open Scope N_scope.

Definition with_key (k : bytes) (l : list entry) : list entry :=
  filter (fun e => beq (ent_key e) k) l.
Definition dremove_id (l : list entry) (i : N) : list entry :=
  filter (fun e => negb (ent_id e =? i)) l.
Definition set_dit (d : dict) (it : option (option N)) : dict := mkdict (d_ents d) (d_next d) it.

(* the states after MAP_REMOVE(k) *)
Definition md_remove (d : dict) (k : bytes) : list dict :=
  match with_key k (d_ents d) with
  | [] => [d]
  | es => map (fun e => mkdict (dremove_id (d_ents d) (ent_id e)) (d_next d) (d_it d)) es
  end.

Definition ent_mout (e : entry) : mout := MoEnt (ent_id e) (ent_key e) (ent_val e).

Definition mdsteps (d : dict) (op : mop) (o : mout) : list dict :=
  match op with
  | MInsert k v =>
      if mout_eqb o (MoPtr (d_next d) v)
      then [mkdict (d_ents d ++ [(k, (d_next d, v))]) (d_next d + 1) (d_it d)] else []
  | MFind k =>
      match o with
      | MoNull => match with_key k (d_ents d) with [] => [d] | _ => [] end
      | MoPtr i v =>
          if existsb (fun e => (ent_id e =? i) && (ent_val e =? v)%Z) (with_key k (d_ents d)) then [d] else []
      | _ => []
      end
  | MRemove k => match o with MoUnit => md_remove d k | _ => [] end
  | MIterStart => match o with MoUnit => [set_dit d None] | _ => [] end
  | MIterNext =>
      match diterate d with
      | None => match o with MoUB => [d] | _ => [] end       (* the C iterator holds a dangling pointer *)
      | Some (it, None) => match o with MoNull => [set_dit d it] | _ => [] end
      | Some (it, Some e) => if mout_eqb o (ent_mout e) then [set_dit d it] else []
      end
  | MIterNextDel =>
      match diterate d with
      | None => match o with MoUB => [d] | _ => [] end
      | Some (it, None) => match o with MoNull => [set_dit d it] | _ => [] end
      | Some (it, Some e) => if mout_eqb o (ent_mout e) then md_remove (set_dit d it) (ent_key e) else []
      end
  end.

(* all states the specification allows after the observed trace, from any of [ds] *)
Fixpoint mdrun (ds : list dict) (ops : list mop) (outs : list mout) : list dict :=
  match ops, outs with
  | [], [] => ds
  | op :: ops', o :: outs' => mdrun (flat_map (fun d => mdsteps d op o) ds) ops' outs'
  | _, _ => []
  end.

(* the oracle: some resolution of the unspecified choices explains every observed answer *)
Definition spec_ok_multi (ops : list mop) (outs : list mout) : bool :=
  match mdrun [dict0] ops outs with [] => false | _ => true end.

(* how many candidate states the replay ends with (reported by the harness) *)
Definition multi_width (ops : list mop) (outs : list mout) : nat := length (mdrun [dict0] ops outs).
