(* KillSpec.v - C07: the specification, written over what can be seen from
   outside (no program counters, no runner variables):

     members : the step's processes (disposition, whether/with what code they can exit on their own)
     history : which event happened while the step was running (SIGTERM reached the runner, the
               configured timeout expired), which signal reached the runner after the main process
               had been reaped, who exited on its own, whether the step's process group failed to
               come up within the handshake timeout
     obs     : how the runner ended, whether the main process was reaped, who is
               still alive, which signals the runner sent to the group

   [cut_ok]   - there was an event (SIGTERM / timeout) while the step was running
   [uncut_ok] - there was none
   and the boolean oracle [spec_okb], applied by the harness to what the real
   robsd-exec did. *)
From Robsd Require Export Exec.KillDefs.
Local Open Scope Z_scope.

Definition final_sig (h : history) : option Z :=
  match h_late h with Some g => Some g | None => h_event h end.

Definition main_disp (ms : list member) : option disp :=
  match ms with m :: _ => Some (m_disp m) | [] => None end.

(* the main process exited on its own, with a code that is 0 modulo 256 *)
Definition main_exited_zero (ms : list member) (h : history) : Prop :=
  exists m ms' c, ms = m :: ms' /\ m_early m = Some c /\ c mod 256 = 0 /\ nth 0 (h_self h) false = true.

(* ---- an event arrived while the step was running ------------------------------------------
   the runner exits by itself, after having sent SIGTERM to the whole group and
   having reaped the main process; it escalates to SIGKILL only against a main
   process that ignores SIGTERM, and then nobody is left; no member with the
   default disposition is alive; the status is 124 if the last signal was the
   alarm and non-zero otherwise - unless the main process exited by itself with
   0 before the kill reached it (then the step completed and its 0 is reported) *)
Definition cut_ok (ms : list member) (h : history) (o : obs) : Prop :=
  length (o_alive o) = length ms /\
  exists c,
    o_result o = RExit c /\
    o_main o = MReaped /\
    (forall i m, nth_error ms i = Some m -> m_disp m = Default -> nth_error (o_alive o) i = Some false) /\
    (o_kills o = [SIGTERM] \/
     (o_kills o = [SIGTERM; SIGKILL] /\ main_disp ms = Some Ignore /\
      forall i a, nth_error (o_alive o) i = Some a -> a = false)) /\
    (final_sig h = Some SIGALRM -> c = 124) /\
    (c <> 0 \/ main_exited_zero ms h).

(* ---- no event while the step was running --------------------------------------------------
   the runner sends nothing to the group and does not die from a signal; nobody
   is dead except by its own exit; if the runner exits, the main process exited
   on its own and was reaped, and the status is the main process's exit code
   (124 if the alarm fired after the step had already ended); when the process group
   did not come up in time the runner reports that as a failure: the main process's
   code if that is not 0, else 1 *)
Definition uncut_ok (ms : list member) (h : history) (o : obs) : Prop :=
  length (o_alive o) = length ms /\
  o_kills o = [] /\
  (forall g, o_result o <> RKilled g) /\
  (forall i a, nth_error (o_alive o) i = Some a -> a = negb (nth i (h_self h) false)) /\
  (forall c, o_result o = RExit c ->
     o_main o = MReaped /\
     exists m ms' k, ms = m :: ms' /\ m_early m = Some k /\ nth 0 (h_self h) false = true /\
       if h_slow h then c <> 0 /\ (k mod 256 <> 0 -> c = k mod 256)
       else (h_late h <> Some SIGALRM /\ c = k mod 256) \/ (h_late h = Some SIGALRM /\ c = 124)).

Definition spec (ms : list member) (h : history) (o : obs) : Prop :=
  match h_event h with
  | Some _ => cut_ok ms h o
  | None => uncut_ok ms h o
  end.

(* ---- the boolean oracle ------------------------------------------------------------------------- *)

Definition opt_is (o : option Z) (v : Z) : bool :=
  match o with Some x => x =? v | None => false end.

Fixpoint zlist_eqb (a b : list Z) : bool :=
  match a, b with
  | [], [] => true
  | x :: a', y :: b' => (x =? y) && zlist_eqb a' b'
  | _, _ => false
  end.

Fixpoint default_dead (ms : list member) (alive : list bool) : bool :=
  match ms, alive with
  | [], _ => true
  | m :: ms', a :: al' => (negb (is_default (m_disp m)) || negb a) && default_dead ms' al'
  | _ :: _, [] => false
  end.

Definition all_dead (alive : list bool) : bool := forallb negb alive.

Definition main_exited_zerob (ms : list member) (h : history) : bool :=
  match ms with
  | m :: _ => match m_early m with
              | Some c => (c mod 256 =? 0) && nth 0 (h_self h) false
              | None => false
              end
  | [] => false
  end.

Definition main_ignores (ms : list member) : bool :=
  match ms with m :: _ => negb (is_default (m_disp m)) | [] => false end.

Definition cut_okb (ms : list member) (h : history) (o : obs) : bool :=
  Nat.eqb (length (o_alive o)) (length ms) &&
  match o_result o with
  | RExit c =>
      match o_main o with
      | MReaped =>
          default_dead ms (o_alive o) &&
          (zlist_eqb (o_kills o) [SIGTERM] ||
           (zlist_eqb (o_kills o) [SIGTERM; SIGKILL] && main_ignores ms && all_dead (o_alive o))) &&
          (negb (opt_is (final_sig h) SIGALRM) || (c =? 124)) &&
          (negb (c =? 0) || main_exited_zerob ms h)
      | _ => false
      end
  | _ => false
  end.

Fixpoint alive_matches (alive self : list bool) : bool :=
  match alive with
  | [] => true
  | a :: al' => Bool.eqb a (negb (hd false self)) && alive_matches al' (tl self)
  end.

Definition uncut_okb (ms : list member) (h : history) (o : obs) : bool :=
  Nat.eqb (length (o_alive o)) (length ms) &&
  zlist_eqb (o_kills o) [] &&
  alive_matches (o_alive o) (h_self h) &&
  match o_result o with
  | RKilled _ => false
  | RHang => true
  | RExit c =>
      match o_main o, ms with
      | MReaped, m :: _ =>
          match m_early m with
          | Some k => nth 0 (h_self h) false &&
                      (if h_slow h then negb (c =? 0) && ((k mod 256 =? 0) || (c =? k mod 256))
                       else if opt_is (h_late h) SIGALRM then c =? 124 else c =? k mod 256)
          | None => false
          end
      | _, _ => false
      end
  end.

Definition spec_okb (ms : list member) (h : history) (o : obs) : bool :=
  match h_event h with
  | Some _ => cut_okb ms h o
  | None => uncut_okb ms h o
  end.
