(* ArgvRun.v - the step runner as a whole (property C06, second sentence):
     - the runner exits 0 exactly when the command exited 0 ([run_zero_iff]),
       with the two exact exceptions stated as witnesses: a caught SIGALRM
       ([alarm_masks_exit_zero]) and a fork handshake that times out
       ([handshake_masks_exit_zero], model [run_fork] of ArgvDefs.v);
     - the shape of the vector of a script step: sh -eu [-x] <script> <name>
       ([script_argv_shape]) and the one way -x is lost ([trace_shadowed]);
     - a command of which nothing is left after interpolation ([empty_argv]);
     - the boolean oracle the harness applies to robsd-exec accepts every run of
       the model ([oracle_accepts_model]), so that the oracle is tied to the
       theorems;
     - robsd-hook: the three outcomes characterised ([hook_outcomes]).

   "No crash" is relative to the sites the model has: (1) find_step reading the
   length of a NULL schedule (VECTOR_LENGTH(NULL); guarded since fix 0771f90 -
   [find_step_null_checked]), (2) exitstatus() on an arbitrary int (translated
   from the compiler's AST; total, [exit_of_wait_eq]), (3) execvp(NULL, ...) for
   an empty vector - that is the forked CHILD, the runner reports its death.
   Allocation failures and err(3) exits of libks are not modelled. *)
From Robsd Require Import Exec.ArgvSpec Exec.ArgvProofs Interp.InterpProofs.
From RobsdGen Require Import Gen_Interp.
Local Open Scope N_scope.

(* ---------------------------------------------------------------- exit 0 iff the command exited 0 *)
Local Open Scope Z_scope.

(* what the kernel can answer for an argument vector: execvp fails, or a status waitpid(2) produces *)
Definition kernel_ok (k : kres) : Prop :=
  match k with KNoExec => True | KWait w => kernel_status w end.

Lemma child_status_zero_iff k g :
  kernel_ok k -> g <> sigalrm -> (exit_spec (child_status k) g = 0 <-> k = KWait (w_exited 0)).
Proof.
  intros Hk Hg. destruct k as [|w]; cbn [child_status kernel_ok] in *.
  - split; [intros H; exfalso; exact (noexec_exit g H)|discriminate].
  - rewrite (exit_zero_iff_exited_zero w g Hk Hg). split; [now intros ->|intros H; now inversion H].
Qed.

(* the runner as a whole, any outcome of the resolution *)
Theorem run_zero_iff cv trace name kern g :
  g <> sigalrm -> (forall argv, kernel_ok (kern argv)) ->
  exists r, run_with true cv trace name kern g = Exited r /\
    (rr_exit r = 0 <-> exists argv, resolve true cv trace name = RArgv argv /\ kern argv = KWait (w_exited 0)) /\
    (rr_exit r = 0 -> rr_diag r = []) /\ (rr_exit r <> 0 -> rr_diag r <> []).
Proof.
  intros Hg Hk. unfold run_with.
  destruct (resolve true cv trace name) as [argv|d|] eqn:Hr.
  - rewrite exit_of_wait_eq. eexists. split; [reflexivity|]. cbn [rr_exit rr_diag].
    pose proof (child_status_zero_iff (kern argv) g (Hk argv) Hg) as Hz. repeat split.
    + intros H. exists argv. split; [reflexivity|now apply Hz].
    + intros [a [Ha Hka]]. inversion Ha; subst a. now apply Hz.
    + intros H. rewrite H. cbn [Z.eqb]. apply Hz in H. now rewrite H.
    + intros Hne. destruct (Z.eqb_spec (exit_spec (child_status (kern argv)) g) 0); [contradiction|].
      destruct (kern argv); discriminate.
  - eexists. split; [reflexivity|]. cbn [rr_exit rr_diag]. repeat split.
    + intros H. exfalso. exact (notfound_nonzero H).
    + intros [a [Ha _]]. discriminate Ha.
    + intros H. exfalso. exact (notfound_nonzero H).
    + intros _. unfold resolve in Hr. destruct (interp_steps _ _); [destruct (find_step _ _)|]; inversion Hr; discriminate.
  - exfalso. exact (resolve_checked_never_crashes cv trace name Hr).
Qed.

(* exception 1: a SIGALRM caught by the runner (regress-timeout) - the status is 124 whatever the command did,
   also when the command had already exited 0 when the alarm went off *)
Lemma alarm_masks_exit_zero cv trace name kern argv :
  resolve true cv trace name = RArgv argv -> kern argv = KWait (w_exited 0) ->
  exists d, run_with true cv trace name kern sigalrm = Exited (mkrun (Some argv) 124 d).
Proof.
  intros Hr Hk. unfold run_with. rewrite Hr, exit_of_wait_eq, Hk. cbn [child_status].
  rewrite exit_spec_timeout. eexists. reflexivity.
Qed.

(* ---------------------------------------------------------------- exception 2: the fork handshake *)
Lemma run_fork_ok checked cv trace name kern g :
  run_fork checked cv trace name kern g HsOk = run_with checked cv trace name kern g.
Proof. reflexivity. Qed.

(* a handshake that times out never yields 0 and always says why *)
Theorem handshake_late_nonzero cv trace name kern g :
  exists r, run_fork true cv trace name kern g HsLate = Exited r /\ rr_exit r <> 0 /\ rr_diag r <> [] /\
    (forall argv, resolve true cv trace name = RArgv argv ->
       rr_argv r = Some argv /\ In DGroupFail (rr_diag r) /\
       rr_exit r = (if exit_spec (child_status (kern argv)) 0 =? 0 then 1 else exit_spec (child_status (kern argv)) 0)).
Proof.
  unfold run_fork. destruct (resolve true cv trace name) as [argv|d|] eqn:Hr.
  - rewrite exit_of_wait_eq. eexists. split; [reflexivity|]. cbn [rr_exit rr_diag rr_argv]. repeat split.
    + destruct (Z.eqb_spec (exit_spec (child_status (kern argv)) 0) 0); [discriminate|assumption].
    + discriminate.
    + inversion H; reflexivity.
    + now left.
    + inversion H; reflexivity.
  - eexists. split; [reflexivity|]. cbn [rr_exit rr_diag]. repeat split.
    + exact notfound_nonzero.
    + unfold resolve in Hr. destruct (interp_steps _ _); [destruct (find_step _ _)|]; inversion Hr; discriminate.
    + discriminate.
    + discriminate.
    + discriminate.
  - exfalso. exact (resolve_checked_never_crashes cv trace name Hr).
Qed.

(* ... and when a SIGTERM interrupts the parent's wait on that path: status 1 at once, whatever the command does *)
Theorem handshake_late_interrupted cv trace name kern g :
  exists r, run_fork true cv trace name kern g HsLateIntr = Exited r /\ rr_exit r <> 0 /\ rr_diag r <> [] /\
    (forall argv, resolve true cv trace name = RArgv argv ->
       rr_argv r = Some argv /\ rr_diag r = [DGroupFail] /\ rr_exit r = 1).
Proof.
  unfold run_fork. destruct (resolve true cv trace name) as [argv|d|] eqn:Hr.
  - eexists. split; [reflexivity|]. cbn [rr_exit rr_diag rr_argv].
    split; [discriminate|]. split; [discriminate|]. intros a Ha. inversion Ha; subst a. repeat split.
  - eexists. split; [reflexivity|]. cbn [rr_exit rr_diag].
    split; [exact notfound_nonzero|]. split; [|intros a Ha; discriminate Ha].
    unfold resolve in Hr. destruct (interp_steps _ _); [destruct (find_step _ _)|]; inversion Hr; discriminate.
  - exfalso. exact (resolve_checked_never_crashes cv trace name Hr).
Qed.

(* REFUTED in that case: the command exited 0, the runner exits 1 *)
Lemma handshake_masks_exit_zero cv trace name kern g argv :
  resolve true cv trace name = RArgv argv -> kern argv = KWait (w_exited 0) ->
  run_fork true cv trace name kern g HsLate = Exited (mkrun (Some argv) 1 [DGroupFail]).
Proof.
  intros Hr Hk. unfold run_fork. rewrite Hr, exit_of_wait_eq, Hk. reflexivity.
Qed.

(* a non-zero code still passes through unchanged *)
Lemma handshake_late_passes_code cv trace name kern g argv code :
  resolve true cv trace name = RArgv argv -> 1 <= code <= 255 -> kern argv = KWait (w_exited code) ->
  run_fork true cv trace name kern g HsLate = Exited (mkrun (Some argv) code [DGroupFail]).
Proof.
  intros Hr Hc Hk. unfold run_fork. rewrite Hr, exit_of_wait_eq, Hk. cbn [child_status].
  rewrite exit_spec_exited by (unfold sigalrm; lia || discriminate).
  destruct (Z.eqb_spec code 0); [lia|reflexivity].
Qed.

(* the statement with its exact guard: handshake in time and no alarm caught *)
Theorem run_fork_zero_iff cv trace name kern g hs :
  (forall argv, kernel_ok (kern argv)) ->
  exists r, run_fork true cv trace name kern g hs = Exited r /\
    (hs = HsOk -> g <> sigalrm ->
       (rr_exit r = 0 <-> exists argv, resolve true cv trace name = RArgv argv /\ kern argv = KWait (w_exited 0))) /\
    (rr_exit r = 0 -> hs = HsOk /\ g <> sigalrm /\ exists argv, resolve true cv trace name = RArgv argv) /\
    (rr_exit r <> 0 -> rr_diag r <> []).
Proof.
  intros Hk. destruct hs.
  - rewrite run_fork_ok.
    destruct (Z.eq_dec g sigalrm) as [->|Hg].
    + unfold run_with. destruct (resolve true cv trace name) as [argv|d|] eqn:Hr.
      * rewrite exit_of_wait_eq, exit_spec_timeout. eexists. split; [reflexivity|]. cbn [rr_exit rr_diag].
        split; [intros _ H; exfalso; apply H; reflexivity|]. split; [discriminate|].
        intros _. destruct (kern argv); discriminate.
      * eexists. split; [reflexivity|]. cbn [rr_exit rr_diag].
        split; [intros _ H; exfalso; apply H; reflexivity|]. split; [intros H; exfalso; exact (notfound_nonzero H)|].
        intros _. unfold resolve in Hr. destruct (interp_steps _ _); [destruct (find_step _ _)|]; inversion Hr; discriminate.
      * exfalso. exact (resolve_checked_never_crashes cv trace name Hr).
    + destruct (run_zero_iff cv trace name kern g Hg Hk) as [r [Hr [Hz [Hd Hn]]]].
      exists r. split; [exact Hr|]. split; [intros _ _; exact Hz|]. split; [|exact Hn].
      intros H0. split; [reflexivity|]. split; [exact Hg|]. apply Hz in H0. destruct H0 as [a [Ha _]]. eauto.
  - destruct (handshake_late_nonzero cv trace name kern g) as [r [Hr [Hne [Hd _]]]].
    exists r. split; [exact Hr|]. split; [discriminate|]. split; [contradiction|]. intros _. exact Hd.
  - destruct (handshake_late_interrupted cv trace name kern g) as [r [Hr [Hne [Hd _]]]].
    exists r. split; [exact Hr|]. split; [discriminate|]. split; [contradiction|]. intros _. exact Hd.
Qed.

(* ---------------------------------------------------------------- the vector of a script step *)
Local Open Scope N_scope.

Definition SH : bytes := [115; 104].
Definition EU : bytes := [45; 101; 117].

Lemma trace_lookup cv trace : alookup (cv_vars cv) TRACE = None -> env_of cv trace TRACE = Some (trace_value trace).
Proof.
  intros Hn. unfold env_of, env_list. cbn [app].
  induction (cv_vars cv) as [|[k v] l IH]; cbn [alookup app] in *; [now rewrite beq_refl|].
  destruct (beq k TRACE); [discriminate|]. now apply IH.
Qed.

Lemma renders_plain env s : nonul s -> ~ In DOLLAR s -> renders env s s.
Proof.
  intros Hn Hd. unfold renders. rewrite (cstr_id _ Hn). change (pred depth_limit) with 4%nat. now constructor.
Qed.

(* ${trace} renders to -x with the flag and to the empty string without, unless a variable called trace exists *)
Lemma renders_trace cv trace : alookup (cv_vars cv) TRACE = None ->
  renders (env_of cv trace) (ref TRACE) (trace_value trace).
Proof.
  intros Hn. unfold renders.
  assert (Hc : cstr (ref TRACE) = [] ++ ref TRACE ++ []) by reflexivity. rewrite Hc.
  replace (trace_value trace) with ([] ++ trace_value trace ++ []) by (now rewrite app_nil_r).
  change (pred depth_limit) with 4%nat.
  eapply Sub_ref; [intros []|discriminate|vm_compute; intuition discriminate|exact (trace_lookup cv trace Hn)| |constructor; intros []].
  destruct trace; vm_compute; constructor; vm_compute; intuition discriminate.
Qed.

(* sh -eu [-x] <script> <name>: the script path and the name are rendered like any argument (and dropped when
   they render empty); -x is there exactly with the trace flag *)
Theorem script_argv_shape cv trace sd p argv :
  sd_cmd sd = Script p -> alookup (cv_vars cv) TRACE = None ->
  (step_argv_of (env_of cv trace) (command_of sd) argv <->
   exists p' n', renders (env_of cv trace) p p' /\ renders (env_of cv trace) (sd_name sd) n' /\
                 argv = SH :: EU :: (if trace then [trace_on] else []) ++ filter nonempty [p'; n']).
Proof.
  intros Hs Hn. unfold command_of. rewrite Hs. rewrite (proj1 (proj2 (proj2 (proj2 gen_ties)))).
  cbn [map documented_template tmpl_inst].
  set (env := env_of cv trace).
  assert (Hsh : renders env [115; 104] [115; 104]) by (apply renders_plain; [repeat constructor; discriminate|vm_compute; intuition discriminate]).
  assert (Heu : renders env [45; 101; 117] [45; 101; 117]) by (apply renders_plain; [repeat constructor; discriminate|vm_compute; intuition discriminate]).
  pose proof (renders_trace cv trace Hn) as Htr. fold env in Htr. change (ref TRACE) with [36; 123; 116; 114; 97; 99; 101; 125] in Htr.
  split.
  - intros [outs [Hf ->]].
    inversion Hf as [|? o1 ? r1 H1 Hf1]; subst. inversion Hf1 as [|? o2 ? r2 H2 Hf2]; subst.
    inversion Hf2 as [|? o3 ? r3 H3 Hf3]; subst. inversion Hf3 as [|? o4 ? r4 H4 Hf4]; subst.
    inversion Hf4 as [|? o5 ? r5 H5 Hf5]; subst. inversion Hf5; subst.
    rewrite (renders_functional _ _ _ _ H1 Hsh), (renders_functional _ _ _ _ H2 Heu), (renders_functional _ _ _ _ H3 Htr).
    exists o4, o5. repeat split; try assumption. destruct trace; reflexivity.
  - intros [p' [n' [Hp [Hnm ->]]]]. exists [[115; 104]; [45; 101; 117]; trace_value trace; p'; n']. split.
    + repeat (constructor; try assumption).
    + destruct trace; reflexivity.
Qed.

(* ... and a variable called trace in the configuration wins over the flag: -x is lost.  ${trace} is stored
   as a variable when it is evaluated while the file is parsed, e.g. canvas-dir "${trace}/tmp". *)
Lemma trace_shadowed :
  let cv := mkcfg [(TRACE, [])] [] [mkstep [115] (Script [47; 115])] None in
  resolve true cv true [115] = RArgv [SH; EU; [47; 115]; [115]]
  /\ resolve true cv false [115] = RArgv [SH; EU; [47; 115]; [115]].
Proof. split; vm_compute; reflexivity. Qed.

(* ---------------------------------------------------------------- nothing left of the command *)
Local Open Scope Z_scope.

(* execvp(NULL, {NULL}) in the child: libc dereferences the name (the child dies from a signal) or the kernel
   answers EFAULT (the child leaves through err(1)); it never runs anything *)
Definition null_exec_fails (kern : list bytes -> kres) : Prop :=
  kern [] = KNoExec \/ exists s core, 1 <= s <= 126 /\ kern [] = KWait (w_signaled s core).

Theorem empty_argv cv trace name kern g :
  resolve true cv trace name = RArgv [] -> null_exec_fails kern ->
  exists r, run_with true cv trace name kern g = Exited r /\ rr_exit r <> 0 /\ rr_diag r <> [].
Proof.
  intros Hr Hk. unfold run_with. rewrite Hr, exit_of_wait_eq. eexists. split; [reflexivity|]. cbn [rr_exit rr_diag].
  assert (Hne : exit_spec (child_status (kern [])) g <> 0).
  { destruct Hk as [->|[s [core [Hs ->]]]]; [apply noexec_exit|]. cbn [child_status].
    destruct (Z.eq_dec g sigalrm) as [->|Hg]; [rewrite exit_spec_timeout; discriminate|].
    rewrite exit_spec_signaled by assumption. lia. }
  split; [exact Hne|]. destruct (Z.eqb_spec (exit_spec (child_status (kern [])) g) 0); [contradiction|].
  destruct (kern []); discriminate.
Qed.

(* ---------------------------------------------------------------- the oracle accepts the model *)
(* what the harness observes of a run: the argv dump of the probe exists only when a command was started *)
Definition started (kern : list bytes -> kres) (argv : list bytes) : bool :=
  match argv with [] => false | _ => match kern argv with KNoExec => false | KWait _ => true end end.

Definition obs_of (kern : list bytes -> kres) (r : runres) : obs :=
  mkobs (match rr_argv r with Some a => if started kern a then Some a else None | None => None end)
        (rr_exit r) (match rr_diag r with [] => false | _ => true end).

(* the arrangement [kx] of the harness, as facts about the kernel function and gotsig *)
Definition arranged (kx : kexpect) (kern : list bytes -> kres) (g : Z) (argv : list bytes) : Prop :=
  match kx with
  | KxNoExec => kern argv = KNoExec
  | KxExit c => 0 <= c <= 255 /\ kern argv = KWait (w_exited c) /\ g <> sigalrm
  | KxSignal s => 1 <= s <= 126 /\ (exists core, kern argv = KWait (w_signaled s core)) /\ g <> sigalrm
  | KxTimeout => g = sigalrm /\ exists w, kern argv = KWait w
  end.

Lemma argv_eqb_refl a : argv_eqb a a = true.
Proof.
  unfold argv_eqb. rewrite Nat.eqb_refl. simpl. induction a as [|x a IH]; simpl; [reflexivity|]. now rewrite beq_refl.
Qed.

Theorem oracle_accepts_model cv trace name kern g kx :
  null_exec_fails kern ->
  (forall argv, resolve true cv trace name = RArgv argv -> argv <> [] -> arranged kx kern g argv) ->
  exists r, run_with true cv trace name kern g = Exited r /\ spec_ok_step cv trace name kx (obs_of kern r) = true.
Proof.
  intros Hnull Harr. unfold spec_ok_step.
  destruct (expect_step cv trace name) as [argv|] eqn:He.
  - apply (expect_step_model true) in He.
    destruct argv as [|a0 argv].
    + destruct (empty_argv cv trace name kern g He Hnull) as [r [Hr [Hne Hd]]]. exists r. split; [exact Hr|].
      unfold run_with in Hr. rewrite He, exit_of_wait_eq in Hr. inversion Hr; subst r. clear Hr.
      unfold failure_ok, obs_of. cbn [rr_argv rr_exit rr_diag started ob_argv ob_exit ob_diag opt_argv_eqb andb].
      cbn [rr_exit] in Hne. pose proof (exit_spec_range (child_status (kern [])) g) as Hrg.
      destruct (Z.ltb_spec 0 (exit_spec (child_status (kern [])) g)); [|lia]. cbn [andb].
      destruct (Z.eqb_spec (exit_spec (child_status (kern [])) g) 0); [contradiction|].
      destruct (kern []); reflexivity.
    + specialize (Harr _ He ltac:(discriminate)).
      unfold run_with. rewrite He, exit_of_wait_eq. eexists. split; [reflexivity|].
      unfold obs_of. cbn [rr_argv rr_exit rr_diag started].
      destruct kx as [|c|s|]; cbn [arranged] in Harr.
      * rewrite Harr. unfold failure_ok. cbn [ob_argv ob_exit ob_diag opt_argv_eqb andb child_status].
        pose proof (noexec_exit g) as Hne. cbn [child_status] in Hne.
        pose proof (exit_spec_range (w_exitcode 1) g) as Hrg.
        destruct (Z.ltb_spec 0 (exit_spec (w_exitcode 1) g)); [|lia]. reflexivity.
      * destruct Harr as [Hc [-> Hg]]. cbn [child_status ob_argv ob_exit]. rewrite exit_spec_exited by assumption.
        cbn [opt_argv_eqb]. rewrite argv_eqb_refl, Z.eqb_refl. reflexivity.
      * destruct Harr as [Hs [[core ->] Hg]]. cbn [child_status ob_argv ob_exit]. rewrite exit_spec_signaled by assumption.
        cbn [opt_argv_eqb]. rewrite argv_eqb_refl, Z.eqb_refl. reflexivity.
      * destruct Harr as [-> [w ->]]. cbn [child_status ob_argv ob_exit]. rewrite exit_spec_timeout.
        cbn [opt_argv_eqb]. rewrite argv_eqb_refl. reflexivity.
  - assert (Hr : exists d, resolve true cv trace name = RNone d /\ d <> []).
    { destruct (resolve true cv trace name) as [argv|d|] eqn:Hr.
      - apply (expect_step_model true) in Hr. congruence.
      - exists d. split; [reflexivity|]. unfold resolve in Hr.
        destruct (interp_steps _ _); [destruct (find_step _ _)|]; inversion Hr; discriminate.
      - exfalso. exact (resolve_checked_never_crashes cv trace name Hr). }
    destruct Hr as [d [Hr Hd]]. unfold run_with. rewrite Hr. eexists. split; [reflexivity|].
    unfold failure_ok, obs_of. cbn [rr_argv rr_exit rr_diag ob_argv ob_exit ob_diag opt_argv_eqb andb].
    destruct d; [congruence|reflexivity].
Qed.

(* ---------------------------------------------------------------- robsd-hook: the three outcomes *)
Local Open Scope N_scope.

Definition vars_ok (m : emode) (vs : list bytes) : Prop := exists extra, Forall2 (var_rel (reserved_keywords m)) vs extra.

(* robsd-hook does nothing (exit 0, silent) exactly when the -v arguments are well formed and no hook - or an
   empty one - is configured *)
Lemma hook_noop_iff m cv vs execok :
  hook_run m cv vs execok = HNoop <-> vars_ok m vs /\ hook_unset cv.
Proof.
  unfold hook_run, vars_ok, hook_unset.
  destruct (append_vars (reserved_keywords m) vs) as [extra|d] eqn:E.
  - pose proof (proj1 (append_vars_ok _ _ _) E) as Hv.
    destruct (cv_hook cv) as [[|t l]|] eqn:Eh.
    + split; [intros _; split; [eauto|now right]|reflexivity].
    + split.
      * destruct (interp_args hook_drop_empty _ (t :: l)) as [a|e]; [destruct (execok a)|]; discriminate.
      * intros [_ [H|H]]; discriminate H.
    + split; [intros _; split; [eauto|now left]|reflexivity].
  - split; [discriminate|]. intros [[ex Hex] _]. apply append_vars_ok in Hex. congruence.
Qed.

(* it fails only with status 1 and one diagnostic, and exactly in three cases: a -v argument is malformed or
   names a keyword; some element of the hook does not render; execvp fails *)
Lemma hook_fail_iff m cv vs execok :
  (exists e d, hook_run m cv vs execok = HFail e d) <->
  ~ vars_ok m vs \/
  (exists extra l, Forall2 (var_rel (reserved_keywords m)) vs extra /\ cv_hook cv = Some l /\ l <> [] /\
     (~ Forall (renderable (alookup (env_list cv extra false))) l \/
      exists argv, hook_argv_of (alookup (env_list cv extra false)) l argv /\ execok argv = false)).
Proof.
  unfold hook_run, vars_ok.
  destruct (append_vars (reserved_keywords m) vs) as [extra|d] eqn:E.
  - pose proof (proj1 (append_vars_ok _ _ _) E) as Hv.
    assert (Huniq : forall ex, Forall2 (var_rel (reserved_keywords m)) vs ex -> ex = extra).
    { intros ex Hex. apply append_vars_ok in Hex. congruence. }
    assert (Hok : ~ ~ exists ex, Forall2 (var_rel (reserved_keywords m)) vs ex) by (intros H; apply H; eauto).
    destruct (cv_hook cv) as [[|t l]|] eqn:Eh.
    + split; [intros [e [d H]]; discriminate H|].
      intros [Hn|[ex [l [_ [Hl [Hne _]]]]]]; [contradiction|]. inversion Hl; subst. congruence.
    + destruct (interp_args hook_drop_empty (alookup (env_list cv extra false)) (t :: l)) as [argv|e] eqn:Ea.
      * apply hook_args_ok in Ea. destruct (execok argv) eqn:Ex.
        -- split; [intros [e [d H]]; discriminate H|].
           intros [Hn|[ex [l' [Hex [Hl [_ [Hnr|[a [Ha Hx]]]]]]]]]; [contradiction| |].
           ++ exfalso. rewrite (Huniq _ Hex) in Hnr. inversion Hl; subst l'. apply Hnr. apply renderable_all. eauto.
           ++ exfalso. rewrite (Huniq _ Hex) in Ha. inversion Hl; subst l'.
              unfold hook_argv_of in *. rewrite (renders_all_functional _ _ _ _ Ha Ea) in Hx. congruence.
        -- split; [|eauto]. intros _. right. exists extra, (t :: l).
           split; [exact Hv|]. split; [reflexivity|]. split; [discriminate|]. right. eauto.
      * assert (Hnr : ~ Forall (renderable (alookup (env_list cv extra false))) (t :: l)).
        { apply (interp_args_err_iff hook_drop_empty). eauto. }
        split; [|eauto]. intros _. right. exists extra, (t :: l).
        split; [exact Hv|]. split; [reflexivity|]. split; [discriminate|]. now left.
    + split; [intros [e [d H]]; discriminate H|].
      intros [Hn|[ex [l [_ [Hl _]]]]]; [contradiction|discriminate Hl].
  - split; [|eauto]. intros _. left. intros [ex Hex]. apply append_vars_ok in Hex. congruence.
Qed.

Lemma hook_fail_status m cv vs execok e d : hook_run m cv vs execok = HFail e d -> e = 1%Z.
Proof.
  unfold hook_run. destruct (append_vars (reserved_keywords m) vs) as [extra|d0]; [|intros H; now inversion H].
  destruct (cv_hook cv) as [[|t l]|]; try discriminate.
  destruct (interp_args hook_drop_empty _ (t :: l)) as [a|e0]; [destruct (execok a)|]; intros H; inversion H; reflexivity.
Qed.

Theorem hook_outcomes m cv vs execok :
  (hook_run m cv vs execok = HNoop <-> vars_ok m vs /\ hook_unset cv) /\
  ((exists e d, hook_run m cv vs execok = HFail e d) <->
     ~ vars_ok m vs \/
     (exists extra l, Forall2 (var_rel (reserved_keywords m)) vs extra /\ cv_hook cv = Some l /\ l <> [] /\
        (~ Forall (renderable (alookup (env_list cv extra false))) l \/
         exists argv, hook_argv_of (alookup (env_list cv extra false)) l argv /\ execok argv = false))) /\
  (forall e d, hook_run m cv vs execok = HFail e d -> e = 1%Z).
Proof. exact (conj (hook_noop_iff m cv vs execok) (conj (hook_fail_iff m cv vs execok) (hook_fail_status m cv vs execok))). Qed.

(* the hook oracle's expectation against the specification relations (not against the model) *)
Lemma expect_hook_spec m cv vs argv :
  expect_hook m cv vs = HxRun argv <->
  exists extra l, Forall2 (var_rel (reserved_keywords m)) vs extra /\ cv_hook cv = Some l /\ l <> [] /\
                  hook_argv_of (alookup (env_list cv extra false)) l argv.
Proof.
  pose proof (expect_hook_model m cv vs (fun _ => true)) as Hm.
  pose proof (hook_exact m cv vs (fun _ => true) argv) as Hx. split.
  - intros He. rewrite He in Hm. cbn beta in Hm. apply Hx in Hm.
    destruct Hm as [extra [l [H1 [H2 [H3 [H4 _]]]]]]. eauto 8.
  - intros [extra [l [H1 [H2 [H3 H4]]]]].
    assert (Hr : hook_run m cv vs (fun _ => true) = HExec argv) by (apply Hx; eauto 10).
    destruct (expect_hook m cv vs) as [|a|]; cbn beta in Hm.
    + congruence.
    + rewrite Hm in Hr. inversion Hr; reflexivity.
    + destruct Hm as [d Hd]. congruence.
Qed.

Lemma expect_hook_noop_spec m cv vs : expect_hook m cv vs = HxNoop <-> vars_ok m vs /\ hook_unset cv.
Proof.
  pose proof (expect_hook_model m cv vs (fun _ => true)) as Hm. rewrite <- (hook_noop_iff m cv vs (fun _ => true)).
  destruct (expect_hook m cv vs) as [|a|]; cbn beta in Hm.
  - split; auto.
  - split; [discriminate|]. intros H. rewrite Hm in H. discriminate H.
  - split; [discriminate|]. intros H. destruct Hm as [d Hd]. congruence.
Qed.

(* ---------------------------------------------------------------- the empty vector, literally *)
Local Open Scope N_scope.
(* step "s" command { "${t}" } with a variable t that is empty *)
Definition empty_wit_cv : cfgview := mkcfg [([116], [])] [] [mkstep [115] (Command [[36; 123; 116; 125]])] None.
Definition empty_wit_name : bytes := [115].
Local Open Scope Z_scope.

(* what the runner reports for the empty vector, by what execvp(NULL, ...) does in the child: it returns -1 (the
   child leaves through err(1): status 1, two diagnostics) or the child dies from signal s (status 128+s, one
   diagnostic that names no reason) *)
Theorem empty_argv_status cv trace name kern g :
  resolve true cv trace name = RArgv [] -> g <> sigalrm ->
  (kern [] = KNoExec -> run_with true cv trace name kern g = Exited (mkrun (Some []) 1 [DExec; DExited 1])) /\
  (forall s core, 1 <= s <= 126 -> kern [] = KWait (w_signaled s core) ->
     run_with true cv trace name kern g = Exited (mkrun (Some []) (128 + s) [DExited (128 + s)])).
Proof.
  intros Hr Hg. split.
  - intros Hk. unfold run_with. rewrite Hr, exit_of_wait_eq, Hk. cbn [child_status].
    change (w_exitcode 1) with (w_exited 1). rewrite exit_spec_exited by (assumption || lia). reflexivity.
  - intros s core Hs Hk. unfold run_with. rewrite Hr, exit_of_wait_eq, Hk. cbn [child_status].
    rewrite exit_spec_signaled by assumption.
    destruct (Z.eqb_spec (128 + s) 0); [lia|reflexivity].
Qed.

(* THE LITERAL READING of "a step that cannot be started ... yields a non-zero status with a diagnostic RATHER THAN
   A CRASH" for the empty vector: no process of robsd-exec dies from a signal, i.e. the status is not 128+N *)
Definition empty_argv_no_crash : Prop :=
  forall cv trace name kern g, resolve true cv trace name = RArgv [] -> null_exec_fails kern -> g <> sigalrm ->
    exists r, run_with true cv trace name kern g = Exited r /\ rr_exit r < 128.

(* REFUTED by what glibc does (the child dereferences the NULL name: SIGSEGV): status 139 *)
Lemma empty_argv_no_crash_refuted : ~ empty_argv_no_crash.
Proof.
  intros H.
  assert (Hr : resolve true empty_wit_cv false empty_wit_name = RArgv []) by (vm_compute; reflexivity).
  destruct (H empty_wit_cv false empty_wit_name (fun _ => KWait (w_signaled 11 false)) 0 Hr) as [r [Hrun Hlt]].
  - right. exists 11, false. split; [lia|reflexivity].
  - unfold sigalrm. discriminate.
  - destruct (empty_argv_status empty_wit_cv false empty_wit_name (fun _ => KWait (w_signaled 11 false)) 0 Hr) as [_ Hs];
      [unfold sigalrm; discriminate|].
    rewrite (Hs 11 false ltac:(lia) eq_refl) in Hrun. inversion Hrun; subst r. cbn [rr_exit] in Hlt. lia.
Qed.

(* it holds on a platform whose execvp(NULL, ...) returns -1 *)
Lemma empty_argv_no_crash_partial cv trace name kern g :
  resolve true cv trace name = RArgv [] -> kern [] = KNoExec -> g <> sigalrm ->
  exists r, run_with true cv trace name kern g = Exited r /\ rr_exit r = 1 /\ In DExec (rr_diag r).
Proof.
  intros Hr Hk Hg. destruct (empty_argv_status cv trace name kern g Hr Hg) as [H _].
  eexists. split; [exact (H Hk)|]. split; [reflexivity|now left].
Qed.

(* ---------------------------------------------------------------- step_exec as a whole: the empty-command check *)
Local Open Scope Z_scope.

(* for every resolution other than the empty vector step_exec is the run proper *)
Lemma step_exec_run_nonempty echk checked cv trace name kern g hs :
  resolve checked cv trace name <> RArgv [] ->
  step_exec_run echk checked cv trace name kern g hs = run_fork checked cv trace name kern g hs.
Proof.
  intros H. unfold step_exec_run. destruct (resolve checked cv trace name) as [[|a l]|d|]; try reflexivity.
  now contradiction H.
Qed.

(* without the check (the source before /repo 8e76449) it always is *)
Lemma step_exec_run_unchecked checked cv trace name kern g hs :
  step_exec_run false checked cv trace name kern g hs = run_fork checked cv trace name kern g hs.
Proof. unfold step_exec_run. destruct (resolve checked cv trace name) as [[|a l]|d|]; reflexivity. Qed.

(* with the check the empty vector is refused before anything is forked: whatever execvp(NULL, ...) would do on
   the platform, whatever signal arrives, whatever the handshake *)
Lemma empty_command_refused checked cv trace name kern g hs :
  resolve checked cv trace name = RArgv [] ->
  step_exec_run true checked cv trace name kern g hs = Exited (mkrun None empty_exit [DEmptyCmd]).
Proof. intros H. unfold step_exec_run. now rewrite H. Qed.

(* THE PROPERTY'S CLAUSE for a command of which nothing is left: nothing is executed, the status is non-zero and
   below 128 (no process of robsd-exec died from a signal), there is a diagnostic - for every kernel function *)
Definition empty_command_is_error (echk : bool) : Prop :=
  forall checked cv trace name kern g hs, resolve checked cv trace name = RArgv [] ->
    exists r, step_exec_run echk checked cv trace name kern g hs = Exited r /\
      rr_argv r = None /\ 0 < rr_exit r < 128 /\ rr_diag r = [DEmptyCmd].

Lemma empty_command_if_checked :
  empty_command_checked = true -> (0 <? empty_exit) && (empty_exit <? 128) = true ->
  empty_command_is_error empty_command_checked.
Proof.
  intros -> Hx checked cv trace name kern g hs Hr. rewrite (empty_command_refused _ _ _ _ kern g hs Hr).
  apply andb_prop in Hx. destruct Hx as [H1 H2]. apply Z.ltb_lt in H1. apply Z.ltb_lt in H2.
  eexists. split; [reflexivity|]. cbn [rr_argv rr_exit rr_diag]. repeat split; assumption.
Qed.

(* HISTORICAL: without the check the clause fails on a platform whose execvp(NULL, ...) kills the caller *)
Lemma empty_command_unchecked_refuted : ~ empty_command_is_error false.
Proof.
  intros H.
  assert (Hr : resolve true empty_wit_cv false empty_wit_name = RArgv []) by (vm_compute; reflexivity).
  destruct (H true empty_wit_cv false empty_wit_name (fun _ => KWait (w_signaled 11 false)) 0 HsOk Hr) as [r [Hrun [_ [[_ Hlt] _]]]].
  rewrite step_exec_run_unchecked, run_fork_ok in Hrun.
  destruct (empty_argv_status empty_wit_cv false empty_wit_name (fun _ => KWait (w_signaled 11 false)) 0 Hr) as [_ Hs];
    [unfold sigalrm; discriminate|].
  rewrite (Hs 11 false ltac:(lia) eq_refl) in Hrun. inversion Hrun; subst r. cbn [rr_exit] in Hlt. lia.
Qed.

(* the oracle accepts every run of step_exec with the check - no assumption about execvp(NULL, ...) is left *)
Theorem oracle_accepts_step_exec cv trace name kern g kx :
  0 < empty_exit ->
  (forall argv, resolve true cv trace name = RArgv argv -> argv <> [] -> arranged kx kern g argv) ->
  exists r, step_exec_run true true cv trace name kern g HsOk = Exited r /\
            spec_ok_step cv trace name kx (obs_of kern r) = true.
Proof.
  intros Hpos Harr. destruct (resolve true cv trace name) as [[|a0 l]|d|] eqn:Hr.
  - rewrite (empty_command_refused true cv trace name kern g HsOk Hr). eexists. split; [reflexivity|].
    unfold spec_ok_step. rewrite (proj2 (expect_step_model true cv trace name []) Hr).
    unfold failure_ok, obs_of. cbn [rr_argv rr_exit rr_diag ob_argv ob_exit ob_diag opt_argv_eqb andb].
    apply Z.ltb_lt in Hpos. now rewrite Hpos.
  - set (kern' := fun a : list bytes => match a with [] => KNoExec | _ => kern a end).
    assert (Hnull : null_exec_fails kern') by (left; reflexivity).
    assert (Harr' : forall argv, resolve true cv trace name = RArgv argv -> argv <> [] -> arranged kx kern' g argv).
    { intros argv Ha Hne. rewrite Hr in Ha. specialize (Harr argv Ha Hne). destruct argv as [|x y]; [contradiction|].
      unfold kern'. exact Harr. }
    destruct (oracle_accepts_model cv trace name kern' g kx Hnull Harr') as [r [Hrun Hok]].
    rewrite step_exec_run_nonempty by (rewrite Hr; discriminate). rewrite run_fork_ok.
    assert (Heq : run_with true cv trace name kern g = run_with true cv trace name kern' g).
    { unfold run_with. rewrite Hr. reflexivity. }
    rewrite Heq. exists r. split; [exact Hrun|].
    assert (Ho : obs_of kern r = obs_of kern' r).
    { unfold run_with in Hrun. rewrite Hr in Hrun. unfold kern' in Hrun at 1.
      destruct (exit_of_wait (child_status (kern (a0 :: l))) g); inversion Hrun; subst r. reflexivity. }
    now rewrite Ho.
  - rewrite step_exec_run_nonempty by (rewrite Hr; discriminate). rewrite run_fork_ok.
    assert (Hnull : null_exec_fails (fun _ => KNoExec)) by (left; reflexivity).
    destruct (oracle_accepts_model cv trace name (fun _ => KNoExec) g kx Hnull) as [r [Hrun Hok]].
    { intros argv Ha. rewrite Hr in Ha. discriminate Ha. }
    unfold run_with in *. rewrite Hr in *. exists r. split; [exact Hrun|].
    inversion Hrun; subst r. exact Hok.
  - exfalso. exact (resolve_checked_never_crashes cv trace name Hr).
Qed.

(* ---------------------------------------------------------------- the hook oracle accepts the model *)
(* what the harness observes of a run of robsd-hook: nothing and status 0; the command in its place (its vector,
   and as status what the harness arranged for the command: code c, or -s when it dies from signal s); or a
   failure with status e and a diagnostic *)
Definition hobs_of (h : houtcome) (kx : kexpect) : obs :=
  match h with
  | HNoop => mkobs None 0 false
  | HExec argv => mkobs (Some argv) (match kx with KxExit c => c | KxSignal s => - s | _ => 0 end) false
  | HFail e _ => mkobs None e true
  end.

(* the arrangement: execvp succeeds exactly when the harness did not make the command unexecutable, and a hook is
   never arranged to outlive a timeout (robsd-hook has none) *)
Definition harranged (kx : kexpect) (execok : list bytes -> bool) : Prop :=
  kx <> KxTimeout /\ forall argv, execok argv = match kx with KxNoExec => false | _ => true end.

Theorem oracle_accepts_hook m cv vs execok kx :
  harranged kx execok ->
  spec_ok_hook m cv vs kx (hobs_of (hook_run m cv vs execok) kx) = true.
Proof.
  intros [Hnt Hex]. unfold spec_ok_hook. pose proof (expect_hook_model m cv vs execok) as Hm.
  destruct (expect_hook m cv vs) as [|argv|].
  - rewrite Hm. reflexivity.
  - rewrite Hm, (Hex argv). destruct kx as [|c|s|]; cbn [hobs_of failure_ok ob_argv ob_exit ob_diag opt_argv_eqb andb].
    + reflexivity.
    + now rewrite argv_eqb_refl, Z.eqb_refl.
    + now rewrite argv_eqb_refl, Z.eqb_refl.
    + now contradiction Hnt.
  - destruct Hm as [d ->]. reflexivity.
Qed.
