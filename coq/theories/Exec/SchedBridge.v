(* SchedBridge.v - ONE step runner.

   C10's schedule model (Conf/SchedDefs.v: raw_steps, get_steps, resolve - on the
   configuration the C08 parser builds, lookups threaded through the
   configuration) and C06's argument-vector model (Exec/ArgvDefs.v:
   mode_schedule, interp_steps, find_step, resolve - on an abstract view with a
   state-free lookup) were written independently.  This file proves that they
   are the same runner:

     tables        the step tables, the argv template, the regress script, the
                   canvas end step, the depth limit read by harness/t_exec.py
                   (Gen_Exec) and by harness/t_conf.py (Gen_Conf) coincide;
     schedule      ArgvDefs.mode_schedule on what the parsed configuration
                   defines = SchedDefs.raw_steps ([mode_schedule_raw]);
     environment   SchedPure.v: lookups during config_get_steps are a pure
                   function [sched_env] of the parsed configuration;
     runner        SchedDefs.resolve on the configuration TEXT = ArgvDefs'
                   runner ([resolve_env], the body of ArgvDefs.resolve) on
                   that environment and that schedule ([bridge_resolve]); for a
                   configuration view [view_of] tabulating that environment,
                   literally ArgvDefs.resolve ([bridge_view]).

   The one exception is the rdomain counter of robsd-regress (every lookup of
   ${rdomain} yields the next number, so no state-free lookup can reproduce
   it): [sched_env] leaves rdomain undefined, the equivalence holds whenever the
   schedule renders without it ([schedule_ok]), and [bridge_rdomain_refuted]
   is the witness outside that guard. *)
From Robsd Require Import Conf.ConfSpec Conf.ConfTrack Conf.SchedDefs Conf.SchedSpec Conf.ConfTie Conf.SchedProofs
  Conf.SchedTrack Conf.SchedPure Conf.SchedNames.
From Robsd Require Import Exec.ArgvSpec Exec.ArgvProofs.
From RobsdGen Require Import Gen_Conf Gen_Exec Gen_Interp.
Local Open Scope N_scope.

(* ---------------------------------------------------------------- the two translators read the same tables *)
Definition emode_of (m : mode) : emode :=
  match m with ROBSD => MRobsd | ROBSD_CROSS => MCross | ROBSD_PORTS => MPorts | ROBSD_REGRESS => MRegress | CANVAS => MCanvas end.

Definition tmpl_of (a : argtmpl) : tmpl := match a with A_lit s => TLit s | A_script => TScript | A_name => TName end.

Lemma tables_agree m :
  map tmpl_of (t_argv (tables_of m)) = script_template
  /\ t_steps (tables_of m) = static_steps (emode_of m)
  /\ t_regress_script (tables_of m) = Gen_Exec.regress_script
  /\ t_canvas_end (tables_of m) = (snd Gen_Exec.canvas_end, fst Gen_Exec.canvas_end)
  /\ t_depth_limit (tables_of m) = depth_limit
  /\ minus_x = trace_on /\ trace_off = [].
Proof. destruct m; repeat split; reflexivity. Qed.

Lemma script_argv_tmpl m p n : script_argv (tables_of m) p n = map (tmpl_inst p n) script_template.
Proof. destruct m; reflexivity. Qed.

Lemma depth_hide m : t_depth_limit (hide_rd (tables_of m)) = depth_limit.
Proof. destruct m; reflexivity. Qed.

(* ---------------------------------------------------------------- the schedule *)
Definition sd_of (s : sstep) : stepdef := mkstep (ss_name s) (Command (ss_cmd s)).

Definition sched_pairs (l : list stepdef) : list (bytes * list bytes) := map (fun sd => (sd_name sd, command_of sd)) l.
Definition sstep_pairs (l : list sstep) : list (bytes * list bytes) := map (fun s => (ss_name s, ss_cmd s)) l.

Lemma sched_pairs_sd_of l : sched_pairs (map sd_of l) = sstep_pairs l.
Proof. unfold sched_pairs, sstep_pairs. rewrite map_map. reflexivity. Qed.

(* what the parsed configuration defines: regress tests with "runs in parallel", canvas steps *)
Definition regress_cfg (c : cfg) : list (bytes * bool) := map (fun n => (n, par_of c n)) (regress_list c).
Definition canvas_cfg (c : cfg) : list stepdef := map (fun s => mkstep (cs_name s) (Command (cs_command s))) (c_steps c).

Lemma static_pairs m rows :
  sched_pairs (map static_row rows) = sstep_pairs (map (static_step (tables_of m)) rows).
Proof.
  unfold sched_pairs, sstep_pairs. rewrite !map_map. apply map_ext. intros [n p].
  unfold command_of, static_row, static_step, script_step. cbn [sd_name sd_cmd ss_name ss_cmd fst snd].
  now rewrite script_argv_tmpl.
Qed.

Lemma filter_pairs (f : bytes -> bool) l :
  filter (fun r : bytes * bool => snd r) (map (fun n => (n, f n)) l) = map (fun n => (n, true)) (filter f l)
  /\ filter (fun r : bytes * bool => negb (snd r)) (map (fun n => (n, f n)) l) = map (fun n => (n, false)) (filter (fun n => negb (f n)) l).
Proof.
  induction l as [|n l [IH1 IH2]]; simpl; [auto|]. destruct (f n); simpl; rewrite IH1, IH2; auto.
Qed.

Lemma raw_steps_regress E c :
  raw_steps E TRg c =
  (c, map (static_step TRg) (SchedDefs.rows_before (t_steps TRg))
      ++ map (fun n => script_step TRg (t_regress_script TRg) n true) (filter (par_of c) (regress_list c))
      ++ map (fun n => script_step TRg (t_regress_script TRg) n false) (filter (fun n => negb (par_of c n)) (regress_list c))
      ++ map (static_step TRg) (SchedDefs.rows_after (t_steps TRg))).
Proof.
  unfold raw_steps. change (t_mode TRg) with ROBSD_REGRESS. cbv iota.
  assert (Hf : find1 E TRg c str_regress = (c, find_var (c_vars c) str_regress)).
  { unfold find1, config_find. destruct (find_var (c_vars c) str_regress); [reflexivity|].
    assert (Hg : exists g, grammar_for_interp (t_grammar TRg) str_regress = Some g /\ gr_req g = true) by (eexists; split; vm_compute; reflexivity).
    destruct Hg as [g [-> ->]]. reflexivity. }
  rewrite Hf. fold (regress_list c).
  rewrite (split_regress_filter E TRg (par_of c) c (is_parallel_regress E c)). reflexivity.
Qed.

(* C06's [mode_schedule], given what the configuration defines, is C10's [raw_steps] *)
Theorem mode_schedule_raw E m c :
  sched_pairs (mode_schedule (emode_of m) (regress_cfg c) (canvas_cfg c))
  = sstep_pairs (snd (raw_steps E (tables_of m) (after_parse (tables_of m) c))).
Proof.
  destruct m.
  - change (sched_pairs (map static_row (rows_before robsd_steps)) = sstep_pairs (map (static_step (tables_of ROBSD)) (rows_all (t_steps (tables_of ROBSD))))).
    rewrite (static_pairs ROBSD). reflexivity.
  - change (sched_pairs (map static_row (rows_before robsd_cross_steps)) = sstep_pairs (map (static_step (tables_of ROBSD_CROSS)) (rows_all (t_steps (tables_of ROBSD_CROSS))))).
    rewrite (static_pairs ROBSD_CROSS). reflexivity.
  - change (sched_pairs (map static_row (rows_before robsd_ports_steps)) = sstep_pairs (map (static_step (tables_of ROBSD_PORTS)) (rows_all (t_steps (tables_of ROBSD_PORTS))))).
    rewrite (static_pairs ROBSD_PORTS). reflexivity.
  - change (tables_of ROBSD_REGRESS) with TRg. change (after_parse TRg c) with c. rewrite raw_steps_regress. cbn [snd].
    unfold mode_schedule, emode_of, regress_steps, regress_cfg. destruct (filter_pairs (par_of c) (regress_list c)) as [-> ->].
    unfold sched_pairs, sstep_pairs. rewrite !map_app.
    fold (sched_pairs (map static_row (rows_before (static_steps MRegress)))).
    fold (sched_pairs (map static_row (rows_after (static_steps MRegress)))).
    fold (sstep_pairs (map (static_step TRg) (SchedDefs.rows_before (t_steps TRg)))).
    fold (sstep_pairs (map (static_step TRg) (SchedDefs.rows_after (t_steps TRg)))).
    rewrite !(static_pairs ROBSD_REGRESS). rewrite <- !app_assoc.
    assert (Hs : forall b l, map (fun sd : stepdef => (sd_name sd, command_of sd))
                    (map (fun r : bytes * bool => mkstep (fst r) (Script Gen_Exec.regress_script)) (map (fun n : bytes => (n, b)) l))
                  = map (fun s : sstep => (ss_name s, ss_cmd s)) (map (fun n => script_step TRg (t_regress_script TRg) n b) l)).
    { intros b l. rewrite !map_map. apply map_ext. intros n. unfold command_of, script_step. cbn [sd_name sd_cmd ss_name ss_cmd fst snd].
      now rewrite (script_argv_tmpl ROBSD_REGRESS). }
    rewrite !Hs. reflexivity.
  - rewrite raw_canvas. unfold mode_schedule, emode_of, canvas_cfg, sched_pairs, sstep_pairs. rewrite !map_app, !map_map. reflexivity.
Qed.

(* ---------------------------------------------------------------- config_get_steps in the vocabulary of ArgvDefs *)
Lemma pure_args_argv m env args :
  match ArgvDefs.interp_args true env args with
  | ROk l => pure_args (hide_rd (tables_of m)) env args = Some l
  | RErr _ => pure_args (hide_rd (tables_of m)) env args = None
  end.
Proof.
  induction args as [|a r IH]; cbn [ArgvDefs.interp_args pure_args]; [reflexivity|].
  unfold interp_arg. rewrite depth_hide. destruct (interp_str depth_limit false env a) as [o|e]; [|reflexivity].
  destruct (ArgvDefs.interp_args true env r) as [l|e]; rewrite IH; [|reflexivity].
  destruct o; reflexivity.
Qed.

Lemma pure_steps_argv m env steps :
  match ArgvDefs.interp_steps env (map sd_of steps) with
  | ROk sched => exists l, pure_steps (hide_rd (tables_of m)) env steps = Some l /\ sched = sstep_pairs l
                           /\ names l = names steps /\ map ss_par l = map ss_par steps
  | RErr _ => pure_steps (hide_rd (tables_of m)) env steps = None
  end.
Proof.
  induction steps as [|s r IH]; cbn [ArgvDefs.interp_steps pure_steps map]; [exists []; auto|].
  rewrite steps_drop_tie. change (command_of (sd_of s)) with (ss_cmd s).
  pose proof (pure_args_argv m env (ss_cmd s)) as Ha.
  destruct (ArgvDefs.interp_args true env (ss_cmd s)) as [a|e]; rewrite Ha; [|reflexivity].
  destruct (ArgvDefs.interp_steps env (map sd_of r)) as [sched|e].
  - destruct IH as [l [-> [-> [Hn Hp]]]]. eexists. split; [reflexivity|]. simpl. rewrite Hn, Hp. auto.
  - now rewrite IH.
Qed.

(* find_step: strcmp against names without NUL *)
Lemma find_step_pairs l name : Forall (fun s => nonul (ss_name s)) l ->
  ArgvDefs.find_step name (sstep_pairs l) = match SchedDefs.find_step l name with Some s => Some (ss_cmd s) | None => None end.
Proof.
  induction 1 as [|s l Hs _ IH]; simpl; [reflexivity|]. rewrite (cstr_id _ Hs). destruct (beq (ss_name s) (cstr name)); [reflexivity|exact IH].
Qed.

(* ---------------------------------------------------------------- the runner *)
Lemma resolve_env_eq checked cv trace name :
  ArgvDefs.resolve checked cv trace name = resolve_env checked (env_of cv trace) (cv_steps cv) name.
Proof. reflexivity. Qed.

(* C06_argv_exact for any lookup function and step list *)
Lemma resolve_env_argv_exact checked env steps name argv :
  resolve_env checked env steps name = RArgv argv <->
  schedule_ok env steps /\ exists sd, first_named name steps sd /\ step_argv_of env (command_of sd) argv.
Proof.
  unfold resolve_env.
  destruct (ArgvDefs.interp_steps env steps) as [sched|e] eqn:E.
  - pose proof (proj1 (interp_steps_ok _ _ _) E) as Hs.
    destruct (ArgvDefs.find_step name sched) as [a|] eqn:Ef.
    + destruct (find_step_some _ _ _ _ _ Hs Ef) as [sd [Hfn Ha]]. split.
      * intros H. injection H as <-. split; [apply schedule_ok_iff; eauto|eauto].
      * intros [_ [sd' [Hfn' Ha']]]. rewrite (first_named_functional _ _ _ _ Hfn' Hfn) in Ha'.
        now rewrite (step_argv_of_functional _ _ _ _ Ha Ha').
    + split; [discriminate|]. intros [_ [sd [Hfn _]]].
      exfalso. exact (find_step_none _ _ _ _ Hs Ef (first_named_known _ _ _ Hfn)).
  - split; [destruct checked; discriminate|]. intros [Hok _].
    exfalso. apply (proj1 (interp_steps_err_iff env steps)); eauto.
Qed.

Lemma tbl_par_plain m : fun_of (tables_of m) kw_parallel = None. Proof. destruct m; reflexivity. Qed.
Lemma tbl_par_plain0 m : fun_of (hide_rd (tables_of m)) kw_parallel = None. Proof. destruct m; reflexivity. Qed.
Lemma tbl_bd_unique0 m : bd_uniqueb (t_grammar (hide_rd (tables_of m))) = true. Proof. destruct m; reflexivity. Qed.
Lemma tbl_bd_unique m : bd_uniqueb (t_grammar (tables_of m)) = true. Proof. destruct m; reflexivity. Qed.
Lemma tbl_hide_id m : m <> ROBSD_REGRESS -> hide_rd (tables_of m) = tables_of m.
Proof. destruct m; intros H; try reflexivity. contradiction. Qed.
Lemma tbl_rd_free m : m <> ROBSD_REGRESS -> rd_freeb (t_grammar (tables_of m)) = true.
Proof. destruct m; intros H; try reflexivity. contradiction. Qed.
Lemma tbl_raw_state E m c : fst (raw_steps E (tables_of m) c) = c.
Proof. destruct m; try reflexivity. change (tables_of ROBSD_REGRESS) with TRg. now rewrite raw_steps_regress. Qed.

Section Bridge.
  Variable E : env.
  Variable m : mode.
  Let T := tables_of m.
  Let T0 := hide_rd T.

  Lemma par_plain_T : fun_of T kw_parallel = None. Proof. apply tbl_par_plain. Qed.
  Lemma par_plain_T0 : fun_of T0 kw_parallel = None. Proof. apply tbl_par_plain0. Qed.
  Lemma bd_unique_T0 : bd_uniqueb (t_grammar T0) = true. Proof. apply tbl_bd_unique0. Qed.
  Lemma hide_id : m <> ROBSD_REGRESS -> T0 = T. Proof. apply tbl_hide_id. Qed.

  Lemma raw_state c : fst (raw_steps E T c) = c. Proof. apply tbl_raw_state. Qed.

  (* the environment and the schedule of the parsed configuration [c] (after_parse applied) *)
  Definition benv (c : cfg) (tr : bool) : bytes -> option bytes := sched_env E T c tr.
  Definition bsteps (c : cfg) (tr : bool) : list stepdef := map sd_of (snd (raw_steps E T (set_trace c tr))).

  (* whenever the schedule renders in [benv], config_get_steps returns that rendering *)
  Lemma get_steps_bridge c tr sched :
    ArgvDefs.interp_steps (benv c tr) (bsteps c tr) = ROk sched ->
    exists l, snd (get_steps E T c tr) = Some l /\ sched = sstep_pairs l
              /\ names l = names (snd (raw_steps E T (set_trace c tr))).
  Proof.
    intros Hi. pose proof (pure_steps_argv m (benv c tr) (snd (raw_steps E T (set_trace c tr)))) as Hp.
    unfold bsteps in Hi. rewrite Hi in Hp. destruct Hp as [l [Hl [-> [Hn _]]]].
    exists l. split; [|auto].
    apply (get_steps_of_pure E T par_plain_T par_plain_T0 bd_unique_T0 c tr l (raw_state _) Hl).
  Qed.

  (* without an rdomain row: failure included *)
  Lemma get_steps_bridge_err c tr e :
    m <> ROBSD_REGRESS ->
    ArgvDefs.interp_steps (benv c tr) (bsteps c tr) = RErr e -> snd (get_steps E T c tr) = None.
  Proof.
    intros Hm Hi. pose proof (pure_steps_argv m (benv c tr) (snd (raw_steps E T (set_trace c tr)))) as Hp.
    unfold bsteps in Hi. rewrite Hi in Hp.
    assert (Hrd : rd_freeb (t_grammar T) = true) by (apply tbl_rd_free, Hm).
    assert (Hbd : bd_uniqueb (t_grammar T) = true) by (apply tbl_bd_unique).
    rewrite (get_steps_pure E T par_plain_T c tr Hrd Hbd (raw_state _)).
    unfold benv, sched_env in Hp. fold T T0 in Hp. rewrite (hide_id Hm) in Hp. exact Hp.
  Qed.

  (* the step runner of C10 on the configuration text is the step runner of C06 on the environment and
     schedule of the parsed configuration *)
  Theorem bridge_resolve text c tr name argv :
    config_parse E T text = Accepted c ->
    let c' := after_parse T c in
    (schedule_ok (benv c' tr) (bsteps c' tr) \/ m <> ROBSD_REGRESS) ->
    (SchedDefs.resolve E T text tr name = Some argv <-> resolve_env true (benv c' tr) (bsteps c' tr) name = RArgv argv).
  Proof.
    intros Hp c' Hguard. unfold SchedDefs.resolve, resolve_env. rewrite Hp. fold c'.
    pose proof (parsed_names_nonul E m text c tr Hp) as Hnn. fold T c' in Hnn.
    destruct (ArgvDefs.interp_steps (benv c' tr) (bsteps c' tr)) as [sched|e] eqn:Ei.
    - destruct (get_steps_bridge c' tr sched Ei) as [l [-> [-> Hn]]].
      rewrite find_step_pairs by (rewrite <- Hn in Hnn; unfold names in Hnn; now rewrite Forall_map in Hnn).
      destruct (SchedDefs.find_step l name) as [s|]; split; intros H; inversion H; reflexivity.
    - destruct Hguard as [Hok|Hm].
      + exfalso. apply (proj1 (interp_steps_err_iff _ _) (ex_intro _ e Ei)). exact Hok.
      + rewrite (get_steps_bridge_err c' tr e Hm Ei). split; discriminate.
  Qed.

  (* C06_argv_exact about configuration FILES: what robsd-exec hands to execvp for a parsed configuration *)
  Theorem argv_exact_parsed text c tr name argv :
    config_parse E T text = Accepted c ->
    let c' := after_parse T c in
    (schedule_ok (benv c' tr) (bsteps c' tr) \/ m <> ROBSD_REGRESS) ->
    (SchedDefs.resolve E T text tr name = Some argv <->
     schedule_ok (benv c' tr) (bsteps c' tr) /\
     exists sd, first_named name (bsteps c' tr) sd /\ step_argv_of (benv c' tr) (command_of sd) argv).
  Proof. intros Hp c' Hg. rewrite (bridge_resolve text c tr name argv Hp Hg). apply resolve_env_argv_exact. Qed.

  (* when does an accepted configuration have a listing: exactly when every command of its schedule renders *)
  Theorem listing_exists_iff text c :
    config_parse E T text = Accepted c -> m <> ROBSD_REGRESS ->
    let c' := after_parse T c in
    ((exists steps, snd (get_steps E T c' false) = Some steps) <-> schedule_ok (benv c' false) (bsteps c' false)).
  Proof.
    intros Hp Hm c'. split.
    - intros [steps Hs]. destruct (ArgvDefs.interp_steps (benv c' false) (bsteps c' false)) as [sched|e] eqn:Ei.
      + apply schedule_ok_iff. exists sched. now apply interp_steps_ok.
      + rewrite (get_steps_bridge_err c' false e Hm Ei) in Hs. discriminate.
    - intros Hok. destruct (ArgvDefs.interp_steps (benv c' false) (bsteps c' false)) as [sched|e] eqn:Ei.
      + destruct (get_steps_bridge c' false sched Ei) as [l [Hl _]]. eauto.
      + exfalso. apply (proj1 (interp_steps_err_iff _ _) (ex_intro _ e Ei)). exact Hok.
  Qed.

  Theorem listing_exists_partial text c :
    config_parse E T text = Accepted c ->
    let c' := after_parse T c in
    schedule_ok (benv c' false) (bsteps c' false) -> exists steps, snd (get_steps E T c' false) = Some steps.
  Proof.
    intros Hp c' Hok. destruct (ArgvDefs.interp_steps (benv c' false) (bsteps c' false)) as [sched|e] eqn:Ei.
    - destruct (get_steps_bridge c' false sched Ei) as [l [Hl _]]. eauto.
    - exfalso. apply (proj1 (interp_steps_err_iff _ _) (ex_intro _ e Ei)). exact Hok.
  Qed.
End Bridge.

(* ---------------------------------------------------------------- a configuration view of the parsed configuration *)
(* state-free interpolation only sees the lookup function pointwise *)
Lemma inner_ext ig e1 e2 r1 r2 : (forall n, e1 n = e2 n) -> (forall s, r1 s = r2 s) ->
  forall n s, (length s <= n)%nat ->
    inner ig e1 r1 s = inner ig e2 r2 s /\ (forall acc, name_scan ig e1 r1 acc s = name_scan ig e2 r2 acc s).
Proof.
  intros He Hr. induction n as [|n IH]; intros s Hl.
  - destruct s; [split; reflexivity|simpl in Hl; lia].
  - destruct s as [|c s']; [split; reflexivity|]. simpl in Hl. assert (Hs : (length s' <= n)%nat) by lia.
    destruct (IH s' Hs) as [I1 I2]. split.
    + rewrite !inner_cons. destruct (c =? DOLLAR).
      * destruct s' as [|c2 s'']; [reflexivity|]. destruct (c2 =? LBRACE); [|reflexivity]. simpl in Hs. apply (proj2 (IH s'' ltac:(lia))).
      * now rewrite I1.
    + intros acc. rewrite !name_scan_cons. destruct (c =? RBRACE); [|apply I2].
      destruct acc as [|a acc']; [reflexivity|]. rewrite He. destruct (e2 (a :: acc')) as [v|].
      * rewrite Hr. destruct (r2 (cstr v)); [now rewrite I1|reflexivity].
      * destruct ig; [now rewrite I1|reflexivity].
Qed.

Lemma interp_ext d ig e1 e2 : (forall n, e1 n = e2 n) -> forall s, interp d ig e1 s = interp d ig e2 s.
Proof.
  intros He. induction d as [|d IH]; intros s; [reflexivity|]. cbn [interp].
  apply (proj1 (inner_ext ig e1 e2 _ _ He IH (length s) s (le_n _))).
Qed.

Lemma interp_args_ext drop e1 e2 l : (forall n, e1 n = e2 n) -> ArgvDefs.interp_args drop e1 l = ArgvDefs.interp_args drop e2 l.
Proof.
  intros He. induction l as [|t l IH]; cbn [ArgvDefs.interp_args]; [reflexivity|].
  unfold interp_arg, interp_str. rewrite (interp_ext _ _ e1 e2 He), IH. reflexivity.
Qed.

Lemma interp_steps_ext e1 e2 l : (forall n, e1 n = e2 n) -> ArgvDefs.interp_steps e1 l = ArgvDefs.interp_steps e2 l.
Proof.
  intros He. induction l as [|sd l IH]; cbn [ArgvDefs.interp_steps]; [reflexivity|].
  now rewrite (interp_args_ext _ e1 e2 _ He), IH.
Qed.

Lemma resolve_env_ext checked e1 e2 steps name : (forall n, e1 n = e2 n) ->
  resolve_env checked e1 steps name = resolve_env checked e2 steps name.
Proof. intros He. unfold resolve_env. now rewrite (interp_steps_ext e1 e2 _ He). Qed.

(* the lookup function tabulated on a list of names *)
Definition tabulate (env : bytes -> option bytes) (ns : list bytes) : list (bytes * bytes) :=
  flat_map (fun n => match env n with Some v => [(n, v)] | None => [] end) ns.

Lemma alookup_tabulate env ns n : alookup (tabulate env ns) n = if existsb (beq n) ns then env n else None.
Proof.
  induction ns as [|k ns IH]; simpl; [reflexivity|].
  destruct (beq_spec n k) as [->|Hk]; simpl.
  - destruct (env k) as [v|] eqn:Ev; simpl; [now rewrite beq_refl|]. rewrite IH. destruct (existsb (beq k) ns); reflexivity.
  - destruct (env k) as [v|]; simpl; [|exact IH]. destruct (beq_spec k n) as [->|_]; [congruence|exact IH].
Qed.

Definition hook_of (c : cfg) : option (list bytes) :=
  match find_var (c_vars c) [104; 111; 111; 107] with Some (VList l) => Some l | _ => None end.

(* the names that can resolve at all: the variables and the keywords of the grammar (no pattern rows), plus [xs] *)
Definition view_names (T : tables) (c : cfg) (xs : list bytes) : list bytes :=
  map fst (c_vars c) ++ map gr_kw (t_grammar T) ++ TRACE :: xs.

Definition view_of (E : env) (m : mode) (c : cfg) (tr : bool) (xs : list bytes) : cfgview :=
  mkcfg (tabulate (benv E m c tr) (view_names (tables_of m) c xs)) [] (bsteps E m c tr) (hook_of c).

Lemma find_var_none_not_in vars n : ~ In n (map fst vars) -> find_var vars n = None.
Proof.
  induction vars as [|[k v] vars IH]; simpl; [reflexivity|]. intros H.
  destruct (beq_spec k n) as [->|_]; [exfalso; apply H; now left|]. apply IH. intros Hi. apply H. now right.
Qed.

Definition no_patb (G : list grammar) : bool := forallb (fun g => negb (gr_pat g)) G.

(* a name outside [view_names] resolves to nothing when the grammar has no pattern row *)
Lemma benv_support E m c tr xs n :
  no_patb (t_grammar (tables_of m)) = true -> existsb (beq n) (view_names (tables_of m) c xs) = false -> benv E m c tr n = None.
Proof.
  intros Hnp Hn. unfold benv, sched_env, penv, lookup1, lookup. cbn [andb].
  assert (Hnot : forall k, In k (view_names (tables_of m) c xs) -> k <> n).
  { intros k Hk ->. assert (existsb (beq n) (view_names (tables_of m) c xs) = true); [|congruence].
    apply existsb_exists. exists n. split; [exact Hk|apply beq_refl]. }
  unfold config_find. change (c_vars (set_trace c tr)) with (c_vars c).
  rewrite find_var_none_not_in.
  2:{ intros Hi. apply (Hnot n); [|reflexivity]. unfold view_names. apply in_or_app. now left. }
  cbn [t_grammar hide_rd]. rewrite gfi_hide.
  destruct (grammar_for_interp (t_grammar (tables_of m)) n) as [g|] eqn:Hg; [|reflexivity].
  exfalso. apply find_grammar_in in Hg. destruct Hg as [Hin He].
  unfold no_patb in Hnp. rewrite forallb_forall in Hnp. specialize (Hnp g Hin). apply negb_true_iff in Hnp.
  unfold grammar_equals in He. rewrite Hnp, andb_false_l, orb_false_r in He. apply beq_eq in He.
  apply (Hnot n); [|reflexivity]. unfold view_names. apply in_or_app. right. apply in_or_app. left. rewrite <- He. now apply in_map.
Qed.

Lemma env_of_view E m c tr xs :
  no_patb (t_grammar (tables_of m)) = true -> benv E m c tr TRACE <> None ->
  forall n, env_of (view_of E m c tr xs) tr n = benv E m c tr n.
Proof.
  intros Hnp Htr n. unfold env_of, env_list, view_of. cbn [cv_vars cv_defaults app].
  assert (Hal : forall l1 l2 k, alookup (l1 ++ l2) k = match alookup l1 k with Some v => Some v | None => alookup l2 k end).
  { induction l1 as [|[a b] l1 IH]; intros l2 k; simpl; [reflexivity|]. destruct (beq a k); [reflexivity|apply IH]. }
  rewrite Hal, alookup_tabulate.
  assert (Htl : alookup [(TRACE, trace_value tr)] n = if beq TRACE n then Some (trace_value tr) else None) by reflexivity.
  rewrite Htl. clear Htl.
  destruct (existsb (beq n) (view_names (tables_of m) c xs)) eqn:Hin.
  - destruct (benv E m c tr n) as [v|] eqn:Ev; [reflexivity|].
    destruct (beq_spec TRACE n) as [<-|_]; [contradiction|reflexivity].
  - rewrite (benv_support E m c tr xs n Hnp Hin).
    destruct (beq_spec TRACE n) as [<-|_]; [|reflexivity].
    exfalso. assert (existsb (beq TRACE) (view_names (tables_of m) c xs) = true); [|congruence].
    apply existsb_exists. exists TRACE. split; [|apply beq_refl]. unfold view_names. apply in_or_app. right. apply in_or_app. right. now left.
Qed.

(* robsd, robsd-cross, robsd-ports, canvas: robsd-exec on the configuration file is literally ArgvDefs.resolve on
   the view of the parsed configuration *)
Theorem bridge_view E m text c tr name argv xs :
  m <> ROBSD_REGRESS ->
  config_parse E (tables_of m) text = Accepted c ->
  let c' := after_parse (tables_of m) c in
  benv E m c' tr TRACE <> None ->
  (SchedDefs.resolve E (tables_of m) text tr name = Some argv <->
   ArgvDefs.resolve true (view_of E m c' tr xs) tr name = RArgv argv).
Proof.
  intros Hm Hp c' Htr. rewrite (bridge_resolve E m text c tr name argv Hp (or_intror Hm)). fold c'.
  rewrite resolve_env_eq. cbn [cv_steps view_of].
  assert (Hnp : no_patb (t_grammar (tables_of m)) = true) by (destruct m; try reflexivity; contradiction).
  rewrite (resolve_env_ext true _ _ _ _ (env_of_view E m c' tr xs Hnp Htr)). reflexivity.
Qed.

(* -x or not, ${trace} resolves unless the configuration holds an invalid variable of that name *)
Lemma benv_trace E m c tr : find_var (c_vars c) TRACE = None -> benv E m c tr TRACE <> None.
Proof.
  intros Hn. unfold benv, sched_env, penv, lookup1, lookup, config_find. cbn [andb].
  change (c_vars (set_trace c tr)) with (c_vars c). rewrite Hn.
  destruct m; vm_compute; destruct tr; discriminate.
Qed.

(* ---------------------------------------------------------------- the exception: the rdomain counter *)
From Coq Require Import String.
Definition rd_wit_text : bytes :=
  bs "robsddir ""/r""
regress ""x${rdomain}""
regress ""y${rdomain}""
".

(* both tests are listed and resolve, each with its own number; without the counter neither renders *)
Lemma bridge_rdomain_refuted :
  SchedDefs.resolve sched_wit_env TRg rd_wit_text false (bs "y${rdomain}")
    = Some [bs "sh"; bs "-eu"; bs "/x/robsd-regress-exec.sh"; bs "y12"]
  /\ SchedDefs.resolve sched_wit_env TRg rd_wit_text false (bs "x${rdomain}")
    = Some [bs "sh"; bs "-eu"; bs "/x/robsd-regress-exec.sh"; bs "x11"]
  /\ exists c, config_parse sched_wit_env TRg rd_wit_text = Accepted c
     /\ resolve_env true (benv sched_wit_env ROBSD_REGRESS c false) (bsteps sched_wit_env ROBSD_REGRESS c false) (bs "y${rdomain}")
        = RNone [DInterp (EUnknown (bs "rdomain")); DNotFound].
Proof.
  split; [vm_compute; reflexivity|]. split; [vm_compute; reflexivity|].
  destruct (config_parse sched_wit_env TRg rd_wit_text) as [c|c] eqn:Hc; [|vm_compute in Hc; discriminate].
  exists c. split; [reflexivity|]. vm_compute in Hc. inversion Hc; subst. vm_compute. reflexivity.
Qed.
