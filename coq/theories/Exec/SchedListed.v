(* SchedListed.v - the statements of property C10 about the LISTING of an accepted
   configuration, assembled from SchedProofs / SchedNames / SchedBridge:
   numbering, fixed steps, and "every listed step name is resolvable by the step
   runner" - for the runner of C10 (SchedDefs.resolve on the text) and, through
   the bridge, for the runner of C06 (ArgvDefs' code on the parsed configuration). *)
From Robsd Require Import Conf.ConfSpec Conf.SchedDefs Conf.SchedSpec Conf.ConfTie Conf.SchedProofs Conf.SchedTrack
  Conf.SchedPure Conf.SchedNames.
From Robsd Require Import Exec.ArgvSpec Exec.ArgvProofs Exec.SchedBridge.
From RobsdGen Require Import Gen_Conf.
Local Open Scope N_scope.

(* robsd-step -L without -o: the steps numbered 1, 2, ...; there is always at least one and the last is end *)
Theorem list_cmd_full_nonempty E m text c steps c1 :
  config_parse E (tables_of m) text = Accepted c ->
  get_steps E (tables_of m) (after_parse (tables_of m) c) false = (c1, Some steps) ->
  list_cmd E (tables_of m) text None = L_ok (list_lines 1 steps)
  /\ list_lines 1 steps = flat_map (fun js => list_line (fst js) (snd js)) (combine (seq 1 (length steps)) steps)
  /\ steps <> [] /\ last (names steps) [] = str_end.
Proof.
  intros Hp Hg. destruct (listing_nonempty E m c c1 steps Hg) as [Hne Hl].
  rewrite (list_cmd_full _ _ _ _ _ _ Hp Hg). split; [destruct steps; [congruence|reflexivity]|].
  split; [apply list_lines_numbering|]. auto.
Qed.

(* robsd, robsd-cross, robsd-ports: what is listed is the documented list, in that order, nothing else, none parallel *)
Theorem listed_fixed_steps E m text c steps c1 :
  m = ROBSD \/ m = ROBSD_CROSS \/ m = ROBSD_PORTS ->
  config_parse E (tables_of m) text = Accepted c ->
  get_steps E (tables_of m) (after_parse (tables_of m) c) false = (c1, Some steps) ->
  names steps = step_names (t_steps (tables_of m))
  /\ Forall (fun s => ss_par s = false) steps
  /\ subseq (doc_steps m) (names steps) /\ Forall (fun n => In n (doc_steps m)) (names steps)
  /\ dedup [] (names steps) = doc_steps m.
Proof.
  intros Hm Hp Hg. destruct (get_steps_names _ _ _ _ _ _ Hg) as [Hn Hpar].
  set (c0 := set_trace (after_parse (tables_of m) c) false) in *.
  destruct (raw_names_static E m c0 Hm) as [Hs Hnp]. destruct (fixed_steps_static E m c0 Hm) as [H1 [H2 _]]. cbv zeta in H1, H2.
  rewrite <- Hn in Hs, H1, H2. repeat split; try assumption.
  - assert (Hf : Forall (fun b => b = false) (map ss_par steps)) by (rewrite Hpar; now apply Forall_map).
    now apply Forall_map in Hf.
  - rewrite Hs. apply steps_match_docs. destruct Hm as [->|[->| ->]]; discriminate.
Qed.

Section Listed.
  Variable E : env.
  Variable m : mode.
  Let T := tables_of m.

  (* every listed name is found by the step runner; the step it finds is the first one of that name, which is
     the listed one itself unless an earlier step has the same name *)
  Theorem listed_resolves text c c1 steps i s :
    config_parse E T text = Accepted c -> get_steps E T (after_parse T c) false = (c1, Some steps) ->
    nth_error steps i = Some s ->
    exists j s', (j <= i)%nat /\ nth_error steps j = Some s' /\ ss_name s' = ss_name s /\
      (forall k x, (k < j)%nat -> nth_error steps k = Some x -> ss_name x <> ss_name s) /\
      SchedDefs.resolve E T text false (ss_name s) = Some (ss_cmd s').
  Proof.
    intros Hp Hg Hi. pose proof (listed_names_nonul E m text c c1 steps Hp Hg) as Hnn.
    destruct (listed_resolves_to_first steps i s Hnn Hi) as [j [s' [Hj [Hnj [Hname [Hf Hbefore]]]]]].
    exists j, s'. repeat split; try assumption. unfold SchedDefs.resolve. fold T. rewrite Hp, Hg. cbn [snd]. now rewrite Hf.
  Qed.

  (* ... by the runner of C06 as well: ONE runner model *)
  Theorem listed_resolves_one_runner text c c1 steps i s :
    config_parse E T text = Accepted c -> get_steps E T (after_parse T c) false = (c1, Some steps) ->
    nth_error steps i = Some s ->
    let c' := after_parse T c in
    (schedule_ok (benv E m c' false) (bsteps E m c' false) \/ m <> ROBSD_REGRESS) ->
    exists j s', (j <= i)%nat /\ nth_error steps j = Some s' /\ ss_name s' = ss_name s /\
      (forall k x, (k < j)%nat -> nth_error steps k = Some x -> ss_name x <> ss_name s) /\
      resolve_env true (benv E m c' false) (bsteps E m c' false) (ss_name s) = RArgv (ss_cmd s').
  Proof.
    intros Hp Hg Hi c' Hguard. destruct (listed_resolves text c c1 steps i s Hp Hg Hi) as [j [s' [Hj [Hnj [Hname [Hbefore Hr]]]]]].
    exists j, s'. repeat split; try assumption.
    now apply (bridge_resolve E m text c false (ss_name s) (ss_cmd s') Hp Hguard).
  Qed.

  (* pairwise different names: every listed position is executed under its own name *)
  Theorem listed_resolves_to_itself_nodup text c c1 steps i s :
    config_parse E T text = Accepted c -> get_steps E T (after_parse T c) false = (c1, Some steps) ->
    NoDup (names steps) -> nth_error steps i = Some s ->
    SchedDefs.resolve E T text false (ss_name s) = Some (ss_cmd s).
  Proof.
    intros Hp Hg Hnd Hi. pose proof (listed_names_nonul E m text c c1 steps Hp Hg) as Hnn.
    unfold SchedDefs.resolve. fold T. rewrite Hp, Hg. cbn [snd].
    now rewrite (listed_resolves_to_itself steps i s Hnn Hnd Hi).
  Qed.

  (* a repeated name: no argument of the runner reaches the later position *)
  Theorem shadowed_step_unreachable text c c1 steps i j s s' :
    config_parse E T text = Accepted c -> get_steps E T (after_parse T c) false = (c1, Some steps) ->
    (j < i)%nat -> nth_error steps i = Some s -> nth_error steps j = Some s' -> ss_name s' = ss_name s ->
    (forall k, (k < i)%nat -> nth_error steps k <> Some s) ->
    forall n, SchedDefs.find_step steps n <> Some s.
  Proof.
    intros Hp Hg Hji Hi Hj Hname Hdistinct n Hf. pose proof (listed_names_nonul E m text c c1 steps Hp Hg) as Hnn.
    destruct (shadowed_never_resolved steps i j s s' Hnn Hji Hi Hj Hname n Hf) as [k [Hk Hkn]].
    exact (Hdistinct k Hk Hkn).
  Qed.
End Listed.

(* ---- a listed step whose command is empty ----------------------------------------------------------
   Resolution (resolve_step_command) still yields the empty vector for a canvas step whose command elements all
   interpolate to nothing (SchedShadow / C10_listed_command_nonempty_refuted): the NAME is resolvable.  What the
   runner does with it is C06's [step_exec_run]: with the test of /repo 8e76449 it refuses - "empty step command",
   the status of Gen_Exec.empty_exit, nothing forked - for every kernel function, signal and handshake.  Only the
   modes without pattern keywords can have such a step at all (script commands start with sh:
   C10_listed_command_nonempty_partial), and for those the runner on the text IS the runner on [view_of]. *)
From Robsd Require Import Exec.ArgvRun.

Theorem listed_empty_command_refused E m text c tr name xs kern g hs :
  empty_command_checked = true ->
  m <> ROBSD_REGRESS -> config_parse E (tables_of m) text = Accepted c ->
  let c' := after_parse (tables_of m) c in
  benv E m c' tr TRACE <> None ->
  SchedDefs.resolve E (tables_of m) text tr name = Some [] ->
  step_exec_run empty_command_checked true (view_of E m c' tr xs) tr name kern g hs
    = Exited (mkrun None empty_exit [DEmptyCmd]).
Proof.
  intros Hck Hm Hp c' Htr Hr. rewrite Hck.
  apply empty_command_refused. now apply (bridge_view E m text c tr name [] xs Hm Hp Htr).
Qed.
