(* ArgvProofs.v - lemmas for property C06: the model of ArgvDefs.v against the
   specification of ArgvSpec.v. *)
From Robsd Require Import Exec.ArgvSpec Interp.InterpProofs.
Local Open Scope N_scope.

(* ---- what the translator read out of the sources, against what the model and
        the property assume.  These stop compiling when config_get_steps no
        longer drops empty arguments / appends the sentinel, when hook_to_argv
        starts dropping, or when the template / the value of ${trace} change. *)

Definition documented_template : list tmpl :=
  [TLit [115; 104]; TLit [45; 101; 117]; TLit [36; 123; 116; 114; 97; 99; 101; 125]; TScript; TName].

Lemma gen_ties :
  steps_drop_empty = true /\ steps_null_sentinel = true /\ hook_drop_empty = false /\
  script_template = documented_template /\ trace_on = [45; 120] /\ trace_off = [] /\
  notfound_exit = 1%Z /\ ex_timeout = 124%Z.
Proof. repeat split; reflexivity. Qed.

Lemma steps_drop_tie : steps_drop_empty = true. Proof. exact (proj1 gen_ties). Qed.
Lemma hook_drop_tie : hook_drop_empty = false. Proof. exact (proj1 (proj2 (proj2 gen_ties))). Qed.

(* ---- one element ------------------------------------------------------------ *)

Lemma interp_arg_iff env t o : interp_arg env t = IOk o <-> renders env t o.
Proof. unfold interp_arg, interp_str, renders. apply interp_iff. Qed.

Lemma interp_arg_err env t e : interp_arg env t = IErr e -> ~ renderable env t.
Proof. intros H [o Ho]. apply interp_arg_iff in Ho. congruence. Qed.

Lemma renders_functional env t o1 o2 : renders env t o1 -> renders env t o2 -> o1 = o2.
Proof. unfold renders. apply subst_functional. Qed.

Lemma renderable_all env l : Forall (renderable env) l <-> exists outs, Forall2 (renders env) l outs.
Proof.
  induction l as [|t l IH].
  - split; [intros _; exists []; constructor|constructor].
  - split.
    + intros H. inversion H as [|t' l' [o Ho] Hl]; subst.
      destruct (proj1 IH Hl) as [outs Houts]. exists (o :: outs). now constructor.
    + intros [outs H]. inversion H as [|t' o l' outs' Ho Hl]; subst.
      constructor; [now exists o|]. apply IH. now exists outs'.
Qed.

Lemma renders_all_functional env l o1 o2 :
  Forall2 (renders env) l o1 -> Forall2 (renders env) l o2 -> o1 = o2.
Proof.
  intros H; revert o2. induction H as [|t o l outs Ho _ IH]; intros o2 H2.
  - now inversion H2.
  - inversion H2 as [|t' o' l' outs' Ho' Hl']; subst.
    f_equal; [eapply renders_functional; eassumption|now apply IH].
Qed.

(* ---- one command -------------------------------------------------------------- *)

Definition kept (drop : bool) (outs : list bytes) : list bytes :=
  if drop then filter nonempty outs else outs.

Lemma kept_cons drop o outs :
  kept drop (o :: outs) = if drop && isnil o then kept drop outs else o :: kept drop outs.
Proof. destruct drop; [|reflexivity]. simpl. unfold nonempty. destruct o; reflexivity. Qed.

Lemma interp_args_ok drop env l argv :
  interp_args drop env l = ROk argv <->
  exists outs, Forall2 (renders env) l outs /\ argv = kept drop outs.
Proof.
  revert argv. induction l as [|t l IH]; intros argv; cbn [interp_args].
  - split.
    + intros H. injection H as <-. exists []. split; [constructor|destruct drop; reflexivity].
    + intros [outs [H ->]]. inversion H; subst. destruct drop; reflexivity.
  - destruct (interp_arg env t) as [o|e] eqn:Et.
    + destruct (interp_args drop env l) as [r|e'] eqn:Er.
      * destruct (proj1 (IH r) eq_refl) as [outs [Hf Hr]].
        split.
        -- intros H. injection H as <-. exists (o :: outs).
           split; [constructor; [now apply interp_arg_iff|exact Hf]|].
           rewrite kept_cons, Hr. reflexivity.
        -- intros [outs' [Hf' ->]]. inversion Hf' as [|t' o' l' outs'' Ho Hl]; subst.
           apply interp_arg_iff in Ho. rewrite Et in Ho. injection Ho as <-.
           rewrite (renders_all_functional _ _ _ _ Hl Hf). rewrite kept_cons. reflexivity.
      * split; [discriminate|]. intros [outs [Hf _]]. inversion Hf as [|t' o' l' outs' Ho Hl]; subst.
        assert (Hx : RErr e' = ROk (kept drop outs')) by (apply IH; eauto).
        discriminate.
    + split; [discriminate|]. intros [outs [Hf _]]. inversion Hf as [|t' o' l' outs' Ho Hl]; subst.
      apply interp_arg_iff in Ho. congruence.
Qed.

Lemma interp_args_err_iff drop env l :
  (exists e, interp_args drop env l = RErr e) <-> ~ Forall (renderable env) l.
Proof.
  rewrite renderable_all. split.
  - intros [e He] [outs Hf].
    assert (Hx : interp_args drop env l = ROk (kept drop outs)) by (apply interp_args_ok; eauto).
    congruence.
  - intros Hn. destruct (interp_args drop env l) as [argv|e] eqn:E; [|eauto].
    exfalso. apply Hn. apply interp_args_ok in E. destruct E as [outs [Hf _]]. eauto.
Qed.

Lemma step_argv_of_kept env cmd argv :
  step_argv_of env cmd argv <-> exists outs, Forall2 (renders env) cmd outs /\ argv = kept true outs.
Proof. reflexivity. Qed.

Lemma step_argv_of_functional env cmd a1 a2 :
  step_argv_of env cmd a1 -> step_argv_of env cmd a2 -> a1 = a2.
Proof.
  intros [o1 [H1 ->]] [o2 [H2 ->]]. now rewrite (renders_all_functional _ _ _ _ H1 H2).
Qed.

(* nothing is split, nothing is added *)
Lemma step_argv_embeds env cmd argv : step_argv_of env cmd argv <-> embeds env cmd argv.
Proof.
  split.
  - intros [outs [Hf ->]]. induction Hf as [|t o l outs Ho _ IH]; [constructor|].
    simpl. unfold nonempty at 1. destruct o as [|c o]; simpl.
    + now apply emb_drop.
    + apply emb_keep; [exact Ho|discriminate|exact IH].
  - induction 1 as [|t cmd o argv Ho Hne _ [outs [Hf ->]]|t cmd argv Ho _ [outs [Hf ->]]].
    + exists []. split; constructor.
    + exists (o :: outs). split; [now constructor|]. simpl. unfold nonempty at 1.
      destruct o; [congruence|reflexivity].
    + exists ([] :: outs). split; [now constructor|reflexivity].
Qed.

Lemma embeds_length env cmd argv : embeds env cmd argv -> (length argv <= length cmd)%nat.
Proof. induction 1; simpl; lia. Qed.

Lemma embeds_nonempty env cmd argv : embeds env cmd argv -> Forall (fun a => a <> []) argv.
Proof. induction 1; auto. Qed.

(* ---- the schedule ------------------------------------------------------------------ *)

Definition sched_rel env (sd : stepdef) (p : bytes * list bytes) : Prop :=
  fst p = sd_name sd /\ step_argv_of env (command_of sd) (snd p).

Lemma interp_steps_ok env steps sched :
  interp_steps env steps = ROk sched <-> Forall2 (sched_rel env) steps sched.
Proof.
  revert sched. induction steps as [|sd steps IH]; intros sched; cbn [interp_steps].
  - split; [intros H; injection H as <-; constructor|intros H; now inversion H].
  - rewrite steps_drop_tie.
    destruct (interp_args true env (command_of sd)) as [argv|e] eqn:Ea.
    + destruct (interp_steps env steps) as [r|e'] eqn:Er.
      * split.
        -- intros H. injection H as <-. constructor; [|now apply IH].
           split; [reflexivity|]. cbn [snd]. apply step_argv_of_kept. now apply interp_args_ok.
        -- intros H. inversion H as [|sd' p steps' sched' [Hn Ha] Hr]; subst.
           destruct p as [n a]. cbn [fst snd] in Hn, Ha. subst n.
           apply step_argv_of_kept, interp_args_ok in Ha. rewrite Ea in Ha. injection Ha as <-.
           apply IH in Hr. injection Hr as <-. reflexivity.
      * split; [discriminate|]. intros H. inversion H as [|sd' p steps' sched' _ Hr]; subst.
        apply IH in Hr. discriminate.
    + split; [discriminate|]. intros H. inversion H as [|sd' p steps' sched' [_ Ha] _]; subst.
      apply step_argv_of_kept, interp_args_ok in Ha. congruence.
Qed.

Lemma schedule_ok_iff env steps :
  schedule_ok env steps <-> exists sched, Forall2 (sched_rel env) steps sched.
Proof.
  induction steps as [|sd steps IH].
  - split; [intros _; exists []; constructor|constructor].
  - split.
    + intros H. inversion H as [|sd' steps' Hsd Hr]; subst.
      destruct (proj1 IH Hr) as [sched Hs]. apply renderable_all in Hsd. destruct Hsd as [outs Ho].
      exists ((sd_name sd, filter nonempty outs) :: sched). constructor; [|exact Hs].
      split; [reflexivity|]. now exists outs.
    + intros [sched H]. inversion H as [|sd' p steps' sched' [_ [outs [Ho _]]] Hr]; subst.
      constructor; [apply renderable_all; eauto|]. apply IH. eauto.
Qed.

Lemma interp_steps_err_iff env steps :
  (exists e, interp_steps env steps = RErr e) <-> ~ schedule_ok env steps.
Proof.
  rewrite schedule_ok_iff. split.
  - intros [e He] [sched Hs]. apply interp_steps_ok in Hs. congruence.
  - intros Hn. destruct (interp_steps env steps) as [sched|e] eqn:E; [|eauto].
    exfalso. apply Hn. exists sched. now apply interp_steps_ok.
Qed.

(* ---- lookup by name --------------------------------------------------------------------- *)

Lemma named_dec n sd : {named n sd} + {~ named n sd}.
Proof.
  unfold named. destruct (beq (cstr (sd_name sd)) (cstr n)) eqn:E.
  - left. now apply beq_eq.
  - right. intros H. apply beq_eq in H. congruence.
Qed.

Lemma first_named_functional n steps a b : first_named n steps a -> first_named n steps b -> a = b.
Proof.
  intros [p1 [q1 [E1 [N1 F1]]]] [p2 [q2 [E2 [N2 F2]]]]. subst steps.
  revert p2 E2 F2. induction p1 as [|x p1 IH]; intros p2 E2 F2.
  - destruct p2 as [|y p2]; [now injection E2|].
    injection E2 as -> _. inversion F2; subst. contradiction.
  - destruct p2 as [|y p2].
    + injection E2 as -> _. inversion F1; subst. contradiction.
    + injection E2 as -> E2. inversion F1; inversion F2; subst. now apply IH with p2.
Qed.

Lemma find_step_some env steps sched name argv :
  Forall2 (sched_rel env) steps sched -> find_step name sched = Some argv ->
  exists sd, first_named name steps sd /\ step_argv_of env (command_of sd) argv.
Proof.
  induction 1 as [|sd p steps sched [Hn Ha] _ IH]; cbn [find_step]; [discriminate|].
  destruct p as [n a]. cbn [fst snd] in Hn, Ha. subst n.
  destruct (beq (cstr (sd_name sd)) (cstr name)) eqn:E.
  - intros H. injection H as <-. exists sd. split; [|exact Ha].
    exists [], steps. repeat split; [now apply beq_eq|constructor].
  - intros H. destruct (IH H) as [sd' [[pre [post [-> [Hnm Hpre]]]] Ha']].
    exists sd'. split; [|exact Ha']. exists (sd :: pre), post. repeat split; [exact Hnm|].
    constructor; [|exact Hpre]. intros Hx. apply beq_eq in Hx. congruence.
Qed.

Lemma find_step_none env steps sched name :
  Forall2 (sched_rel env) steps sched -> find_step name sched = None -> ~ known_step name steps.
Proof.
  induction 1 as [|sd p steps sched [Hn _] _ IH]; cbn [find_step].
  - intros _ [sd [[] _]].
  - destruct p as [n a]. cbn [fst] in Hn. subst n.
    destruct (beq (cstr (sd_name sd)) (cstr name)) eqn:E; [discriminate|].
    intros H [sd' [[<-|Hin] Hnm]].
    + apply beq_eq in Hnm. congruence.
    + apply (IH H). now exists sd'.
Qed.

Lemma first_named_known n steps sd : first_named n steps sd -> known_step n steps.
Proof.
  intros [pre [post [-> [Hn _]]]]. exists sd. split; [|exact Hn]. apply in_or_app. right. now left.
Qed.

Lemma known_first_named n steps : known_step n steps -> exists sd, first_named n steps sd.
Proof.
  induction steps as [|x steps IH]; intros [sd [Hin Hn]]; [destruct Hin|].
  destruct (named_dec n x) as [Hx|Hx].
  - exists x, [], steps. repeat split; [exact Hx|constructor].
  - destruct Hin as [<-|Hin]; [contradiction|].
    destruct IH as [sd' [pre [post [-> [Hn' Hpre]]]]]; [now exists sd|].
    exists sd', (x :: pre), post. repeat split; [exact Hn'|now constructor].
Qed.

(* ---- resolve: C06_argv_exact ---------------------------------------------------------------- *)

Lemma resolve_argv_exact checked cv trace name argv :
  resolve checked cv trace name = RArgv argv <->
  schedule_ok (env_of cv trace) (cv_steps cv) /\
  exists sd, first_named name (cv_steps cv) sd /\ step_argv_of (env_of cv trace) (command_of sd) argv.
Proof.
  unfold resolve. set (env := env_of cv trace).
  destruct (interp_steps env (cv_steps cv)) as [sched|e] eqn:E.
  - pose proof (proj1 (interp_steps_ok _ _ _) E) as Hs.
    destruct (find_step name sched) as [a|] eqn:Ef.
    + destruct (find_step_some _ _ _ _ _ Hs Ef) as [sd [Hfn Ha]]. split.
      * intros H. injection H as <-. split; [apply schedule_ok_iff; eauto|eauto].
      * intros [_ [sd' [Hfn' Ha']]]. rewrite (first_named_functional _ _ _ _ Hfn' Hfn) in Ha'.
        now rewrite (step_argv_of_functional _ _ _ _ Ha Ha').
    + split; [discriminate|]. intros [_ [sd [Hfn _]]].
      exfalso. exact (find_step_none _ _ _ _ Hs Ef (first_named_known _ _ _ Hfn)).
  - split; [destruct checked; discriminate|]. intros [Hok _].
    exfalso. apply (proj1 (interp_steps_err_iff env (cv_steps cv))); eauto.
Qed.

Lemma resolve_no_splitting checked cv trace name argv :
  resolve checked cv trace name = RArgv argv ->
  exists sd, first_named name (cv_steps cv) sd /\
             embeds (env_of cv trace) (command_of sd) argv /\
             (length argv <= length (command_of sd))%nat /\ Forall (fun a => a <> []) argv.
Proof.
  intros H. apply resolve_argv_exact in H. destruct H as [_ [sd [Hfn Ha]]].
  apply step_argv_embeds in Ha. exists sd. repeat split; [exact Hfn|exact Ha| |].
  - eapply embeds_length; eassumption.
  - eapply embeds_nonempty; eassumption.
Qed.

Lemma resolve_unknown checked cv trace name :
  schedule_ok (env_of cv trace) (cv_steps cv) -> ~ known_step name (cv_steps cv) ->
  resolve checked cv trace name = RNone [DNotFound].
Proof.
  intros Hok Hk. unfold resolve.
  destruct (interp_steps (env_of cv trace) (cv_steps cv)) as [sched|e] eqn:E.
  - pose proof (proj1 (interp_steps_ok _ _ _) E) as Hs.
    destruct (find_step name sched) as [a|] eqn:Ef; [|reflexivity].
    destruct (find_step_some _ _ _ _ _ Hs Ef) as [sd [Hfn _]].
    exfalso. apply Hk. eapply first_named_known; eassumption.
  - exfalso. apply (proj1 (interp_steps_err_iff (env_of cv trace) (cv_steps cv))); eauto.
Qed.

Lemma resolve_bad_schedule cv trace name :
  ~ schedule_ok (env_of cv trace) (cv_steps cv) ->
  resolve false cv trace name = RCrash /\
  exists e, resolve true cv trace name = RNone [DInterp e; DNotFound].
Proof.
  intros Hn. apply interp_steps_err_iff in Hn. destruct Hn as [e He].
  unfold resolve. rewrite He. eauto.
Qed.

Lemma resolve_total checked cv trace name :
  schedule_ok (env_of cv trace) (cv_steps cv) ->
  (exists argv, resolve checked cv trace name = RArgv argv) \/ resolve checked cv trace name = RNone [DNotFound].
Proof.
  intros Hok. unfold resolve.
  destruct (interp_steps (env_of cv trace) (cv_steps cv)) as [sched|e] eqn:E.
  - destruct (find_step name sched); eauto.
  - exfalso. apply (proj1 (interp_steps_err_iff (env_of cv trace) (cv_steps cv))); eauto.
Qed.

Lemma resolve_checked_never_crashes cv trace name : resolve true cv trace name <> RCrash.
Proof.
  unfold resolve. destruct (interp_steps _ _); [destruct (find_step _ _)|]; discriminate.
Qed.

(* ---- wait status: C06_exit_faithful ---------------------------------------------------------- *)

Local Open Scope Z_scope.

Lemma clit_int z : in_rangeb TInt z = true -> clit TInt z = Some z.
Proof. unfold clit. now intros ->. Qed.
Lemma cvar_some z : cvar z = Some z. Proof. reflexivity. Qed.
Lemma cband_some t a b : cband t (Some a) (Some b) = Some (Z.land a b). Proof. reflexivity. Qed.
Lemma ceq_some t a b : ceq t (Some a) (Some b) = Some (if a =? b then 1 else 0). Proof. reflexivity. Qed.
Lemma cgt_some t a b : cgt t (Some a) (Some b) = Some (if b <? a then 1 else 0). Proof. reflexivity. Qed.
Lemma cshr_int_some a b : 0 <= b < 32 -> cshr TInt (Some a) (Some b) = Some (Z.shiftr a b).
Proof.
  intros H. unfold cshr, cbind2. cbn [cbits].
  destruct (Z.ltb_spec b 0); [lia|]. destruct (Z.leb_spec 32 b); [lia|]. reflexivity.
Qed.
Lemma cadd_int_some a b : in_range TInt (a + b) -> cadd TInt (Some a) (Some b) = Some (a + b).
Proof.
  intros H. unfold cadd, cbind2, carith. cbn [csigned].
  destruct (in_rangeb_spec TInt (a + b)); [reflexivity|contradiction].
Qed.
Lemma ccast_schar_some a : ccast_schar (Some a) = Some (cwrap_schar a). Proof. reflexivity. Qed.
Lemma ccast_schar_int_id x : ccast_schar_int x = x. Proof. reflexivity. Qed.
Lemma cif_some a x y : cif (Some a) x y = if a =? 0 then y else x. Proof. reflexivity. Qed.
Lemma creturn_some v st : creturn (Some v) st = Some (v, st). Proof. reflexivity. Qed.

Lemma land_127 w : Z.land w 127 = w mod 128.
Proof. change 127 with (Z.ones 7). rewrite Z.land_ones by lia. reflexivity. Qed.
Lemma land_ff00 w : Z.shiftr (Z.land w 65280) 8 = (w / 256) mod 256.
Proof.
  change 65280 with (Z.shiftl (Z.ones 8) 8).
  rewrite Z.shiftr_land, Z.shiftr_shiftl_l by lia. change (8 - 8) with 0. rewrite Z.shiftl_0_r.
  rewrite Z.land_ones by lia. rewrite Z.shiftr_div_pow2 by lia. reflexivity.
Qed.

(* the function clang compiled - glibc's W* macros expanded - decodes every
   wait status, every [int] and beyond, as [exit_spec] says; it never traps *)
Ltac fin := first [reflexivity | cbv beta iota; f_equal; lia].

Lemma exit_of_wait_eq w g : exit_of_wait w g = Some (exit_spec w g).
Proof.
  unfold exit_of_wait, exitstatus, exit_spec.
  pose proof (Z.mod_pos_bound w 128 ltac:(lia)) as Hl.
  rewrite !cvar_some, !clit_int by reflexivity.
  rewrite !cband_some, !land_127.
  rewrite !ceq_some.
  rewrite !cshr_int_some by lia. rewrite land_ff00.
  rewrite !cadd_int_some by (unfold in_range; cbn [cmin cmax]; lia).
  rewrite ccast_schar_some, ccast_schar_int_id.
  rewrite !cshr_int_some by lia.
  rewrite !cgt_some, !cif_some, !creturn_some.
  unfold sigalrm.
  (* the remaining goals compare two decision trees over g, w mod 128 and (w / 256) mod 256;
     [fin] closes a leaf whatever the order of the operands in the source *)
  destruct (g =? 14); cbn [Z.eqb]; [fin|].
  destruct (Z.eqb_spec (w mod 128) 0) as [E0|E0]; cbn [Z.eqb]; [fin|].
  rewrite Z.shiftr_div_pow2 by lia. change (2 ^ 1) with 2. unfold cwrap_schar.
  destruct (Z.ltb_spec (w mod 128) 127) as [E1|E1].
  - rewrite (Z.mod_small (w mod 128 + 1 + 128) 256) by lia.
    destruct (Z.ltb_spec 0 ((w mod 128 + 1 + 128 - 128) / 2)) as [E2|E2]; cbn [Z.eqb]; [fin|].
    exfalso. assert (H2 : 2 <= w mod 128 + 1 + 128 - 128) by lia.
    pose proof (Z.div_le_mono 2 (w mod 128 + 1 + 128 - 128) 2 ltac:(lia) H2) as H3.
    change (2 / 2) with 1 in H3. lia.
  - assert (E : w mod 128 = 127) by lia. rewrite E. fin.
Qed.

Lemma exit_spec_exited code g : 0 <= code <= 255 -> g <> sigalrm -> exit_spec (w_exited code) g = code.
Proof.
  intros Hc Hg. unfold exit_spec, w_exited.
  destruct (Z.eqb_spec g sigalrm); [contradiction|].
  replace ((code * 256) mod 128) with 0 by (replace (code * 256) with (code * 2 * 128) by lia; now rewrite Z.mod_mul by lia).
  cbn [Z.eqb]. rewrite Z.div_mul by lia. apply Z.mod_small. lia.
Qed.

Lemma exit_spec_signaled s core g :
  1 <= s <= 126 -> g <> sigalrm -> exit_spec (w_signaled s core) g = 128 + s.
Proof.
  intros Hs Hg. unfold exit_spec, w_signaled.
  destruct (Z.eqb_spec g sigalrm); [contradiction|].
  assert (E : (s + (if core then 128 else 0)) mod 128 = s).
  { destruct core.
    - replace (s + 128) with (s + 1 * 128) by lia. rewrite Z.mod_add by lia. apply Z.mod_small. lia.
    - rewrite Z.add_0_r. apply Z.mod_small. lia. }
  rewrite E. destruct (Z.eqb_spec s 0); [lia|]. destruct (Z.ltb_spec s 127); [reflexivity|lia].
Qed.

Lemma exit_spec_timeout w : exit_spec w sigalrm = 124.
Proof. unfold exit_spec. now rewrite Z.eqb_refl. Qed.

Lemma exit_spec_zero w g :
  exit_spec w g = 0 <-> g <> sigalrm /\ w mod 128 = 0 /\ (w / 256) mod 256 = 0.
Proof.
  unfold exit_spec. pose proof (Z.mod_pos_bound w 128 ltac:(lia)) as Hl.
  destruct (Z.eqb_spec g sigalrm) as [Eg|Eg].
  - split; [discriminate|intros [H _]; contradiction].
  - destruct (Z.eqb_spec (w mod 128) 0) as [E0|E0].
    + split; [intros H; auto|intros [_ [_ H]]; exact H].
    + destruct (Z.ltb_spec (w mod 128) 127); split; try lia; intros [_ [H _]]; contradiction.
Qed.

Lemma exit_spec_range w g : 0 <= exit_spec w g <= 255.
Proof.
  unfold exit_spec. pose proof (Z.mod_pos_bound w 128 ltac:(lia)).
  pose proof (Z.mod_pos_bound (w / 256) 256 ltac:(lia)).
  destruct (g =? sigalrm); [lia|]. destruct (w mod 128 =? 0); [lia|].
  destruct (Z.ltb_spec (w mod 128) 127); lia.
Qed.

(* a status the kernel hands to waitpid(-pgid, &status, 0) *)
Inductive kernel_status : Z -> Prop :=
| ks_exited code : 0 <= code <= 255 -> kernel_status (w_exited code)
| ks_signaled s core : 1 <= s <= 126 -> kernel_status (w_signaled s core).

Lemma exit_zero_iff_exited_zero w g :
  kernel_status w -> g <> sigalrm -> (exit_spec w g = 0 <-> w = w_exited 0).
Proof.
  intros Hk Hg. destruct Hk as [code Hc|s core Hs].
  - rewrite exit_spec_exited by assumption. unfold w_exited. lia.
  - rewrite exit_spec_signaled by assumption. unfold w_signaled, w_exited. destruct core; lia.
Qed.

Lemma exit_faithful_all :
  (forall w g, exit_of_wait w g = Some (exit_spec w g)) /\
  (forall code g, 0 <= code <= 255 -> g <> sigalrm -> exit_of_wait (w_exited code) g = Some code) /\
  (forall s core g, 1 <= s <= 126 -> g <> sigalrm -> exit_of_wait (w_signaled s core) g = Some (128 + s)) /\
  (forall w, exit_of_wait w sigalrm = Some 124) /\
  (forall w g, kernel_status w -> g <> sigalrm -> (exit_of_wait w g = Some 0 <-> w = w_exited 0)) /\
  (forall w g, exit_of_wait w g = Some 0 <-> g <> sigalrm /\ w mod 128 = 0 /\ (w / 256) mod 256 = 0) /\
  (forall w g, 0 <= exit_spec w g <= 255).
Proof.
  split; [exact exit_of_wait_eq|].
  split; [intros code g Hc Hg; rewrite exit_of_wait_eq; f_equal; now apply exit_spec_exited|].
  split; [intros s core g Hs Hg; rewrite exit_of_wait_eq; f_equal; now apply exit_spec_signaled|].
  split; [intros w; rewrite exit_of_wait_eq; f_equal; apply exit_spec_timeout|].
  split.
  - intros w g Hk Hg. rewrite exit_of_wait_eq, <- (exit_zero_iff_exited_zero w g Hk Hg).
    split; [intros H; now injection H|intros ->; reflexivity].
  - split; [|exact exit_spec_range].
    intros w g. rewrite exit_of_wait_eq, <- exit_spec_zero.
    split; [intros H; now injection H|intros ->; reflexivity].
Qed.

(* ---- the run ------------------------------------------------------------------------------------ *)

Lemma run_exit checked cv trace name kern g argv :
  resolve checked cv trace name = RArgv argv ->
  exists d, run_with checked cv trace name kern g =
            Exited (mkrun (Some argv) (exit_spec (child_status (kern argv)) g) d) /\
            (exit_spec (child_status (kern argv)) g <> 0 -> d <> []) /\
            (kern argv = KNoExec -> In DExec d).
Proof.
  intros H. unfold run_with. rewrite H, exit_of_wait_eq.
  eexists. split; [reflexivity|]. split.
  - intros Hne. destruct (Z.eqb_spec (exit_spec (child_status (kern argv)) g) 0); [contradiction|].
    destruct (kern argv); discriminate.
  - intros ->. now left.
Qed.

Lemma noexec_exit g : exit_spec (child_status KNoExec) g <> 0.
Proof.
  cbn [child_status]. destruct (Z.eqb_spec g sigalrm) as [->|Hg].
  - rewrite exit_spec_timeout. discriminate.
  - change (w_exitcode 1) with (w_exited 1). rewrite exit_spec_exited by (assumption || lia). discriminate.
Qed.

(* the full statement of C06_unresolvable_is_error for a runner [checked] *)
Definition unresolvable_is_error (checked : bool) : Prop :=
  forall cv trace name kern g,
    let o := run_with checked cv trace name kern g in
    o <> Crash /\
    ((~ known_step name (cv_steps cv) \/ ~ schedule_ok (env_of cv trace) (cv_steps cv)) ->
       exists r, o = Exited r /\ rr_argv r = None /\ rr_exit r <> 0 /\ rr_diag r <> []) /\
    (forall argv, resolve checked cv trace name = RArgv argv -> kern argv = KNoExec ->
       exists r, o = Exited r /\ rr_exit r <> 0 /\ In DExec (rr_diag r)).

Lemma notfound_nonzero : notfound_exit <> 0.
Proof. discriminate. Qed.

Lemma unresolvable_guarded checked cv trace name kern g :
  (checked = true \/ schedule_ok (env_of cv trace) (cv_steps cv)) ->
  let o := run_with checked cv trace name kern g in
  o <> Crash /\
  ((~ known_step name (cv_steps cv) \/ ~ schedule_ok (env_of cv trace) (cv_steps cv)) ->
     exists r, o = Exited r /\ rr_argv r = None /\ rr_exit r <> 0 /\ rr_diag r <> []) /\
  (forall argv, resolve checked cv trace name = RArgv argv -> kern argv = KNoExec ->
     exists r, o = Exited r /\ rr_exit r <> 0 /\ In DExec (rr_diag r)).
Proof.
  intros Hguard o. subst o.
  assert (Hcases : (exists argv, resolve checked cv trace name = RArgv argv) \/
                   (exists d, resolve checked cv trace name = RNone d /\ d <> [])).
  { destruct (interp_steps (env_of cv trace) (cv_steps cv)) as [sched|e] eqn:E.
    - unfold resolve. rewrite E. destruct (find_step name sched); [eauto|].
      right. eexists. split; [reflexivity|discriminate].
    - destruct Hguard as [->|Hok].
      + unfold resolve. rewrite E. right. eexists. split; [reflexivity|discriminate].
      + exfalso. apply (proj1 (interp_steps_err_iff (env_of cv trace) (cv_steps cv))); eauto. }
  split; [|split].
  - destruct Hcases as [[argv Ha]|[d [Hd _]]].
    + destruct (run_exit _ _ _ _ kern g _ Ha) as [d [-> _]]. discriminate.
    + unfold run_with. rewrite Hd. discriminate.
  - intros Hun. destruct Hcases as [[argv Ha]|[d [Hd Hne]]].
    + exfalso. apply resolve_argv_exact in Ha. destruct Ha as [Hok [sd [Hfn _]]].
      destruct Hun as [Hk|Hs]; [apply Hk; eapply first_named_known; eassumption|contradiction].
    + unfold run_with. rewrite Hd. eexists. split; [reflexivity|].
      cbn [rr_argv rr_exit rr_diag]. repeat split; [apply notfound_nonzero|exact Hne].
  - intros argv Ha Hk. destruct (run_exit _ _ _ _ kern g _ Ha) as [d [-> [_ Hd]]].
    eexists. split; [reflexivity|]. cbn [rr_exit rr_diag]. split; [|now apply Hd].
    rewrite Hk. apply noexec_exit.
Qed.

Lemma unresolvable_checked : unresolvable_is_error true.
Proof. intros cv trace name kern g. apply unresolvable_guarded. now left. Qed.

(* D5: the shipped find_step on a schedule that does not interpolate *)
Definition d5_cfg : cfgview :=
  (mkcfg [] [] [mkstep [115] (Command [[115; 104]; [45; 99]; [107; 105; 108; 108; 32; 45; 57; 32; 36; 36]])] None)%N.

Lemma unresolvable_shipped_refuted :
  exists cv trace name kern g, run_with false cv trace name kern g = Crash.
Proof. exists d5_cfg, false, [115%N], (fun _ => KWait 0), 0. vm_compute. reflexivity. Qed.

Lemma shipped_crash_iff cv trace name kern g :
  run_with false cv trace name kern g = Crash <-> ~ schedule_ok (env_of cv trace) (cv_steps cv).
Proof.
  split.
  - intros H Hok. exact (proj1 (unresolvable_guarded false cv trace name kern g (or_intror Hok)) H).
  - intros Hn. unfold run_with. now rewrite (proj1 (resolve_bad_schedule cv trace name Hn)).
Qed.

(* the model in force follows the source: either variant, decided by the translator *)
Lemma current_tie :
  (find_step_null_checked = false /\ step_run = run_with false) \/
  (find_step_null_checked = true /\ step_run = run_with true).
Proof. first [left; split; reflexivity | right; split; reflexivity]. Qed.

Lemma current_unresolvable :
  (find_step_null_checked = false /\
   exists cv trace name kern g, step_run cv trace name kern g = Crash) \/
  (find_step_null_checked = true /\ unresolvable_is_error find_step_null_checked).
Proof.
  destruct current_tie as [[Hf Hr]|[Hf Hr]].
  - left. split; [exact Hf|]. rewrite Hr. exact unresolvable_shipped_refuted.
  - right. split; [exact Hf|]. rewrite Hf. exact unresolvable_checked.
Qed.

Lemma unresolvable_if_checked : find_step_null_checked = true -> unresolvable_is_error find_step_null_checked.
Proof. intros ->. exact unresolvable_checked. Qed.

(* ---- robsd-hook ------------------------------------------------------------------------------------ *)

Local Open Scope N_scope.

Lemma split_eq_spec s n v : split_eq s = Some (n, v) <-> s = n ++ EQ :: v /\ ~ In EQ n.
Proof.
  revert n v. induction s as [|c s IH]; intros n v; cbn [split_eq].
  - split; [discriminate|]. intros [H _]. destruct n; discriminate.
  - destruct (N.eqb_spec c EQ) as [->|Hc].
    + split.
      * intros H. injection H as <- <-. split; [reflexivity|intros []].
      * intros [H Hn]. destruct n as [|x n]; [now injection H as <-|].
        injection H as <- _. exfalso. apply Hn. now left.
    + destruct (split_eq s) as [[n' v']|] eqn:E.
      * split.
        -- intros H. injection H as <- <-. destruct (proj1 (IH n' v') eq_refl) as [-> Hn].
           split; [reflexivity|]. intros [H|H]; [congruence|contradiction].
        -- intros [H Hn]. destruct n as [|x n]; [injection H as ->; contradiction|].
           injection H as <- ->. f_equal.
           assert (Hx : Some (n', v') = Some (n, v)); [|now injection Hx as -> ->].
           apply IH. split; [reflexivity|]. intros Hi. apply Hn. now right.
      * split; [discriminate|]. intros [H Hn]. destruct n as [|x n]; [injection H as ->; contradiction|].
        injection H as <- ->.
        assert (Hx : None = Some (n, v)); [|discriminate].
        apply IH. split; [reflexivity|]. intros Hi. apply Hn. now right.
Qed.

Lemma existsb_beq n l : existsb (beq n) l = true <-> In n l.
Proof.
  rewrite existsb_exists. split.
  - intros [x [Hin Hb]]. apply beq_eq in Hb. now subst.
  - intros H. exists n. split; [exact H|apply beq_refl].
Qed.

(* one -v argument is well formed: name=value, the name not a grammar keyword with a parser *)
Definition var_rel (reserved : list bytes) (s : bytes) (p : bytes * bytes) : Prop :=
  cstr s = fst p ++ EQ :: snd p /\ ~ In EQ (fst p) /\ ~ In (fst p) reserved.

Lemma append_vars_ok reserved vs extra :
  append_vars reserved vs = inl extra <-> Forall2 (var_rel reserved) vs extra.
Proof.
  revert extra. induction vs as [|s vs IH]; intros extra; cbn [append_vars].
  - split; [intros H; injection H as <-; constructor|intros H; now inversion H].
  - destruct (split_eq (cstr s)) as [[n v]|] eqn:E.
    + apply split_eq_spec in E. destruct E as [Es Hn].
      destruct (existsb (beq n) reserved) eqn:Er.
      * split; [discriminate|]. intros H. inversion H as [|s' p vs' ex' [Hs [Hn' Hr]] _]; subst.
        destruct p as [n' v']. cbn [fst snd] in *.
        assert (Hx : Some (n, v) = Some (n', v')).
        { rewrite <- (proj2 (split_eq_spec (cstr s) n v) (conj Es Hn)). now apply split_eq_spec. }
        injection Hx as <- <-. apply existsb_beq in Er. contradiction.
      * destruct (append_vars reserved vs) as [r|d] eqn:Ea.
        -- split.
           ++ intros H. injection H as <-. constructor; [|now apply IH].
              unfold var_rel. cbn [fst snd].
              repeat split; [exact Es|exact Hn|]. intros Hi. apply existsb_beq in Hi. congruence.
           ++ intros H. inversion H as [|s' p vs' ex' [Hs [Hn' Hr]] Hrest]; subst.
              destruct p as [n' v']. cbn [fst snd] in *.
              assert (Hx : Some (n, v) = Some (n', v')).
              { rewrite <- (proj2 (split_eq_spec (cstr s) n v) (conj Es Hn)). now apply split_eq_spec. }
              injection Hx as <- <-. apply IH in Hrest. injection Hrest as <-. reflexivity.
        -- split; [discriminate|]. intros H. inversion H as [|s' p vs' ex' _ Hrest]; subst.
           apply IH in Hrest. discriminate.
    + split; [discriminate|]. intros H. inversion H as [|s' p vs' ex' [Hs [Hn' _]] _]; subst.
      destruct p as [n' v']. cbn [fst snd] in *.
      assert (Hx : split_eq (cstr s) = Some (n', v')) by now apply split_eq_spec. congruence.
Qed.

Lemma hook_args_ok env l argv :
  interp_args hook_drop_empty env l = ROk argv <-> hook_argv_of env l argv.
Proof.
  rewrite hook_drop_tie, interp_args_ok. unfold hook_argv_of, kept. split.
  - intros [outs [H ->]]. exact H.
  - intros H. eauto.
Qed.

Definition hook_unset (cv : cfgview) : Prop := cv_hook cv = None \/ cv_hook cv = Some [].

(* C06_hook_noop_when_unset *)
Lemma hook_noop m cv vs execok :
  hook_unset cv ->
  (forall argv, hook_run m cv vs execok <> HExec argv) /\
  ((exists extra, Forall2 (var_rel (reserved_keywords m)) vs extra) -> hook_run m cv vs execok = HNoop) /\
  (~ (exists extra, Forall2 (var_rel (reserved_keywords m)) vs extra) -> exists d, hook_run m cv vs execok = HFail 1 d).
Proof.
  intros Hu. unfold hook_run.
  destruct (append_vars (reserved_keywords m) vs) as [extra|d] eqn:E.
  - assert (Hx : exists extra, Forall2 (var_rel (reserved_keywords m)) vs extra)
      by (exists extra; now apply append_vars_ok).
    destruct Hu as [Hh|Hh]; rewrite Hh; (repeat split; [discriminate|intros Hno; contradiction]).
  - repeat split; [discriminate| |eauto].
    intros [extra Hx]. apply append_vars_ok in Hx. congruence.
Qed.

(* hooks: the vector is the rendering of every configured element, none left out *)
Lemma hook_exact m cv vs execok argv :
  hook_run m cv vs execok = HExec argv <->
  exists extra l, Forall2 (var_rel (reserved_keywords m)) vs extra /\ cv_hook cv = Some l /\ l <> [] /\
                  hook_argv_of (alookup (env_list cv extra false)) l argv /\ execok argv = true.
Proof.
  unfold hook_run. split.
  - destruct (append_vars (reserved_keywords m) vs) as [extra|d] eqn:E; [|discriminate].
    destruct (cv_hook cv) as [[|t l]|] eqn:Eh; try discriminate.
    destruct (interp_args hook_drop_empty _ (t :: l)) as [a|e] eqn:Ea; [|discriminate].
    destruct (execok a) eqn:Ex; [|discriminate].
    intros H. injection H as <-. exists extra, (t :: l).
    repeat split; [now apply append_vars_ok|discriminate|now apply hook_args_ok|exact Ex].
  - intros [extra [l [Hv [Hh [Hne [Ha Hx]]]]]].
    apply append_vars_ok in Hv. rewrite Hv, Hh. destruct l as [|t l]; [congruence|].
    apply hook_args_ok in Ha. rewrite Ha, Hx. reflexivity.
Qed.

Lemma hook_argv_length env l argv : hook_argv_of env l argv -> length argv = length l.
Proof. unfold hook_argv_of. induction 1; simpl; congruence. Qed.

(* ---- the oracles reflect the specification -------------------------------------------------------- *)

Lemma expect_args_spec env l outs : expect_args env l = Some outs <-> Forall2 (renders env) l outs.
Proof.
  unfold expect_args. revert outs. induction l as [|t l IH]; intros outs; cbn [map forallb].
  - split; [intros H; injection H as <-; constructor|intros H; now inversion H].
  - destruct (interp_arg env t) as [o|e] eqn:Et; cbn [is_okb andb].
    + destruct (forallb is_okb (map (interp_arg env) l)) eqn:Ef.
      * cbn [outs_of flat_map app]. split.
        -- intros H. injection H as <-. constructor; [now apply interp_arg_iff|now apply IH].
        -- intros H. inversion H as [|t' o' l' outs' Ho Hl]; subst.
           apply interp_arg_iff in Ho. rewrite Et in Ho. injection Ho as <-.
           apply IH in Hl. injection Hl as <-. reflexivity.
      * split; [discriminate|]. intros H. inversion H as [|t' o' l' outs' _ Hl]; subst.
        apply IH in Hl. discriminate.
    + split; [discriminate|]. intros H. inversion H as [|t' o' l' outs' Ho _]; subst.
      apply interp_arg_iff in Ho. congruence.
Qed.

Lemma expect_args_none env l : expect_args env l = None <-> ~ Forall (renderable env) l.
Proof.
  rewrite renderable_all. split.
  - intros H [outs Ho]. apply expect_args_spec in Ho. congruence.
  - intros Hn. destruct (expect_args env l) as [outs|] eqn:E; [|reflexivity].
    exfalso. apply Hn. exists outs. now apply expect_args_spec.
Qed.

Lemma schedule_okb env steps :
  forallb (fun sd => match expect_args env (command_of sd) with Some _ => true | None => false end) steps = true
  <-> schedule_ok env steps.
Proof.
  unfold schedule_ok. rewrite forallb_forall, Forall_forall. split; intros H sd Hin.
  - specialize (H sd Hin). destruct (expect_args env (command_of sd)) as [outs|] eqn:E; [|discriminate].
    apply renderable_all. exists outs. now apply expect_args_spec.
  - destruct (expect_args env (command_of sd)) eqn:E; [reflexivity|].
    apply expect_args_none in E. exfalso. apply E. now apply H.
Qed.

Lemma find_first_named name steps :
  match find (fun sd => beq (cstr (sd_name sd)) (cstr name)) steps with
  | Some sd => first_named name steps sd
  | None => ~ known_step name steps
  end.
Proof.
  induction steps as [|x steps IH]; cbn [find].
  - intros [sd [[] _]].
  - destruct (beq (cstr (sd_name x)) (cstr name)) eqn:E.
    + exists [], steps. repeat split; [now apply beq_eq|constructor].
    + assert (Hx : ~ named name x) by (intros H; apply beq_eq in H; congruence).
      destruct (find _ steps) as [sd|].
      * destruct IH as [pre [post [-> [Hn Hp]]]]. exists (x :: pre), post. repeat split; [exact Hn|now constructor].
      * intros [sd [[<-|Hin] Hn]]; [contradiction|]. apply IH. now exists sd.
Qed.

Lemma expect_step_spec cv trace name argv :
  expect_step cv trace name = ExpRun argv <->
  schedule_ok (env_of cv trace) (cv_steps cv) /\
  exists sd, first_named name (cv_steps cv) sd /\ step_argv_of (env_of cv trace) (command_of sd) argv.
Proof.
  unfold expect_step. set (env := env_of cv trace).
  destruct (forallb _ (cv_steps cv)) eqn:Ef.
  - apply schedule_okb in Ef. pose proof (find_first_named name (cv_steps cv)) as Hf.
    destruct (find _ (cv_steps cv)) as [sd|].
    + destruct (expect_args env (command_of sd)) as [outs|] eqn:Ea.
      * apply expect_args_spec in Ea. split.
        -- intros H. injection H as <-. split; [exact Ef|]. exists sd. split; [exact Hf|now exists outs].
        -- intros [_ [sd' [Hf' Ha']]]. rewrite (first_named_functional _ _ _ _ Hf' Hf) in Ha'.
           f_equal. eapply step_argv_of_functional; [|exact Ha']. now exists outs.
      * split; [discriminate|]. intros [_ [sd' [Hf' [outs [Ho _]]]]].
        rewrite (first_named_functional _ _ _ _ Hf' Hf) in Ho. apply expect_args_spec in Ho. congruence.
    + split; [discriminate|]. intros [_ [sd [Hfn _]]]. exfalso. apply Hf. eapply first_named_known; eassumption.
  - split; [discriminate|]. intros [Hok _]. apply schedule_okb in Hok. congruence.
Qed.

(* the oracle's expectation and the model agree (any variant, as far as an argv is concerned) *)
Lemma expect_step_model checked cv trace name argv :
  expect_step cv trace name = ExpRun argv <-> resolve checked cv trace name = RArgv argv.
Proof. rewrite expect_step_spec, resolve_argv_exact. reflexivity. Qed.

Lemma append_vars_oracle reserved vs :
  (forallb (var_ok reserved) vs = true -> append_vars reserved vs = inl (var_pairs vs)) /\
  (forallb (var_ok reserved) vs = false -> exists d, append_vars reserved vs = inr d).
Proof.
  induction vs as [|s vs [IH1 IH2]]; cbn [forallb append_vars var_pairs flat_map].
  - split; [reflexivity|discriminate].
  - unfold var_ok at 1 3. destruct (split_eq (cstr s)) as [[n v]|]; cbn [andb].
    + destruct (existsb (beq n) reserved); cbn [negb andb].
      * split; [discriminate|eauto].
      * split.
        -- intros H. rewrite (IH1 H). reflexivity.
        -- intros H. destruct (IH2 H) as [d ->]. eauto.
    + split; [discriminate|eauto].
Qed.

Lemma expect_hook_model m cv vs execok :
  match expect_hook m cv vs with
  | HxNoop => hook_run m cv vs execok = HNoop
  | HxRun argv => hook_run m cv vs execok = if execok argv then HExec argv else HFail 1 HExecFail
  | HxError => exists d, hook_run m cv vs execok = HFail 1 d
  end.
Proof.
  unfold expect_hook, hook_run.
  destruct (append_vars_oracle (reserved_keywords m) vs) as [H1 H2].
  destruct (forallb (var_ok (reserved_keywords m)) vs).
  - rewrite (H1 eq_refl). destruct (cv_hook cv) as [[|t l]|]; [reflexivity| |reflexivity].
    destruct (expect_args _ (t :: l)) as [outs|] eqn:E.
    + apply expect_args_spec in E. apply hook_args_ok in E. rewrite E. reflexivity.
    + apply expect_args_none in E. apply (interp_args_err_iff hook_drop_empty) in E.
      destruct E as [e ->]. eauto.
  - destruct (H2 eq_refl) as [d ->]. eauto.
Qed.
