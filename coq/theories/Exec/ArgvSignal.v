(* ArgvSignal.v - where the second argument of exitstatus(status, gotsig) comes from.

   C06's theorems take [gotsig] as a free integer and the exit-status "iff" needs
   [gotsig <> SIGALRM].  In step-exec.c gotsig is written by sighandler only, and
   sighandler is installed for SIGTERM (always) and for SIGALRM - the latter only
   when step_timeout() > 0, i.e. in robsd-regress mode with a positive
   regress-timeout.  C07's transition system (Exec/KillDefs.v: runner program
   counters, signal arrival, the alarm that can only fire once armed) makes this
   precise; here it is proved as an invariant of every execution of that system:
   gotsig is 0, SIGTERM, or SIGALRM with a positive timeout.  Hence outside
   robsd-regress, and in robsd-regress without a timeout, the hypothesis
   [g <> sigalrm] of C06_exit_faithful / C06_runner_exit_zero_iff holds. *)
From Robsd Require Import Exec.KillDefs.
From Robsd Require Exec.ArgvSpec Exec.ArgvProofs.
From RobsdGen Require Gen_Exec Gen_Kill.
Local Open Scope Z_scope.

(* step_timeout() *)
Definition step_timeout (m : ArgvTypes.emode) (regress_timeout : Z) : Z :=
  match m with ArgvTypes.MRegress => regress_timeout | _ => 0 end.

Definition ginv (s : state) : Prop :=
  (s_armed s = true -> 0 < s_timeout s) /\
  (s_pc s = PAlrmInst -> 0 < s_timeout s) /\
  (s_gotsig s = 0 \/ s_gotsig s = SIGTERM \/ (s_gotsig s = SIGALRM /\ 0 < s_timeout s)).

Lemma ginv_init mm rest timeout : ginv (init mm rest timeout).
Proof. unfold ginv, init. cbn. repeat split; try discriminate. now left. Qed.

Ltac ginv_case H :=
  repeat match type of H with
         | context [match ?x with _ => _ end] => let E := fresh "E" in destruct x eqn:E
         | context [if ?x then _ else _] => let E := fresh "E" in destruct x eqn:E
         end.

Lemma ginv_rstep s s' : ginv s -> rstep s = Some s' -> ginv s'.
Proof.
  unfold ginv, rstep. intros [Ha [Hp Hg]] H.
  destruct (s_pc s) eqn:Hpc; ginv_case H; inversion H; subst; clear H;
    simpl;
    (split; [|split]); try assumption; try discriminate; try (intros _; auto; fail).
  all: try (intros _; apply Z.ltb_lt; assumption).
  all: try (intros _; apply Hp; reflexivity).
  all: try (intros _; apply Ha; reflexivity).
Qed.

Lemma ginv_arrive sig s s' : ginv s -> arrive sig s = Some s' -> ginv s'.
Proof.
  unfold ginv, arrive. intros [Ha [Hp Hg]] H.
  ginv_case H; inversion H; subst; clear H; simpl;
    (split; [|split]); try assumption; try discriminate.
  all: try (destruct (s_pc s); try discriminate; assumption).
  all: try (right; left; apply Z.eqb_eq; assumption).
  all: try (right; right; split; [apply Z.eqb_eq; assumption|auto]).
  all: try (intros _; apply Ha; reflexivity).
  all: try (intros Hx; apply Ha; exact Hx).
  all: try (intros Hx; apply Hp; exact Hx).
  all: try (intros Hx; congruence).
Qed.

Lemma ginv_exit i s s' : ginv s -> exit_member i s = Some s' -> ginv s'.
Proof.
  unfold ginv, exit_member. intros Hi H.
  ginv_case H; inversion H; subst; clear H; simpl; exact Hi.
Qed.

Lemma ginv_exec tr : forall s s', ginv s -> exec tr s = Some s' -> ginv s'.
Proof.
  induction tr as [|l tr IH]; intros s s' Hi; cbn [exec]; [intros H; inversion H; subst; exact Hi|].
  destruct (apply_label l s) as [s1|] eqn:El; [|discriminate].
  apply IH. destruct l; cbn [apply_label] in El;
    first [eapply ginv_rstep; eassumption | eapply ginv_arrive; eassumption | eapply ginv_exit; eassumption
          | unfold group_up in El; ginv_case El; inversion El; subst; exact Hi].
Qed.

(* every execution: gotsig is 0, SIGTERM, or SIGALRM with the alarm armed for a positive timeout *)
Theorem gotsig_provenance tr t timeout s :
  exec tr (init_tree t timeout) = Some s ->
  s_gotsig s = 0 \/ s_gotsig s = SIGTERM \/ (s_gotsig s = SIGALRM /\ 0 < timeout).
Proof.
  intros H. pose proof (ginv_exec tr _ _ (ginv_init _ _ _) H) as [_ [_ Hg]].
  assert (Hgen : forall tr s0 s1, exec tr s0 = Some s1 -> s_timeout s1 = s_timeout s0).
  { clear. induction tr as [|l tr IH]; intros s0 s1; cbn [exec]; [intros H; now inversion H|].
    destruct (apply_label l s0) as [s2|] eqn:El; [|discriminate]. intros H. rewrite (IH _ _ H).
    destruct l; cbn [apply_label] in El;
      unfold rstep, arrive, exit_member, group_up in El; ginv_case El; inversion El; subst; reflexivity. }
  rewrite (Hgen _ _ _ H) in Hg. exact Hg.
Qed.

(* outside robsd-regress, and without a regress-timeout, no execution ever has gotsig = SIGALRM *)
Theorem alarm_only_when_armed m regress_timeout tr t s :
  exec tr (init_tree t (step_timeout m regress_timeout)) = Some s ->
  m <> ArgvTypes.MRegress \/ regress_timeout <= 0 ->
  s_gotsig s <> Gen_Exec.sigalrm.
Proof.
  intros H Hm. destruct (gotsig_provenance _ _ _ _ H) as [Hg|[Hg|[_ Hpos]]].
  - rewrite Hg. discriminate.
  - rewrite Hg. discriminate.
  - exfalso. unfold step_timeout in Hpos. destruct Hm as [Hm|Hm]; destruct m; try lia; contradiction.
Qed.

(* the two decodings of the wait status - C07's hand-written one and the translation of the compiled function
   C06 is about - agree on the statuses waitpid yields (non-negative ones) *)
Theorem kill_exitstatus_is_exit_spec st g : 0 <= st -> KillDefs.exitstatus st g = ArgvSpec.exit_spec st g.
Proof.
  intros Hst. unfold KillDefs.exitstatus, ArgvSpec.exit_spec, wifexited, wifsignaled, wexitstatus, wtermsig.
  change SIGALRM with Gen_Exec.sigalrm. change Gen_Kill.ex_timeout with 124.
  destruct (g =? Gen_Exec.sigalrm); [reflexivity|].
  pose proof (Z.mod_pos_bound st 128 ltac:(lia)) as Hm.
  destruct (Z.eqb_spec (st mod 128) 0); [reflexivity|].
  destruct (Z.leb_spec 1 (st mod 128)); [|lia]. cbn [andb].
  destruct (Z.leb_spec (st mod 128) 126); destruct (Z.ltb_spec (st mod 128) 127); try lia; reflexivity.
Qed.
