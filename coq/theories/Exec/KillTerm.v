(* KillTerm.v - C07: the runner ends, and ends right, once an event has
   interrupted its wait - composed termination without a [terminated] premise.

   From the moment a signal has interrupted the blocking waitpid(-pid) the
   invariant [KInv] (KillProofs.v) holds; under it
     * the runner is never blocked: every state that is not an exit has a
       transition of the runner ([kinv_progress]);
     * every transition of the runner strictly decreases [kmeasure], which
       nothing the environment does can change ([kinv_env]) and which starts at
       npolls + 6 ([kinv_measure_exec]): one step to decide to kill, one to send
       SIGTERM, at most npolls + 1 polls, one to send SIGKILL, ONE poll (SIGKILL
       has killed: the first poll reaps), one to map the status, one to exit;
     * a state in which the runner cannot move is an exit that satisfies
       [cut_ok] ([event_takes_group_down]). *)
From Robsd Require Import Exec.KillSpec Exec.KillProofs.
Local Open Scope Z_scope.

(* number of transitions of the runner in a schedule *)
Fixpoint runs (tr : list label) : nat :=
  match tr with
  | [] => 0
  | LRun :: tr' => S (runs tr')
  | _ :: tr' => runs tr'
  end.

Definition kill_phase (p : pc) : bool :=
  match p with PWaitIntr | PKillSend _ | PPoll _ _ | PWaitDone => true | _ => false end.

(* transitions the runner still has to make, at most *)
Definition kmeasure (p : pc) : nat :=
  match p with
  | PWaitIntr => npolls + 6
  | PKillSend PhTerm => npolls + 5
  | PPoll PhTerm n => n + 4
  | PKillSend PhKill => 3
  | PPoll PhKill _ => 2
  | PWaitDone => 1
  | _ => 0
  end.

Definition kbound : nat := npolls + 6.

Lemma kbound_val : kbound = 56%nat.
Proof. reflexivity. Qed.

Lemma runs_app tr1 tr2 : runs (tr1 ++ tr2) = (runs tr1 + runs tr2)%nat.
Proof. induction tr1 as [|l tr1 IH]; simpl; [reflexivity|]. destruct l; simpl; rewrite IH; reflexivity. Qed.

Lemma runs_repeat n : runs (repeat LRun n) = n.
Proof. induction n as [|n IH]; simpl; [reflexivity|now rewrite IH]. Qed.

(* under KInv the runner is never blocked, and each of its transitions decreases the measure *)
Lemma kinv_progress s :
  KInv s -> terminated (s_pc s) = false ->
  exists s', rstep s = Some s' /\ (kmeasure (s_pc s') < kmeasure (s_pc s))%nat.
Proof.
  destruct s as [pc g st tmo ar m r rp k ev lt up sl].
  unfold KInv, done_inv, grp_ddead, grp_dead; simpl. intros (Hg & Hev & Hsl & H) Ht.
  unfold rstep, main_zombie; simpl.
  destruct pc as [| | | | | | | |ph|ph n| |c|sg|hn| | | | ]; try contradiction; try discriminate; simpl.
  - rewrite (sigset_nonzero _ Hg). eexists. split; [reflexivity|]. simpl. apply Nat.lt_succ_diag_r || lia.
  - destruct ph; eexists; (split; [reflexivity|]); simpl; lia.
  - destruct ph.
    + destruct n as [|n]; [eexists; split; [reflexivity|simpl; lia]|].
      destruct H as (-> & _). destruct (p_st m); eexists; (split; [reflexivity|]); simpl; lia.
    + destruct H as (-> & _ & (Hm & _) & _ & ->). destruct npolls_pos as [q ->].
      destruct (dead_st _ Hm) as [w ->]. eexists. split; [reflexivity|]. simpl. lia.
  - eexists. split; [reflexivity|]. simpl. lia.
Qed.

(* nothing the environment does moves the runner in its kill phase or after its exit *)
Lemma kinv_env l s s' :
  KInv s -> l <> LRun -> apply_label l s = Some s' -> s_pc s' = s_pc s.
Proof.
  destruct s as [pc g st tmo ar m r rp k ev lt up sl]. unfold KInv; simpl. intros (_ & _ & _ & H) Hl Hx.
  destruct l as [|sig|i|]; [contradiction| | |]; simpl in Hx.
  - unfold arrive in Hx; simpl in Hx.
    destruct pc as [| | | | | | | |ph|ph n| |c|sg|hn| | | | ]; try contradiction; simpl in Hx;
      split_step Hx; reflexivity.
  - unfold exit_member in Hx; simpl in Hx. split_step Hx; reflexivity.
  - unfold group_up in Hx; simpl in Hx. split_step Hx; reflexivity.
Qed.

Lemma kinv_bound s : KInv s -> (kmeasure (s_pc s) <= kbound)%nat.
Proof.
  unfold KInv, kbound. intros (_ & _ & _ & H).
  destruct (s_pc s) as [| | | | | | | |ph|ph n| |c|sg|hn| | | | ]; try contradiction; cbn [kmeasure]; try lia.
  - destruct ph; lia.
  - destruct ph; [|lia]. destruct H as (_ & _ & _ & _ & Hn). lia.
Qed.

(* whatever the schedule: the runner's transitions are paid for by the measure *)
Lemma kinv_measure_exec tr : forall s s',
  KInv s -> exec tr s = Some s' -> (runs tr + kmeasure (s_pc s') <= kmeasure (s_pc s))%nat.
Proof.
  induction tr as [|l tr IH]; simpl; intros s s' Hk Hx.
  - injection Hx as <-. lia.
  - destruct (apply_label l s) as [s1|] eqn:E; [|discriminate].
    assert (Hk1 : KInv s1) by (apply (KInv_step l s); assumption).
    specialize (IH s1 s' Hk1 Hx).
    destruct l as [|sig|i|].
    + simpl in E. destruct (terminated (s_pc s)) eqn:Et.
      { destruct (s_pc s) eqn:Ep; try discriminate Et; unfold rstep in E; rewrite Ep in E; discriminate. }
      destruct (kinv_progress s Hk Et) as (s2 & E2 & Hlt). rewrite E in E2. injection E2 as <-. lia.
    + rewrite <- (kinv_env (LArrive sig) s s1 Hk ltac:(discriminate) E). exact IH.
    + rewrite <- (kinv_env (LExit i) s s1 Hk ltac:(discriminate) E). exact IH.
    + rewrite <- (kinv_env LUp s s1 Hk ltac:(discriminate) E). exact IH.
Qed.

(* a state under KInv in which the runner cannot move is an exit *)
Lemma kinv_rest s : KInv s -> rstep s = None -> exists c, s_pc s = PExit c.
Proof.
  intros Hk Hr. destruct (terminated (s_pc s)) eqn:Et.
  - now apply KInv_terminated.
  - destruct (kinv_progress s Hk Et) as (s' & E & _). rewrite Hr in E. discriminate.
Qed.

(* left alone, the runner exits within the measure *)
Lemma kinv_finish : forall n s,
  KInv s -> (kmeasure (s_pc s) <= n)%nat ->
  exists k s', (k <= kmeasure (s_pc s))%nat /\ exec (repeat LRun k) s = Some s' /\ terminated (s_pc s') = true.
Proof.
  induction n as [|n IH]; intros s Hk Hn.
  - destruct (terminated (s_pc s)) eqn:Et.
    + exists 0%nat, s. split; [lia|]. split; [reflexivity|exact Et].
    + destruct (kinv_progress s Hk Et) as (s1 & _ & Hlt). lia.
  - destruct (terminated (s_pc s)) eqn:Et.
    + exists 0%nat, s. split; [lia|]. split; [reflexivity|exact Et].
    + destruct (kinv_progress s Hk Et) as (s1 & E & Hlt).
      assert (Hk1 : KInv s1) by (apply (KInv_step LRun s); assumption).
      destruct (IH s1 Hk1 ltac:(lia)) as (k & s' & Hle & Hx & Ht).
      exists (S k), s'. split; [lia|]. split; [simpl; rewrite E; exact Hx|exact Ht].
Qed.

(* ---- the composed statement ------------------------------------------------------------------- *)

Lemma cut_at_exit t timeout tr s' :
  exec tr (init_tree t timeout) = Some s' -> KInv s' -> terminated (s_pc s') = true ->
  cut_ok (flatten t) (history_of s') (observe s').
Proof.
  intros Hx Hk Ht.
  assert (Hi : Inv s') by (apply (Inv_exec tr (init_tree t timeout)); [apply Inv_init|exact Hx]).
  destruct (KInv_terminated s' Hk Ht) as [c Hc].
  rewrite <- (members_init_tree t timeout). rewrite <- (members_exec tr _ _ Hx).
  apply (cut_from_KInv s' c); [exact Hk|apply Hi|apply Hi|exact Hc].
Qed.

Lemma event_takes_group_down t timeout tr1 s sig s1 tr2 s' :
  exec tr1 (init_tree t timeout) = Some s -> s_pc s = PWaiting ->
  arrive sig s = Some s1 -> exec tr2 s1 = Some s' ->
  (runs tr2 + kmeasure (s_pc s') <= kbound)%nat /\
  (rstep s' = None -> cut_ok (flatten t) (history_of s') (observe s')) /\
  (exists n s'', (runs tr2 + n <= kbound)%nat /\ exec (repeat LRun n) s' = Some s'' /\
     rstep s'' = None /\ cut_ok (flatten t) (history_of s'') (observe s'')).
Proof.
  intros H1 Hpc Ha H2.
  assert (Hi : Inv s) by (apply (Inv_exec tr1 (init_tree t timeout)); [apply Inv_init|exact H1]).
  assert (Hk1 : KInv s1) by (apply (arrive_waiting_KInv sig s); [apply Hi|exact Hpc|exact Ha]).
  assert (Hk' : KInv s') by (apply (KInv_exec tr2 s1); assumption).
  assert (Hreach : exec (tr1 ++ LArrive sig :: tr2) (init_tree t timeout) = Some s').
  { rewrite (exec_app tr1 _ _ _ H1). simpl. rewrite Ha. exact H2. }
  pose proof (kinv_measure_exec tr2 s1 s' Hk1 H2) as Hm.
  pose proof (kinv_bound s1 Hk1) as Hb.
  split; [lia|]. split.
  - intros Hr. destruct (kinv_rest s' Hk' Hr) as [c Hc].
    apply (cut_at_exit t timeout (tr1 ++ LArrive sig :: tr2)); [exact Hreach|exact Hk'|now rewrite Hc].
  - destruct (kinv_finish (kmeasure (s_pc s')) s' Hk' (le_n _)) as (n & s'' & Hle & Hx & Ht).
    exists n, s''. split; [lia|]. split; [exact Hx|].
    assert (Hk'' : KInv s'') by (apply (KInv_exec (repeat LRun n) s'); assumption).
    split.
    + destruct (s_pc s'') eqn:Ep; try discriminate Ht; unfold rstep; rewrite Ep; reflexivity.
    + apply (cut_at_exit t timeout ((tr1 ++ LArrive sig :: tr2) ++ repeat LRun n));
        [rewrite (exec_app _ _ _ _ Hreach); exact Hx|exact Hk''|exact Ht].
Qed.

(* hence: a schedule in which the runner makes kbound transitions after the event has
   brought it to its exit, and no schedule lets it make more *)
Lemma event_bounded_runs t timeout tr1 s sig s1 tr2 s' :
  exec tr1 (init_tree t timeout) = Some s -> s_pc s = PWaiting ->
  arrive sig s = Some s1 -> exec tr2 s1 = Some s' ->
  (runs tr2 <= kbound)%nat /\ ((kbound <= runs tr2)%nat -> terminated (s_pc s') = true) /\
  kbound = 56%nat.
Proof.
  intros H1 Hpc Ha H2.
  destruct (event_takes_group_down t timeout tr1 s sig s1 tr2 s' H1 Hpc Ha H2) as (Hm & _ & _).
  split; [lia|]. split; [|exact kbound_val]. intros Hge.
  assert (Hi : Inv s) by (apply (Inv_exec tr1 (init_tree t timeout)); [apply Inv_init|exact H1]).
  assert (Hk1 : KInv s1) by (apply (arrive_waiting_KInv sig s); [apply Hi|exact Hpc|exact Ha]).
  assert (Hk' : KInv s') by (apply (KInv_exec tr2 s1); assumption).
  destruct (terminated (s_pc s')) eqn:Et; [reflexivity|].
  destruct (kinv_progress s' Hk' Et) as (s2 & _ & Hlt). lia.
Qed.
