(* KillAlarm.v - C07: the timeout (SIGALRM, robsd-regress with regress-timeout).

   alarm(timeout) is called exactly when step_timeout() > 0, after a successful
   handshake and before waitpid(-pid).  Hence ([AInv]):
     * with a positive timeout the alarm is armed whenever the runner is blocked in
       waitpid(-pid): the expiry of the timeout reaches it there, and then the
       guarantees of KillTerm.event_takes_group_down hold, with status 124 unless
       a SIGTERM arrives afterwards ([timeout_takes_group_down]);
     * without one no SIGALRM ever arrives ([no_timeout_no_alarm]);
     * before waitpid(-pid) the alarm can reach the runner only at "exec.before_waitpid"
       (window W2, KillWindows.window_before_wait_all / window_lost_event_all);
     * after a failed handshake alarm() is never called: the expiry of the configured
       timeout changes nothing in the runner ([slow_never_armed], window W3). *)
From Robsd Require Import Exec.KillSpec Exec.KillProofs Exec.KillTerm Exec.KillWindows.
Local Open Scope Z_scope.

Definition AInv (s : state) : Prop :=
  (s_armed s = true -> 0 < s_timeout s /\ s_slow s = false) /\
  match s_pc s with
  | PForked | PIgnPipe | PTermInst | PHandshake _ | PGroupUp | PAlrmInst
  | PGroupFail | PFailWaiting | PFailIntr | PFailDone => s_armed s = false
  | PBeforeWait | PWaiting | PWaitIntr | PKillSend _ | PPoll _ _ | PWaitDone =>
      s_armed s = (0 <? s_timeout s)
  | PExit _ | PKilled _ => True
  end /\
  (s_pc s = PAlrmInst -> 0 < s_timeout s).

Lemma AInv_init m rest timeout : AInv (init m rest timeout).
Proof. unfold AInv, init; simpl. repeat split; discriminate. Qed.

Lemma AInv_step l s s' : PInv s -> AInv s -> apply_label l s = Some s' -> AInv s'.
Proof.
  destruct s as [pc g st tmo ar m r rp k ev lt up sl]. unfold PInv, AInv; simpl.
  intros HP (Ha & Hp & Hi) Hl.
  destruct l as [|sig|i|]; simpl in Hl.
  - unfold rstep, main_zombie in Hl; simpl in Hl.
    split_step Hl; simpl in *; (split; [|split]); auto; try discriminate; try (intros _; now apply Z.ltb_lt).
    + congruence.
    + intros _. split; [now apply Hi|apply HP].
    + symmetry. apply Z.ltb_lt. now apply Hi.
    + intros Hx. congruence.
  - unfold arrive in Hl; simpl in Hl.
    destruct pc; simpl in Hl; split_step Hl; simpl; (split; [|split]); auto; discriminate.
  - unfold exit_member in Hl; simpl in Hl. split_step Hl; simpl; auto.
  - unfold group_up in Hl; simpl in Hl. split_step Hl; simpl; auto.
Qed.

Lemma AInv_exec tr : forall s s', Inv s -> AInv s -> exec tr s = Some s' -> AInv s'.
Proof.
  induction tr as [|l tr IH]; simpl; intros s s' Hi Ha Hx.
  - now injection Hx as <-.
  - destruct (apply_label l s) as [s1|] eqn:E; [|discriminate]. apply (IH s1 s'); auto.
    + apply (Inv_step l s); assumption.
    + apply (AInv_step l s); auto. apply Hi.
Qed.

Lemma reach_AInv t timeout tr s : exec tr (init_tree t timeout) = Some s -> AInv s.
Proof. intros Hx. apply (AInv_exec tr (init_tree t timeout)); [apply Inv_init|apply AInv_init|exact Hx]. Qed.

Lemma timeout_const_step l s s' : apply_label l s = Some s' -> s_timeout s' = s_timeout s.
Proof.
  destruct s as [pc g st tmo ar m r rp k ev lt up sl]. simpl. intros Hl.
  destruct l as [|sig|i|]; simpl in Hl.
  - unfold rstep, main_zombie in Hl; simpl in Hl. split_step Hl; reflexivity.
  - unfold arrive in Hl; simpl in Hl. split_step Hl; reflexivity.
  - unfold exit_member in Hl; simpl in Hl. split_step Hl; reflexivity.
  - unfold group_up in Hl; simpl in Hl. split_step Hl; reflexivity.
Qed.

Lemma timeout_const tr : forall s s', exec tr s = Some s' -> s_timeout s' = s_timeout s.
Proof.
  induction tr as [|l tr IH]; simpl; intros s s' Hx.
  - now injection Hx as <-.
  - destruct (apply_label l s) as [s1|] eqn:E; [|discriminate].
    rewrite (IH s1 s' Hx). now apply (timeout_const_step l).
Qed.

(* no SIGTERM among the arrivals of a schedule *)
Definition only_alarm (tr : list label) : bool :=
  forallb (fun l => match l with LArrive g => g =? SIGALRM | _ => true end) tr.

Lemma gotsig_alarm_kept tr : forall s s',
  only_alarm tr = true -> exec tr s = Some s' -> s_gotsig s = SIGALRM -> s_gotsig s' = SIGALRM.
Proof.
  induction tr as [|l tr IH]; simpl; intros s s' Ho Hx Hg.
  - now injection Hx as <-.
  - apply andb_prop in Ho. destruct Ho as [Hl Ho].
    destruct (apply_label l s) as [s1|] eqn:E; [|discriminate]. apply (IH s1 s' Ho Hx).
    destruct s as [pc g st tmo ar m r rp k ev lt up sl]. simpl in Hg. subst g.
    destruct l as [|sig|i|]; simpl in E.
    + unfold rstep, main_zombie in E; simpl in E. split_step E; reflexivity.
    + apply Z.eqb_eq in Hl. subst sig. unfold arrive in E; simpl in E. split_step E; reflexivity.
    + unfold exit_member in E; simpl in E. split_step E; reflexivity.
    + unfold group_up in E; simpl in E. split_step E; reflexivity.
Qed.

(* ---- a positive timeout: the expiry reaches the runner in its wait and takes the group down ---- *)

Lemma timeout_takes_group_down t timeout tr1 s :
  0 < timeout -> exec tr1 (init_tree t timeout) = Some s -> s_pc s = PWaiting ->
  exists s1, arrive SIGALRM s = Some s1 /\
    forall tr2 s', exec tr2 s1 = Some s' ->
      (runs tr2 + kmeasure (s_pc s') <= kbound)%nat /\
      (rstep s' = None -> cut_ok (flatten t) (history_of s') (observe s')) /\
      (rstep s' = None -> only_alarm tr2 = true -> o_result (observe s') = RExit 124) /\
      (exists n s'', (runs tr2 + n <= kbound)%nat /\ exec (repeat LRun n) s' = Some s'' /\
         rstep s'' = None /\ cut_ok (flatten t) (history_of s'') (observe s'')).
Proof.
  intros Hpos H1 Hpc.
  pose proof (reach_AInv t timeout tr1 s H1) as (_ & Hp & _). rewrite Hpc in Hp.
  assert (Htm : s_timeout s = timeout) by (rewrite (timeout_const tr1 _ _ H1); reflexivity).
  assert (Har : s_armed s = true) by (rewrite Hp, Htm; now apply Z.ltb_lt).
  assert (Ha : arrive SIGALRM s = Some (record_sig SIGALRM s)).
  { unfold arrive. rewrite Hpc, Har. reflexivity. }
  exists (record_sig SIGALRM s). split; [exact Ha|].
  intros tr2 s' H2.
  destruct (event_takes_group_down t timeout tr1 s SIGALRM _ tr2 s' H1 Hpc Ha H2) as (Hm & Hrest & Hfin).
  split; [exact Hm|]. split; [exact Hrest|]. split; [|exact Hfin].
  intros Hr Ho.
  assert (Hi : Inv s) by (apply (reach_Inv t timeout tr1); assumption).
  assert (Hk1 : KInv (record_sig SIGALRM s)) by (apply (arrive_waiting_KInv SIGALRM s); [apply Hi|exact Hpc|exact Ha]).
  assert (Hk' : KInv s') by (apply (KInv_exec tr2 _ s' Hk1 H2)).
  assert (Hg : s_gotsig s' = SIGALRM) by (apply (gotsig_alarm_kept tr2 _ s' Ho H2); reflexivity).
  destruct (kinv_rest s' Hk' Hr) as [c Hc].
  destruct Hk' as (_ & _ & _ & Hq). rewrite Hc in Hq. destruct Hq as [_ Hq].
  unfold observe; simpl. rewrite Hc, Hq, Hg. now rewrite exitstatus_alrm.
Qed.

(* ---- no timeout: no alarm, ever ------------------------------------------------------------------ *)

Definition NoAlrm (s : state) : Prop :=
  s_armed s = false /\ s_gotsig s <> SIGALRM /\ s_event s <> Some SIGALRM /\ s_late s <> Some SIGALRM.

Lemma no_timeout_no_alarm t timeout tr s' :
  timeout <= 0 -> exec tr (init_tree t timeout) = Some s' -> NoAlrm s'.
Proof.
  intros Hle Hx.
  assert (Hgen : forall tr s s', s_timeout s <= 0 -> NoAlrm s /\ s_pc s <> PAlrmInst ->
                                 exec tr s = Some s' -> NoAlrm s' /\ s_pc s' <> PAlrmInst).
  { clear. induction tr as [|l tr IH]; simpl; intros s s' Ht Hn Hx.
    - now injection Hx as <-.
    - destruct (apply_label l s) as [s1|] eqn:E; [|discriminate].
      apply (IH s1 s'); [rewrite (timeout_const_step l s s1 E); exact Ht| |exact Hx].
      destruct s as [pc g st tmo ar m r rp k ev lt up sl]. unfold NoAlrm in *; simpl in *.
      destruct Hn as ((-> & Hg & He & Hla) & Hpc).
      assert (Hlt : (0 <? tmo) = false) by (apply Z.ltb_ge; exact Ht).
      destruct l as [|sig|i|]; simpl in E.
      + unfold rstep, main_zombie in E; simpl in E.
        split_step E; simpl; try contradiction; repeat split; auto; try discriminate.
      + unfold arrive in E; simpl in E. rewrite Hlt, andb_false_r in E.
        destruct (Z.eqb_spec sig SIGTERM) as [->|Hn]; [|destruct (sig =? SIGALRM); split_step E].
        split_step E; simpl; repeat split; auto; try discriminate;
          try (destruct rp; auto; discriminate); destruct pc; auto; discriminate.
      + unfold exit_member in E; simpl in E. split_step E; simpl; auto.
      + unfold group_up in E; simpl in E. split_step E; simpl; auto. }
  apply (Hgen tr (init_tree t timeout) s'); [exact Hle| |exact Hx].
  unfold NoAlrm, init_tree, init; simpl. repeat split; discriminate.
Qed.

(* ---- where the alarm can reach the runner before it waits ---------------------------------------------- *)

Lemma alarm_window t timeout tr s s1 :
  exec tr (init_tree t timeout) = Some s -> early (s_pc s) = true -> waiting (s_pc s) = false ->
  arrive SIGALRM s = Some s1 ->
  (s_pc s = PBeforeWait /\ s1 = record_sig SIGALRM s) \/
  ((s_pc s = PGroupFail \/ s_pc s = PFailWaiting) /\ s1 = note_expiry s).
Proof.
  intros Hx He Hw Ha.
  pose proof (reach_AInv t timeout tr s Hx) as (Harm & Hp & _).
  unfold arrive in Ha. destruct (terminated (s_pc s)); [discriminate|]. simpl in Ha.
  destruct (s_armed s) eqn:Ear.
  - left. injection Ha as <-. split; [|reflexivity].
    destruct (s_pc s); try discriminate He; try discriminate Hw; try discriminate Hp; reflexivity.
  - right. destruct (s_slow s) eqn:Esl; simpl in Ha; [|discriminate]. split_step Ha. split; [|reflexivity].
    pose proof (reach_Inv t timeout tr s Hx) as (_ & _ & HP & _). unfold PInv in HP.
    destruct (s_pc s); try discriminate He; auto; destruct HP as (_ & _ & HP); rewrite Esl in HP; discriminate.
Qed.

(* ---- after a failed handshake the timeout is not armed ------------------------------------------------- *)

Lemma slow_never_armed t timeout tr s :
  exec tr (init_tree t timeout) = Some s -> s_slow s = true ->
  s_armed s = false /\
  forall s1, arrive SIGALRM s = Some s1 ->
    s1 = note_expiry s /\ s_pc s1 = s_pc s /\ s_gotsig s1 = s_gotsig s /\ s_kills s1 = s_kills s.
Proof.
  intros Hx Hsl. pose proof (reach_AInv t timeout tr s Hx) as (Harm & _ & _).
  assert (Har : s_armed s = false).
  { destruct (s_armed s); [|reflexivity]. destruct (Harm eq_refl) as [_ H]. rewrite Hsl in H. discriminate. }
  split; [exact Har|]. intros s1 Ha. unfold arrive in Ha. rewrite Har in Ha.
  change (SIGALRM =? SIGTERM) with false in Ha. change (SIGALRM =? SIGALRM) with true in Ha. cbv iota in Ha.
  split_step Ha. repeat split; reflexivity.
Qed.
