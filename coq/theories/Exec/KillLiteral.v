(* KillLiteral.v - C07: the three places where the specification [spec] (KillSpec.v) reads the
   property text more leniently than its letter.  For each of them: the LITERAL reading as a
   named proposition, its refutation by a concrete execution of the faithful model (each replayed
   on the real robsd-exec by harness/c07.py, corpus/C07/2*.json), and what does hold.

   (a) "No process of the step that keeps the default signal disposition outlives the step
       runner" is grammatically unconditional; [spec] demands it only after an event that found
       the runner blocked in waitpid(-pid) ([cut_ok]) and demands the OPPOSITE without an event
       ([uncut_ok]: nobody is dead except by its own exit).  [survivors_literal].
   (b) "... and only then exits, with a non-zero status": [cut_ok] accepts status 0 when the
       main process exited 0 on its own ([main_exited_zero]) - also when it did so AFTER the
       event had been noticed.  [status_nonzero_literal], [status_nonzero_narrow].
   (c) "... that is 124 for a timeout": [cut_ok] demands 124 when the LAST signal was the alarm.
       A timeout that took the group down is reported as 143/137 when a SIGTERM follows during the
       kill phase, and a termination request as 124 when the alarm follows.  [timeout_status_literal]. *)
From Robsd Require Import Exec.KillSpec Exec.KillProofs Exec.KillTerm Exec.KillWindows Exec.KillAlarm Exec.KillWitness.
Local Open Scope Z_scope.

(* ---- (a) survivors ------------------------------------------------------------------------------- *)

Definition no_default_survivor (ms : list member) (o : obs) : Prop :=
  forall i m, nth_error ms i = Some m -> m_disp m = Default -> nth_error (o_alive o) i = Some false.

(* the letter of the first conjunct: whenever the runner is gone *)
Definition survivors_literal : Prop :=
  forall t timeout tr s', exec tr (init_tree t timeout) = Some s' -> terminated (s_pc s') = true ->
    no_default_survivor (flatten t) (observe s').

(* no event at all: the main process exits 0 by itself, the runner reaps it and exits 0, the child
   (default disposition) lives on *)
Definition normal_end_schedule : list label := to_wait 0 ++ [LExit 0; LRun; LRun].

Lemma normal_end_witness :
  exists s', exec normal_end_schedule (init_tree two_procs_main_exits 0) = Some s' /\
    no_arrival normal_end_schedule = true /\ terminated (s_pc s') = true /\
    observe s' = mkobs (RExit 0) MReaped [false; true] [] /\
    history_of s' = mkhist None None [true; false] false /\
    spec (flatten two_procs_main_exits) (history_of s') (observe s') /\
    ~ no_default_survivor (flatten two_procs_main_exits) (observe s').
Proof.
  eexists. split; [vm_compute; reflexivity|]. split; [reflexivity|]. split; [reflexivity|].
  split; [reflexivity|]. split; [reflexivity|]. split; [apply spec_okb_iff; vm_compute; reflexivity|].
  intros H. specialize (H 1%nat (mkmember Default None) eq_refl eq_refl). discriminate H.
Qed.

Lemma survivors_literal_refuted : ~ survivors_literal.
Proof.
  intros H. destruct normal_end_witness as (s' & Hx & _ & Ht & _ & _ & _ & Hn).
  apply Hn. exact (H _ _ _ _ Hx Ht).
Qed.

(* what holds: after an event that found the runner blocked in waitpid(-pid) *)
Lemma survivors_partial t timeout tr s' :
  exec tr (init_tree t timeout) = Some s' -> rstep s' = None -> hits_wait tr (init_tree t timeout) = true ->
  terminated (s_pc s') = true /\ no_default_survivor (flatten t) (observe s').
Proof.
  intros Hx Hr Hh. pose proof (survivors_exact t timeout tr s' Hx Hr) as H. rewrite Hh in H.
  destruct H as ((c & Hc) & _ & Hd). split; [|exact Hd].
  unfold observe in Hc; simpl in Hc. destruct (s_pc s'); try discriminate Hc; reflexivity.
Qed.

(* ---- (b) the status after a termination request ---------------------------------------------------- *)

(* the letter: an event while the step was running, the runner exits: not with 0 *)
Definition status_nonzero_literal : Prop :=
  forall t timeout tr s' c, exec tr (init_tree t timeout) = Some s' -> s_event s' <> None ->
    o_result (observe s') = RExit c -> c <> 0.

(* the main process exits on its own before any event of the schedule *)
Fixpoint main_exit_first (tr : list label) : bool :=
  match tr with
  | [] => false
  | LExit O :: _ => true
  | LArrive _ :: _ => false
  | _ :: tr' => main_exit_first tr'
  end.

(* the narrowed reading: 0 only when the main process had exited (with 0) BEFORE the event *)
Definition status_nonzero_narrow : Prop :=
  forall t timeout tr s' c, exec tr (init_tree t timeout) = Some s' -> s_event s' <> None ->
    o_result (observe s') = RExit c -> c = 0 -> main_exit_first tr = true.

Definition zero_after_event_schedule : list label :=
  to_wait 0 ++ [LArrive SIGTERM; LExit 0; LRun; LRun; LRun; LRun].
Definition zero_before_event_schedule : list label :=
  to_wait 0 ++ [LExit 0; LArrive SIGTERM; LRun; LRun; LRun; LRun].

(* SIGTERM interrupts the wait, the main process exits 0 by itself before the kill reaches it: the
   group is signalled (the child dies), the runner reports 0 *)
Lemma zero_after_event_witness :
  exists s', exec zero_after_event_schedule (init_tree two_procs_main_exits 0) = Some s' /\
    hits_wait zero_after_event_schedule (init_tree two_procs_main_exits 0) = true /\
    main_exit_first zero_after_event_schedule = false /\
    s_event s' = Some SIGTERM /\
    observe s' = mkobs (RExit 0) MReaped [false; false] [SIGTERM].
Proof.
  eexists. split; [vm_compute; reflexivity|]. split; [vm_compute; reflexivity|].
  split; [reflexivity|]. split; reflexivity.
Qed.

(* the main process had exited 0 (a zombie the runner has not collected yet) when the SIGTERM arrives *)
Lemma zero_before_event_witness :
  exists s', exec zero_before_event_schedule (init_tree two_procs_main_exits 0) = Some s' /\
    hits_wait zero_before_event_schedule (init_tree two_procs_main_exits 0) = true /\
    main_exit_first zero_before_event_schedule = true /\
    s_event s' = Some SIGTERM /\
    observe s' = mkobs (RExit 0) MReaped [false; false] [SIGTERM].
Proof.
  eexists. split; [vm_compute; reflexivity|]. split; [vm_compute; reflexivity|].
  split; [reflexivity|]. split; reflexivity.
Qed.

Lemma status_nonzero_literal_refuted : ~ status_nonzero_literal.
Proof.
  intros H. destruct zero_after_event_witness as (s' & Hx & _ & _ & He & Ho).
  apply (H _ _ _ s' 0 Hx); [rewrite He; discriminate|now rewrite Ho|reflexivity].
Qed.

Lemma status_nonzero_narrow_refuted : ~ status_nonzero_narrow.
Proof.
  intros H. destruct zero_after_event_witness as (s' & Hx & _ & Hm & He & Ho).
  assert (Hf : main_exit_first zero_after_event_schedule = true).
  { apply (H _ _ _ s' 0 Hx); [rewrite He; discriminate|now rewrite Ho|reflexivity]. }
  rewrite Hm in Hf. discriminate.
Qed.

(* what holds: after an event that found the runner blocked, status 0 is reported only for a main
   process that exited by itself with a code that is 0 modulo 256 *)
Lemma status_nonzero_partial t timeout tr s' c :
  exec tr (init_tree t timeout) = Some s' -> rstep s' = None -> hits_wait tr (init_tree t timeout) = true ->
  o_result (observe s') = RExit c -> c = 0 -> main_exited_zero (flatten t) (history_of s').
Proof.
  intros Hx Hr Hh Hc Hz.
  assert (Hs : spec (flatten t) (history_of s') (observe s')) by (apply (spec_exact t timeout tr s' Hx Hr); now right).
  assert (Hk : KInv s') by (apply (hit_KInv tr (init_tree t timeout)); auto; apply Inv_init).
  unfold spec in Hs. simpl in Hs. destruct (s_event s') as [e|] eqn:Ee; [|exfalso; now apply (KInv_event s' Hk)].
  destruct Hs as (_ & c' & Hres & _ & _ & _ & _ & Hst).
  rewrite Hc in Hres. injection Hres as <-. destruct Hst as [Hne|Hm]; [contradiction|exact Hm].
Qed.

(* ---- (c) 124 for a timeout ------------------------------------------------------------------------------ *)

(* the event that found the runner blocked in waitpid(-pid) first: the one that makes it take the group down *)
Fixpoint first_hit (tr : list label) (s : state) : option Z :=
  match tr with
  | [] => None
  | l :: tr' =>
      match apply_label l s with
      | None => None
      | Some s' =>
          match l with
          | LArrive g => if waiting (s_pc s) then Some g else first_hit tr' s'
          | _ => first_hit tr' s'
          end
      end
  end.

(* the letter: the group was taken down because the timeout expired -> 124 *)
Definition timeout_status_literal : Prop :=
  forall t timeout tr s' c, exec tr (init_tree t timeout) = Some s' -> rstep s' = None ->
    first_hit tr (init_tree t timeout) = Some SIGALRM -> o_result (observe s') = RExit c -> c = 124.

(* ... and because of a termination request -> not the timeout status *)
Definition termination_status_literal : Prop :=
  forall t timeout tr s' c, exec tr (init_tree t timeout) = Some s' -> rstep s' = None ->
    first_hit tr (init_tree t timeout) = Some SIGTERM -> o_result (observe s') = RExit c -> c <> 124.

Definition timeout_then_term_schedule : list label :=
  to_wait 1 ++ [LArrive SIGALRM; LRun; LRun; LArrive SIGTERM; LRun; LRun].
Definition term_then_timeout_schedule : list label :=
  to_wait 1 ++ [LArrive SIGTERM; LRun; LRun; LArrive SIGALRM; LRun; LRun].

Lemma timeout_then_term_witness :
  exists s', exec timeout_then_term_schedule (init_tree two_procs 1) = Some s' /\ rstep s' = None /\
    first_hit timeout_then_term_schedule (init_tree two_procs 1) = Some SIGALRM /\
    observe s' = mkobs (RExit 143) MReaped [false; false] [SIGTERM] /\
    spec (flatten two_procs) (history_of s') (observe s').
Proof.
  eexists. split; [vm_compute; reflexivity|]. split; [reflexivity|]. split; [vm_compute; reflexivity|].
  split; [reflexivity|]. apply spec_okb_iff. vm_compute. reflexivity.
Qed.

Lemma term_then_timeout_witness :
  exists s', exec term_then_timeout_schedule (init_tree two_procs 1) = Some s' /\ rstep s' = None /\
    first_hit term_then_timeout_schedule (init_tree two_procs 1) = Some SIGTERM /\
    observe s' = mkobs (RExit 124) MReaped [false; false] [SIGTERM] /\
    spec (flatten two_procs) (history_of s') (observe s').
Proof.
  eexists. split; [vm_compute; reflexivity|]. split; [reflexivity|]. split; [vm_compute; reflexivity|].
  split; [reflexivity|]. apply spec_okb_iff. vm_compute. reflexivity.
Qed.

Lemma timeout_status_literal_refuted : ~ timeout_status_literal /\ ~ termination_status_literal.
Proof.
  split; intros H.
  - destruct timeout_then_term_witness as (s' & Hx & Hr & Hf & Ho & _).
    assert (E : 143 = 124) by (apply (H _ _ _ s' 143 Hx Hr Hf); now rewrite Ho). discriminate E.
  - destruct term_then_timeout_witness as (s' & Hx & Hr & Hf & Ho & _).
    apply (H _ _ _ s' 124 Hx Hr Hf); [now rewrite Ho|reflexivity].
Qed.

(* what holds: the status follows the LAST signal that reached the runner - 124 exactly when that
   was the alarm (for a main process that did not exit 0 on its own meanwhile the status is never 0) *)
Lemma timeout_status_partial t timeout tr s' c :
  exec tr (init_tree t timeout) = Some s' -> rstep s' = None -> hits_wait tr (init_tree t timeout) = true ->
  o_result (observe s') = RExit c -> final_sig (history_of s') = Some SIGALRM -> c = 124.
Proof.
  intros Hx Hr Hh Hc Hf.
  assert (Hs : spec (flatten t) (history_of s') (observe s')) by (apply (spec_exact t timeout tr s' Hx Hr); now right).
  assert (Hk : KInv s') by (apply (hit_KInv tr (init_tree t timeout)); auto; apply Inv_init).
  unfold spec in Hs. simpl in Hs. destruct (s_event s') as [e|] eqn:Ee; [|exfalso; now apply (KInv_event s' Hk)].
  destruct Hs as (_ & c' & Hres & _ & _ & _ & H124 & _).
  rewrite Hc in Hres. injection Hres as <-. apply H124. exact Hf.
Qed.

(* ---- repeated termination requests (robsd-kill) ---------------------------------------------------------
   robsd-kill sends SIGTERM to the runner again and again (`while pkill -f "^robsd-exec ..."; do sleep .1;
   done`) until it is gone.  [event_takes_group_down] has no premise on what happened before the event that
   finds the runner in waitpid(-pid): a request that was LOST in window 2 (handler installed, waitpid not yet
   entered) is made good by the next one.  Windows 1 and 3 are not: there the runner is gone (killed / exited 1)
   and nothing can reach it any more. *)
Lemma resend_heals_window2 t timeout tr1 s0 sig0 s0' tr2 s s1 tr3 s' :
  exec tr1 (init_tree t timeout) = Some s0 -> handled_not_waiting (s_pc s0) = true ->
  arrive sig0 s0 = Some s0' -> exec tr2 s0' = Some s -> s_pc s = PWaiting ->
  arrive SIGTERM s = Some s1 -> exec tr3 s1 = Some s' -> rstep s' = None ->
  cut_ok (flatten t) (history_of s') (observe s').
Proof.
  intros H1 _ Ha H2 Hpc Ha2 H3 Hr.
  assert (Hx : exec (tr1 ++ LArrive sig0 :: tr2) (init_tree t timeout) = Some s).
  { rewrite (exec_app tr1 _ _ _ H1). simpl. rewrite Ha. exact H2. }
  destruct (event_takes_group_down t timeout _ s SIGTERM s1 tr3 s' Hx Hpc Ha2 H3) as (_ & Hc & _).
  exact (Hc Hr).
Qed.

Lemma runner_gone_nothing_arrives s sig : terminated (s_pc s) = true -> arrive sig s = None.
Proof. intros H. unfold arrive. now rewrite H. Qed.
