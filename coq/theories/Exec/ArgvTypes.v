(* ArgvTypes.v - the vocabulary the generated file gen/Gen_Exec.v (harness/t_exec.py)
   is written in; definitions only.

   - [emode]: the five robsd modes (mode.h FOR_ROBSD_MODES);
   - [tmpl]: one element of the argv template built by config_steps_add_script
     (conf.c): a string literal, the script path parameter, the step name
     parameter;
   - [ccast_schar]: the one C conversion glibc's WIFSIGNALED needs on top of
     Base/CInt.v: (signed char) of an int, i.e. reduction modulo 2^8 into
     -128..127 (implementation-defined in C11 6.3.1.3, defined that way by gcc
     and clang); the conversion back to int is value preserving. *)
From Robsd Require Export Base.Bytes Base.CInt.
Local Open Scope Z_scope.

Inductive emode := MRobsd | MCross | MPorts | MRegress | MCanvas.

Inductive tmpl :=
| TLit (b : bytes)     (* variable_value_append(val, "literal") *)
| TScript              (* variable_value_append(val, script)    *)
| TName.               (* variable_value_append(val, step_name) *)

Definition cwrap_schar (z : Z) : Z := (z + 128) mod 256 - 128.
Definition ccast_schar (x : cval) : cval := cbind1 x (fun a => Some (cwrap_schar a)).
Definition ccast_schar_int (x : cval) : cval := x.
