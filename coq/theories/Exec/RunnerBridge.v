(* RunnerBridge.v - ONE runner: the exits of C07's transition system (Exec/KillDefs.v: program
   counters of step_exec / step_fork / killwaitpg1, signals, group members, the handshake) are
   exactly the three cases of C06's runner model [run_fork] (Exec/ArgvDefs.v):

     HsOk        the handshake completed; status = exitstatus(status, gotsig)
     HsLate      "process group failure", the child waited for: its decoded status, or 1 when that is 0
     HsLateIntr  "process group failure", the wait interrupted by SIGTERM: 1

   [exit_shape]: an invariant of every execution says which of the three a terminated runner is
   in; [runner_models_agree]: for every execution of C07's system that ends in PExit c, C06's
   [run_fork], given the wait status the main process had and the gotsig the runner had, exits with
   the same c.  So C06's statements about the exit status (C06_runner_exit_zero_iff,
   C06_handshake_late_nonzero, C06_handshake_late_interrupted) are statements about C07's system,
   and the late-handshake + SIGTERM path - where the two models used to disagree (C06 ignored the
   signal) - is one path now.  [gotsig_never_alarm_late]: on the failure path no alarm is armed, so
   C06's use of exitstatus(status, 0) there loses nothing. *)
From Robsd Require Import Exec.KillDefs Exec.KillSpec Exec.KillProofs.
From Robsd Require Exec.KillAlarm.
From Robsd Require Exec.ArgvDefs Exec.ArgvSpec Exec.ArgvProofs Exec.ArgvRun Exec.KillExit.
Local Open Scope Z_scope.

(* return error ? error : 1 *)
Definition late_code (w : Z) : Z := if exitstatus w 0 =? 0 then 1 else exitstatus w 0.

Definition exit_shape (s : state) (c : Z) : Prop :=
  (s_slow s = false /\ c = exitstatus (s_status s) (s_gotsig s)) \/
  (s_slow s = true /\ s_reaped s = true /\ c = late_code (s_status s)) \/
  (s_slow s = true /\ s_reaped s = false /\ c = 1).

Definition EInv (s : state) : Prop :=
  match s_pc s with
  | PWaitIntr => s_gotsig s <> 0
  | PFailDone => s_reaped s = true
  | PExit c => exit_shape s c
  | _ => True
  end.

Lemma EInv_init m rest timeout : EInv (init m rest timeout).
Proof. exact I. Qed.

Lemma EInv_step l s s' : PInv s -> EInv s -> apply_label l s = Some s' -> EInv s'.
Proof.
  destruct s as [pc g st tmo ar m r rp k ev lt up sl]. unfold PInv, EInv, exit_shape, late_code; simpl.
  intros HP HE Hl.
  destruct l as [|sig|i|]; simpl in Hl.
  - unfold rstep, main_zombie in Hl; simpl in Hl.
    split_step Hl; simpl in *; try exact I; try reflexivity; try exact HE.
    (* PWaitIntr with gotsig = 0: impossible *)
    all: try (exfalso; apply HE; apply Z.eqb_eq; assumption).
    (* PWaitDone -> PExit *)
    all: try (left; split; [exact HP|reflexivity]).
    (* PFailIntr -> PExit 1 *)
    all: try (right; right; destruct HP as (Hr & _ & Hs); repeat split; assumption).
    (* PFailDone -> PExit: return error ? error : 1 *)
    all: right; left; destruct HP as (_ & Hs); repeat split; try assumption;
      match goal with E : (_ =? 0) = _ |- _ => rewrite E end; reflexivity.
  - unfold arrive in Hl; simpl in Hl.
    split_step Hl; simpl in *; try exact I; try discriminate;
      destruct pc; simpl in *; try exact I; try exact HE; try discriminate.
    all: intros Hq; subst sig;
      match goal with E : (0 =? _) = true |- _ => vm_compute in E; discriminate E end.
  - unfold exit_member in Hl; simpl in Hl. split_step Hl; simpl in *; exact HE.
  - unfold group_up in Hl; simpl in Hl. split_step Hl; simpl in *. exact HE.
Qed.

Lemma EInv_exec tr : forall s s', Inv s -> EInv s -> exec tr s = Some s' -> EInv s'.
Proof.
  induction tr as [|l tr IH]; simpl; intros s s' Hi He Hx.
  - now injection Hx as <-.
  - destruct (apply_label l s) as [s1|] eqn:E; [|discriminate].
    apply (IH s1 s'); [apply (Inv_step l s); assumption| |exact Hx].
    apply (EInv_step l s); auto. apply Hi.
Qed.

(* every exit of the runner, in every execution, is one of the three shapes *)
Theorem exit_shape_all t timeout tr s c :
  exec tr (init_tree t timeout) = Some s -> s_pc s = PExit c -> exit_shape s c.
Proof.
  intros Hx Hpc.
  pose proof (EInv_exec tr _ _ (Inv_init _ _ _) (EInv_init _ _ _) Hx) as He.
  unfold EInv in He. now rewrite Hpc in He.
Qed.

(* the handshake case of C06's model that a state of C07's system is in *)
Definition hs_of (s : state) : ArgvDefs.handshake :=
  if s_slow s then (if s_reaped s then ArgvDefs.HsLate else ArgvDefs.HsLateIntr) else ArgvDefs.HsOk.

(* ONE RUNNER.  Whatever the configuration view and the step name: if the name resolves, C06's runner
   - told the wait status the main process had, the gotsig the runner had and the handshake case the
   execution is in - exits with the status C07's transition system exits with. *)
Theorem runner_models_agree t timeout tr s c cv trace name argv :
  exec tr (init_tree t timeout) = Some s -> s_pc s = PExit c ->
  ArgvDefs.resolve true cv trace name = ArgvDefs.RArgv argv ->
  exists d, ArgvDefs.run_fork true cv trace name (fun _ => ArgvDefs.KWait (s_status s)) (s_gotsig s) (hs_of s)
            = ArgvDefs.Exited (ArgvDefs.mkrun (Some argv) c d).
Proof.
  intros Hx Hpc Hr. pose proof (exit_shape_all t timeout tr s c Hx Hpc) as [(Hs & Hc)|[(Hs & Hrp & Hc)|(Hs & Hrp & Hc)]];
    unfold hs_of; rewrite Hs; try rewrite Hrp.
  - unfold ArgvDefs.run_fork, ArgvDefs.run_with. rewrite Hr, ArgvProofs.exit_of_wait_eq.
    cbn [ArgvDefs.child_status]. rewrite <- KillExit.kill_exitstatus_spec, <- Hc. eexists. reflexivity.
  - unfold ArgvDefs.run_fork. rewrite Hr, ArgvProofs.exit_of_wait_eq.
    cbn [ArgvDefs.child_status]. rewrite <- KillExit.kill_exitstatus_spec.
    unfold late_code in Hc. rewrite <- Hc. eexists. reflexivity.
  - unfold ArgvDefs.run_fork. rewrite Hr, Hc. eexists. reflexivity.
Qed.

(* the path on which the two models used to differ: the handshake has failed, the runner is blocked in
   waitpid(pid), SIGTERM arrives.  C07's system exits 1 after one transition (window 3); C06's runner says
   the same - HsLateIntr, status 1, diagnostic "process group failure" only. *)
Theorem late_handshake_sigterm_agree t timeout tr s s1 s2 cv trace name kern g argv :
  exec tr (init_tree t timeout) = Some s -> s_pc s = PFailWaiting ->
  arrive SIGTERM s = Some s1 -> rstep s1 = Some s2 ->
  ArgvDefs.resolve true cv trace name = ArgvDefs.RArgv argv ->
  s_pc s2 = PExit 1 /\ hs_of s2 = ArgvDefs.HsLateIntr /\
  ArgvDefs.run_fork true cv trace name kern g ArgvDefs.HsLateIntr
    = ArgvDefs.Exited (ArgvDefs.mkrun (Some argv) 1 [ArgvDefs.DGroupFail]).
Proof.
  intros Hx Hpc Ha Hr Hres.
  assert (Hi : Inv s) by (apply (Inv_exec tr (init_tree t timeout)); [apply Inv_init|exact Hx]).
  destruct Hi as (_ & _ & HP & _). unfold PInv in HP. rewrite Hpc in HP. destruct HP as (Hrp & _ & Hsl).
  unfold arrive in Ha. rewrite Hpc in Ha. simpl in Ha. injection Ha as <-.
  unfold rstep in Hr. simpl in Hr. rewrite Hpc in Hr. simpl in Hr. injection Hr as <-.
  split; [reflexivity|]. split.
  - unfold hs_of. simpl. now rewrite Hsl, Hrp.
  - unfold ArgvDefs.run_fork. now rewrite Hres.
Qed.

(* gotsig is SIGALRM only once the alarm has been armed *)
Definition GA (s : state) : Prop := s_gotsig s = SIGALRM -> s_armed s = true.

Lemma GA_step l s s' : GA s -> apply_label l s = Some s' -> GA s'.
Proof.
  destruct s as [pc g st tmo ar m r rp k ev lt up sl]. unfold GA; simpl. intros H Hl.
  destruct l as [|sig|i|]; simpl in Hl.
  - unfold rstep, main_zombie in Hl; simpl in Hl. split_step Hl; simpl in *; auto.
  - unfold arrive in Hl; simpl in Hl. split_step Hl; simpl in *; auto.
    all: intros Hq; subst sig; match goal with E : (SIGALRM =? SIGTERM) = true |- _ => vm_compute in E; discriminate E end.
  - unfold exit_member in Hl; simpl in Hl. split_step Hl; simpl in *; exact H.
  - unfold group_up in Hl; simpl in Hl. split_step Hl; simpl in *. exact H.
Qed.

Lemma GA_exec tr : forall s s', GA s -> exec tr s = Some s' -> GA s'.
Proof. intros s s'. apply (exec_inv GA GA_step). Qed.

(* on the failure path the alarm is never armed: gotsig is 0 or SIGTERM there, so exitstatus(status, 0) - which
   is what the source and C06's model use on that path - is exitstatus(status, gotsig) *)
Theorem gotsig_never_alarm_late t timeout tr s :
  exec tr (init_tree t timeout) = Some s -> s_slow s = true -> s_gotsig s <> SIGALRM.
Proof.
  intros Hx Hs Hg.
  assert (Ha : s_armed s = true).
  { apply (GA_exec tr (init_tree t timeout) s); [intros H; discriminate H|exact Hx|exact Hg]. }
  destruct (KillAlarm.slow_never_armed t timeout tr s Hx Hs) as [Hf _]. rewrite Hf in Ha. discriminate.
Qed.
