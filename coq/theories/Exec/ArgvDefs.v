(* ArgvDefs.v - executable model of how robsd-exec and robsd-hook build the
   argument vector they execute and how robsd-exec turns the wait status of
   the step into its own exit status.  Definitions only.

   The configuration is abstracted as a [cfgview]: what cf->variables holds
   after parsing (name -> value as config_interpolate_lookup renders it:
   strings as they are, integers in decimal, lists joined by one space), the
   rendered grammar defaults, the step list callbacks->get_steps returns and
   the hook list.  How a configuration FILE becomes such a view is property
   C08's subject; the correspondence harness builds the view next to every
   configuration file it generates.

   C function                         model
   conf.c config_steps_add_script     [command_of] (template from Gen_Exec)
   conf.c config_default_get_steps,
   conf-robsd-regress.c ..._get_steps,
   conf-canvas.c get_steps/after_parse [mode_schedule]
   conf.c config_default_trace        [trace_value]
   conf.c config_find + lookup        [env_of] (variables first, then defaults)
   conf.c config_get_steps            [interp_args] / [interp_steps]
   step-exec.c find_step              [find_step] / [lookup_schedule]
   step-exec.c resolve_step_command,
   step_exec                          [step_argv], [step_run]
   step-exec.c exitstatus             Gen_Exec.exitstatus (translated) -> [exit_of_wait]
   conf.c config_append_var           [append_vars]
   robsd-hook.c hook_to_argv, main    [hook_run] *)
From Robsd Require Export Base.Bytes Base.CInt Interp.InterpDefs Exec.ArgvTypes.
From RobsdGen Require Export Gen_Interp Gen_Exec.
Local Open Scope N_scope.

(* ---- the configuration as robsd-exec / robsd-hook see it ---------------- *)

Inductive cmdspec :=
| Script (path : bytes)            (* a step of a script mode: command.path *)
| Command (args : list bytes).     (* canvas: step "name" command { ... }   *)

Record stepdef := mkstep { sd_name : bytes; sd_cmd : cmdspec }.

Record cfgview := mkcfg {
  cv_vars : list (bytes * bytes);       (* cf->variables, in order, rendered   *)
  cv_defaults : list (bytes * bytes);   (* grammar defaults except ${trace}    *)
  cv_steps : list stepdef;              (* callbacks->get_steps()              *)
  cv_hook : option (list bytes)         (* the hook list, if configured        *)
}.

(* config_steps_add_script *)
Definition tmpl_inst (script name : bytes) (t : tmpl) : bytes :=
  match t with TLit b => b | TScript => script | TName => name end.

Definition command_of (sd : stepdef) : list bytes :=
  match sd_cmd sd with
  | Script p => map (tmpl_inst p (sd_name sd)) script_template
  | Command l => l
  end.

(* the schedules of the five modes *)
Definition static_row (r : bytes * bytes) : stepdef := mkstep (fst r) (Script (snd r)).

Fixpoint rows_before (l : list (option (bytes * bytes))) : list (bytes * bytes) :=
  match l with
  | [] => []
  | None :: _ => []
  | Some r :: l' => r :: rows_before l'
  end.
Fixpoint rows_after (l : list (option (bytes * bytes))) : list (bytes * bytes) :=
  match l with
  | [] => []
  | None :: l' => rows_before l'   (* "for (i++; ...)": the rest, which holds no second placeholder *)
  | Some _ :: l' => rows_after l'
  end.

(* regress entries: (path, runs in parallel?) in configuration order;
   parallel ones first, then the others, each in configuration order *)
Definition regress_steps (regress : list (bytes * bool)) : list stepdef :=
  map (fun r => mkstep (fst r) (Script regress_script))
      (filter (fun r => snd r) regress ++ filter (fun r => negb (snd r)) regress).

Definition mode_schedule (m : emode) (regress : list (bytes * bool)) (canvas : list stepdef) : list stepdef :=
  match m with
  | MCanvas => canvas ++ [mkstep (fst canvas_end) (Script (snd canvas_end))]
  | MRegress => map static_row (rows_before (static_steps m)) ++ regress_steps regress
                ++ map static_row (rows_after (static_steps m))
  | _ => map static_row (rows_before (static_steps m))
  end.

(* ---- the lookup environment ------------------------------------------------ *)

Definition TRACE : bytes := [116; 114; 97; 99; 101].      (* "trace" *)
Definition trace_value (trace : bool) : bytes := if trace then trace_on else trace_off.

(* config_find: cf->variables first (first definition wins), then the grammar
   default; ${trace} is the default whose value depends on the -x flag *)
Definition env_list (cv : cfgview) (extra : list (bytes * bytes)) (trace : bool) : list (bytes * bytes) :=
  cv_vars cv ++ extra ++ (TRACE, trace_value trace) :: cv_defaults cv.

Definition env_of (cv : cfgview) (trace : bool) : bytes -> option bytes :=
  alookup (env_list cv [] trace).

(* ---- config_get_steps ---------------------------------------------------------- *)

Inductive res (A : Type) := ROk (a : A) | RErr (e : ierr).
Arguments ROk {A} a.
Arguments RErr {A} e.

Definition interp_arg (env : bytes -> option bytes) (t : bytes) : ires :=
  interp_str depth_limit false env t.

Definition isnil (b : bytes) : bool := match b with [] => true | _ => false end.

(* one command: every element interpolated as a whole, in order; the first
   failure aborts; with [drop], results that are the empty string are left out *)
Fixpoint interp_args (drop : bool) (env : bytes -> option bytes) (l : list bytes) : res (list bytes) :=
  match l with
  | [] => ROk []
  | t :: l' =>
      match interp_arg env t with
      | IErr e => RErr e
      | IOk o =>
          match interp_args drop env l' with
          | RErr e => RErr e
          | ROk r => ROk (if drop && isnil o then r else o :: r)
          end
      end
  end.

(* the whole schedule: config_get_steps interpolates the command of EVERY step
   before find_step looks at any name *)
Fixpoint interp_steps (env : bytes -> option bytes) (l : list stepdef) : res (list (bytes * list bytes)) :=
  match l with
  | [] => ROk []
  | sd :: l' =>
      match interp_args steps_drop_empty env (command_of sd) with
      | RErr e => RErr e
      | ROk argv =>
          match interp_steps env l' with
          | RErr e => RErr e
          | ROk r => ROk ((sd_name sd, argv) :: r)
          end
      end
  end.

(* find_step's loop: strcmp(cs->name, step_name) == 0, first match *)
Fixpoint find_step (name : bytes) (sched : list (bytes * list bytes)) : option (list bytes) :=
  match sched with
  | [] => None
  | (n, argv) :: r => if beq (cstr n) (cstr name) then Some argv else find_step name r
  end.

(* ---- step_exec -------------------------------------------------------------------- *)

Inductive diag :=
| DInterp (e : ierr)     (* "invalid substitution, ..." from interpolate.c *)
| DNotFound              (* "<name>: step script not found" *)
| DExec                  (* the child's err(1, "%s", command[0]) after execvp failed *)
| DExited (n : Z)        (* "process group exited <n>" *)
| DGroupFail             (* "process group failure": the fork handshake timed out, see [run_fork] *)
| DEmptyCmd.             (* "<name>: empty step command" (/repo 8e76449) *)

Record runres := mkrun {
  rr_argv : option (list bytes);   (* what was handed to execvp, if anything *)
  rr_exit : Z;                     (* exit status of the runner *)
  rr_diag : list diag              (* diagnostics on stderr, in order *)
}.

Inductive outcome := Exited (r : runres) | Crash.

(* find_step + resolve_step_command.  [checked] = find_step tests the schedule
   against NULL (findings/D5_find_step_null.diff); as shipped it does not and
   VECTOR_LENGTH(NULL) reads in front of the null pointer. *)
Inductive resolved := RArgv (argv : list bytes) | RNone (d : list diag) | RCrash.

Definition resolve (checked : bool) (cv : cfgview) (trace : bool) (name : bytes) : resolved :=
  match interp_steps (env_of cv trace) (cv_steps cv) with
  | RErr e => if checked then RNone [DInterp e; DNotFound] else RCrash
  | ROk sched =>
      match find_step name sched with
      | Some argv => RArgv argv
      | None => RNone [DNotFound]
      end
  end.

Definition step_argv (cv : cfgview) (trace : bool) (name : bytes) : resolved :=
  resolve find_step_null_checked cv trace name.

(* what the kernel and the command do with an argv: execvp fails in the child
   (which then leaves through err(1, ...)), or the child ends with a wait status *)
Inductive kres := KNoExec | KWait (status : Z).

Definition w_exitcode (code : Z) : Z := (code * 256)%Z.      (* W_EXITCODE(code, 0) *)
Definition child_status (k : kres) : Z :=
  match k with KNoExec => w_exitcode 1 | KWait w => w end.

Definition exit_of_wait (status gotsig : Z) : option Z :=
  match exitstatus status gotsig with Some (v, _) => Some v | None => None end.

Definition run_with (checked : bool) (cv : cfgview) (trace : bool) (name : bytes)
    (kern : list bytes -> kres) (gotsig : Z) : outcome :=
  match resolve checked cv trace name with
  | RCrash => Crash
  | RNone d => Exited (mkrun None notfound_exit d)
  | RArgv argv =>
      let k := kern argv in
      match exit_of_wait (child_status k) gotsig with
      | None => Crash    (* exitstatus itself would have undefined behaviour *)
      | Some v =>
          Exited (mkrun (Some argv) v
                    ((match k with KNoExec => [DExec] | KWait _ => [] end)
                     ++ (if (v =? 0)%Z then [] else [DExited v])))
      end
  end.

Definition step_run := run_with find_step_null_checked.

(* ---- robsd-hook --------------------------------------------------------------------- *)

Inductive hdiag :=
| HSeparator             (* "missing variable separator in '...'" *)
| HReserved (n : bytes)  (* "variable '...' cannot be defined" *)
| HInterp (e : ierr)     (* "invalid substitution, ..." *)
| HExecFail.             (* warn("%s", args[0]) after execvp failed *)

Inductive houtcome :=
| HNoop                           (* exit 0, nothing executed *)
| HExec (argv : list bytes)       (* execvp(argv[0], argv): the command's status is the hook's *)
| HFail (exit : Z) (d : hdiag).

Definition EQ : N := 61.

(* strchr(str, '='): name before, value after *)
Fixpoint split_eq (s : bytes) : option (bytes * bytes) :=
  match s with
  | [] => None
  | c :: s' =>
      if c =? EQ then Some ([], s')
      else match split_eq s' with
           | Some (n, v) => Some (c :: n, v)
           | None => None
           end
  end.

(* config_append_var for each -v argument, in order *)
Fixpoint append_vars (reserved : list bytes) (vs : list bytes) : (list (bytes * bytes)) + hdiag :=
  match vs with
  | [] => inl []
  | s :: vs' =>
      match split_eq (cstr s) with
      | None => inr HSeparator
      | Some (n, v) =>
          if existsb (beq n) reserved then inr (HReserved n)
          else match append_vars reserved vs' with
               | inl r => inl ((n, v) :: r)
               | inr d => inr d
               end
      end
  end.

(* main of robsd-hook after a successful parse; [execok] = execvp succeeds *)
Definition hook_run (m : emode) (cv : cfgview) (vs : list bytes) (execok : list bytes -> bool) : houtcome :=
  match append_vars (reserved_keywords m) vs with
  | inr d => HFail 1 d
  | inl extra =>
      match cv_hook cv with
      | None => HNoop
      | Some [] => HNoop
      | Some l =>
          match interp_args hook_drop_empty (alookup (env_list cv extra false)) l with
          | RErr e => HFail 1 (HInterp e)
          | ROk argv => if execok argv then HExec argv else HFail 1 HExecFail
          end
      end
  end.

(* ---- the runner over any lookup function ------------------------------------------------
   [resolve] only uses the configuration view through the lookup function
   [env_of cv trace] and the step list; [resolve_env] is the same code with the
   two made explicit (resolve_env_eq in ArgvProofs.v), so that it can be run on
   the environment and the schedule of a PARSED configuration (Exec/SchedBridge.v). *)
Definition resolve_env (checked : bool) (env : bytes -> option bytes) (steps : list stepdef) (name : bytes) : resolved :=
  match interp_steps env steps with
  | RErr e => if checked then RNone [DInterp e; DNotFound] else RCrash
  | ROk sched =>
      match find_step name sched with
      | Some argv => RArgv argv
      | None => RNone [DNotFound]
      end
  end.

(* ---- the fork handshake -------------------------------------------------------------------
   step_fork: the child announces its process group by closing its end of a
   pipe after setsid(); the parent polls that pipe for about one second
   (waiteof(proc_pipe[0], 1000)).  [HsLate]: the child did not get that far in
   time - the parent prints "process group failure", waits for the child all
   the same and returns the decoded status, or 1 when that is 0.
   [HsLateIntr]: ... and while the parent is blocked in that waitpid(pid, &status, 0) a SIGTERM reaches it: the
   handler is installed without SA_RESTART, waitpid returns -1 and step_fork returns 1 at once - the child is
   neither waited for nor signalled (C07's window signal-during-group-failure).  Exec/RunnerBridge.v proves that
   these three cases are exactly the exits of C07's transition system (Exec/KillDefs.v). *)
Inductive handshake := HsOk | HsLate | HsLateIntr.

Definition run_fork (checked : bool) (cv : cfgview) (trace : bool) (name : bytes)
    (kern : list bytes -> kres) (gotsig : Z) (hs : handshake) : outcome :=
  match hs with
  | HsOk => run_with checked cv trace name kern gotsig
  | HsLate =>
      match resolve checked cv trace name with
      | RCrash => Crash
      | RNone d => Exited (mkrun None notfound_exit d)
      | RArgv argv =>
          let k := kern argv in
          (* exitstatus(status, 0): gotsig is not consulted on this path, no alarm has been armed yet *)
          match exit_of_wait (child_status k) 0 with
          | None => Crash
          | Some v =>
              let v' := if (v =? 0)%Z then 1%Z else v in
              (* step_exec returns step_fork's error at once: no "process group exited" line *)
              Exited (mkrun (Some argv) v' (DGroupFail :: match k with KNoExec => [DExec] | KWait _ => [] end))
          end
      end
  | HsLateIntr =>
      match resolve checked cv trace name with
      | RCrash => Crash
      | RNone d => Exited (mkrun None notfound_exit d)
      | RArgv argv => Exited (mkrun (Some argv) 1%Z [DGroupFail])      (* if (waitpid(pid, &status, 0) == -1) return 1; *)
      end
  end.

(* ---- step_exec as a whole -------------------------------------------------------------------
   Between resolve_step_command and step_fork the source has, since /repo 8e76449, the test
   `if (command[0] == NULL) { warnx("%s: empty step command", step_name); return 1; }`:
   a command of which nothing is left after interpolation is refused before anything is
   forked.  [echk] tells whether the source has the test (Gen_Exec.empty_command_checked);
   without it the empty vector goes to step_fork and the child calls execvp(NULL, ...).
   For every other outcome of the resolution step_exec is [run_fork]. *)
Definition step_exec_run (echk checked : bool) (cv : cfgview) (trace : bool) (name : bytes)
    (kern : list bytes -> kres) (gotsig : Z) (hs : handshake) : outcome :=
  match resolve checked cv trace name with
  | RArgv [] => if echk then Exited (mkrun None empty_exit [DEmptyCmd])
                else run_fork checked cv trace name kern gotsig hs
  | _ => run_fork checked cv trace name kern gotsig hs
  end.

(* the runner the source has now *)
Definition step_exec_now := step_exec_run empty_command_checked find_step_null_checked.
