(* KillDefs.v - C07: the step runner's signal handling (step-exec.c) as a
   small-step system composed with a deliberately simple kernel model.
   Executable definitions only.

   RUNNER.  Program counters sit at the places of step_exec / step_fork /
   killwaitpg / killwaitpg1 that matter for signals (they are also the sync
   points of the ROBSD_VERIF hook):

     step_fork:   fork()                                  -> PForked      "exec.after_fork"
                  siginstall(SIGPIPE, SIG_IGN, 0)         -> PIgnPipe     "exec.after_sigpipe"
                  siginstall(SIGTERM, sighandler, NO_RESTART) -> PTermInst "exec.after_sigterm"
                  waiteof(proc_pipe[0], 1000):            -> PHandshake hpolls
                    read() == 0 (EOF: the child closed its end after setsid) -> PGroupUp
                    EAGAIN, usleep, hpolls times             PHandshake n -> PHandshake (n - 1)
                    gave up: warnx("process group failure") -> PGroupFail
                      waitpid(pid, &status, 0)            -> PFailWaiting (blocked in the kernel)
                        returns -1: return 1              -> PFailIntr -> PExit 1
                        returns pid                       -> PFailDone
                      error = exitstatus(status, 0); return error ? error : 1 -> PExit
                  timeout > 0: siginstall(SIGALRM, sighandler, 0) -> PAlrmInst "exec.after_sigalrm"
                               alarm(timeout)             -> PBeforeWait  "exec.before_waitpid"
     step_exec:   waitpid(-pid, &status, 0)               -> PWaiting     (blocked in the kernel)
                    returns -1/EINTR                      -> PWaitIntr    "exec.wait_interrupted"
                    returns pid                           -> PWaitDone    "exec.after_wait"
                  killwaitpg(pid, 5000, &status):
     killwaitpg1:   kill(-pgid, SIGTERM)   PKillSend PhTerm "kill.before_term" -> PPoll PhTerm npolls "kill.after_term"
                    waitpid(-pgid, status, WNOHANG) / usleep, npolls times
                    kill(-pgid, SIGKILL)   PKillSend PhKill "kill.before_kill" -> PPoll PhKill npolls "kill.after_kill"
                    neither reaped: *status = 1
                  exitstatus(status, gotsig)              -> PExit code

   KERNEL MODEL (an assumption, see Properties_C07.v): the step's process group
   is a finite set of processes, the main process (the runner's only child,
   group and session leader) first; each has a SIGTERM disposition and possibly
   the ability to exit on its own.  kill(-pgid, sig) reaches every live member;
   SIGKILL kills, SIGTERM kills the members with the default disposition.
   waitpid can only reap the main process.  A signal sent to the runner runs
   sighandler (gotsig = signo) when a handler is installed, interrupts a blocking
   waitpid (no SA_RESTART), and otherwise terminates the runner (default action
   of SIGTERM).  The alarm can only fire once it has been armed.
   The forked child reaches close(proc_pipe[1]) (after setsid) at a moment the
   runner does not control: label LUp.  Until then the step's processes cannot
   exit on their own (they do not exist yet).  The configured timeout expires
   (label LExpire): SIGALRM arrives if alarm() was called; after a failed
   handshake alarm() is never called and the expiry goes unnoticed by the runner. *)
From Coq Require Export List ZArith Bool Lia.
From RobsdGen Require Gen_Kill.
Export ListNotations.
Local Open Scope Z_scope.

Definition SIGKILL : Z := 9.
Definition SIGALRM : Z := 14.
Definition SIGTERM : Z := 15.

(* ---- process trees ------------------------------------------------------------ *)

Inductive disp := Default | Ignore.

Definition is_default (d : disp) : bool := match d with Default => true | Ignore => false end.

(* what the property quantifies over: a tree of processes, each with a SIGTERM
   disposition and, optionally, the exit code it exits with on its own *)
Inductive tree := Node (d : disp) (early : option Z) (kids : list tree).

Record member := mkmember { m_disp : disp; m_early : option Z }.

(* preorder: the main process is first *)
Fixpoint flatten (t : tree) : list member :=
  match t with
  | Node d e ks => mkmember d e :: flat_map flatten ks
  end.

Definition tree_main (t : tree) : member :=
  match t with Node d e _ => mkmember d e end.
Definition tree_rest (t : tree) : list member :=
  match t with Node _ _ ks => flat_map flatten ks end.

(* ---- kernel model: processes --------------------------------------------------- *)

Record proc := mkproc {
  p_disp : disp;
  p_early : option Z;      (* Some c: may exit on its own, with code c *)
  p_st : option Z;         (* None: alive; Some w: dead with wait status w *)
  p_self : bool            (* died by exiting on its own (ghost, for the specification) *)
}.

Definition fresh (m : member) : proc := mkproc (m_disp m) (m_early m) None false.
Definition member_of (p : proc) : member := mkmember (p_disp p) (p_early p).

Definition p_alive (p : proc) : bool := match p_st p with None => true | Some _ => false end.

Definition die (w : Z) (self : bool) (p : proc) : proc :=
  mkproc (p_disp p) (p_early p) (Some w) self.

(* a signal sent to the group reaches this member *)
Definition deliver (sig : Z) (p : proc) : proc :=
  match p_st p with
  | Some _ => p
  | None =>
      if sig =? SIGKILL then die SIGKILL false p
      else if (sig =? SIGTERM) && is_default (p_disp p) then die SIGTERM false p
      else p
  end.

(* the process exits on its own: wait status = code << 8 *)
Definition self_exit (p : proc) : option proc :=
  match p_st p, p_early p with
  | None, Some c => Some (die ((c mod 256) * 256) true p)
  | _, _ => None
  end.

(* ---- exitstatus(), with glibc's W* macros for non-negative statuses ------------- *)

Definition wtermsig (st : Z) : Z := st mod 128.                    (* st & 0x7f *)
Definition wifexited (st : Z) : bool := wtermsig st =? 0.
Definition wexitstatus (st : Z) : Z := (st / 256) mod 256.         (* (st & 0xff00) >> 8 *)
(* ((signed char)((st & 0x7f) + 1) >> 1) > 0 *)
Definition wifsignaled (st : Z) : bool := (1 <=? wtermsig st) && (wtermsig st <=? 126).

Definition exitstatus (st sig : Z) : Z :=
  if sig =? SIGALRM then Gen_Kill.ex_timeout
  else if wifexited st then wexitstatus st
  else if wifsignaled st then 128 + wtermsig st
  else 1.

(* number of waitpid(WNOHANG) polls of killwaitpg1: timoms counts down by slpms
   after every unsuccessful poll, the loop gives up when it reaches <= 0 *)
Definition npolls : nat :=
  Z.to_nat ((Gen_Kill.kill_timeout_ms + Gen_Kill.kill_poll_ms - 1) / Gen_Kill.kill_poll_ms).

(* number of read() attempts of waiteof: timoms counts down by slpms after every EAGAIN *)
Definition hpolls : nat :=
  Z.to_nat ((Gen_Kill.pipe_timeout_ms + Gen_Kill.pipe_poll_ms - 1) / Gen_Kill.pipe_poll_ms).

(* ---- runner state ------------------------------------------------------------------ *)

Inductive phase := PhTerm | PhKill.

Definition phase_sig (ph : phase) : Z := match ph with PhTerm => SIGTERM | PhKill => SIGKILL end.

Inductive pc :=
| PForked | PIgnPipe | PTermInst | PGroupUp | PAlrmInst | PBeforeWait
| PWaiting | PWaitIntr
| PKillSend (ph : phase) | PPoll (ph : phase) (n : nat)
| PWaitDone
| PExit (code : Z)
| PKilled (sig : Z)
| PHandshake (n : nat)      (* in waiteof, n read() attempts left *)
| PGroupFail                (* waiteof gave up: "process group failure" *)
| PFailWaiting              (* blocked in waitpid(pid, &status, 0) *)
| PFailIntr                 (* that waitpid returned -1 *)
| PFailDone.                (* it returned pid *)

Record state := mkstate {
  s_pc : pc;
  s_gotsig : Z;             (* static volatile sig_atomic_t gotsig *)
  s_status : Z;             (* int status of step_exec *)
  s_timeout : Z;            (* step_timeout(): regress-timeout in robsd-regress mode, else 0 *)
  s_armed : bool;           (* alarm(timeout) has been called *)
  s_main : proc;
  s_rest : list proc;
  s_reaped : bool;          (* the main process has been waited for *)
  s_kills : list Z;         (* signals sent to the group so far *)
  s_event : option Z;       (* ghost: last event (signal reaching the runner, unnoticed expiry of the
                               timeout) before the main process was reaped *)
  s_late : option Z;        (* ghost: last signal that reached the runner after that *)
  s_up : bool;              (* the child has done setsid and closed its end of the handshake pipe *)
  s_slow : bool             (* ghost: waiteof gave up before that *)
}.

Definition set_pc (p : pc) (s : state) : state :=
  mkstate p (s_gotsig s) (s_status s) (s_timeout s) (s_armed s) (s_main s) (s_rest s)
          (s_reaped s) (s_kills s) (s_event s) (s_late s) (s_up s) (s_slow s).

Definition init (m : member) (rest : list member) (timeout : Z) : state :=
  mkstate PForked 0 0 timeout false (fresh m) (map fresh rest) false [] None None false false.

Definition init_tree (t : tree) (timeout : Z) : state :=
  init (tree_main t) (tree_rest t) timeout.

(* kill(-pgid, sig) *)
Definition kill_group (sig : Z) (s : state) : state :=
  mkstate (s_pc s) (s_gotsig s) (s_status s) (s_timeout s) (s_armed s)
          (deliver sig (s_main s)) (map (deliver sig) (s_rest s))
          (s_reaped s) (s_kills s ++ [sig]) (s_event s) (s_late s) (s_up s) (s_slow s).

(* waitpid found the main process dead: collect its status *)
Definition reap_to (p : pc) (w : Z) (s : state) : state :=
  mkstate p (s_gotsig s) w (s_timeout s) (s_armed s) (s_main s) (s_rest s)
          true (s_kills s) (s_event s) (s_late s) (s_up s) (s_slow s).
Definition reap (w : Z) (s : state) : state := reap_to PWaitDone w s.

Definition main_zombie (s : state) : option Z :=
  if s_reaped s then None else p_st (s_main s).

(* one transition of the runner; None: blocked in waitpid, or terminated *)
Definition rstep (s : state) : option state :=
  match s_pc s with
  | PForked => Some (set_pc PIgnPipe s)
  | PIgnPipe => Some (set_pc PTermInst s)
  | PTermInst => Some (set_pc (PHandshake hpolls) s)                (* close(proc_pipe[1]); waiteof *)
  | PHandshake (S n) => Some (set_pc (if s_up s then PGroupUp else PHandshake n) s)
  | PHandshake O =>                                                 (* timoms <= 0: return 1 *)
      Some (mkstate PGroupFail (s_gotsig s) (s_status s) (s_timeout s) (s_armed s) (s_main s) (s_rest s)
                    (s_reaped s) (s_kills s) (s_event s) (s_late s) (s_up s) true)
  | PGroupFail => Some (set_pc PFailWaiting s)
  | PFailWaiting =>
      match main_zombie s with
      | Some w => Some (reap_to PFailDone w s)
      | None => None
      end
  | PFailIntr => Some (set_pc (PExit 1) s)                          (* return 1 *)
  | PFailDone =>                                                    (* return error ? error : 1 *)
      Some (set_pc (PExit (if exitstatus (s_status s) 0 =? 0 then 1 else exitstatus (s_status s) 0)) s)
  | PGroupUp => Some (set_pc (if 0 <? s_timeout s then PAlrmInst else PBeforeWait) s)
  | PAlrmInst =>
      Some (mkstate PBeforeWait (s_gotsig s) (s_status s) (s_timeout s) true (s_main s) (s_rest s)
                    (s_reaped s) (s_kills s) (s_event s) (s_late s) (s_up s) (s_slow s))
  | PBeforeWait => Some (set_pc PWaiting s)
  | PWaiting =>
      match main_zombie s with
      | Some w => Some (reap w s)
      | None => None
      end
  | PWaitIntr =>
      if s_gotsig s =? 0 then Some (set_pc (PExit 1) s)          (* err(1, "waitpid") *)
      else Some (set_pc (PKillSend PhTerm) s)
  | PKillSend ph => Some (set_pc (PPoll ph npolls) (kill_group (phase_sig ph) s))
  | PPoll ph (S n) =>
      match main_zombie s with
      | Some w => Some (reap w s)
      | None => Some (set_pc (PPoll ph n) s)
      end
  | PPoll PhTerm O => Some (set_pc (PKillSend PhKill) s)
  | PPoll PhKill O =>                                             (* *status = 1; "failed to kill" *)
      Some (mkstate PWaitDone (s_gotsig s) 1 (s_timeout s) (s_armed s) (s_main s) (s_rest s)
                    (s_reaped s) (s_kills s) (s_event s) (s_late s) (s_up s) (s_slow s))
  | PWaitDone => Some (set_pc (PExit (exitstatus (s_status s) (s_gotsig s))) s)
  | PExit _ => None
  | PKilled _ => None
  end.

(* is sighandler installed for SIGTERM at this point? *)
Definition term_handled (p : pc) : bool :=
  match p with PForked | PIgnPipe => false | _ => true end.

Definition terminated (p : pc) : bool :=
  match p with PExit _ | PKilled _ => true | _ => false end.

(* sighandler: gotsig = signo; a blocking waitpid returns -1 / EINTR *)
Definition record_sig (sig : Z) (s : state) : state :=
  mkstate (match s_pc s with PWaiting => PWaitIntr | PFailWaiting => PFailIntr | p => p end)
          sig (s_status s) (s_timeout s) (s_armed s) (s_main s) (s_rest s) (s_reaped s) (s_kills s)
          (if s_reaped s then s_event s else Some sig)
          (if s_reaped s then Some sig else s_late s) (s_up s) (s_slow s).

(* default action of SIGTERM *)
Definition runner_killed (sig : Z) (s : state) : state :=
  mkstate (PKilled sig) (s_gotsig s) (s_status s) (s_timeout s) (s_armed s) (s_main s) (s_rest s)
          (s_reaped s) (s_kills s)
          (if s_reaped s then s_event s else Some sig)
          (if s_reaped s then Some sig else s_late s) (s_up s) (s_slow s).

(* the configured timeout expires while the step is running, but alarm() was never called
   (failed handshake): nothing reaches the runner; only the ghost history records the event *)
Definition note_expiry (s : state) : state :=
  mkstate (s_pc s) (s_gotsig s) (s_status s) (s_timeout s) (s_armed s) (s_main s) (s_rest s)
          (s_reaped s) (s_kills s) (Some SIGALRM) (s_late s) (s_up s) (s_slow s).

(* an event: SIGTERM reaches the runner / the configured timeout expires (SIGALRM reaches the
   runner if the alarm was armed).  None: not possible here (runner gone, no timeout pending,
   a signal the model does not consider) *)
Definition arrive (sig : Z) (s : state) : option state :=
  if terminated (s_pc s) then None
  else if sig =? SIGTERM then
    Some (if term_handled (s_pc s) then record_sig sig s else runner_killed sig s)
  else if sig =? SIGALRM then
    if s_armed s then Some (record_sig sig s)
    else if s_slow s && negb (s_reaped s) && (0 <? s_timeout s) then Some (note_expiry s)
    else None
  else None.

Fixpoint update_nth {A} (i : nat) (x : A) (l : list A) : list A :=
  match l, i with
  | [], _ => []
  | _ :: t, O => x :: t
  | h :: t, S j => h :: update_nth j x t
  end.

Definition set_main (p : proc) (s : state) : state :=
  mkstate (s_pc s) (s_gotsig s) (s_status s) (s_timeout s) (s_armed s) p (s_rest s)
          (s_reaped s) (s_kills s) (s_event s) (s_late s) (s_up s) (s_slow s).
Definition set_rest (r : list proc) (s : state) : state :=
  mkstate (s_pc s) (s_gotsig s) (s_status s) (s_timeout s) (s_armed s) (s_main s) r
          (s_reaped s) (s_kills s) (s_event s) (s_late s) (s_up s) (s_slow s).

(* member i (0 = main) exits on its own - once the step's processes exist *)
Definition exit_member (i : nat) (s : state) : option state :=
  if negb (s_up s) then None else
  match i with
  | O => match self_exit (s_main s) with Some p => Some (set_main p s) | None => None end
  | S j =>
      match nth_error (s_rest s) j with
      | Some p => match self_exit p with
                  | Some p' => Some (set_rest (update_nth j p' (s_rest s)) s)
                  | None => None
                  end
      | None => None
      end
  end.

(* the forked child has done setsid, closes its end of the handshake pipe and execs the step *)
Definition group_up (s : state) : option state :=
  if s_up s then None
  else Some (mkstate (s_pc s) (s_gotsig s) (s_status s) (s_timeout s) (s_armed s) (s_main s) (s_rest s)
                     (s_reaped s) (s_kills s) (s_event s) (s_late s) true (s_slow s)).

(* ---- the transition system ---------------------------------------------------------- *)

Inductive label :=
| LRun                   (* the runner makes one transition *)
| LArrive (sig : Z)      (* SIGTERM from outside reaches the runner / the timeout expires (SIGALRM) *)
| LExit (i : nat)        (* member i of the group exits on its own *)
| LUp.                   (* the child closes its end of the handshake pipe: the group exists *)

Definition apply_label (l : label) (s : state) : option state :=
  match l with
  | LRun => rstep s
  | LArrive sig => arrive sig s
  | LExit i => exit_member i s
  | LUp => group_up s
  end.

(* an execution: a schedule is any list of labels; only enabled labels can be taken *)
Fixpoint exec (tr : list label) (s : state) : option state :=
  match tr with
  | [] => Some s
  | l :: tr' => match apply_label l s with Some s' => exec tr' s' | None => None end
  end.

Definition is_arrival (l : label) : bool := match l with LArrive _ => true | _ => false end.

(* ---- what can be observed from outside --------------------------------------------------- *)

Inductive result := RExit (c : Z) | RKilled (sig : Z) | RHang.
Inductive mainobs := MAlive | MZombie | MReaped.

Record obs := mkobs {
  o_result : result;
  o_main : mainobs;
  o_alive : list bool;       (* per member, main first *)
  o_kills : list Z           (* signals the runner sent to the group, in order *)
}.

(* what happened to the step from outside, independent of the runner's code *)
Record history := mkhist {
  h_event : option Z;        (* last event while the step was running: SIGTERM reached the runner (15),
                                the configured timeout expired (14) *)
  h_late : option Z;         (* last signal that reached the runner after the main process had been reaped *)
  h_self : list bool;        (* members that exited on their own, main first *)
  h_slow : bool              (* the step's process group was not there within the handshake timeout *)
}.

Definition observe (s : state) : obs :=
  mkobs (match s_pc s with PExit c => RExit c | PKilled g => RKilled g | _ => RHang end)
        (if s_reaped s then MReaped else if p_alive (s_main s) then MAlive else MZombie)
        (map p_alive (s_main s :: s_rest s))
        (s_kills s).

Definition history_of (s : state) : history :=
  mkhist (s_event s) (s_late s) (map p_self (s_main s :: s_rest s)) (s_slow s).

Definition members_of (s : state) : list member := map member_of (s_main s :: s_rest s).

(* ---- the scheduler's script language, interpreted on the model ------------------------------
   The correspondence harness drives the real robsd-exec with the same script
   (tools/kl_sched.py); see KillProofs.interp_reachable: whatever the interpreter
   produces is reachable by [exec]. *)

Inductive point :=
| PtAfterFork | PtAfterSigpipe | PtAfterSigterm | PtAfterSigalrm | PtBeforeWaitpid
| PtWaitInterrupted | PtAfterWait | PtBeforeTerm | PtAfterTerm | PtBeforeKill | PtAfterKill.

Definition at_point (p : point) (s : state) : bool :=
  match p, s_pc s with
  | PtAfterFork, PForked => true
  | PtAfterSigpipe, PIgnPipe => true
  | PtAfterSigterm, PTermInst => true
  | PtAfterSigalrm, PAlrmInst => true
  | PtBeforeWaitpid, PBeforeWait => true
  | PtWaitInterrupted, PWaitIntr => true
  | PtAfterWait, PWaitDone => true
  | PtBeforeTerm, PKillSend PhTerm => true
  | PtAfterTerm, PPoll PhTerm n => Nat.eqb n npolls
  | PtBeforeKill, PKillSend PhKill => true
  | PtAfterKill, PPoll PhKill n => Nat.eqb n npolls
  | _, _ => false
  end.

Inductive action :=
| ARun (p : point)    (* continue the runner until it stops at sync point p *)
| ABlock              (* continue the runner until it blocks in waitpid (or exits) *)
| ASignal (sig : Z)   (* deliver sig to the runner *)
| AExit (i : nat)     (* member i exits on its own *)
| AFinish             (* continue the runner until it exits (or blocks for good) *)
| AHold               (* first action only: the forked child is held before setsid *)
| AUp                 (* release it: the group comes up *)
| AExpire.            (* let the configured timeout pass *)

(* where the runner is from the scheduler's point of view *)
Inductive rmode := Free | Stopped | Blocked | Gone.

Inductive outcome := OReached | OBlocked | OExited | OFuel.

Fixpoint run_until (stop : state -> bool) (fuel : nat) (s : state) : state * outcome :=
  match fuel with
  | O => (s, OFuel)
  | S f =>
      match rstep s with
      | None => (s, if terminated (s_pc s) then OExited else OBlocked)
      | Some s' => if stop s' then (s', OReached) else run_until stop f s'
      end
  end.

(* enough for any run: hpolls + 9 transitions to a wait, then at most 2 * (npolls + 2) + 3 *)
Definition run_fuel : nat := 2 * npolls + hpolls + 40.

Definition mode_of (o : outcome) : rmode :=
  match o with OReached => Stopped | OBlocked => Blocked | OExited => Gone | OFuel => Free end.

(* the runner sits in a blocking waitpid *)
Definition blocking (p : pc) : bool :=
  match p with PWaiting | PFailWaiting => true | _ => false end.

Record istate := mkistate {
  i_state : state;
  i_mode : rmode;
  i_reached : list outcome;     (* outcome of every ARun / ABlock / AFinish *)
  i_racy : bool                 (* the script asked for something whose timing is not determined *)
}.

Definition interp1 (a : action) (st : istate) : istate :=
  let s := i_state st in
  match a with
  | ARun p =>
      match i_mode st with
      | Gone => mkistate s Gone (i_reached st ++ [OExited]) (i_racy st)
      | Free =>
          if at_point p s then mkistate s Stopped (i_reached st ++ [OReached]) (i_racy st)
          else let (s', o) := run_until (at_point p) run_fuel s in
               mkistate s' (mode_of o) (i_reached st ++ [o]) (i_racy st)
      | _ =>
          let (s', o) := run_until (at_point p) run_fuel s in
          mkistate s' (mode_of o) (i_reached st ++ [o]) (i_racy st)
      end
  | ABlock =>
      let (s', o) := run_until (fun _ => false) run_fuel s in
      mkistate s' (mode_of o) (i_reached st ++ [o]) (i_racy st)
  | AFinish =>
      let (s', o) := run_until (fun _ => false) run_fuel s in
      mkistate s' (mode_of o) (i_reached st ++ [o]) (i_racy st)
  | ASignal sig =>
      match i_mode st with
      | Free => mkistate s Free (i_reached st) true
      | Gone => st
      | m =>
          match arrive sig s with
          | None => mkistate s m (i_reached st) true
          | Some s' =>
              mkistate s' (match m with Blocked => if blocking (s_pc s') then Blocked else Free | _ => m end)
                       (i_reached st) (i_racy st)
          end
      end
  | AExit i =>
      match exit_member i s with
      | None => st
      | Some s' =>
          match i_mode st with
          | Free => mkistate s' Free (i_reached st) true
          | Blocked => mkistate s' (match i with O => Free | _ => Blocked end) (i_reached st) (i_racy st)
          | m => mkistate s' m (i_reached st) (i_racy st)
          end
      end
  | AHold => mkistate s (i_mode st) (i_reached st) true      (* only meaningful as the first action *)
  | AUp =>
      match group_up s with
      | None => st
      | Some s' =>
          match i_mode st with
          | Free => mkistate s' Free (i_reached st) true     (* the runner may be anywhere in waiteof *)
          | m => mkistate s' m (i_reached st) (i_racy st)
          end
      end
  | AExpire =>
      match i_mode st with
      | Free => mkistate s Free (i_reached st) true
      | Gone => st
      | m =>
          match arrive SIGALRM s with
          | None => st                                        (* no timeout pending: nothing happens *)
          | Some s' =>
              mkistate s' (match m with Blocked => if blocking (s_pc s') then Blocked else Free | _ => m end)
                       (i_reached st) (i_racy st)
          end
      end
  end.

(* without AHold as the first action the child is not held: it has closed its end of the pipe
   long before the runner can give up on it (1000 ms), whatever the runner does meanwhile *)
Definition interp (script : list action) (s : state) : istate :=
  match script with
  | AHold :: script' => fold_left (fun st a => interp1 a st) script' (mkistate s Free [] false)
  | _ =>
      fold_left (fun st a => interp1 a st) script
                (mkistate (match group_up s with Some s' => s' | None => s end) Free [] false)
  end.

(* ---- what is pinned as TEXT (compared with RobsdGen.Gen_Kill, regenerated from step-exec.c on every run):
        the four functions the transition table of Exec/KillTable.v does not cover.  step_exec, step_fork,
        waiteof, killwaitpg and killwaitpg1 are tied through the generated table instead
        (Exec/KillTie.v: rstep_is_table); exitstatus is moreover proved equal to C06's clang-translated
        function (Exec/KillExit.v). ---------------- *)
From Coq Require Import String.
Local Open Scope string_scope.

Definition model_calls_exitstatus : list string :=
  [ "if-signal SIGALRM"; "return EX_TIMEOUT"; "if-W WIFEXITED"; "return WEXITSTATUS(status)";
    "if-W WIFSIGNALED"; "return 128 + WTERMSIG(status)"; "return 1" ].

Definition model_calls_siginstall : list string :=
  [ "sigaction NULL &sa"; "err 1 sigaction"; "sa_handler handler"; "norestart"; "sigaction &sa NULL";
    "err 1 sigaction" ].

Definition model_calls_sighandler : list string := [ "gotsig= signo" ].

Definition model_calls_step_timeout : list string :=
  [ "mode-is != ROBSD_REGRESS"; "return 0";
    "return config_value(c->config, ""regress-timeout"", integer, 0)";
    "config_value regress-timeout integer 0" ].
