(* KillTable.v - C07: a small language of pc-level transition tables and its interpreter.

   harness/t_kill.py reads step_fork / waiteof / step_exec / killwaitpg / killwaitpg1 of
   step-exec.c statement by statement and emits the runner's control flow between the sync
   points as a table of edges (RobsdGen.Gen_Kill.table): source location, guard, effect,
   target.  What the statements say ends up IN the table: the target of kill() (group or
   single process), the signals of the two rounds and their order, the constant stored by
   `*status = 1`, the constants returned, which argument exitstatus() gets (gotsig or 0), the
   direction of `timeout > 0`, which waits block and which poll, the loop bounds.
   Exec/KillTie.v proves that the model's step function [rstep] IS the interpretation [tstep]
   of the generated table, for every state - so the theorems of Properties_C07.v are about the
   table the translator derived from the current source.  (The types live here because
   generated files only hold data.) *)
From Robsd Require Export Exec.KillDefs.
Local Open Scope Z_scope.

(* program counters without their loop counters *)
Inductive loc :=
| LForked | LIgnPipe | LTermInst | LHandshake | LGroupUp | LAlrmInst | LBeforeWait
| LWaiting | LWaitIntr | LKillSend (ph : phase) | LPoll (ph : phase) | LWaitDone
| LGroupFail | LFailWaiting | LFailIntr | LFailDone | LExited | LDead.

Definition loc_of (p : pc) : loc :=
  match p with
  | PForked => LForked | PIgnPipe => LIgnPipe | PTermInst => LTermInst | PGroupUp => LGroupUp
  | PAlrmInst => LAlrmInst | PBeforeWait => LBeforeWait | PWaiting => LWaiting | PWaitIntr => LWaitIntr
  | PKillSend ph => LKillSend ph | PPoll ph _ => LPoll ph | PWaitDone => LWaitDone
  | PExit _ => LExited | PKilled _ => LDead | PHandshake _ => LHandshake | PGroupFail => LGroupFail
  | PFailWaiting => LFailWaiting | PFailIntr => LFailIntr | PFailDone => LFailDone
  end.

Definition phase_eqb (a b : phase) : bool :=
  match a, b with PhTerm, PhTerm | PhKill, PhKill => true | _, _ => false end.

Definition loc_eqb (a b : loc) : bool :=
  match a, b with
  | LForked, LForked | LIgnPipe, LIgnPipe | LTermInst, LTermInst | LHandshake, LHandshake
  | LGroupUp, LGroupUp | LAlrmInst, LAlrmInst | LBeforeWait, LBeforeWait | LWaiting, LWaiting
  | LWaitIntr, LWaitIntr | LWaitDone, LWaitDone | LGroupFail, LGroupFail | LFailWaiting, LFailWaiting
  | LFailIntr, LFailIntr | LFailDone, LFailDone | LExited, LExited | LDead, LDead => true
  | LKillSend p, LKillSend q | LPoll p, LPoll q => phase_eqb p q
  | _, _ => false
  end.

(* the loop counter a program counter carries (waiteof's timoms, killwaitpg1's timoms, in polls) *)
Definition counter_of (p : pc) : nat :=
  match p with PHandshake n | PPoll _ n => n | _ => O end.

Inductive guard :=
| GTrue
| GCount (positive : bool)   (* attempts left / none left (timoms <= 0) *)
| GPipeEof (b : bool)        (* read() == 0: the child has closed its end / EAGAIN *)
| GZombie (b : bool)         (* waitpid finds the main process dead / does not *)
| GTimeout (b : bool)        (* timeout > 0 / not *)
| GGotsig (b : bool)         (* gotsig != 0 / == 0 *)
| GAnd (a b : guard).

Inductive effect :=
| ENone
| EGaveUp                          (* waiteof returned 1: "process group failure" *)
| EArm                             (* alarm(timeout) *)
| EReap                            (* waitpid returned the main process: status = its wait status *)
| EKill (group : bool) (sig : Z)   (* kill(-pgid, sig) / kill(pgid, sig) *)
| EStatus (v : Z).                 (* *status = v *)

Inductive which_loop := WHandshake | WPoll.

Inductive target :=
| TLoc (l : loc)                          (* a location without a counter *)
| TAgain                                  (* same location, one attempt less *)
| TEnter (l : loc) (w : which_loop)       (* enter a polling loop with all its attempts *)
| TReturn (c : Z)                         (* robsd-exec exits with c *)
| TReturnStatus (with_gotsig : bool)      (* ... with exitstatus(status, gotsig) / exitstatus(status, 0) *)
| TReturnLate (with_gotsig : bool).       (* error = exitstatus(status, gotsig / 0); return error ? error : 1 *)

Record edge := mkedge { e_from : loc; e_guard : guard; e_eff : effect; e_to : target }.

Fixpoint guard_holds (g : guard) (s : state) : bool :=
  match g with
  | GTrue => true
  | GCount b => Bool.eqb b (match counter_of (s_pc s) with O => false | S _ => true end)
  | GPipeEof b => Bool.eqb b (s_up s)
  | GZombie b => Bool.eqb b (match main_zombie s with Some _ => true | None => false end)
  | GTimeout b => Bool.eqb b (0 <? s_timeout s)
  | GGotsig b => Bool.eqb b (negb (s_gotsig s =? 0))
  | GAnd a b => guard_holds a s && guard_holds b s
  end.

(* kill(pgid, sig) WITHOUT the minus sign reaches the main process only *)
Definition kill_main_only (sig : Z) (s : state) : state :=
  mkstate (s_pc s) (s_gotsig s) (s_status s) (s_timeout s) (s_armed s)
          (deliver sig (s_main s)) (s_rest s)
          (s_reaped s) (s_kills s ++ [sig]) (s_event s) (s_late s) (s_up s) (s_slow s).

Definition apply_effect (e : effect) (s : state) : option state :=
  match e with
  | ENone => Some s
  | EGaveUp =>
      Some (mkstate (s_pc s) (s_gotsig s) (s_status s) (s_timeout s) (s_armed s) (s_main s) (s_rest s)
                    (s_reaped s) (s_kills s) (s_event s) (s_late s) (s_up s) true)
  | EArm =>
      Some (mkstate (s_pc s) (s_gotsig s) (s_status s) (s_timeout s) true (s_main s) (s_rest s)
                    (s_reaped s) (s_kills s) (s_event s) (s_late s) (s_up s) (s_slow s))
  | EReap => match main_zombie s with Some w => Some (reap_to (s_pc s) w s) | None => None end
  | EKill group sig => Some (if group then kill_group sig s else kill_main_only sig s)
  | EStatus v =>
      Some (mkstate (s_pc s) (s_gotsig s) v (s_timeout s) (s_armed s) (s_main s) (s_rest s)
                    (s_reaped s) (s_kills s) (s_event s) (s_late s) (s_up s) (s_slow s))
  end.

Definition pc_of_loc (l : loc) (n : nat) : pc :=
  match l with
  | LForked => PForked | LIgnPipe => PIgnPipe | LTermInst => PTermInst | LHandshake => PHandshake n
  | LGroupUp => PGroupUp | LAlrmInst => PAlrmInst | LBeforeWait => PBeforeWait | LWaiting => PWaiting
  | LWaitIntr => PWaitIntr | LKillSend ph => PKillSend ph | LPoll ph => PPoll ph n | LWaitDone => PWaitDone
  | LGroupFail => PGroupFail | LFailWaiting => PFailWaiting | LFailIntr => PFailIntr | LFailDone => PFailDone
  | LExited => PExit 0 | LDead => PKilled 0
  end.

Definition loop_bound (w : which_loop) : nat := match w with WHandshake => hpolls | WPoll => npolls end.

Definition goto (t : target) (old : pc) (s : state) : state :=
  match t with
  | TLoc l => set_pc (pc_of_loc l O) s
  | TAgain => set_pc (pc_of_loc (loc_of old) (pred (counter_of old))) s
  | TEnter l w => set_pc (pc_of_loc l (loop_bound w)) s
  | TReturn c => set_pc (PExit c) s
  | TReturnStatus true => set_pc (PExit (exitstatus (s_status s) (s_gotsig s))) s
  | TReturnStatus false => set_pc (PExit (exitstatus (s_status s) 0)) s
  | TReturnLate b =>
      let g := if b then s_gotsig s else 0 in
      set_pc (PExit (if exitstatus (s_status s) g =? 0 then 1 else exitstatus (s_status s) g)) s
  end.

(* the first edge that leaves the current location and whose guard holds *)
Fixpoint tstep (tbl : list edge) (s : state) : option state :=
  match tbl with
  | [] => None
  | e :: rest =>
      if loc_eqb (e_from e) (loc_of (s_pc s)) && guard_holds (e_guard e) s
      then match apply_effect (e_eff e) s with
           | Some s1 => Some (goto (e_to e) (s_pc s) s1)
           | None => None
           end
      else tstep rest s
  end.
