(* ArgvSpec.v - what property C06 demands, written without the control flow of
   the model (no early exits, no accumulators): relations over the configured
   lists and C09's substitution relation [Subst], arithmetic on wait statuses,
   and the boolean oracles the harness applies to what the IMPLEMENTATION did. *)
From Robsd Require Export Exec.ArgvDefs Interp.InterpSpec.
Local Open Scope N_scope.

(* ---- arguments ------------------------------------------------------------ *)

(* one configured element, taken as a whole C string, renders to one string *)
Definition renders (env : bytes -> option bytes) (t o : bytes) : Prop :=
  Subst env (pred depth_limit) (cstr t) o.
Definition renderable env (t : bytes) : Prop := exists o, renders env t o.

Definition nonempty (o : bytes) : bool := negb (isnil o).

(* the vector a step command must receive: the renderings of its configured
   elements, in order, minus the empty ones *)
Definition step_argv_of env (cmd argv : list bytes) : Prop :=
  exists outs, Forall2 (renders env) cmd outs /\ argv = filter nonempty outs.
(* a hook: nothing is left out *)
Definition hook_argv_of env (cmd argv : list bytes) : Prop := Forall2 (renders env) cmd argv.

Definition named (n : bytes) (sd : stepdef) : Prop := cstr (sd_name sd) = cstr n.
Definition first_named (n : bytes) (steps : list stepdef) (sd : stepdef) : Prop :=
  exists pre post, steps = pre ++ sd :: post /\ named n sd /\ Forall (fun s => ~ named n s) pre.
Definition known_step (n : bytes) (steps : list stepdef) : Prop := exists sd, In sd steps /\ named n sd.

(* every command of the schedule renders *)
Definition schedule_ok env (steps : list stepdef) : Prop :=
  Forall (fun sd => Forall (renderable env) (command_of sd)) steps.

(* "argv is built from the configured list and nothing else": a monotone
   injection of argv positions into positions of the configured list, each
   argument being the rendering of the element it comes from - one configured
   element yields at most one argument, no argument comes from anywhere else *)
Inductive embeds (env : bytes -> option bytes) : list bytes -> list bytes -> Prop :=
| emb_nil : embeds env [] []
| emb_keep t cmd o argv : renders env t o -> o <> [] -> embeds env cmd argv -> embeds env (t :: cmd) (o :: argv)
| emb_drop t cmd argv : renders env t [] -> embeds env cmd argv -> embeds env (t :: cmd) argv.

(* ---- wait status ------------------------------------------------------------- *)

Local Open Scope Z_scope.

(* the statuses waitpid(2) without WUNTRACED/WCONTINUED produces *)
Definition w_exited (code : Z) : Z := code * 256.
Definition w_signaled (sig : Z) (core : bool) : Z := sig + (if core then 128 else 0).

(* decoding by arithmetic: low seven bits 0 = exited, 1..126 = killed by that signal *)
Definition exit_spec (w gotsig : Z) : Z :=
  if gotsig =? sigalrm then 124
  else if w mod 128 =? 0 then (w / 256) mod 256
  else if w mod 128 <? 127 then 128 + w mod 128
  else 1.

Definition is_int (z : Z) : Prop := in_range TInt z.

(* ---- oracles ------------------------------------------------------------------- *)

Definition is_okb (r : ires) : bool := match r with IOk _ => true | IErr _ => false end.
Definition outs_of (rs : list ires) : list bytes :=
  flat_map (fun r => match r with IOk o => [o] | IErr _ => [] end) rs.

(* all renderings of a list, if every element renders *)
Definition expect_args env (l : list bytes) : option (list bytes) :=
  let rs := map (interp_arg env) l in
  if forallb is_okb rs then Some (outs_of rs) else None.

Inductive expectation := ExpRun (argv : list bytes) | ExpError.

Definition expect_step (cv : cfgview) (trace : bool) (name : bytes) : expectation :=
  let env := env_of cv trace in
  if forallb (fun sd => match expect_args env (command_of sd) with Some _ => true | None => false end) (cv_steps cv)
  then match find (fun sd => beq (cstr (sd_name sd)) (cstr name)) (cv_steps cv) with
       | Some sd => match expect_args env (command_of sd) with
                    | Some outs => ExpRun (filter nonempty outs)
                    | None => ExpError
                    end
       | None => ExpError
       end
  else ExpError.

(* what the harness arranged for the command to do *)
Inductive kexpect :=
| KxNoExec             (* argv[0] cannot be executed (missing, not executable) *)
| KxExit (code : Z)    (* the command exits with that code *)
| KxSignal (sig : Z)   (* the command dies from that signal *)
| KxTimeout.           (* the command outlives regress-timeout *)

Record obs := mkobs {
  ob_argv : option (list bytes);   (* argv dump of the probe; None = the probe never ran *)
  ob_exit : Z;                     (* exit status of the runner; negative = the runner itself died from that signal *)
  ob_diag : bool                   (* something was written to stderr *)
}.

Definition argv_eqb (a b : list bytes) : bool :=
  (length a =? length b)%nat && forallb (fun p => beq (fst p) (snd p)) (combine a b).

Definition opt_argv_eqb (a : option (list bytes)) (b : option (list bytes)) : bool :=
  match a, b with
  | None, None => true
  | Some x, Some y => argv_eqb x y
  | _, _ => false
  end.

Definition failure_ok (o : obs) : bool :=
  opt_argv_eqb (ob_argv o) None && (0 <? ob_exit o) && ob_diag o.

Definition spec_ok_step (cv : cfgview) (trace : bool) (name : bytes) (kx : kexpect) (o : obs) : bool :=
  match expect_step cv trace name with
  | ExpError => failure_ok o
  | ExpRun [] => failure_ok o
  | ExpRun argv =>
      match kx with
      | KxNoExec => failure_ok o
      | KxExit c => opt_argv_eqb (ob_argv o) (Some argv) && (ob_exit o =? c)
      | KxSignal s => opt_argv_eqb (ob_argv o) (Some argv) && (ob_exit o =? 128 + s)
      | KxTimeout => opt_argv_eqb (ob_argv o) (Some argv) && (ob_exit o =? 124)
      end
  end.

(* robsd-hook *)
Inductive hexpect := HxNoop | HxRun (argv : list bytes) | HxError.

Definition var_ok (reserved : list bytes) (s : bytes) : bool :=
  match split_eq (cstr s) with
  | Some (n, _) => negb (existsb (beq n) reserved)
  | None => false
  end.
Definition var_pairs (vs : list bytes) : list (bytes * bytes) :=
  flat_map (fun s => match split_eq (cstr s) with Some p => [p] | None => [] end) vs.

Definition expect_hook (m : emode) (cv : cfgview) (vs : list bytes) : hexpect :=
  if forallb (var_ok (reserved_keywords m)) vs then
    match cv_hook cv with
    | None => HxNoop
    | Some [] => HxNoop
    | Some l =>
        match expect_args (alookup (env_list cv (var_pairs vs) false)) l with
        | Some outs => HxRun outs
        | None => HxError
        end
    end
  else HxError.

(* the hook runner replaces itself by the command: the observed status is the
   command's (code, or negative = died from that signal) *)
Definition spec_ok_hook (m : emode) (cv : cfgview) (vs : list bytes) (kx : kexpect) (o : obs) : bool :=
  match expect_hook m cv vs with
  | HxError => failure_ok o
  | HxNoop => opt_argv_eqb (ob_argv o) None && (ob_exit o =? 0)
  | HxRun argv =>
      match kx with
      | KxNoExec => failure_ok o
      | KxExit c => opt_argv_eqb (ob_argv o) (Some argv) && (ob_exit o =? c)
      | KxSignal s => opt_argv_eqb (ob_argv o) (Some argv) && (ob_exit o =? - s)
      | KxTimeout => false
      end
  end.
