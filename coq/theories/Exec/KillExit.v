(* KillExit.v - C07 x C06: one exit-status mapping.

   C07's hand-written [KillDefs.exitstatus] (glibc's W* macros as arithmetic) is,
   for EVERY pair of integers, the function C06 is about: the value of the
   clang-translated step-exec.c:exitstatus ([Gen_Exec.exitstatus], through
   [ArgvDefs.exit_of_wait]) and C06's independent specification
   [ArgvSpec.exit_spec].  No side condition on the status (mod is non-negative). *)
From Robsd Require Import Exec.KillDefs.
From Robsd Require Exec.ArgvDefs Exec.ArgvSpec Exec.ArgvProofs.
From RobsdGen Require Gen_Exec Gen_Kill.
Local Open Scope Z_scope.

Lemma kill_exitstatus_spec st g : KillDefs.exitstatus st g = ArgvSpec.exit_spec st g.
Proof.
  unfold KillDefs.exitstatus, ArgvSpec.exit_spec, wifexited, wifsignaled, wexitstatus, wtermsig.
  change SIGALRM with Gen_Exec.sigalrm. change Gen_Kill.ex_timeout with 124.
  destruct (g =? Gen_Exec.sigalrm); [reflexivity|].
  pose proof (Z.mod_pos_bound st 128 ltac:(lia)) as Hm.
  destruct (Z.eqb_spec (st mod 128) 0); [reflexivity|].
  destruct (Z.leb_spec 1 (st mod 128)); [|lia]. cbn [andb].
  destruct (Z.leb_spec (st mod 128) 126); destruct (Z.ltb_spec (st mod 128) 127); try lia; reflexivity.
Qed.

(* ... and therefore the value of the function clang compiled *)
Lemma kill_exitstatus_translated st g :
  ArgvDefs.exit_of_wait st g = Some (KillDefs.exitstatus st g).
Proof. rewrite ArgvProofs.exit_of_wait_eq. now rewrite kill_exitstatus_spec. Qed.

Lemma kill_exit_mapping :
  (forall st g, KillDefs.exitstatus st g = ArgvSpec.exit_spec st g) /\
  (forall st g, ArgvDefs.exit_of_wait st g = Some (KillDefs.exitstatus st g)) /\
  KillDefs.SIGALRM = Gen_Exec.sigalrm /\ Gen_Kill.ex_timeout = 124.
Proof. repeat split; [apply kill_exitstatus_spec|apply kill_exitstatus_translated]. Qed.
