(* KillTie.v - C07: the model's step function IS the interpretation of the transition table that
   harness/t_kill.py derives from step-exec.c on every run (RobsdGen.Gen_KillTable.table, language
   and interpreter in Exec/KillTable.v).  Every theorem of Properties_C07.v is about [rstep]
   (through [apply_label] / [exec]); by [rstep_is_table] it is about the generated table.  What
   breaks this proof: kill() without the minus sign, the two rounds in another order or with other
   signals, another constant in `*status = 1` or in a `return`, exitstatus() called with another
   second argument, the returns of waiteof / killwaitpg1 swapped, the timeout test turned round -
   anything the table expresses.  What the table cannot express makes the translator raise. *)
From Robsd Require Import Exec.KillTable.
From RobsdGen Require Gen_KillTable.
Local Open Scope Z_scope.

Lemma set_pc_reap_to p q w s : set_pc p (reap_to q w s) = reap_to p w s.
Proof. reflexivity. Qed.

Theorem rstep_is_table : forall s, rstep s = tstep Gen_KillTable.table s.
Proof.
  intros [pc g st tmo ar m r rp k ev lt up sl].
  destruct pc as [| | | | | | | |ph|ph n| |c|sg|n| | | | ];
    try destruct ph; try destruct n;
    unfold rstep, tstep, Gen_KillTable.table, guard_holds, apply_effect, goto, main_zombie; simpl;
    try reflexivity;
    try (destruct rp; simpl; [reflexivity|]; destruct (p_st m); reflexivity);
    try (destruct (0 <? tmo); reflexivity);
    try (destruct (g =? 0); reflexivity);
    try (destruct up; reflexivity).
Qed.

(* hence every execution is an execution of the table's interpreter *)
Definition tapply (l : label) (s : state) : option state :=
  match l with
  | LRun => tstep Gen_KillTable.table s
  | LArrive sig => arrive sig s
  | LExit i => exit_member i s
  | LUp => group_up s
  end.

Fixpoint texec (tr : list label) (s : state) : option state :=
  match tr with
  | [] => Some s
  | l :: tr' => match tapply l s with Some s' => texec tr' s' | None => None end
  end.

Theorem exec_is_table_exec tr : forall s, exec tr s = texec tr s.
Proof.
  induction tr as [|l tr IH]; intros s; simpl; [reflexivity|].
  assert (H : apply_label l s = tapply l s) by (destruct l; simpl; try reflexivity; apply rstep_is_table).
  rewrite H. destruct (tapply l s); [apply IH|reflexivity].
Qed.

(* where SIGTERM still has its default action: the locations the runner passes before the statement
   siginstall(SIGTERM, sighandler, SIG_NO_RESTART), as the translator found them *)
Theorem term_handled_is_source : forall p,
  term_handled p = negb (existsb (loc_eqb (loc_of p)) Gen_KillTable.sigterm_unhandled).
Proof. intros p. destruct p as [| | | | | | | |ph|ph n| | | | | | | | ]; try reflexivity; destruct ph; reflexivity. Qed.
