(* KillWindows.v - C07: exactly which schedules take the step's group down.

   [hits_wait tr s]: some event of the schedule reaches the runner while it is
   blocked in waitpid(-pid, &status, 0) - the only place of step-exec.c where a
   signal makes the runner kill the group.  For EVERY process tree, timeout and
   schedule:
     * a schedule that hits the wait ends - when the runner cannot move any
       more - in an exit that satisfies [cut_ok] (via KInv, KillTerm.v);
     * a schedule that does not hit the wait never sends anything to the group
       and nobody ever dies except by its own exit ([NInv]);
   hence the specification holds in a state of rest iff no event happened while
   the step was running or the schedule hits the wait ([spec_exact]), and the
   three windows are characterised for all trees and schedules:
     W1 SIGTERM before siginstall(SIGTERM)          ([window_before_handler_all])
     W2 an event after that, before waitpid(-pid)   ([window_before_wait_all])
     W3 an event after a failed handshake           ([window_group_failure_all]) *)
From Robsd Require Import Exec.KillSpec Exec.KillProofs Exec.KillTerm.
Local Open Scope Z_scope.

Definition waiting (p : pc) : bool := match p with PWaiting => true | _ => false end.

Fixpoint hits_wait (tr : list label) (s : state) : bool :=
  match tr with
  | [] => false
  | l :: tr' =>
      match apply_label l s with
      | None => false
      | Some s' => (is_arrival l && waiting (s_pc s)) || hits_wait tr' s'
      end
  end.

Lemma hits_wait_app tr1 : forall tr2 s s1,
  exec tr1 s = Some s1 -> hits_wait (tr1 ++ tr2) s = hits_wait tr1 s || hits_wait tr2 s1.
Proof.
  induction tr1 as [|l tr1 IH]; simpl; intros tr2 s s1 H.
  - injection H as <-. reflexivity.
  - destruct (apply_label l s) as [s2|]; [|discriminate].
    rewrite (IH tr2 s2 s1 H). now rewrite orb_assoc.
Qed.

(* ---- a schedule that hits the wait puts the runner into its kill phase ------------------------ *)

Lemma hit_KInv tr : forall s s',
  Inv s -> exec tr s = Some s' -> hits_wait tr s = true -> KInv s'.
Proof.
  induction tr as [|l tr IH]; simpl; intros s s' Hi Hx Hh; [discriminate|].
  destruct (apply_label l s) as [s1|] eqn:E; [|discriminate].
  assert (Hi1 : Inv s1) by (apply (Inv_step l s); assumption).
  apply orb_prop in Hh. destruct Hh as [Hh|Hh].
  - apply andb_prop in Hh. destruct Hh as [Ha Hw].
    destruct l as [|sig|i|]; try discriminate Ha. simpl in E.
    assert (Hpc : s_pc s = PWaiting) by (destruct (s_pc s); try discriminate Hw; reflexivity).
    apply (KInv_exec tr s1); [|exact Hx].
    apply (arrive_waiting_KInv sig s); [apply Hi|exact Hpc|exact E].
  - apply (IH s1 s'); assumption.
Qed.

(* ---- a schedule that does not: nobody is ever touched ------------------------------------------- *)

Definition NInv (s : state) : Prop :=
  s_kills s = [] /\ quiet_ok (s_main s) /\ Forall quiet_ok (s_rest s) /\
  match s_pc s with
  | PForked | PIgnPipe | PTermInst | PHandshake _ | PGroupUp | PAlrmInst | PBeforeWait | PWaiting
  | PGroupFail | PFailWaiting | PFailIntr | PKilled _ => s_reaped s = false
  | PWaitDone | PFailDone => s_reaped s = true /\ p_st (s_main s) = Some (s_status s)
  | PExit c =>
      (s_reaped s = true /\ p_st (s_main s) = Some (s_status s) /\ exit_code_ok s c) \/
      (s_reaped s = false /\ c = 1 /\ s_slow s = true)
  | PWaitIntr | PKillSend _ | PPoll _ _ => False
  end.

Lemma NInv_init m rest timeout : NInv (init m rest timeout).
Proof.
  unfold NInv, init; simpl. repeat split; auto.
  induction rest; simpl; constructor; auto. apply fresh_quiet.
Qed.

Lemma NInv_step l s s' :
  PInv s -> NInv s -> apply_label l s = Some s' ->
  is_arrival l && waiting (s_pc s) = false -> NInv s'.
Proof.
  destruct s as [pc g st tmo ar m r rp k ev lt up sl]. unfold PInv, NInv, exit_code_ok; simpl.
  intros HP (Hk & Hm & Hr & Hp) Hl Hnw.
  destruct l as [|sig|i|]; simpl in Hl.
  - unfold rstep, main_zombie in Hl; simpl in Hl.
    split_step Hl; simpl in *; try contradiction; repeat split; auto; try (subst rp; assumption).
    + left. repeat split; try apply Hp. destruct Hp as (_ & _). subst sl. reflexivity.
    + right. destruct HP as (_ & _ & ->). auto.
    + left. destruct Hp as (-> & Hst). destruct HP as (_ & ->).
      split; [reflexivity|]. split; [exact Hst|].
      match goal with E : (_ =? 0) = _ |- _ => rewrite E end; reflexivity.
    + left. destruct Hp as (-> & Hst). destruct HP as (_ & ->).
      split; [reflexivity|]. split; [exact Hst|].
      match goal with E : (_ =? 0) = _ |- _ => rewrite E end; reflexivity.
  - unfold arrive in Hl; simpl in Hl.
    destruct pc as [| | | | | | | |ph|ph n| |c|sg|hn| | | | ]; try contradiction; try discriminate Hnw;
      simpl in Hl; split_step Hl; simpl; repeat split; auto; apply Hp.
  - unfold exit_member in Hl; simpl in Hl. split_step Hl; simpl in *.
    + match goal with E : self_exit m = Some _ |- _ =>
        destruct (self_exit_alive _ _ E) as [Ha _]; pose proof (self_exit_quiet _ _ E) as Hq end.
      repeat split; auto.
      destruct pc; try exact Hp; try contradiction.
      * destruct Hp as (_ & Hst). rewrite Ha in Hst. discriminate.
      * destruct Hp as [(_ & Hst & _)|Hp]; [rewrite Ha in Hst; discriminate|right; exact Hp].
      * destruct Hp as (_ & Hst). rewrite Ha in Hst. discriminate.
    + repeat split; auto. apply Forall_update; [exact Hr|eapply self_exit_quiet; eassumption].
  - unfold group_up in Hl; simpl in Hl. split_step Hl; simpl in *. repeat split; auto.
Qed.

Lemma nohit_NInv tr : forall s s',
  Inv s -> NInv s -> exec tr s = Some s' -> hits_wait tr s = false -> NInv s'.
Proof.
  induction tr as [|l tr IH]; simpl; intros s s' Hi Hn Hx Hh.
  - now injection Hx as <-.
  - destruct (apply_label l s) as [s1|] eqn:E; [|discriminate].
    apply orb_false_elim in Hh. destruct Hh as [H1 H2].
    apply (IH s1 s'); auto.
    + apply (Inv_step l s); assumption.
    + apply (NInv_step l s); auto. apply Hi.
Qed.

(* what NInv means from outside *)
Lemma NInv_untouched s :
  NInv s ->
  o_kills (observe s) = [] /\
  forall i a, nth_error (o_alive (observe s)) i = Some a -> a = negb (nth i (h_self (history_of s)) false).
Proof.
  intros (Hk & Hm & Hr & _). split; [exact Hk|].
  intros i a Hn. apply (nth_quiet (s_main s :: s_rest s) i a); [constructor; assumption|exact Hn].
Qed.

Lemma NInv_not_cut s ms : NInv s -> ~ cut_ok ms (history_of s) (observe s).
Proof.
  intros (Hk & _) (_ & c & _ & _ & _ & Hks & _). simpl in Hks. rewrite Hk in Hks.
  destruct Hks as [Hks|(Hks & _)]; discriminate.
Qed.

(* ---- the exact guard --------------------------------------------------------------------------------- *)

Lemma KInv_event s : KInv s -> s_event s <> None.
Proof. intros (_ & H & _). exact H. Qed.

(* for every tree, timeout and schedule, in every state in which the runner cannot move (it
   has exited, has been killed, or is blocked in a waitpid): the specification holds iff no
   event happened while the step was running, or some event reached the runner while it was
   blocked in waitpid(-pid) *)
Lemma spec_exact t timeout tr s' :
  exec tr (init_tree t timeout) = Some s' -> rstep s' = None ->
  (spec (flatten t) (history_of s') (observe s') <->
   s_event s' = None \/ hits_wait tr (init_tree t timeout) = true).
Proof.
  intros Hx Hr. unfold spec. simpl. split.
  - intros Hs. destruct (s_event s') as [e|] eqn:Ee; [|now left]. right.
    destruct (hits_wait tr (init_tree t timeout)) eqn:Eh; [reflexivity|]. exfalso.
    apply (NInv_not_cut s' (flatten t)); [|exact Hs].
    apply (nohit_NInv tr (init_tree t timeout)); auto; [apply Inv_init|apply NInv_init].
  - intros [He|Hh].
    + rewrite He. now apply (no_event_no_cut t timeout tr).
    + assert (Hk : KInv s') by (apply (hit_KInv tr (init_tree t timeout)); auto; apply Inv_init).
      destruct (s_event s') as [e|] eqn:Ee; [|exfalso; now apply (KInv_event s' Hk)].
      destruct (kinv_rest s' Hk Hr) as [c Hc].
      apply (cut_at_exit t timeout tr); [exact Hx|exact Hk|now rewrite Hc].
Qed.

(* who survives: for every tree, timeout and schedule, when the runner cannot move any more -
   if the schedule hits the wait, the runner has exited and no member that keeps the default
   disposition is alive; if it does not, the runner never sent anything to the group and
   exactly the members that did not exit on their own are alive *)
Lemma survivors_exact t timeout tr s' :
  exec tr (init_tree t timeout) = Some s' -> rstep s' = None ->
  if hits_wait tr (init_tree t timeout)
  then (exists c, o_result (observe s') = RExit c) /\ o_main (observe s') = MReaped /\
       forall i m, nth_error (flatten t) i = Some m -> m_disp m = Default ->
                   nth_error (o_alive (observe s')) i = Some false
  else o_kills (observe s') = [] /\
       forall i a, nth_error (o_alive (observe s')) i = Some a ->
                   a = negb (nth i (h_self (history_of s')) false).
Proof.
  intros Hx Hr. destruct (hits_wait tr (init_tree t timeout)) eqn:Eh.
  - assert (Hk : KInv s') by (apply (hit_KInv tr (init_tree t timeout)); auto; apply Inv_init).
    destruct (kinv_rest s' Hk Hr) as [c Hc].
    assert (Hcut : cut_ok (flatten t) (history_of s') (observe s')).
    { apply (cut_at_exit t timeout tr); [exact Hx|exact Hk|now rewrite Hc]. }
    destruct Hcut as (_ & c' & Hres & Hmain & Hdd & _).
    split; [eauto|]. split; [exact Hmain|exact Hdd].
  - apply NInv_untouched. apply (nohit_NInv tr (init_tree t timeout)); auto; [apply Inv_init|apply NInv_init].
Qed.

(* ---- the windows, for every tree and every schedule ------------------------------------------------------ *)

(* the runner has not yet returned from any wait *)
Definition early (p : pc) : bool :=
  match p with
  | PForked | PIgnPipe | PTermInst | PHandshake _ | PGroupUp | PAlrmInst | PBeforeWait | PWaiting
  | PGroupFail | PFailWaiting => true
  | _ => false
  end.

Lemma early_no_hit tr s s' :
  Inv s -> exec tr s = Some s' -> early (s_pc s') = true -> hits_wait tr s = false.
Proof.
  intros Hi Hx He. destruct (hits_wait tr s) eqn:Eh; [|reflexivity]. exfalso.
  pose proof (hit_KInv tr s s' Hi Hx Eh) as (_ & _ & _ & Hk).
  destruct (s_pc s'); try discriminate He; contradiction.
Qed.

Lemma reach_NInv t timeout tr s :
  exec tr (init_tree t timeout) = Some s -> early (s_pc s) = true -> NInv s.
Proof.
  intros Hx He. apply (nohit_NInv tr (init_tree t timeout)); auto; [apply Inv_init|apply NInv_init|].
  apply (early_no_hit tr _ s); auto. apply Inv_init.
Qed.

Lemma reach_Inv t timeout tr s : exec tr (init_tree t timeout) = Some s -> Inv s.
Proof. intros Hx. apply (Inv_exec tr (init_tree t timeout)); [apply Inv_init|exact Hx]. Qed.

(* a pc from which the blocking waitpid(-pid) can no longer be reached *)
Definition past_wait (p : pc) : bool :=
  match p with
  | PKilled _ | PExit _ | PGroupFail | PFailWaiting | PFailIntr | PFailDone | PWaitDone => true
  | _ => false
  end.

Lemma past_wait_step l s s' : past_wait (s_pc s) = true -> apply_label l s = Some s' -> past_wait (s_pc s') = true.
Proof.
  destruct s as [pc g st tmo ar m r rp k ev lt up sl]. simpl. intros Hp Hl.
  destruct l as [|sig|i|]; simpl in Hl.
  - unfold rstep, main_zombie in Hl; simpl in Hl. split_step Hl; simpl in *; auto; discriminate.
  - unfold arrive in Hl; simpl in Hl.
    destruct pc; try discriminate Hp; simpl in Hl; split_step Hl; reflexivity.
  - unfold exit_member in Hl; simpl in Hl. split_step Hl; simpl; auto.
  - unfold group_up in Hl; simpl in Hl. split_step Hl; simpl; auto.
Qed.

Lemma past_wait_no_hit tr : forall s, past_wait (s_pc s) = true -> hits_wait tr s = false.
Proof.
  induction tr as [|l tr IH]; simpl; intros s Hp; [reflexivity|].
  destruct (apply_label l s) as [s1|] eqn:E; [|reflexivity].
  rewrite (IH s1 (past_wait_step l s s1 Hp E)).
  destruct (s_pc s); try discriminate Hp; simpl; now rewrite andb_false_r.
Qed.

Lemma killed_stable tr : forall s s' g, s_pc s = PKilled g -> exec tr s = Some s' -> s_pc s' = PKilled g.
Proof.
  induction tr as [|l tr IH]; simpl; intros s s' g Hp Hx.
  - now injection Hx as <-.
  - destruct (apply_label l s) as [s1|] eqn:E; [|discriminate]. apply (IH s1 s' g); [|exact Hx].
    destruct s as [pc g0 st tmo ar m r rp k ev lt up sl]. simpl in Hp. subst pc.
    destruct l as [|sig|i|]; simpl in E.
    + discriminate.
    + discriminate.
    + unfold exit_member in E; simpl in E. split_step E; reflexivity.
    + unfold group_up in E; simpl in E. split_step E; reflexivity.
Qed.

(* the event is recorded for good *)
Lemma event_kept_step l s s' : s_event s <> None -> apply_label l s = Some s' -> s_event s' <> None.
Proof.
  destruct s as [pc g st tmo ar m r rp k ev lt up sl]. simpl. intros He Hl.
  destruct l as [|sig|i|]; simpl in Hl.
  - unfold rstep, main_zombie in Hl; simpl in Hl. split_step Hl; simpl; auto.
  - unfold arrive in Hl; simpl in Hl. split_step Hl; simpl; auto; try discriminate.
    all: destruct rp; [exact He|discriminate].
  - unfold exit_member in Hl; simpl in Hl. split_step Hl; simpl; auto.
  - unfold group_up in Hl; simpl in Hl. split_step Hl; simpl; auto.
Qed.

Lemma event_kept tr : forall s s', s_event s <> None -> exec tr s = Some s' -> s_event s' <> None.
Proof. intros s s'. apply (exec_inv (fun s => s_event s <> None) event_kept_step). Qed.

(* an event at an early pc is an event while the step is running *)
Lemma arrive_early_event sig s s1 :
  NInv s -> early (s_pc s) = true -> arrive sig s = Some s1 -> s_event s1 <> None.
Proof.
  destruct s as [pc g st tmo ar m r rp k ev lt up sl]. unfold NInv, arrive; simpl.
  intros (_ & _ & _ & Hp) He Ha.
  destruct pc; try discriminate He; simpl in Ha; subst rp; split_step Ha; simpl; discriminate.
Qed.

(* the common part of the three windows: an event reaches the runner at an early pc other than
   the blocking waitpid(-pid), and no later event finds it there *)
Lemma window_general t timeout tr1 s sig s1 tr2 s' :
  exec tr1 (init_tree t timeout) = Some s -> early (s_pc s) = true -> waiting (s_pc s) = false ->
  arrive sig s = Some s1 -> exec tr2 s1 = Some s' -> hits_wait tr2 s1 = false ->
  NInv s' /\ s_event s' <> None /\ ~ spec (flatten t) (history_of s') (observe s').
Proof.
  intros H1 He Hw Ha H2 Hh.
  assert (Hn : NInv s) by (apply (reach_NInv t timeout tr1); assumption).
  assert (Hi : Inv s) by (apply (reach_Inv t timeout tr1); assumption).
  assert (Hn1 : NInv s1).
  { assert (HP : PInv s) by apply Hi.
    apply (NInv_step (LArrive sig) s s1 HP Hn Ha). simpl. now rewrite Hw. }
  assert (Hi1 : Inv s1) by (apply (Inv_step (LArrive sig) s); assumption).
  assert (Hn' : NInv s') by (apply (nohit_NInv tr2 s1); assumption).
  assert (Hev : s_event s' <> None).
  { apply (event_kept tr2 s1); [|exact H2]. apply (arrive_early_event sig s); assumption. }
  split; [exact Hn'|]. split; [exact Hev|].
  unfold spec. simpl. destruct (s_event s') as [e|]; [|contradiction]. now apply NInv_not_cut.
Qed.

(* W1: SIGTERM between fork() and siginstall(SIGTERM).  For every tree and every schedule before
   and after: the runner is killed by the signal, it never sends anything to the group, the
   main process is never reaped, exactly the members that do not exit on their own stay alive,
   and the specification is violated. *)
Lemma window_before_handler_all t timeout tr1 s s1 tr2 s' :
  exec tr1 (init_tree t timeout) = Some s -> term_handled (s_pc s) = false ->
  arrive SIGTERM s = Some s1 -> exec tr2 s1 = Some s' ->
  o_result (observe s') = RKilled SIGTERM /\ o_main (observe s') <> MReaped /\
  o_kills (observe s') = [] /\
  (forall i a, nth_error (o_alive (observe s')) i = Some a ->
               a = negb (nth i (h_self (history_of s')) false)) /\
  h_event (history_of s') <> None /\
  ~ spec (flatten t) (history_of s') (observe s').
Proof.
  intros H1 Hth Ha H2.
  assert (He : early (s_pc s) = true) by (destruct (s_pc s); try discriminate Hth; reflexivity).
  assert (Hw : waiting (s_pc s) = false) by (destruct (s_pc s); try discriminate Hth; reflexivity).
  assert (Hk1 : s_pc s1 = PKilled SIGTERM).
  { unfold arrive in Ha. destruct (terminated (s_pc s)); [discriminate|]. simpl in Ha.
    rewrite Hth in Ha. injection Ha as <-. reflexivity. }
  assert (Hk' : s_pc s' = PKilled SIGTERM) by (apply (killed_stable tr2 s1); assumption).
  assert (Hh : hits_wait tr2 s1 = false) by (apply past_wait_no_hit; now rewrite Hk1).
  destruct (window_general t timeout tr1 s SIGTERM s1 tr2 s' H1 He Hw Ha H2 Hh) as (Hn & Hev & Hns).
  destruct (NInv_untouched s' Hn) as (Hks & Hal).
  split; [unfold observe; simpl; now rewrite Hk'|].
  split.
  { destruct Hn as (_ & _ & _ & Hp). rewrite Hk' in Hp. unfold observe; simpl. rewrite Hp.
    destruct (p_alive (s_main s')); discriminate. }
  split; [exact Hks|]. split; [exact Hal|]. split; [exact Hev|exact Hns].
Qed.

(* the pcs of W2: sighandler is installed, the runner is not (yet) blocked in a wait *)
Definition handled_not_waiting (p : pc) : bool :=
  match p with
  | PTermInst | PHandshake _ | PGroupUp | PAlrmInst | PBeforeWait | PGroupFail => true
  | _ => false
  end.

(* W2: SIGTERM / the alarm after the handler is installed but before the runner blocks in a
   wait.  For every tree, every schedule before, every continuation in which no further event
   finds the runner blocked in waitpid(-pid): the signal only sets gotsig, the runner never sends
   anything to the group, exactly the members that do not exit on their own stay alive; the
   runner ends only if the main process exits on its own (a main process that cannot is never
   timed out or terminated: the runner hangs), and then with the status of exitstatus(status,
   gotsig) - 124 for the alarm - or 1 on the "process group failure" path; the specification is
   violated in every such state. *)
Lemma window_before_wait_all t timeout tr1 s sig s1 tr2 s' :
  exec tr1 (init_tree t timeout) = Some s -> handled_not_waiting (s_pc s) = true ->
  arrive sig s = Some s1 -> exec tr2 s1 = Some s' -> hits_wait tr2 s1 = false ->
  o_kills (observe s') = [] /\
  (forall i a, nth_error (o_alive (observe s')) i = Some a ->
               a = negb (nth i (h_self (history_of s')) false)) /\
  (forall g, o_result (observe s') <> RKilled g) /\
  (forall c, o_result (observe s') = RExit c ->
     (o_main (observe s') = MReaped /\ nth 0 (h_self (history_of s')) false = true /\
      p_st (s_main s') = Some (s_status s') /\ exit_code_ok s' c) \/
     (o_main (observe s') <> MReaped /\ c = 1 /\ h_slow (history_of s') = true)) /\
  h_event (history_of s') <> None /\
  ~ spec (flatten t) (history_of s') (observe s').
Proof.
  intros H1 Hhn Ha H2 Hh.
  assert (He : early (s_pc s) = true) by (destruct (s_pc s); try discriminate Hhn; reflexivity).
  assert (Hw : waiting (s_pc s) = false) by (destruct (s_pc s); try discriminate Hhn; reflexivity).
  destruct (window_general t timeout tr1 s sig s1 tr2 s' H1 He Hw Ha H2 Hh) as (Hn & Hev & Hns).
  destruct (NInv_untouched s' Hn) as (Hks & Hal).
  split; [exact Hks|]. split; [exact Hal|].
  assert (Hnk : forall g, s_pc s' <> PKilled g).
  { (* SIGTERM is handled from s on: the runner cannot be killed any more *)
    pose (safe := fun p : pc => match p with PForked | PIgnPipe | PKilled _ => false | _ => true end).
    assert (Hth : forall tr s0 s2, safe (s_pc s0) = true -> exec tr s0 = Some s2 -> safe (s_pc s2) = true).
    { clear. induction tr as [|l tr IH]; simpl; intros s0 s2 Hp Hx.
      - now injection Hx as <-.
      - destruct (apply_label l s0) as [s3|] eqn:E; [|discriminate]. apply (IH s3 s2); [|exact Hx].
        destruct s0 as [pc g st tmo ar m r rp k ev lt up sl]. simpl in Hp.
        destruct l as [|sig|i|]; simpl in E.
        + unfold rstep, main_zombie in E; simpl in E. split_step E; simpl in *; auto; discriminate.
        + unfold arrive in E; simpl in E.
          destruct pc; try discriminate Hp; simpl in E; split_step E; reflexivity.
        + unfold exit_member in E; simpl in E. split_step E; simpl; auto.
        + unfold group_up in E; simpl in E. split_step E; simpl; auto. }
    assert (Hs1 : safe (s_pc s1) = true).
    { apply (Hth [LArrive sig] s s1); [destruct (s_pc s); try discriminate Hhn; reflexivity|].
      simpl. now rewrite Ha. }
    intros g Hg. pose proof (Hth tr2 s1 s' Hs1 H2) as Hx. rewrite Hg in Hx. discriminate. }
  split.
  { intros g Hg. unfold observe in Hg; simpl in Hg. destruct (s_pc s') eqn:Ep; try discriminate.
    injection Hg as ->. now apply (Hnk g). }
  split.
  { intros c Hc. unfold observe in Hc; simpl in Hc. destruct (s_pc s') eqn:Ep; try discriminate.
    injection Hc as ->. destruct Hn as (_ & Hqm & _ & Hp). rewrite Ep in Hp.
    unfold observe, history_of; simpl.
    destruct Hp as [(Hr & Hst & Hc)|(Hr & Hc & Hsl)].
    - left. rewrite Hr. split; [reflexivity|]. split; [|split; assumption].
      unfold quiet_ok in Hqm. rewrite Hst in Hqm. apply Hqm.
    - right. rewrite Hr. split; [destruct (p_alive (s_main s')); discriminate|]. split; assumption. }
  split; [exact Hev|exact Hns].
Qed.

(* ... in particular the timeout is lost: if the main process cannot exit on its own, no
   continuation without a further event ever ends the runner *)
Definition RInv (s : state) : Prop :=
  s_pc s <> PFailIntr /\ forall c, s_pc s = PExit c -> s_reaped s = true.

Lemma RInv_step l s s' :
  is_arrival l = false -> NInv s -> RInv s -> apply_label l s = Some s' -> RInv s'.
Proof.
  destruct s as [pc g st tmo ar m r rp k ev lt up sl]. unfold NInv, RInv; simpl.
  intros Hl (_ & _ & _ & Hp) (Hnf & Hex) E.
  destruct l as [|sig|i|]; [|discriminate| |]; simpl in E.
  - unfold rstep, main_zombie in E; simpl in E.
    split_step E; simpl in *; try contradiction; (split; [discriminate|]); intros c0 Hc0;
      try discriminate Hc0; try reflexivity; try apply Hp.
  - unfold exit_member in E; simpl in E. split_step E; simpl; auto.
  - unfold group_up in E; simpl in E. split_step E; simpl; auto.
Qed.

Lemma no_arrival_no_hit tr : forall s, no_arrival tr = true -> hits_wait tr s = false.
Proof.
  induction tr as [|l tr IH]; simpl; intros s Hna; [reflexivity|].
  apply andb_prop in Hna. destruct Hna as [Hl Hn]. apply negb_true_iff in Hl.
  destruct (apply_label l s); [|reflexivity]. rewrite Hl. simpl. now apply IH.
Qed.

Lemma RInv_exec tr : forall s s',
  no_arrival tr = true -> Inv s -> NInv s -> RInv s -> exec tr s = Some s' -> RInv s'.
Proof.
  induction tr as [|l tr IH]; simpl; intros s s' Hna Hi Hn Hr Hx.
  - now injection Hx as <-.
  - apply andb_prop in Hna. destruct Hna as [Hl Hna]. apply negb_true_iff in Hl.
    destruct (apply_label l s) as [s1|] eqn:E; [|discriminate].
    apply (IH s1 s'); auto.
    + apply (Inv_step l s); assumption.
    + apply (NInv_step l s); auto; [apply Hi|now rewrite Hl].
    + apply (RInv_step l s); assumption.
Qed.

Lemma window_lost_event_all t timeout tr1 s sig s1 tr2 s' :
  exec tr1 (init_tree t timeout) = Some s -> handled_not_waiting (s_pc s) = true ->
  arrive sig s = Some s1 -> exec tr2 s1 = Some s' -> no_arrival tr2 = true ->
  m_early (tree_main t) = None ->
  terminated (s_pc s') = false /\ o_kills (observe s') = [] /\ h_event (history_of s') <> None.
Proof.
  intros H1 Hhn Ha H2 Hna Hme.
  assert (Hh : hits_wait tr2 s1 = false) by now apply no_arrival_no_hit.
  assert (He : early (s_pc s) = true) by (destruct (s_pc s); try discriminate Hhn; reflexivity).
  assert (Hw : waiting (s_pc s) = false) by (destruct (s_pc s); try discriminate Hhn; reflexivity).
  destruct (window_general t timeout tr1 s sig s1 tr2 s' H1 He Hw Ha H2 Hh) as (Hn' & Hev & _).
  destruct (window_before_wait_all t timeout tr1 s sig s1 tr2 s' H1 Hhn Ha H2 Hh)
    as (Hks & _ & Hnk & _).
  assert (Hn : NInv s) by (apply (reach_NInv t timeout tr1); assumption).
  assert (Hi : Inv s) by (apply (reach_Inv t timeout tr1); assumption).
  assert (Hn1 : NInv s1).
  { assert (HP : PInv s) by apply Hi.
    apply (NInv_step (LArrive sig) s s1 HP Hn Ha). simpl. now rewrite Hw. }
  assert (Hi1 : Inv s1) by (apply (Inv_step (LArrive sig) s); assumption).
  assert (Hr1 : RInv s1).
  { clear - Ha Hhn. destruct s as [pc g st tmo ar m r rp k ev lt up sl]. unfold arrive in Ha; simpl in *.
    destruct pc; try discriminate Hhn; simpl in Ha; split_step Ha; unfold RInv; simpl;
      (split; [discriminate|intros c0 Hc0; discriminate Hc0]). }
  pose proof (RInv_exec tr2 s1 s' Hna Hi1 Hn1 Hr1 H2) as (_ & Hex).
  assert (Hms : members_of s' = flatten t).
  { rewrite (members_exec tr2 _ _ H2). rewrite (members_step (LArrive sig) s s1 Ha).
    rewrite (members_exec tr1 _ _ H1). apply members_init_tree. }
  assert (Hmain : p_early (s_main s') = None).
  { unfold members_of in Hms. simpl in Hms. destruct t as [d e ks]. simpl in Hms, Hme.
    injection Hms as _ Hm _. now rewrite Hm. }
  split; [|split; [exact Hks|exact Hev]].
  destruct (s_pc s') eqn:Ep; try reflexivity; exfalso.
  - destruct Hn' as (_ & Hqm & _ & Hp). rewrite Ep in Hp.
    destruct Hp as [(_ & Hst & _)|(Hr & _)].
    + unfold quiet_ok in Hqm. rewrite Hst in Hqm. destruct Hqm as (_ & c & Hc & _).
      rewrite Hmain in Hc. discriminate.
    + rewrite (Hex code eq_refl) in Hr. discriminate.
  - apply (Hnk sig0). unfold observe; simpl. now rewrite Ep.
Qed.

(* W3: the handshake has failed (the group was not there within 1000 ms) and the runner is
   blocked in waitpid(pid, &status, 0).  For every tree and every schedule before and after:
   SIGTERM makes the runner return 1 after one more transition, without ever sending anything
   to the group; the main process is not reaped, exactly the members that do not exit on their
   own stay alive; the specification is violated. *)
Lemma window_group_failure_all t timeout tr1 s s1 tr2 s' :
  exec tr1 (init_tree t timeout) = Some s -> s_pc s = PFailWaiting ->
  arrive SIGTERM s = Some s1 -> exec tr2 s1 = Some s' ->
  (runs tr2 <= 1)%nat /\
  (rstep s' = None -> o_result (observe s') = RExit 1) /\
  o_main (observe s') <> MReaped /\ o_kills (observe s') = [] /\
  (forall i a, nth_error (o_alive (observe s')) i = Some a ->
               a = negb (nth i (h_self (history_of s')) false)) /\
  h_event (history_of s') <> None /\ h_slow (history_of s') = true /\
  ~ spec (flatten t) (history_of s') (observe s').
Proof.
  intros H1 Hpc Ha H2.
  assert (He : early (s_pc s) = true) by now rewrite Hpc.
  assert (Hw : waiting (s_pc s) = false) by now rewrite Hpc.
  assert (Hp1 : s_pc s1 = PFailIntr).
  { unfold arrive in Ha. rewrite Hpc in Ha. simpl in Ha. injection Ha as <-. simpl. now rewrite Hpc. }
  assert (Hh : hits_wait tr2 s1 = false) by (apply past_wait_no_hit; now rewrite Hp1).
  destruct (window_general t timeout tr1 s SIGTERM s1 tr2 s' H1 He Hw Ha H2 Hh) as (Hn & Hev & Hns).
  destruct (NInv_untouched s' Hn) as (Hks & Hal).
  (* from PFailIntr: one transition to PExit 1, nothing else moves the runner *)
  assert (Hpath : forall tr s0 s2, exec tr s0 = Some s2 ->
            (s_pc s0 = PFailIntr /\ s_reaped s0 = false ->
             (s_pc s2 = PFailIntr /\ runs tr = 0%nat \/ s_pc s2 = PExit 1 /\ runs tr = 1%nat) /\ s_reaped s2 = false) /\
            (s_pc s0 = PExit 1 /\ s_reaped s0 = false -> s_pc s2 = PExit 1 /\ runs tr = 0%nat /\ s_reaped s2 = false)).
  { clear. induction tr as [|l tr IH]; simpl; intros s0 s2 Hx.
    - injection Hx as <-. split; [intros [Hp Hr]; split; [left; auto|exact Hr]|intros [Hp Hr]; auto].
    - destruct (apply_label l s0) as [s3|] eqn:E; [|discriminate]. destruct (IH s3 s2 Hx) as [IH1 IH2].
      destruct s0 as [pc g st tmo ar m r rp k ev lt up sl]. simpl.
      split; intros [Hp Hr]; subst pc rp.
      + destruct l as [|sig|i|]; simpl in E.
        * unfold rstep in E; simpl in E. injection E as <-.
          destruct (IH2 (conj eq_refl eq_refl)) as (Hp2 & Hr2 & Hrp). split; [right; split; [exact Hp2|now rewrite Hr2]|exact Hrp].
        * unfold arrive in E; simpl in E. split_step E; simpl in *; apply IH1; auto.
        * unfold exit_member in E; simpl in E. split_step E; simpl in *; apply IH1; auto.
        * unfold group_up in E; simpl in E. split_step E; simpl in *; apply IH1; auto.
      + destruct l as [|sig|i|]; simpl in E.
        * discriminate.
        * discriminate.
        * unfold exit_member in E; simpl in E. split_step E; simpl in *; apply IH2; auto.
        * unfold group_up in E; simpl in E. split_step E; simpl in *; apply IH2; auto. }
  assert (Hr1 : s_reaped s1 = false).
  { assert (Hn0 : NInv s) by (apply (reach_NInv t timeout tr1); assumption).
    destruct Hn0 as (_ & _ & _ & Hp). rewrite Hpc in Hp.
    unfold arrive in Ha. rewrite Hpc in Ha. simpl in Ha. injection Ha as <-. simpl. exact Hp. }
  destruct (Hpath tr2 s1 s' H2) as [Hgo _]. destruct (Hgo (conj Hp1 Hr1)) as [Hwhere Hrp].
  assert (Hsl : s_slow s' = true).
  { destruct (reach_Inv t timeout (tr1 ++ LArrive SIGTERM :: tr2) s') as (_ & _ & HP & _).
    { rewrite (exec_app tr1 _ _ _ H1). simpl. rewrite Ha. exact H2. }
    unfold PInv in HP. destruct Hwhere as [[Hp _]|[Hp _]]; rewrite Hp in HP.
    - apply HP.
    - destruct Hn as (_ & _ & _ & Hq). rewrite Hp in Hq.
      destruct Hq as [(Hq & _)|(_ & _ & Hq)]; [rewrite Hrp in Hq; discriminate|exact Hq]. }
  split; [destruct Hwhere as [[_ ->]|[_ ->]]; lia|].
  split.
  { intros Hrest. destruct Hwhere as [[Hp _]|[Hp _]].
    - unfold rstep in Hrest. rewrite Hp in Hrest. discriminate.
    - unfold observe; simpl. now rewrite Hp. }
  split; [unfold observe; simpl; rewrite Hrp; destruct (p_alive (s_main s')); discriminate|].
  split; [exact Hks|]. split; [exact Hal|]. split; [exact Hev|]. split; [exact Hsl|exact Hns].
Qed.

(* the oracle the harness applies to the implementation, applied to the model: it accepts a
   state of rest of ANY execution exactly under the guard of [spec_exact] *)
Lemma oracle_on_model t timeout tr s' :
  exec tr (init_tree t timeout) = Some s' -> rstep s' = None ->
  (spec_okb (flatten t) (history_of s') (observe s') = true <->
   s_event s' = None \/ hits_wait tr (init_tree t timeout) = true).
Proof.
  intros Hx Hr. rewrite spec_okb_iff. now apply spec_exact.
Qed.
