(* KillWitness.v - C07: concrete executions of the faithful model, one per window, so that the
   universal window lemmas of KillWindows.v are not vacuous, and the boundary case of the
   status clause. *)
From Robsd Require Import Exec.KillSpec Exec.KillProofs Exec.KillTerm Exec.KillWindows Exec.KillAlarm.
Local Open Scope Z_scope.

Definition two_procs : tree := Node Default None [Node Default None []].
Definition two_procs_main_exits : tree := Node Default (Some 0) [Node Default None []].

(* the child is up at once; the runner then needs 9 transitions to block in waitpid(-pid) *)
Definition to_wait (timeout : Z) : list label :=
  LUp :: repeat LRun (if 0 <? timeout then 7 else 6).

(* the child is held: hpolls + 5 transitions to block in waitpid(pid) on the failure path *)
Definition to_fail_wait : list label := repeat LRun (hpolls + 5).

(* W1: SIGTERM between fork() and siginstall(SIGTERM): the runner dies, the step lives on *)
Lemma witness_before_handler :
  exists s', exec [LArrive SIGTERM] (init_tree two_procs 0) = Some s' /\
    observe s' = mkobs (RKilled SIGTERM) MAlive [true; true] [] /\
    h_event (history_of s') = Some SIGTERM /\ rstep s' = None /\
    ~ spec (flatten two_procs) (history_of s') (observe s').
Proof.
  eexists. split; [vm_compute; reflexivity|]. split; [reflexivity|]. split; [reflexivity|].
  split; [reflexivity|]. unfold spec. simpl. intros [_ (c & Hc & _)]. discriminate.
Qed.

(* W2: SIGTERM at "exec.before_waitpid": gotsig is set, nothing is killed; the runner returns when
   the step ends by itself - status 0, a default-disposition member still alive *)
Definition lost_term_schedule : list label :=
  [LUp; LRun; LRun; LRun; LRun; LRun; LArrive SIGTERM; LRun; LExit 0; LRun; LRun].

Lemma witness_before_waitpid :
  exists s', exec lost_term_schedule (init_tree two_procs_main_exits 0) = Some s' /\
    observe s' = mkobs (RExit 0) MReaped [false; true] [] /\
    h_event (history_of s') = Some SIGTERM /\ rstep s' = None /\
    ~ spec (flatten two_procs_main_exits) (history_of s') (observe s').
Proof.
  eexists. split; [vm_compute; reflexivity|]. split; [reflexivity|]. split; [reflexivity|].
  split; [reflexivity|]. unfold spec. simpl.
  intros [_ (c & _ & _ & _ & [Hk|(Hk & _)] & _)]; discriminate.
Qed.

(* W2 for the alarm: it expires after alarm() but before waitpid is entered; the runner then
   blocks in waitpid with the timeout recorded: the timeout is lost *)
Definition lost_alarm_schedule : list label :=
  [LUp; LRun; LRun; LRun; LRun; LRun; LRun; LArrive SIGALRM; LRun].

Lemma witness_lost_alarm :
  exists s, exec lost_alarm_schedule (init_tree two_procs 1) = Some s /\
    s_pc s = PWaiting /\ s_event s = Some SIGALRM /\ s_gotsig s = SIGALRM /\
    observe s = mkobs RHang MAlive [true; true] [] /\ rstep s = None.
Proof. eexists. split; [vm_compute; reflexivity|]. repeat (split; [reflexivity|]). reflexivity. Qed.

(* W3: the child is held for longer than the handshake timeout; SIGTERM while the runner waits
   for it: exit 1, nothing killed, the step lives on - and comes up afterwards *)
Definition group_failure_schedule : list label := to_fail_wait ++ [LArrive SIGTERM; LRun; LUp].

Lemma witness_group_failure :
  exists s', exec group_failure_schedule (init_tree two_procs 0) = Some s' /\
    observe s' = mkobs (RExit 1) MAlive [true; true] [] /\
    history_of s' = mkhist (Some SIGTERM) None [false; false] true /\ rstep s' = None /\
    ~ spec (flatten two_procs) (history_of s') (observe s').
Proof.
  eexists. split; [vm_compute; reflexivity|]. split; [reflexivity|]. split; [reflexivity|].
  split; [reflexivity|]. unfold spec. simpl.
  intros [_ (c & _ & Hm & _)]. discriminate.
Qed.

(* W3 for the timeout: after the failed handshake alarm() is never called; the configured timeout
   passes while the step runs and the runner stays blocked *)
Lemma witness_unarmed_timeout :
  exists s s1, exec (to_fail_wait ++ [LUp]) (init_tree two_procs 1) = Some s /\
    s_pc s = PFailWaiting /\ s_armed s = false /\
    arrive SIGALRM s = Some s1 /\
    observe s1 = mkobs RHang MAlive [true; true] [] /\ h_event (history_of s1) = Some SIGALRM /\
    rstep s1 = None /\ ~ spec (flatten two_procs) (history_of s1) (observe s1).
Proof.
  eexists. eexists. split; [vm_compute; reflexivity|]. split; [reflexivity|]. split; [reflexivity|].
  split; [vm_compute; reflexivity|]. split; [reflexivity|]. split; [reflexivity|]. split; [reflexivity|].
  unfold spec. simpl. intros [_ (c & Hc & _)]. discriminate.
Qed.

(* the no-event facet of the failed handshake: the step completes with 0, the runner reports 1 *)
Lemma witness_group_failure_status :
  exists s', exec (to_fail_wait ++ [LUp; LExit 0; LRun; LRun]) (init_tree two_procs_main_exits 0) = Some s' /\
    observe s' = mkobs (RExit 1) MReaped [false; true] [] /\
    history_of s' = mkhist None None [true; false] true /\
    spec (flatten two_procs_main_exits) (history_of s') (observe s').
Proof.
  eexists. split; [vm_compute; reflexivity|]. split; [reflexivity|]. split; [reflexivity|].
  apply spec_okb_iff. vm_compute. reflexivity.
Qed.

(* inside the guarantee, but the reason for the "unless" in [cut_ok]: SIGTERM interrupts the wait,
   the main process exits 0 by itself before the kill reaches it, the runner reports that 0 *)
Lemma status_zero_after_term :
  exists s', exec (to_wait 0 ++ [LArrive SIGTERM; LExit 0; LRun; LRun; LRun; LRun])
               (init_tree two_procs_main_exits 0) = Some s' /\
    observe s' = mkobs (RExit 0) MReaped [false; false] [SIGTERM] /\
    spec (flatten two_procs_main_exits) (history_of s') (observe s').
Proof.
  eexists. split; [vm_compute; reflexivity|]. split; [reflexivity|].
  apply spec_okb_iff. vm_compute. reflexivity.
Qed.

(* the full statement fails *)
Lemma all_points_refuted : exists t timeout tr s',
  exec tr (init_tree t timeout) = Some s' /\ rstep s' = None /\
  ~ spec (flatten t) (history_of s') (observe s').
Proof.
  destruct witness_before_handler as (s' & Hx & _ & _ & Hr & Hn).
  exists two_procs, 0, [LArrive SIGTERM], s'. auto.
Qed.
