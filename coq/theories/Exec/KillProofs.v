(* KillProofs.v - C07: lemmas about the runner/kernel transition system of
   KillDefs.v and the specification of KillSpec.v. *)
From Robsd Require Import Exec.KillSpec.
From RobsdGen Require Gen_Kill.
Local Open Scope Z_scope.

(* ---- the tie to step-exec.c as it is now (Gen_Kill is regenerated on every run) ------------ *)

Lemma tie_calls :
  Gen_Kill.calls_exitstatus = model_calls_exitstatus /\
  Gen_Kill.calls_siginstall = model_calls_siginstall /\
  Gen_Kill.calls_sighandler = model_calls_sighandler /\
  Gen_Kill.calls_step_timeout = model_calls_step_timeout.
Proof. repeat split; reflexivity. Qed.

Lemma tie_constants :
  Gen_Kill.ex_timeout = 124 /\ Gen_Kill.kill_timeout_ms = 5000 /\ Gen_Kill.kill_poll_ms = 100 /\
  npolls = 50%nat /\
  Gen_Kill.pipe_timeout_ms = 1000 /\ Gen_Kill.pipe_poll_ms = 1 /\ hpolls = 1000%nat.
Proof. repeat split; reflexivity. Qed.

Lemma npolls_pos : exists k, npolls = S k.
Proof. exists 49%nat. reflexivity. Qed.

Lemma ex_timeout_val : Gen_Kill.ex_timeout = 124.
Proof. reflexivity. Qed.

(* ---- exitstatus ----------------------------------------------------------------------------- *)

Definition sigset (g : Z) : Prop := g = SIGTERM \/ g = SIGALRM.

Lemma exitstatus_alrm st : exitstatus st SIGALRM = 124.
Proof. unfold exitstatus. simpl. apply ex_timeout_val. Qed.

Lemma exitstatus_exited k g :
  g <> SIGALRM -> exitstatus ((k mod 256) * 256) g = k mod 256.
Proof.
  intros Hg. unfold exitstatus.
  destruct (Z.eqb_spec g SIGALRM) as [->|_]; [congruence|].
  unfold wifexited, wtermsig, wexitstatus.
  assert (H0 : ((k mod 256) * 256) mod 128 = 0).
  { replace ((k mod 256) * 256) with (((k mod 256) * 2) * 128) by lia. apply Z.mod_mul. lia. }
  rewrite H0. simpl.
  rewrite Z.div_mul by lia. apply Z.mod_mod. lia.
Qed.

Lemma exitstatus_term_term : exitstatus SIGTERM SIGTERM = 143.
Proof. reflexivity. Qed.
Lemma exitstatus_kill_term : exitstatus SIGKILL SIGTERM = 137.
Proof. reflexivity. Qed.

(* ---- processes --------------------------------------------------------------------------------- *)

(* how a process can have ended *)
Definition proc_ok (p : proc) : Prop :=
  match p_st p with
  | None => p_self p = false
  | Some w =>
      (p_self p = true /\ exists c, p_early p = Some c /\ w = (c mod 256) * 256) \/
      (p_self p = false /\ ((w = SIGTERM /\ p_disp p = Default) \/ w = SIGKILL))
  end.

(* dead, or never hit by anything but its own exit *)
Definition quiet_ok (p : proc) : Prop :=
  match p_st p with
  | None => p_self p = false
  | Some w => p_self p = true /\ exists c, p_early p = Some c /\ w = (c mod 256) * 256
  end.

Definition ddead (p : proc) : Prop := p_disp p = Default -> p_alive p = false.
Definition dead (p : proc) : Prop := p_alive p = false.

Lemma fresh_ok m : proc_ok (fresh m).
Proof. reflexivity. Qed.
Lemma fresh_quiet m : quiet_ok (fresh m).
Proof. reflexivity. Qed.

Lemma deliver_member sig p : member_of (deliver sig p) = member_of p.
Proof.
  unfold deliver. destruct (p_st p); [reflexivity|].
  destruct (sig =? SIGKILL); [reflexivity|].
  destruct ((sig =? SIGTERM) && is_default (p_disp p)); reflexivity.
Qed.

Lemma deliver_disp sig p : p_disp (deliver sig p) = p_disp p.
Proof. change (m_disp (member_of (deliver sig p)) = m_disp (member_of p)). now rewrite deliver_member. Qed.

Lemma deliver_ok sig p : proc_ok p -> proc_ok (deliver sig p).
Proof.
  unfold deliver, proc_ok. destruct (p_st p) eqn:E; [now rewrite E|].
  intros Hs.
  destruct (sig =? SIGKILL); simpl; [right; auto|].
  destruct (Z.eqb_spec sig SIGTERM); simpl.
  - destruct (p_disp p) eqn:D; simpl; [right; auto|]. now rewrite E.
  - now rewrite E.
Qed.

Lemma deliver_dead sig p : dead p -> dead (deliver sig p).
Proof. unfold dead, p_alive, deliver. destruct (p_st p) eqn:E; intros H; [now rewrite E|discriminate]. Qed.

Lemma deliver_ddead sig p : ddead p -> ddead (deliver sig p).
Proof.
  unfold ddead. rewrite deliver_disp. intros H D. specialize (H D).
  now apply deliver_dead.
Qed.

Lemma deliver_term_ddead p : ddead (deliver SIGTERM p).
Proof.
  unfold ddead, deliver, p_alive. destruct (p_st p) eqn:E.
  - now rewrite E.
  - simpl. destruct (p_disp p) eqn:D; simpl; [reflexivity|]. rewrite D. discriminate.
Qed.

Lemma deliver_kill_dead p : dead (deliver SIGKILL p).
Proof. unfold dead, deliver, p_alive. destruct (p_st p) eqn:E; [now rewrite E|reflexivity]. Qed.

Lemma dead_ddead p : dead p -> ddead p.
Proof. unfold dead, ddead. auto. Qed.

Lemma self_exit_member p p' : self_exit p = Some p' -> member_of p' = member_of p.
Proof.
  unfold self_exit. destruct (p_st p); [discriminate|]. destruct (p_early p); [|discriminate].
  intros H. injection H as <-. reflexivity.
Qed.

Lemma self_exit_alive p p' : self_exit p = Some p' -> p_st p = None /\ dead p'.
Proof.
  unfold self_exit. destruct (p_st p); [discriminate|]. destruct (p_early p); [|discriminate].
  intros H. injection H as <-. split; reflexivity.
Qed.

Lemma self_exit_ok p p' : self_exit p = Some p' -> proc_ok p'.
Proof.
  unfold self_exit. destruct (p_st p); [discriminate|]. destruct (p_early p) eqn:E; [|discriminate].
  intros H. injection H as <-. unfold proc_ok. simpl. left. split; [reflexivity|]. eauto.
Qed.

Lemma self_exit_quiet p p' : self_exit p = Some p' -> quiet_ok p'.
Proof.
  unfold self_exit. destruct (p_st p); [discriminate|]. destruct (p_early p) eqn:E; [|discriminate].
  intros H. injection H as <-. unfold quiet_ok. simpl. split; [reflexivity|]. eauto.
Qed.

(* ---- lists ---------------------------------------------------------------------------------------- *)

Lemma Forall_update {A} (P : A -> Prop) i x l : Forall P l -> P x -> Forall P (update_nth i x l).
Proof.
  intros H Hx. revert i. induction H as [|h t Hh Ht IH]; intros [|i]; simpl; auto.
Qed.

Lemma Forall_update_weak {A} (P : A -> Prop) i x y l :
  Forall P l -> nth_error l i = Some y -> (P y -> P x) -> Forall P (update_nth i x l).
Proof.
  intros H. revert i. induction H as [|h t Hh Ht IH]; intros [|i]; simpl; intros Hn Hi; try discriminate.
  - injection Hn as ->. auto.
  - constructor; eauto.
Qed.

Lemma map_update {A B} (f : A -> B) i x y l :
  nth_error l i = Some y -> f x = f y -> map f (update_nth i x l) = map f l.
Proof.
  revert i. induction l as [|h t IH]; intros [|i]; simpl; intros Hn Hf; try discriminate; auto.
  - injection Hn as ->. now rewrite Hf.
  - f_equal. eauto.
Qed.

Lemma length_update {A} i (x : A) l : length (update_nth i x l) = length l.
Proof. revert i. induction l as [|h t IH]; intros [|i]; simpl; auto. Qed.

Lemma map_deliver_member sig l : map member_of (map (deliver sig) l) = map member_of l.
Proof. rewrite map_map. apply map_ext. intros. apply deliver_member. Qed.

Lemma Forall_map_deliver (P : proc -> Prop) sig l :
  (forall p, P p -> P (deliver sig p)) -> Forall P l -> Forall P (map (deliver sig) l).
Proof. intros HP H. induction H; simpl; auto. Qed.

Lemma Forall_map_all (P : proc -> Prop) sig l :
  (forall p, P (deliver sig p)) -> Forall P (map (deliver sig) l).
Proof. intros HP. induction l; simpl; auto. Qed.

(* ---- executions ------------------------------------------------------------------------------------ *)

Lemma exec_app tr1 tr2 s s1 :
  exec tr1 s = Some s1 -> exec (tr1 ++ tr2) s = exec tr2 s1.
Proof.
  revert s. induction tr1 as [|l tr1 IH]; simpl; intros s H.
  - now injection H as ->.
  - destruct (apply_label l s); [eauto|discriminate].
Qed.

Lemma exec_inv (I : state -> Prop) :
  (forall l s s', I s -> apply_label l s = Some s' -> I s') ->
  forall tr s s', I s -> exec tr s = Some s' -> I s'.
Proof.
  intros Hstep tr. induction tr as [|l tr IH]; simpl; intros s s' Hi H.
  - now injection H as <-.
  - destruct (apply_label l s) eqn:E; [|discriminate]. eauto.
Qed.

(* ---- the kill phase: invariant ------------------------------------------------------------------------ *)

Definition grp_ddead (s : state) : Prop := ddead (s_main s) /\ Forall ddead (s_rest s).
Definition grp_dead (s : state) : Prop := dead (s_main s) /\ Forall dead (s_rest s).

Definition done_inv (s : state) : Prop :=
  s_reaped s = true /\ p_st (s_main s) = Some (s_status s) /\ grp_ddead s /\
  (s_kills s = [SIGTERM] \/
   (s_kills s = [SIGTERM; SIGKILL] /\ p_disp (s_main s) = Ignore /\ grp_dead s)).

(* holds from the moment a signal has interrupted the blocking waitpid *)
Definition KInv (s : state) : Prop :=
  sigset (s_gotsig s) /\ s_event s <> None /\ s_slow s = false /\
  match s_pc s with
  | PWaitIntr | PKillSend PhTerm => s_reaped s = false /\ s_kills s = []
  | PPoll PhTerm n =>
      s_reaped s = false /\ s_kills s = [SIGTERM] /\ grp_ddead s /\
      ((n < npolls)%nat -> p_disp (s_main s) = Ignore) /\ (n <= npolls)%nat
  | PKillSend PhKill =>
      s_reaped s = false /\ s_kills s = [SIGTERM] /\ grp_ddead s /\ p_disp (s_main s) = Ignore
  | PPoll PhKill n =>
      s_reaped s = false /\ s_kills s = [SIGTERM; SIGKILL] /\ grp_dead s /\
      p_disp (s_main s) = Ignore /\ n = npolls
  | PWaitDone => done_inv s
  | PExit c => done_inv s /\ c = exitstatus (s_status s) (s_gotsig s)
  | _ => False
  end.

Lemma grp_dead_ddead s : grp_dead s -> grp_ddead s.
Proof.
  intros [H1 H2]. split; [now apply dead_ddead|].
  eapply Forall_impl; [|exact H2]. intros; now apply dead_ddead.
Qed.

Lemma sigset_nonzero g : sigset g -> (g =? 0) = false.
Proof. intros [->| ->]; reflexivity. Qed.

Lemma alive_ddead_ignore p : ddead p -> p_st p = None -> p_disp p = Ignore.
Proof.
  unfold ddead, p_alive. intros H E. rewrite E in H.
  destruct (p_disp p); [|reflexivity]. specialize (H eq_refl). discriminate.
Qed.

Lemma dead_st p : dead p -> exists w, p_st p = Some w.
Proof. unfold dead, p_alive. destruct (p_st p); [eauto|discriminate]. Qed.

Lemma KInv_step l s s' : KInv s -> apply_label l s = Some s' -> KInv s'.
Proof.
  destruct s as [pc g st tmo ar m r rp k ev lt up sl].
  unfold KInv, done_inv, grp_ddead, grp_dead; simpl. intros (Hg & Hev & Hsl & H) Hl. subst sl.
  destruct l as [|sig|i|]; simpl in Hl.
  - (* the runner *)
    unfold rstep, main_zombie in Hl; simpl in Hl.
    destruct pc as [| | | | | | | |ph|ph n| |c|sg|hn| | | | ]; try contradiction.
    + (* PWaitIntr *)
      rewrite (sigset_nonzero _ Hg) in Hl. injection Hl as <-. simpl. auto.
    + (* PKillSend *)
      destruct ph; injection Hl as <-; simpl.
      * destruct H as (Hr & Hk). subst k. repeat split; auto.
        -- apply deliver_term_ddead.
        -- apply Forall_map_all. apply deliver_term_ddead.
        -- intros Hlt. exfalso. revert Hlt. apply Nat.lt_irrefl.
      * destruct H as (Hr & Hk & (Hm & Ht) & Hi). subst k. repeat split; auto.
        -- apply deliver_kill_dead.
        -- apply Forall_map_all. apply deliver_kill_dead.
        -- now rewrite deliver_disp.
    + (* PPoll *)
      destruct ph.
      * destruct H as (Hr & Hk & (Hm & Ht) & Hi & Hle). subst rp.
        destruct n as [|n].
        -- injection Hl as <-. simpl. repeat split; auto.
           apply Hi. destruct npolls_pos as [q ->]. apply Nat.lt_0_succ.
        -- destruct (p_st m) as [w|] eqn:E; injection Hl as <-; simpl.
           ++ repeat split; auto.
           ++ repeat split; auto.
              ** intros _. now apply alive_ddead_ignore.
              ** apply Nat.lt_le_incl. exact Hle.
      * destruct H as (Hr & Hk & (Hm & Ht) & Hi & Hn). subst rp n.
        destruct npolls_pos as [q Hq]. rewrite Hq in Hl.
        destruct (dead_st _ Hm) as [w E]. rewrite E in Hl. injection Hl as <-. simpl.
        split; [|split; [|split]]; auto. split; [reflexivity|]. split; [exact E|].
        split; [apply (grp_dead_ddead (mkstate PWaitDone g w tmo ar m r true k ev lt up false)); split; auto|].
        right. repeat split; auto.
    + (* PWaitDone *)
      injection Hl as <-. simpl. repeat split; try apply H; auto.
    + (* PExit *) discriminate.
  - (* a signal arrives *)
    unfold arrive in Hl; simpl in Hl.
    assert (Hrec : forall sg, sigset sg ->
              match pc with
              | PWaitIntr | PKillSend _ | PPoll _ _ | PWaitDone => True | _ => False end ->
              KInv (record_sig sg (mkstate pc g st tmo ar m r rp k ev lt up false))).
    { intros sg Hsg Hpc. unfold KInv, done_inv, grp_ddead, grp_dead, record_sig; simpl.
      split; [exact Hsg|]. split; [destruct rp; [exact Hev|discriminate]|]. split; [reflexivity|].
      destruct pc as [| | | | | | | |ph|ph n| |c|sg'|hn| | | | ]; try contradiction; exact H. }
    destruct pc as [| | | | | | | |ph|ph n| |c|sg'|hn| | | | ]; try contradiction; simpl in Hl;
      try discriminate;
      (destruct (Z.eqb_spec sig SIGTERM) as [->|Hn1];
       [injection Hl as <-; apply Hrec; [left; reflexivity|exact I]
       |destruct (Z.eqb_spec sig SIGALRM) as [->|Hn2];
        [destruct ar; [injection Hl as <-; apply Hrec; [right; reflexivity|exact I]|discriminate]
        |discriminate]]).
  - (* a member exits on its own *)
    unfold exit_member in Hl; simpl in Hl. destruct up; simpl in Hl; [|discriminate].
    destruct i as [|j].
    + destruct (self_exit m) as [m'|] eqn:E; [|discriminate]. injection Hl as <-. simpl.
      destruct (self_exit_alive _ _ E) as [Ha Hd].
      assert (Hdisp : p_disp m' = p_disp m).
      { change (m_disp (member_of m') = m_disp (member_of m)). now rewrite (self_exit_member _ _ E). }
      split; [exact Hg|]. split; [exact Hev|]. split; [reflexivity|].
      destruct pc as [| | | | | | | |ph|ph n| |c|sg|hn| | | | ]; try contradiction; try exact H.
      * destruct ph; [exact H|].
        destruct H as (Hr & Hk & (Hm & Ht) & Hi). rewrite Hdisp. repeat split; auto. now apply dead_ddead.
      * destruct ph.
        -- destruct H as (Hr & Hk & (Hm & Ht) & Hi & Hle). rewrite Hdisp. repeat split; auto. now apply dead_ddead.
        -- destruct H as (Hr & Hk & (Hm & Ht) & Hi & Hn). rewrite Hdisp. repeat split; auto.
      * destruct H as (_ & Hst & _). rewrite Ha in Hst. discriminate.
      * destruct H as ((_ & Hst & _) & _). rewrite Ha in Hst. discriminate.
    + destruct (nth_error r j) as [p|] eqn:En; [|discriminate].
      destruct (self_exit p) as [p'|] eqn:E; [|discriminate]. injection Hl as <-. simpl.
      destruct (self_exit_alive _ _ E) as [Ha Hd].
      assert (Hdd : Forall ddead r -> Forall ddead (update_nth j p' r)).
      { intros Hf. apply Forall_update; [exact Hf|now apply dead_ddead]. }
      assert (Hde : Forall dead r -> Forall dead (update_nth j p' r)).
      { intros Hf. apply Forall_update; [exact Hf|exact Hd]. }
      split; [exact Hg|]. split; [exact Hev|]. split; [reflexivity|].
      destruct pc as [| | | | | | | |ph|ph n| |c|sg|hn| | | | ]; try contradiction; try exact H.
      * destruct ph; [exact H|].
        destruct H as (Hr & Hk & (Hm & Ht) & Hi). repeat split; auto.
      * destruct ph.
        -- destruct H as (Hr & Hk & (Hm & Ht) & Hi & Hle). repeat split; auto.
        -- destruct H as (Hr & Hk & (Hm & Ht) & Hi & Hn). repeat split; auto.
      * destruct H as (Hr & Hst & (Hm & Ht) & Hk). repeat split; auto.
        destruct Hk as [Hk|(Hk & Hi & Hm' & Ht')]; [left; exact Hk|right; repeat split; auto].
      * destruct H as ((Hr & Hst & (Hm & Ht) & Hk) & Hc). repeat split; auto.
        destruct Hk as [Hk|(Hk & Hi & Hm' & Ht')]; [left; exact Hk|right; repeat split; auto].
  - (* the group comes up *)
    unfold group_up in Hl; simpl in Hl. destruct up; [discriminate|]. injection Hl as <-.
    unfold grp_ddead, grp_dead; simpl. auto.
Qed.

(* ---- invariants of every execution from the fork on ---------------------------------------------------- *)

Definition procs_ok (s : state) : Prop := proc_ok (s_main s) /\ Forall proc_ok (s_rest s).

(* case analysis of one transition: split every match of the hypothesis *)
Ltac split_step H :=
  repeat match type of H with
         | context [match ?x with _ => _ end] => destruct x eqn:?
         end;
  try discriminate H; try (injection H as <-).

Lemma procs_ok_step l s s' : procs_ok s -> apply_label l s = Some s' -> procs_ok s'.
Proof.
  destruct s as [pc g st tmo ar m r rp k ev lt up sl]. unfold procs_ok; simpl. intros [Hm Hr] Hl.
  destruct l as [|sig|i|]; simpl in Hl.
  - unfold rstep, main_zombie in Hl; simpl in Hl. split_step Hl; simpl; auto.
    all: split; [now apply deliver_ok|apply Forall_map_deliver; [intros; now apply deliver_ok|exact Hr]].
  - unfold arrive in Hl; simpl in Hl. split_step Hl; simpl; auto.
  - unfold exit_member in Hl; simpl in Hl. split_step Hl; simpl.
    + split; [eapply self_exit_ok; eassumption|exact Hr].
    + split; [exact Hm|]. apply Forall_update; [exact Hr|eapply self_exit_ok; eassumption].
  - unfold group_up in Hl; simpl in Hl. split_step Hl; simpl; auto.
Qed.

Lemma members_step l s s' : apply_label l s = Some s' -> members_of s' = members_of s.
Proof.
  destruct s as [pc g st tmo ar m r rp k ev lt up sl]. unfold members_of; simpl. intros Hl.
  destruct l as [|sig|i|]; simpl in Hl.
  - unfold rstep, main_zombie in Hl; simpl in Hl. split_step Hl; simpl; auto.
    all: now rewrite deliver_member, map_deliver_member.
  - unfold arrive in Hl; simpl in Hl. split_step Hl; simpl; auto.
  - unfold exit_member in Hl; simpl in Hl. split_step Hl; simpl.
    + erewrite self_exit_member by eassumption. reflexivity.
    + f_equal. eapply map_update; [eassumption|]. eapply self_exit_member; eassumption.
  - unfold group_up in Hl; simpl in Hl. split_step Hl; simpl; auto.
Qed.

Lemma members_exec tr s s' : exec tr s = Some s' -> members_of s' = members_of s.
Proof.
  revert s. induction tr as [|l tr IH]; simpl; intros s H.
  - now injection H as <-.
  - destruct (apply_label l s) eqn:E; [|discriminate]. rewrite (IH _ H). now apply (members_step l).
Qed.

(* gotsig is the last signal that arrived; signals are SIGTERM / SIGALRM; a signal counted as
   "late" arrived after the main process had been reaped.  After a failed handshake the expiry
   of the timeout is an event that no signal announces: gotsig then lags behind the history. *)
Definition Ginv (s : state) : Prop :=
  (forall g, s_event s = Some g -> sigset g) /\
  (forall g, s_late s = Some g -> sigset g /\ s_reaped s = true) /\
  ((s_slow s = true /\ s_event s <> None) \/
   match s_pc s with
   | PKilled _ => True
   | _ => match final_sig (history_of s) with Some g => s_gotsig s = g | None => s_gotsig s = 0 end
   end).

Lemma Ginv_step l s s' : Ginv s -> apply_label l s = Some s' -> Ginv s'.
Proof.
  destruct s as [pc g st tmo ar m r rp k ev lt up sl]. unfold Ginv, final_sig; simpl. intros (He & Hla & Hg) Hl.
  assert (Hla' : forall x, lt = Some x -> sigset x /\ true = true).
  { intros x Hx. split; [apply (Hla x Hx)|reflexivity]. }
  destruct l as [|sig|i|]; simpl in Hl.
  - unfold rstep, main_zombie in Hl; simpl in Hl.
    split_step Hl; simpl in *; (split; [exact He|split; [first [exact Hla|exact Hla']|]]).
    all: destruct Hg as [[Hs He']|Hg]; [left; split; [first [exact Hs|reflexivity]|exact He']|right; exact Hg].
  - unfold arrive in Hl; simpl in Hl.
    assert (Hrec : sigset sig -> Ginv (record_sig sig (mkstate pc g st tmo ar m r rp k ev lt up sl))).
    { intros Hs. unfold Ginv, final_sig, record_sig; simpl. destruct rp; simpl.
      - split; [exact He|]. split; [intros x Hx; injection Hx as <-; auto|].
        destruct Hg as [Hg|Hg]; [left; exact Hg|right]. destruct pc; auto.
      - split; [intros x Hx; injection Hx as <-; exact Hs|]. split; [exact Hla|].
        destruct lt as [x|]; [destruct (Hla x eq_refl) as [_ Hx]; discriminate|].
        right. destruct pc; auto. }
    destruct (terminated pc); [discriminate|].
    destruct (Z.eqb_spec sig SIGTERM) as [->|_].
    + injection Hl as <-. destruct (term_handled pc); [apply Hrec; now left|].
      unfold runner_killed; simpl. destruct rp; simpl.
      * split; [exact He|]. split; [intros x Hx; injection Hx as <-; split; [now left|reflexivity]|right; exact I].
      * split; [intros x Hx; injection Hx as <-; now left|]. split; [exact Hla|right; exact I].
    + destruct (Z.eqb_spec sig SIGALRM) as [->|_]; [|discriminate]. destruct ar.
      * injection Hl as <-. apply Hrec. now right.
      * destruct sl; simpl in Hl; [|discriminate]. destruct rp; simpl in Hl; [discriminate|].
        destruct (0 <? tmo); [|discriminate]. injection Hl as <-. simpl.
        split; [intros x Hx; injection Hx as <-; now right|]. split; [exact Hla|].
        left. split; [reflexivity|discriminate].
  - unfold exit_member in Hl; simpl in Hl. split_step Hl; simpl; auto.
  - unfold group_up in Hl; simpl in Hl. split_step Hl; simpl; auto.
Qed.

(* before the runner is in its kill phase it has reaped nobody and sent nothing; the handshake
   has failed exactly on the "process group failure" path *)
Definition PInv (s : state) : Prop :=
  match s_pc s with
  | PForked | PIgnPipe | PTermInst | PHandshake _ | PGroupUp | PAlrmInst | PBeforeWait | PWaiting =>
      s_reaped s = false /\ s_kills s = [] /\ s_slow s = false
  | PGroupFail | PFailWaiting | PFailIntr =>
      s_reaped s = false /\ s_kills s = [] /\ s_slow s = true
  | PFailDone => s_kills s = [] /\ s_slow s = true
  | PWaitIntr | PKillSend _ | PPoll _ _ | PWaitDone => s_slow s = false
  | _ => True
  end.

Lemma PInv_step l s s' : PInv s -> apply_label l s = Some s' -> PInv s'.
Proof.
  destruct s as [pc g st tmo ar m r rp k ev lt up sl]. unfold PInv; simpl. intros H Hl.
  destruct l as [|sig|i|]; simpl in Hl.
  - unfold rstep, main_zombie in Hl; simpl in Hl. split_step Hl; simpl in *; try exact I; try exact H;
      try (destruct H as (H1 & H2 & H3); auto; fail).
  - unfold arrive in Hl; simpl in Hl. split_step Hl; simpl in *; try exact I; try exact H;
      try discriminate.
    all: destruct pc; simpl in *; try exact I; try exact H; try discriminate; apply H.
  - unfold exit_member in Hl; simpl in Hl. split_step Hl; simpl; exact H.
  - unfold group_up in Hl; simpl in Hl. split_step Hl; simpl; exact H.
Qed.

(* the status the runner reports for a main process it has reaped *)
Definition exit_code_ok (s : state) (c : Z) : Prop :=
  if s_slow s
  then c = (if exitstatus (s_status s) 0 =? 0 then 1 else exitstatus (s_status s) 0)
  else c = exitstatus (s_status s) (s_gotsig s).

(* as long as no event has happened while the step was running *)
Definition QInv (s : state) : Prop :=
  s_event s = None ->
  s_kills s = [] /\ quiet_ok (s_main s) /\ Forall quiet_ok (s_rest s) /\
  match s_pc s with
  | PForked | PIgnPipe | PTermInst | PHandshake _ | PGroupUp | PAlrmInst | PBeforeWait | PWaiting
  | PGroupFail | PFailWaiting => s_reaped s = false
  | PWaitDone | PFailDone => s_reaped s = true /\ p_st (s_main s) = Some (s_status s)
  | PExit c => s_reaped s = true /\ p_st (s_main s) = Some (s_status s) /\ exit_code_ok s c
  | _ => False
  end.

Lemma QInv_step l s s' : PInv s -> QInv s -> apply_label l s = Some s' -> QInv s'.
Proof.
  destruct s as [pc g st tmo ar m r rp k ev lt up sl]. unfold PInv, QInv, exit_code_ok; simpl. intros HP H Hl.
  destruct l as [|sig|i|]; simpl in Hl.
  - unfold rstep, main_zombie in Hl; simpl in Hl.
    split_step Hl; simpl in *; intros Hev; destruct (H Hev) as (Hk & Hm & Hr & Hp);
      try contradiction; repeat split; auto; try apply Hp; try congruence.
    all: try (destruct HP as (_ & _ & ->); reflexivity).
    all: try (destruct HP as (_ & ->); reflexivity).
    all: try (subst sl; reflexivity).
    all: try (subst rp; assumption).
    all: destruct HP as (_ & ->); match goal with E : (_ =? 0) = _ |- _ => rewrite E end; reflexivity.
  - unfold arrive in Hl; simpl in Hl.
    split_step Hl; simpl in *; intros Hev; try discriminate.
    all: destruct rp; try discriminate; destruct (H Hev) as (Hk & Hm & Hr & Hp);
      destruct pc; simpl in *; try discriminate; try contradiction; repeat split; auto; apply Hp.
  - unfold exit_member in Hl; simpl in Hl. split_step Hl; simpl in *; intros Hev;
      destruct (H Hev) as (Hk & Hm & Hr & Hp).
    + match goal with E : self_exit m = Some _ |- _ =>
        destruct (self_exit_alive _ _ E) as [Ha _]; pose proof (self_exit_quiet _ _ E) as Hq end.
      repeat split; auto.
      destruct pc; try exact Hp.
      * destruct Hp as (_ & Hst). rewrite Ha in Hst. discriminate.
      * destruct Hp as (_ & Hst & _). rewrite Ha in Hst. discriminate.
      * destruct Hp as (_ & Hst). rewrite Ha in Hst. discriminate.
    + repeat split; auto. apply Forall_update; [exact Hr|eapply self_exit_quiet; eassumption].
  - unfold group_up in Hl; simpl in Hl. split_step Hl; simpl in *. exact H.
Qed.

(* ---- the initial state ------------------------------------------------------------------------------------ *)

Lemma member_fresh m : member_of (fresh m) = m.
Proof. destruct m; reflexivity. Qed.

Lemma members_init m rest timeout : members_of (init m rest timeout) = m :: rest.
Proof.
  unfold members_of, init; simpl. rewrite member_fresh. f_equal.
  rewrite map_map. rewrite <- (map_id rest) at 2. apply map_ext. intros; apply member_fresh.
Qed.

Lemma flatten_main_rest t : tree_main t :: tree_rest t = flatten t.
Proof. destruct t; reflexivity. Qed.

Lemma members_init_tree t timeout : members_of (init_tree t timeout) = flatten t.
Proof. unfold init_tree. rewrite members_init. apply flatten_main_rest. Qed.

Definition Inv (s : state) : Prop := procs_ok s /\ Ginv s /\ PInv s /\ QInv s.

Lemma Inv_init m rest timeout : Inv (init m rest timeout).
Proof.
  unfold Inv, init, procs_ok, Ginv, PInv, QInv, final_sig; simpl. repeat split; try discriminate; auto.
  - induction rest; simpl; constructor; auto. apply fresh_ok.
  - induction rest; simpl; constructor; auto. apply fresh_quiet.
Qed.

Lemma Inv_step l s s' : Inv s -> apply_label l s = Some s' -> Inv s'.
Proof.
  intros (H1 & H2 & H3 & H4) Hl. split; [|split; [|split]].
  - apply (procs_ok_step l s); assumption.
  - apply (Ginv_step l s); assumption.
  - apply (PInv_step l s); assumption.
  - apply (QInv_step l s); assumption.
Qed.

Lemma Inv_exec tr s s' : Inv s -> exec tr s = Some s' -> Inv s'.
Proof. apply (exec_inv Inv Inv_step). Qed.

(* ---- from the invariants to the specification ---------------------------------------------------------------- *)

Lemma nth_ddead l i m :
  Forall ddead l -> nth_error (map member_of l) i = Some m -> m_disp m = Default ->
  nth_error (map p_alive l) i = Some false.
Proof.
  intros H. revert i. induction H as [|p l Hp Hl IH]; intros [|i]; simpl; try discriminate.
  - intros Hm Hd. injection Hm as <-. simpl in Hd. now rewrite (Hp Hd).
  - apply IH.
Qed.

Lemma nth_dead l i a : Forall dead l -> nth_error (map p_alive l) i = Some a -> a = false.
Proof.
  intros H. revert i. induction H as [|p l Hp Hl IH]; intros [|i]; simpl; try discriminate.
  - intros Ha. injection Ha as <-. exact Hp.
  - apply IH.
Qed.

Lemma quiet_alive p : quiet_ok p -> p_alive p = negb (p_self p).
Proof.
  unfold quiet_ok, p_alive. destruct (p_st p).
  - intros [-> _]. reflexivity.
  - intros ->. reflexivity.
Qed.

Lemma nth_quiet l i a :
  Forall quiet_ok l -> nth_error (map p_alive l) i = Some a -> a = negb (nth i (map p_self l) false).
Proof.
  intros H. revert i. induction H as [|p l Hp Hl IH]; intros [|i]; simpl; try discriminate.
  - intros Ha. injection Ha as <-. now apply quiet_alive.
  - apply IH.
Qed.

Lemma cut_from_KInv s c :
  KInv s -> procs_ok s -> Ginv s -> s_pc s = PExit c ->
  cut_ok (members_of s) (history_of s) (observe s).
Proof.
  destruct s as [pc g st tmo ar m r rp k ev lt up sl].
  unfold KInv, procs_ok, Ginv, cut_ok, members_of, history_of, observe, final_sig; simpl.
  intros (Hg & Hev & Hsl & H) (Hpm & Hpr) (_ & _ & Hfin) ->. subst sl.
  destruct Hfin as [[Hs _]|Hfin]; [discriminate|].
  unfold done_inv, grp_ddead, grp_dead in H. simpl in H.
  destruct H as ((Hr & Hst & (Hdm & Hdr) & Hk) & Hc). subst rp.
  split; [now rewrite !map_length|].
  exists c. split; [reflexivity|]. split; [reflexivity|].
  assert (Hall : Forall ddead (m :: r)) by (constructor; assumption).
  split; [|split; [|split]].
  - intros i mm Hn Hd. apply (nth_ddead (m :: r) i mm Hall Hn Hd).
  - destruct Hk as [Hk|(Hk & Hi & Hm' & Hr')]; [left; exact Hk|right].
    split; [exact Hk|]. split; [simpl; now rewrite Hi|].
    intros i a Hn. apply (nth_dead (m :: r) i a); [constructor; assumption|exact Hn].
  - intros Hf. rewrite Hf in Hfin. subst g. rewrite Hc. apply exitstatus_alrm.
  - destruct Hg as [-> | ->]; [|left; rewrite Hc, exitstatus_alrm; discriminate].
    unfold proc_ok in Hpm. rewrite Hst in Hpm.
    destruct Hpm as [(Hself & kk & Hearly & Hw)|(Hself & [(Hw & _)|Hw])].
    + rewrite Hw in Hc. rewrite exitstatus_exited in Hc by discriminate.
      destruct (Z.eq_dec (kk mod 256) 0) as [Hz|Hnz].
      * right. exists (member_of m), (map member_of r), kk. simpl. repeat split; auto.
      * left. now rewrite Hc.
    + left. rewrite Hc, Hw. discriminate.
    + left. rewrite Hc, Hw. discriminate.
Qed.

Lemma uncut_from_QInv s :
  QInv s -> Ginv s -> s_event s = None ->
  uncut_ok (members_of s) (history_of s) (observe s).
Proof.
  destruct s as [pc g st tmo ar m r rp k ev lt up sl].
  unfold QInv, Ginv, uncut_ok, exit_code_ok, members_of, history_of, observe, final_sig; simpl.
  intros H (_ & Hla & Hfin) ->. destruct (H eq_refl) as (Hk & Hqm & Hqr & Hp). clear H.
  destruct Hfin as [[_ Hx]|Hfin]; [contradiction|].
  split; [now rewrite !map_length|]. split; [exact Hk|].
  split; [intros sg; destruct pc; try discriminate; contradiction|].
  split.
  - intros i a Hn. apply (nth_quiet (m :: r) i a); [constructor; assumption|exact Hn].
  - intros c Hc. destruct pc; try discriminate. injection Hc as ->.
    destruct Hp as (-> & Hst & Hcode). split; [reflexivity|].
    unfold quiet_ok in Hqm. rewrite Hst in Hqm. destruct Hqm as (Hself & kk & Hearly & Hw).
    exists (member_of m), (map member_of r), kk. simpl.
    split; [reflexivity|]. split; [exact Hearly|]. split; [exact Hself|].
    destruct sl.
    { rewrite Hw in Hcode. rewrite exitstatus_exited in Hcode by discriminate.
      destruct (Z.eqb_spec (kk mod 256) 0) as [Hz|Hnz]; subst c; [split; [discriminate|contradiction]|].
      split; [exact Hnz|reflexivity]. }
    simpl in Hfin. destruct lt as [x|].
    + destruct (Hla x eq_refl) as [[-> | ->] _]; subst g.
      * left. split; [discriminate|]. rewrite Hcode, Hw. now apply exitstatus_exited.
      * right. split; [reflexivity|]. rewrite Hcode. apply exitstatus_alrm.
    + subst g. left. split; [discriminate|]. rewrite Hcode, Hw. now apply exitstatus_exited.
Qed.

(* ---- the two positive results ------------------------------------------------------------------------------------- *)

Lemma arrive_waiting_KInv sig s s1 :
  PInv s -> s_pc s = PWaiting -> arrive sig s = Some s1 -> KInv s1.
Proof.
  destruct s as [pc g st tmo ar m r rp k ev lt up sl]. unfold PInv, arrive; simpl. intros H ->. simpl.
  destruct H as (-> & -> & ->).
  destruct (Z.eqb_spec sig SIGTERM) as [->|_].
  - intros Hs. injection Hs as <-. unfold KInv; simpl. repeat split; auto; [now left|discriminate].
  - destruct (Z.eqb_spec sig SIGALRM) as [->|_]; [|discriminate]. destruct ar; [|discriminate].
    intros Hs. injection Hs as <-. unfold KInv; simpl. repeat split; auto; [now right|discriminate].
Qed.

Lemma KInv_exec tr s s' : KInv s -> exec tr s = Some s' -> KInv s'.
Proof. apply (exec_inv KInv KInv_step). Qed.

Lemma KInv_terminated s : KInv s -> terminated (s_pc s) = true -> exists c, s_pc s = PExit c.
Proof.
  unfold KInv. intros (_ & _ & _ & H) Ht. destruct (s_pc s); try discriminate; [eauto|contradiction].
Qed.

Lemma killed_from_waiting t timeout tr1 s sig s1 tr2 s' :
  exec tr1 (init_tree t timeout) = Some s -> s_pc s = PWaiting -> arrive sig s = Some s1 ->
  exec tr2 s1 = Some s' -> terminated (s_pc s') = true ->
  cut_ok (flatten t) (history_of s') (observe s').
Proof.
  intros H1 Hpc Ha H2 Ht.
  assert (Hi : Inv s) by (apply (Inv_exec tr1 (init_tree t timeout)); [apply Inv_init|exact H1]).
  assert (Hk1 : KInv s1) by (apply (arrive_waiting_KInv sig s); [apply Hi|exact Hpc|exact Ha]).
  assert (Hi1 : Inv s1) by (apply (Inv_step (LArrive sig) s); assumption).
  assert (Hi' : Inv s') by (apply (Inv_exec tr2 s1); assumption).
  assert (Hk' : KInv s') by (apply (KInv_exec tr2 s1); assumption).
  destruct (KInv_terminated s' Hk' Ht) as [c Hc].
  rewrite <- (members_init_tree t timeout).
  rewrite <- (members_exec tr1 _ _ H1).
  rewrite <- (members_step (LArrive sig) s s1 Ha).
  rewrite <- (members_exec tr2 _ _ H2).
  apply (cut_from_KInv s' c); [exact Hk'|apply Hi'|apply Hi'|exact Hc].
Qed.

Lemma no_event_no_cut t timeout tr s' :
  exec tr (init_tree t timeout) = Some s' -> s_event s' = None ->
  uncut_ok (flatten t) (history_of s') (observe s').
Proof.
  intros H He.
  assert (Hi : Inv s') by (apply (Inv_exec tr (init_tree t timeout)); [apply Inv_init|exact H]).
  rewrite <- (members_init_tree t timeout). rewrite <- (members_exec tr _ _ H).
  apply uncut_from_QInv; [apply Hi|apply Hi|exact He].
Qed.

Definition no_arrival (tr : list label) : bool := forallb (fun l => negb (is_arrival l)) tr.

Lemma quiet_step l s s' :
  is_arrival l = false -> apply_label l s = Some s' ->
  s_event s' = s_event s /\ s_late s' = s_late s /\ s_gotsig s' = s_gotsig s.
Proof.
  destruct s as [pc g st tmo ar m r rp k ev lt up sl]. intros Hl H.
  destruct l as [|sig|i|]; [|discriminate| |]; simpl in H.
  - unfold rstep, main_zombie in H; simpl in H. split_step H; simpl; auto.
  - unfold exit_member in H; simpl in H. split_step H; simpl; auto.
  - unfold group_up in H; simpl in H. split_step H; simpl; auto.
Qed.

Lemma quiet_exec tr s s' :
  no_arrival tr = true -> exec tr s = Some s' ->
  s_event s' = s_event s /\ s_late s' = s_late s /\ s_gotsig s' = s_gotsig s.
Proof.
  revert s. induction tr as [|l tr IH]; simpl; intros s Hn H.
  - injection H as <-. auto.
  - apply andb_prop in Hn. destruct Hn as [Hl Hn]. apply negb_true_iff in Hl.
    destruct (apply_label l s) as [s1|] eqn:E; [|discriminate].
    destruct (quiet_step l s s1 Hl E) as (E1 & E2 & E3).
    destruct (IH s1 Hn H) as (F1 & F2 & F3). rewrite F1, F2, F3. auto.
Qed.

Lemma no_signal_no_cut t timeout tr s' :
  exec tr (init_tree t timeout) = Some s' -> no_arrival tr = true ->
  h_event (history_of s') = None /\ h_late (history_of s') = None /\
  uncut_ok (flatten t) (history_of s') (observe s').
Proof.
  intros H Hn. destruct (quiet_exec tr _ _ Hn H) as (E1 & E2 & _). simpl in E1, E2.
  split; [exact E1|]. split; [exact E2|]. apply (no_event_no_cut t timeout tr); assumption.
Qed.

(* ---- once the main process has been reaped nothing is an event any more ---------------------------------- *)

Lemma reaped_step l s s' :
  s_reaped s = true -> apply_label l s = Some s' -> s_reaped s' = true /\ s_event s' = s_event s.
Proof.
  destruct s as [pc g st tmo ar m r rp k ev lt up sl]. simpl. intros -> H. destruct l as [|sig|i|]; simpl in H.
  - unfold rstep, main_zombie in H; simpl in H. split_step H; simpl; auto.
  - unfold arrive in H; simpl in H. rewrite andb_false_r in H. simpl in H. split_step H; simpl; auto.
  - unfold exit_member in H; simpl in H. split_step H; simpl; auto.
  - unfold group_up in H; simpl in H. split_step H; simpl; auto.
Qed.

Lemma reaped_exec tr s s' :
  s_reaped s = true -> exec tr s = Some s' -> s_event s' = s_event s.
Proof.
  revert s. induction tr as [|l tr IH]; simpl; intros s Hr H.
  - now injection H as <-.
  - destruct (apply_label l s) as [s1|] eqn:E; [|discriminate].
    destruct (reaped_step l s s1 Hr E) as [Hr1 He1]. rewrite (IH s1 Hr1 H). exact He1.
Qed.

(* ---- the script interpreter only produces reachable states ----------------------------------------------------------------- *)

Lemma run_until_reachable stop fuel : forall s,
  exists n, exec (repeat LRun n) s = Some (fst (run_until stop fuel s)).
Proof.
  induction fuel as [|f IH]; intros s; simpl.
  - exists 0%nat. reflexivity.
  - destruct (rstep s) as [s1|] eqn:E.
    + destruct (stop s1).
      * exists 1%nat. simpl. now rewrite E.
      * destruct (IH s1) as [n Hn]. exists (S n). simpl. now rewrite E.
    + exists 0%nat. reflexivity.
Qed.

Local Arguments run_until : simpl never.

Lemma interp1_reachable a st : exists tr, exec tr (i_state st) = Some (i_state (interp1 a st)).
Proof.
  destruct st as [s md rc ry]. simpl.
  assert (Hrun : forall stop (k : state -> outcome -> istate),
            (forall s' o, i_state (k s' o) = s') ->
            exists tr, exec tr s = Some (i_state (let (s', o) := run_until stop run_fuel s in k s' o))).
  { intros stop k Hk. destruct (run_until_reachable stop run_fuel s) as [n Hn].
    exists (repeat LRun n). rewrite Hn. destruct (run_until stop run_fuel s) as [s' o]. simpl. now rewrite Hk. }
  destruct a as [p| |sig|i| | | |]; simpl.
  - destruct md; try (apply Hrun; reflexivity).
    + destruct (at_point p s); [exists []; reflexivity|apply Hrun; reflexivity].
    + exists []; reflexivity.
  - apply Hrun; reflexivity.
  - destruct md; try (exists []; reflexivity);
      (destruct (arrive sig s) as [s'|] eqn:E; [exists [LArrive sig]; simpl; now rewrite E|exists []; reflexivity]).
  - destruct (exit_member i s) as [s'|] eqn:E; [|exists []; reflexivity].
    exists [LExit i]. simpl. rewrite E. destruct md; reflexivity.
  - apply Hrun; reflexivity.
  - exists []; reflexivity.
  - destruct (group_up s) as [s'|] eqn:E; [|exists []; reflexivity].
    exists [LUp]. simpl. rewrite E. destruct md; reflexivity.
  - destruct md; try (exists []; reflexivity);
      (destruct (arrive SIGALRM s) as [s'|] eqn:E; [exists [LArrive SIGALRM]; simpl; now rewrite E|exists []; reflexivity]).
Qed.

Lemma interp_reachable script s : exists tr, exec tr s = Some (i_state (interp script s)).
Proof.
  assert (H : forall script st, exists tr, exec tr (i_state st) =
                Some (i_state (fold_left (fun st a => interp1 a st) script st))).
  { clear. induction script as [|a script IH]; intros st; simpl.
    - exists []. reflexivity.
    - destruct (interp1_reachable a st) as [tr1 H1]. destruct (IH (interp1 a st)) as [tr2 H2].
      exists (tr1 ++ tr2). rewrite (exec_app tr1 tr2 _ _ H1). exact H2. }
  assert (Hup : forall script, exists tr, exec tr s =
             Some (i_state (fold_left (fun st a => interp1 a st) script
                      (mkistate (match group_up s with Some s' => s' | None => s end) Free [] false)))).
  { intros sc. destruct (group_up s) as [s1|] eqn:E.
    - destruct (H sc (mkistate s1 Free [] false)) as [tr Htr]. exists (LUp :: tr). simpl. rewrite E. exact Htr.
    - apply (H sc (mkistate s Free [] false)). }
  unfold interp. destruct script as [|a script]; [apply Hup|].
  destruct a; try apply Hup. apply (H script (mkistate s Free [] false)).
Qed.

(* ---- the boolean oracle reflects the specification ------------------------------------------------------------------------------ *)

Lemma zlist_eqb_eq a b : zlist_eqb a b = true <-> a = b.
Proof.
  revert b. induction a as [|x a IH]; intros [|y b]; simpl; split; try discriminate; auto.
  - intros H. apply andb_prop in H. destruct H as [H1 H2]. apply Z.eqb_eq in H1. apply IH in H2. congruence.
  - intros H. injection H as -> ->. rewrite Z.eqb_refl. simpl. now apply IH.
Qed.

Lemma default_dead_spec ms : forall alive, length alive = length ms ->
  (default_dead ms alive = true <->
   forall i m, nth_error ms i = Some m -> m_disp m = Default -> nth_error alive i = Some false).
Proof.
  induction ms as [|m ms IH]; intros [|a al]; simpl; intros Hlen; try discriminate.
  - split; [intros _ [|i] x Hx; discriminate|auto].
  - injection Hlen as Hlen. specialize (IH al Hlen). split.
    + intros H. apply andb_prop in H. destruct H as [H1 H2]. intros [|i] x; simpl.
      * intros Hx Hd. injection Hx as <-. rewrite Hd in H1. simpl in H1.
        destruct a; [discriminate|reflexivity].
      * apply IH. exact H2.
    + intros H. apply andb_true_intro. split.
      * destruct (m_disp m) eqn:D; [|reflexivity]. simpl.
        specialize (H 0%nat m eq_refl D). simpl in H. injection H as ->. reflexivity.
      * apply IH. intros i x. apply (H (S i) x).
Qed.

Lemma all_dead_spec alive :
  all_dead alive = true <-> forall i a, nth_error alive i = Some a -> a = false.
Proof.
  unfold all_dead. induction alive as [|b al IH]; simpl; split; auto.
  - intros _ [|i] a H; discriminate.
  - intros H. apply andb_prop in H. destruct H as [H1 H2]. intros [|i] a; simpl.
    + intros Ha. injection Ha as <-. now destruct b.
    + apply IH. exact H2.
  - intros H. apply andb_true_intro. split.
    + rewrite (H 0%nat b eq_refl). reflexivity.
    + apply IH. intros i a. apply (H (S i) a).
Qed.

Lemma nth_tl {A} i (l : list A) d : nth i (tl l) d = nth (S i) l d.
Proof. destruct l; simpl; [now destruct i|reflexivity]. Qed.

Lemma alive_matches_spec alive : forall self,
  alive_matches alive self = true <->
  forall i a, nth_error alive i = Some a -> a = negb (nth i self false).
Proof.
  induction alive as [|b al IH]; intros self; simpl; split; auto.
  - intros _ [|i] a H; discriminate.
  - intros H. apply andb_prop in H. destruct H as [H1 H2]. intros [|i] a; simpl.
    + intros Ha. injection Ha as <-. apply eqb_prop in H1. rewrite H1. now destruct self.
    + intros Ha. rewrite <- nth_tl. apply (proj1 (IH (tl self)) H2 i a Ha).
  - intros H. apply andb_true_intro. split.
    + rewrite (H 0%nat b eq_refl). destruct self as [|x self]; simpl; [reflexivity|apply eqb_reflx].
    + apply IH. intros i a Ha. rewrite nth_tl. apply (H (S i) a Ha).
Qed.

Lemma main_exited_zerob_spec ms h : main_exited_zerob ms h = true <-> main_exited_zero ms h.
Proof.
  unfold main_exited_zerob, main_exited_zero. split.
  - destruct ms as [|m ms']; [discriminate|]. destruct (m_early m) as [c|] eqn:E; [|discriminate].
    intros H. apply andb_prop in H. destruct H as [H1 H2]. apply Z.eqb_eq in H1.
    exists m, ms', c. auto.
  - intros (m & ms' & c & -> & E & Hc & Hs). rewrite E, Hc, Hs. reflexivity.
Qed.

Lemma main_ignores_spec ms : main_ignores ms = true <-> main_disp ms = Some Ignore.
Proof.
  unfold main_ignores, main_disp. destruct ms as [|m ms']; [split; discriminate|].
  destruct (m_disp m); simpl; split; intros H; try discriminate; reflexivity.
Qed.

Lemma cut_okb_iff ms h o : cut_okb ms h o = true <-> cut_ok ms h o.
Proof.
  unfold cut_okb, cut_ok. split.
  - intros H. apply andb_prop in H. destruct H as [Hlen H]. apply Nat.eqb_eq in Hlen.
    split; [exact Hlen|].
    destruct (o_result o) as [c|g|]; try discriminate.
    destruct (o_main o); try discriminate.
    apply andb_prop in H. destruct H as [H HD].
    apply andb_prop in H. destruct H as [H HC].
    apply andb_prop in H. destruct H as [HA HB].
    exists c. split; [reflexivity|]. split; [reflexivity|].
    split; [apply default_dead_spec; assumption|].
    split; [|split].
    + apply orb_prop in HB. destruct HB as [HB|HB].
      * left. now apply zlist_eqb_eq.
      * right. apply andb_prop in HB. destruct HB as [HB H3]. apply andb_prop in HB. destruct HB as [H1 H2].
        split; [now apply zlist_eqb_eq|]. split; [now apply main_ignores_spec|now apply all_dead_spec].
    + intros Hf. rewrite Hf in HC. simpl in HC. now apply Z.eqb_eq.
    + apply orb_prop in HD. destruct HD as [HD|HD].
      * left. apply negb_true_iff in HD. now apply Z.eqb_neq.
      * right. now apply main_exited_zerob_spec.
  - intros [Hlen (c & Hr & Hm & HA & HB & HC & HD)]. rewrite Hr, Hm.
    apply andb_true_intro. split; [now apply Nat.eqb_eq|].
    apply andb_true_intro. split; [apply andb_true_intro; split; [apply andb_true_intro; split|]|].
    + apply default_dead_spec; assumption.
    + apply orb_true_intro. destruct HB as [HB|(H1 & H2 & H3)].
      * left. now apply zlist_eqb_eq.
      * right. apply andb_true_intro. split; [apply andb_true_intro; split|].
        -- now apply zlist_eqb_eq.
        -- now apply main_ignores_spec.
        -- now apply all_dead_spec.
    + unfold opt_is. destruct (final_sig h) as [g|]; [|reflexivity].
      destruct (Z.eqb_spec g SIGALRM) as [->|Hn]; [|reflexivity]. simpl. apply Z.eqb_eq. now apply HC.
    + apply orb_true_intro. destruct HD as [HD|HD].
      * left. apply negb_true_iff. now apply Z.eqb_neq.
      * right. now apply main_exited_zerob_spec.
Qed.

Lemma opt_is_spec o v : opt_is o v = true <-> o = Some v.
Proof.
  unfold opt_is. destruct o as [x|]; [|split; discriminate].
  split; [intros H; apply Z.eqb_eq in H; now subst|intros H; injection H as ->; apply Z.eqb_refl].
Qed.

Lemma uncut_okb_iff ms h o : uncut_okb ms h o = true <-> uncut_ok ms h o.
Proof.
  unfold uncut_okb, uncut_ok. split.
  - intros H. apply andb_prop in H. destruct H as [H HR].
    apply andb_prop in H. destruct H as [H HA].
    apply andb_prop in H. destruct H as [Hlen HK].
    apply Nat.eqb_eq in Hlen. apply zlist_eqb_eq in HK.
    split; [exact Hlen|]. split; [exact HK|].
    split; [intros g Hg; rewrite Hg in HR; discriminate|].
    split; [now apply alive_matches_spec|].
    intros c Hc. rewrite Hc in HR.
    destruct (o_main o); try discriminate. destruct ms as [|m ms']; [discriminate|].
    destruct (m_early m) as [k|] eqn:E; [|discriminate].
    apply andb_prop in HR. destruct HR as [Hs HR].
    split; [reflexivity|]. exists m, ms', k. split; [reflexivity|]. split; [exact E|]. split; [exact Hs|].
    destruct (h_slow h).
    { apply andb_prop in HR. destruct HR as [H1 H2]. apply negb_true_iff in H1. apply Z.eqb_neq in H1.
      split; [exact H1|]. intros Hk. apply orb_prop in H2. destruct H2 as [H2|H2].
      - apply Z.eqb_eq in H2. contradiction.
      - now apply Z.eqb_eq. }
    destruct (opt_is (h_late h) SIGALRM) eqn:El.
    + right. split; [now apply opt_is_spec|now apply Z.eqb_eq].
    + left. split; [intros Hl; apply opt_is_spec in Hl; congruence|now apply Z.eqb_eq].
  - intros (Hlen & HK & HNK & HA & HX).
    apply andb_true_intro. split; [apply andb_true_intro; split; [apply andb_true_intro; split|]|].
    + now apply Nat.eqb_eq.
    + now apply zlist_eqb_eq.
    + now apply alive_matches_spec.
    + destruct (o_result o) as [c|g|] eqn:Er; [|exfalso; now apply (HNK g)|reflexivity].
      destruct (HX c eq_refl) as (Hm & m & ms' & k & -> & E & Hs & Hc). rewrite Hm, E, Hs. simpl.
      destruct (h_slow h).
      { destruct Hc as [Hc0 Hck]. apply andb_true_intro. split.
        - apply negb_true_iff. now apply Z.eqb_neq.
        - destruct (Z.eqb_spec (k mod 256) 0) as [Hz|Hnz]; [reflexivity|]. simpl. apply Z.eqb_eq. now apply Hck. }
      destruct Hc as [(Hl & ->)|(Hl & ->)].
      * destruct (opt_is (h_late h) SIGALRM) eqn:El; [apply opt_is_spec in El; contradiction|apply Z.eqb_refl].
      * rewrite (proj2 (opt_is_spec _ _) Hl). reflexivity.
Qed.

Lemma spec_okb_iff ms h o : spec_okb ms h o = true <-> spec ms h o.
Proof.
  unfold spec_okb, spec. destruct (h_event h); [apply cut_okb_iff|apply uncut_okb_iff].
Qed.
