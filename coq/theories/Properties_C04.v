(* Properties_C04.v - steps run in configured order behind barriers and stop at the first failure.
   System: OrchDefs.v - the loop of robsd() and the jobs it forks, every schedule of main-loop moves and job
   moves (a list of actions of any length; moves that are not enabled are skipped).  [oreach] = reachable from
   the initial state of a configuration; [wf_cfg], [file_of_cfg], [skip_agrees], [end_last], [fresh_ok] are
   the named hypotheses of Orch/Statements.v.
   The property-shaped checker OrchSpec.spec_ok_trace (the oracle the harness applies to real canvas runs) is
   PROVED to accept every run of the model, and Orch/TraceMeaning.v says what its acceptance means on the
   sequence of starts and ends itself.
   ASSUMED: the contract of robsd-wait (see OrchDefs.v; no line of robsd-wait.c is checked) and the shell's
   process control.  The tie to util.sh: harness/t_orch.py writes the statement groups of robsd()'s loop body and
   of step_exec_job() down in source order (gen/Gen_Orch.v); Orch/ShapeSem.v gives statement lists their meaning
   and the LAST theorems of this file prove that the lists found in util.sh mean main_step / job_step.
   Ends of an invocation outside [terminal] (the loop running out of schedule lines) and the skip set of a
   resumed invocation are stated with `_refuted` witnesses in the section before the tie. *)
From Robsd Require Import Orch.OrchSpec Orch.OrchProofs Orch.AccountProofs Orch.ResumeProofs.
From Robsd Require Import Orch.OrchSteps Orch.TraceMeaning Orch.TraceOracle Orch.NonInterf Orch.FreshFile Orch.Statements Orch.ModelShape.
From Robsd Require Import Orch.ShapeSem Orch.OrchTie Orch.LoopEnd Orch.LoopEndProofs Orch.AccountOracle.
From RobsdGen Require Import Gen_Orch.
Local Open Scope Z_scope.

(* ---- the state invariant -------------------------------------------------------------------------------- *)

(* the invariant holds in every reachable state of every configuration and schedule *)
Theorem C04_invariant : forall ncpu exit_of name_of steps f0 sched,
  NoDup (map p_id steps) -> (forall p, In p steps -> p_exit p = exit_of (p_id p)) ->
  OInv ncpu exit_of (orun ncpu exit_of name_of (oinit steps f0) sched).
Proof. exact (fun ncpu exit_of name_of steps f0 sched H1 H2 => inv_run ncpu exit_of name_of sched _ (inv_init ncpu exit_of steps f0 H1 H2)). Qed.
Print Assumptions C04_invariant.

(* never more than ncpu parallel steps at once *)
Theorem C04_ncpu_bound : forall ncpu exit_of s,
  OInv ncpu exit_of s ->
  (length (filter (fun i => negb (existsb (Z.eqb i) (fg s))) (rids s)) <= ncpu)%nat.
Proof. exact ncpu_bound. Qed.
Print Assumptions C04_ncpu_bound.

(* a step starts only at the head of the loop, in configuration order (it is the head of the remaining
   schedule), never when skipped; a synchronous step only when nothing at all is running (barrier); a parallel
   step only when no synchronous step is running (everything running is a remembered parallel job) *)
Theorem C04_start_conditions : forall ncpu exit_of s s' i par,
  OInv ncpu exit_of s -> main_step ncpu s = Some s' -> evlog s' = evlog s ++ [EStart i par] ->
  mode s = AtHead /\
  (exists p rest, todo s = p :: rest /\ p_id p = i /\ p_par p = par /\ skipped (sfile_ s) (p_name p) = false) /\
  (par = false -> running s = []) /\
  (forall k, In k (rids s) -> In k (jobs s)).
Proof. exact start_conditions. Qed.
Print Assumptions C04_start_conditions.

(* ---- the property-shaped checker accepts every run -------------------------------------------------------- *)

(* the sequence of step starts and ends of EVERY reachable state - any configuration, any step file of that
   configuration (fresh or resumed), any ncpu, any schedule - passes the checker: order, skip, barrier,
   earlier synchronous steps finished, ncpu bound, nothing after a synchronous failure *)
Theorem C04_checker_accepts_every_run : forall ncpu exit_of name_of steps f0 skip,
  wf_cfg exit_of name_of steps -> file_of_cfg steps f0 -> skip_agrees steps f0 skip ->
  forall s, oreach ncpu exit_of name_of steps f0 s ->
  exists t, check_trace steps skip ncpu t_init (tev_of name_of (evlog s)) = Some t.
Proof. exact S_check_trace_accepts. Qed.
Print Assumptions C04_checker_accepts_every_run.

(* the whole oracle (the trace; exit status non-zero iff a synchronous step failed; end recorded iff none
   failed, and then every step that is not skipped ran to its end; nothing left running) accepts every state
   in which the invocation has ended.  Guard: the initial file has no end record (an invocation resumed AT the
   end step is the one-step configuration [end]) and end is the last configured step *)
Theorem C04_oracle_accepts_every_ended_run_partial : forall ncpu exit_of name_of steps f0 skip,
  wf_cfg exit_of name_of steps -> file_of_cfg steps f0 -> skip_agrees steps f0 skip ->
  has_end f0 = false -> end_last steps ->
  forall s d, oreach ncpu exit_of name_of steps f0 s -> terminal s ->
  spec_ok_trace steps skip ncpu (tev_of name_of (evlog s))
                (e_status (trap_exit (mode s) (sfile_ s) d)) (has_end (sfile_ s)) = true.
Proof. exact S_spec_ok_trace_accepts. Qed.
Print Assumptions C04_oracle_accepts_every_ended_run_partial.

(* outside the guard: a step file that already holds an end record, handed to a configuration in which a
   synchronous step fails, ends failed WITH an end record - the oracle rejects.  (canvas never does this: -r
   resumes such a file at the end step only, step_next / C03.) *)
Theorem C04_oracle_accepts_every_ended_run_refuted :
  exists ncpu exit_of name_of steps f0 skip s,
    wf_cfg exit_of name_of steps /\ file_of_cfg steps f0 /\ skip_agrees steps f0 skip /\ end_last steps /\
    has_end f0 = true /\
    oreach ncpu exit_of name_of steps f0 s /\ terminal s /\
    spec_ok_trace steps skip ncpu (tev_of name_of (evlog s))
                  (e_status (trap_exit (mode s) (sfile_ s) false)) (has_end (sfile_ s)) = false.
Proof. exact stale_end_record_witness. Qed.
Print Assumptions C04_oracle_accepts_every_ended_run_refuted.

(* a fresh invocation, hypotheses on the configuration and the skip set only: ids ascending, distinct names,
   end last and synchronous, every skipped name configured, end not skipped; the step file is the skip records *)
Theorem C04_oracle_accepts_every_fresh_run : forall ncpu exit_of name_of steps skip,
  wf_cfg exit_of name_of steps -> end_last steps -> fresh_ok steps skip ->
  forall s d, oreach ncpu exit_of name_of steps (skip_file steps skip) s -> terminal s ->
  spec_ok_trace steps skip ncpu (tev_of name_of (evlog s))
                (e_status (trap_exit (mode s) (sfile_ s) d)) (has_end (sfile_ s)) = true.
Proof. exact F_trace_oracle. Qed.
Print Assumptions C04_oracle_accepts_every_fresh_run.

(* ---- what acceptance means, on the sequence itself (no model involved) ------------------------------------- *)

(* every start in an accepted sequence: a configured step, not skipped, not end, for the first time; every
   earlier step of the configuration skipped or started before (configuration order, nothing skipped over);
   every earlier synchronous step finished; a synchronous step only after every step started before it has
   ended (barrier); a parallel step only while fewer than ncpu steps run *)
Theorem C04_accepted_start_obeys_the_rules : forall cfg skip ncpu tr1 n tr2 t,
  check_trace cfg skip ncpu t_init (tr1 ++ TStart n :: tr2) = Some t ->
  exists p, find_pstep cfg n = Some p /\
    mem_name n skip = false /\ n <> END /\ ~ In (TStart n) tr1 /\
    (forall q, In q (before cfg n) -> mem_name (p_name q) skip = true \/ In (TStart (p_name q)) tr1) /\
    (forall q, In q (before cfg n) -> p_par q = false ->
               mem_name (p_name q) skip = true \/ exists e, In (TEnd (p_name q) e) tr1) /\
    (p_par p = false -> forall m, In (TStart m) tr1 -> exists e, In (TEnd m e) tr1) /\
    (p_par p = true -> (nstarts tr1 - nends tr1 < ncpu)%nat).
Proof. exact accepted_start. Qed.
Print Assumptions C04_accepted_start_obeys_the_rules.

(* after a synchronous step has ended with a non-zero status an accepted sequence contains no further start *)
Theorem C04_accepted_sequence_stops_after_sync_failure : forall cfg skip ncpu tr1 n e tr2 t p,
  check_trace cfg skip ncpu t_init (tr1 ++ TEnd n e :: tr2) = Some t ->
  find_pstep cfg n = Some p -> p_par p = false -> e <> 0 ->
  t_syncfailed t = true /\ forall m, ~ In (TStart m) tr2.
Proof. exact accepted_stops_after_sync_failure. Qed.
Print Assumptions C04_accepted_sequence_stops_after_sync_failure.

(* the whole oracle: exit status non-zero iff the failure flag is up, and the flag is up only because a
   synchronous step ended with a non-zero status; end recorded iff not; completeness; nothing left running *)
Theorem C04_oracle_meaning : forall cfg skip ncpu tr exit endrec,
  spec_ok_trace cfg skip ncpu tr exit endrec = true ->
  exists t, check_trace cfg skip ncpu t_init tr = Some t /\
    (exit <> 0 <-> t_syncfailed t = true) /\
    (endrec = true <-> t_syncfailed t = false) /\
    (endrec = true -> forall p, In p cfg -> p_name p = END \/ mem_name (p_name p) skip = true \/ exists e, In (TEnd (p_name p) e) tr) /\
    (forall m, In (TStart m) tr -> exists e, In (TEnd m e) tr).
Proof. exact spec_ok_trace_meaning. Qed.
Print Assumptions C04_oracle_meaning.

Theorem C04_failure_flag_has_a_cause : forall cfg skip ncpu tr t,
  check_trace cfg skip ncpu t_init tr = Some t -> t_syncfailed t = true ->
  exists n e p, In (TEnd n e) tr /\ find_pstep cfg n = Some p /\ p_par p = false /\ e <> 0.
Proof. exact syncfailed_has_cause. Qed.
Print Assumptions C04_failure_flag_has_a_cause.

(* ---- "does not wait for other parallel steps": enabledness ------------------------------------------------- *)

(* a parallel step at the head of the schedule that is not skipped is started by the next move of the main
   loop whenever the queue is not full - whatever else is running *)
Theorem C04_parallel_start_enabled : forall ncpu s p rest,
  mode s = AtHead -> todo s = p :: rest -> p_par p = true -> skipped (sfile_ s) (p_name p) = false ->
  (length (jobs s) < ncpu)%nat ->
  exists s', main_step ncpu s = Some s' /\ evlog s' = evlog s ++ [EStart (p_id p) true] /\
             todo s' = rest /\ mode s' = AtHead /\ running s' = running s ++ [(p_id p, JStarted)].
Proof. exact parallel_start_enabled. Qed.
Print Assumptions C04_parallel_start_enabled.

(* with a full queue it needs ONE remembered job to be gone, no more: two moves later the step runs next to
   everything that was still running *)
Theorem C04_parallel_start_after_one_gone : forall ncpu exit_of s p rest j,
  OInv ncpu exit_of s -> mode s = AtHead -> todo s = p :: rest -> p_par p = true -> skipped (sfile_ s) (p_name p) = false ->
  length (jobs s) = ncpu -> In j (jobs s) -> is_running s j = false ->
  exists s1 s2, main_step ncpu s = Some s1 /\ main_step ncpu s1 = Some s2 /\
                evlog s2 = evlog s ++ [EStart (p_id p) true] /\ running s2 = running s ++ [(p_id p, JStarted)].
Proof. exact parallel_start_after_one_gone. Qed.
Print Assumptions C04_parallel_start_after_one_gone.

(* the synchronous counterpart, TWO implications (not an iff: with jobs remembered that are all gone the next move is
   the barrier's, which clears them, and the start is the move after): enabled at once when nothing is remembered,
   blocked while a remembered job runs *)
Theorem C04_sync_start_enabled_when_barrier_clear : forall ncpu s p rest,
  mode s = AtHead -> todo s = p :: rest -> p_par p = false -> skipped (sfile_ s) (p_name p) = false ->
  (beq (p_name p) END = false -> jobs s = [] ->
   exists s', main_step ncpu s = Some s' /\ evlog s' = evlog s ++ [EStart (p_id p) false] /\
              todo s' = rest /\ mode s' = WaitSync (p_id p) (p_exit p)) /\
  (forall j, In j (jobs s) -> is_running s j = true -> main_step ncpu s = None).
Proof.
  exact (fun ncpu s p rest Em Et Ep Esk =>
           conj (fun Eend Ej => sync_start_enabled ncpu s p rest Em Et Ep Esk Eend Ej)
                (fun j Hj Hr => sync_start_blocked ncpu s p rest j Em Et Ep Esk Hj Hr)).
Qed.
Print Assumptions C04_sync_start_enabled_when_barrier_clear.

(* ---- stop at the first synchronous failure ------------------------------------------------------------------ *)

(* the failed mode is entered exactly because a started synchronous step finished with a non-zero status
   (replaces the definitional C04_stop_at_first_sync_failure) *)
Theorem C04_failed_iff_a_sync_step_failed : forall ncpu exit_of name_of steps f0,
  wf_cfg exit_of name_of steps -> file_of_cfg steps f0 ->
  forall s, oreach ncpu exit_of name_of steps f0 s ->
  (mode s = OFailed -> exists i, In (EStart i false) (evlog s) /\ In (EFinish i (exit_of i)) (evlog s) /\ exit_of i <> 0) /\
  (forall i e, In (EStart i false) (evlog s) -> In (EFinish i e) (evlog s) -> e <> 0 -> mode s = OFailed \/ mode s = WaitSync i e).
Proof. exact S_failed_iff_failing_sync. Qed.
Print Assumptions C04_failed_iff_a_sync_step_failed.

(* on the event log of any reachable state: after the finish of a synchronous step with a non-zero status no
   step is started, whatever the schedule does; and when the invocation has ended, it has failed with exit
   status 1 *)
Theorem C04_no_start_after_sync_failure : forall ncpu exit_of name_of steps f0 skip,
  wf_cfg exit_of name_of steps -> file_of_cfg steps f0 -> skip_agrees steps f0 skip ->
  forall s l1 i e l2 d, oreach ncpu exit_of name_of steps f0 s ->
  evlog s = l1 ++ EFinish i e :: l2 -> In (EStart i false) (evlog s) -> e <> 0 ->
  (forall j b, ~ In (EStart j b) l2) /\
  (terminal s -> mode s = OFailed /\ e_status (trap_exit (mode s) (sfile_ s) d) = 1).
Proof. exact S_stop_after_sync_failure. Qed.
Print Assumptions C04_no_start_after_sync_failure.

(* ---- a failing parallel step does not prevent later steps: non-interference ----------------------------------- *)

(* two configurations that differ only in the exit statuses of PARALLEL steps, run under the same schedule
   (their jobs may report any statuses): the same steps start in the same order at the same moves, the same
   moves are enabled, same mode, same remembered and running jobs, same names and skip flags recorded
   (replaces the definitional C04_parallel_failure_continues) *)
Theorem C04_parallel_exits_do_not_interfere : forall ncpu ex1 ex2 name_of steps1 steps2 f0 sched,
  Forall2 same_course steps1 steps2 ->
  let s1 := orun ncpu ex1 name_of (oinit steps1 f0) sched in
  let s2 := orun ncpu ex2 name_of (oinit steps2 f0) sched in
  start_pairs (evlog s1) = start_pairs (evlog s2) /\
  mode s1 = mode s2 /\ running s1 = running s2 /\ jobs s1 = jobs s2 /\
  map p_id (todo s1) = map p_id (todo s2) /\
  map frow (sfile_ s1) = map frow (sfile_ s2) /\
  (forall a, ostep ncpu ex1 name_of s1 a = None <-> ostep ncpu ex2 name_of s2 a = None).
Proof. exact parallel_exits_do_not_interfere. Qed.
Print Assumptions C04_parallel_exits_do_not_interfere.

(* end is recorded only if every synchronous step that was started succeeded *)
Theorem C04_end_only_if_all_sync_ok : forall ncpu exit_of s,
  OInv ncpu exit_of s -> mode s = ODone -> forall i, In (EStart i false) (evlog s) -> exit_of i = 0.
Proof. exact end_iff_sync_ok. Qed.
Print Assumptions C04_end_only_if_all_sync_ok.

(* non-vacuity: a, then p1 p2 p3 in parallel with ncpu = 2, then b fails *)
Example C04_example :
  let n := fun c => [c]%N in
  let steps := [mkpstep 1 (n 97%N) false 0; mkpstep 2 (n 112%N) true 0; mkpstep 3 (n 113%N) true 3;
                mkpstep 4 (n 114%N) true 0; mkpstep 5 (n 98%N) false 2; mkpstep 6 END false 0] in
  let ex := fun i => match i with 3 => 3 | 5 => 2 | _ => 0 end in
  let nm := fun i => match i with 1 => n 97%N | 2 => n 112%N | 3 => n 113%N | 4 => n 114%N | 5 => n 98%N | _ => END end in
  let sched := [AMain; AJob 1; AJob 1; AMain; AMain; AMain; AMain; AJob 2; AJob 3; AJob 3; AMain; AMain; AJob 4;
                AJob 2; AJob 4; AJob 2; AJob 4; AMain; AMain; AJob 5; AJob 5; AMain; AMain] in
  let s := orun 2 ex nm (oinit steps []) sched in
  mode s = OFailed /\ running s = [] /\
  map r_exit (sfile_ s) = [0; 0; 3; 0; 2] /\
  spec_ok_trace steps [] 2 (tev_of nm (evlog s)) (e_status (trap_exit (mode s) (sfile_ s) false)) (has_end (sfile_ s)) = true.
Proof. vm_compute. repeat split; reflexivity. Qed.

(* ---- ends of an invocation that are not [terminal] states; the skip set of a resumed invocation ----------------- *)

(* PROPERTY READING: whenever the shell leaves robsd() normally the invocation is in a terminal state (end recorded,
   or a synchronous step failed) - the `while read` loop never simply runs out of schedule lines.  PROVED for a
   fresh invocation whose configuration has an end step that is not skipped: every theorem above that speaks of
   [terminal] states then speaks of every way the invocation can end *)
Theorem C04_loop_never_runs_out_partial : forall ncpu exit_of name_of steps skip,
  wf_cfg exit_of name_of steps -> fresh_ok steps skip -> (exists p, In p steps /\ p_name p = END) ->
  forall s, oreach ncpu exit_of name_of steps (skip_file steps skip) s -> fell_off s = false.
Proof. exact fell_off_unreachable_fresh. Qed.
Print Assumptions C04_loop_never_runs_out_partial.

(* the same for any initial file of the configuration (a resumed invocation) in which end is not marked skipped *)
Theorem C04_loop_never_runs_out_resumed_partial : forall ncpu exit_of name_of steps f0,
  wf_cfg exit_of name_of steps -> file_of_cfg steps f0 -> (exists p, In p steps /\ p_name p = END) ->
  skipped f0 END = false ->
  forall s, oreach ncpu exit_of name_of steps f0 s -> fell_off s = false.
Proof. exact fell_off_unreachable. Qed.
Print Assumptions C04_loop_never_runs_out_resumed_partial.

(* REFUTED outside the guard - skip { "end" } (inside "skip sets from configuration and command line"): a, end with
   end skipped and no failure: the loop runs out of lines, the shell exits 0, the exit trap finds the SKIP record of
   end: report, mail, end hook.  Replayed on the real canvas (harness lane skip-end) *)
Theorem C04_loop_never_runs_out_refuted :
  let steps := [mkpstep 1 se_A false 0; mkpstep 2 END false 0] in
  let s := orun 1 (fun _ => 0) se_nm1 (oinit steps (skip_file steps [END])) [AMain; AJob 1; AJob 1; AMain; AMain] in
  fell_off s = true /\ mode s = AtHead /\ sfile_ s = [mkrow 1 se_A 0 0; mkrow 2 END 0 1] /\
  e_status (trap_exit_of s true) = 0 /\ e_report (trap_exit_of s true) = true /\ e_mail (trap_exit_of s true) = true /\
  e_endhook (trap_exit_of s true) = true.
Proof. exact skip_end_loop_runs_out. Qed.
Print Assumptions C04_loop_never_runs_out_refuted.

(* ... and with a PARALLEL last step the loop runs out WITHOUT the barrier: the invocation's exit trap runs while the
   step is in flight (record -1), status 0; the step's failure (exit 3) is recorded afterwards.  "each only after every
   previously started step has finished" fails for the end of the invocation itself *)
Theorem C04_invocation_ends_while_parallel_step_runs_refuted :
  let s := orun 2 se_ex2 se_nm2 (oinit se_steps2 (skip_file se_steps2 [END]))
             [AMain; AJob 1; AJob 1; AMain; AMain; AJob 2; AMain] in
  fell_off s = true /\ running s = [(2, JRunning)] /\
  sfile_ s = [mkrow 1 se_A 0 0; mkrow 2 se_P (-1) 0; mkrow 3 END 0 1] /\
  e_status (trap_exit_of s false) = 0 /\ e_report (trap_exit_of s false) = true /\ e_endhook (trap_exit_of s false) = true /\
  failing_record (sfile_ (orun 2 se_ex2 se_nm2 s [AJob 2])) = true.
Proof. exact skip_end_exit_trap_while_parallel_step_runs. Qed.
Print Assumptions C04_invocation_ends_while_parallel_step_runs_refuted.

(* PROPERTY READING: "skipped steps never run", for the skip set of THIS invocation (configuration and -s options).
   The theorems above take the skip set from the step file ([skip_agrees]); canvas writes skip records only when the
   invocation starts at step 1 (Orch/LoopEnd.start_file).  REFUTED for a resumed invocation: a, b, c, end; b failed;
   `canvas -r dir -s c` resumes at step 2, the file stays as it is and c is started.  Replayed on the real canvas
   (harness lane skip-on-resume).  The `_partial` is C04_checker_accepts_every_run: skip set := what the file says *)
Theorem C04_command_line_skip_on_resume_refuted :
  let f := [mkrow 1 se_A 0 0; mkrow 2 hk_B 1 0] in
  let f0 := start_file 2 hk_steps [hk_C] f in
  let s := orun 1 (fun _ => 0) hk_nm (oinit (psteps_from 2 hk_steps) f0) [AMain; AJob 2; AJob 2; AMain; AMain] in
  ResumeDefs.step_next f = Some 2 /\ f0 = f /\ skipped f0 hk_C = false /\ In hk_C (executed hk_nm s).
Proof. exact command_line_skip_ignored_on_resume. Qed.
Print Assumptions C04_command_line_skip_on_resume_refuted.

(* at step 1 the same option does produce the skip record *)
Theorem C04_command_line_skip_at_step_1 : skipped (start_file 1 hk_steps [hk_C] []) hk_C = true.
Proof. exact start_file_at_1_skips. Qed.
Print Assumptions C04_command_line_skip_at_step_1.

(* the hook of a synchronous step runs in the loop's own shell.  Whatever robsd_hook() does with the hook's standard
   input today (gen/Gen_Orch.robsd_hook_stdin, read from util.sh on this run): either it is /dev/null and every run
   with hooks that read their input is a run of the transition system, or it is inherited - the pipe the loop reads
   the schedule from - and a hook that reads its input swallows the rest of the schedule: a, b, c, end with no
   failure ends with status 0, NO end record, NO report, b and c never started; the trace oracle rejects.
   Replayed on the real canvas (harness lane hook-stdin) *)
Theorem C04_hook_reading_stdin_decided :
  (robsd_hook_stdin = HookStdinNull /\
   forall reads ncpu exit_of name_of sched s,
     orun_h robsd_hook_stdin reads ncpu exit_of name_of s sched = orun ncpu exit_of name_of s sched) \/
  (robsd_hook_stdin = HookStdinInherited /\
   let s := orun_h robsd_hook_stdin (fun _ => true) 1 (fun _ => 0) hk_nm (oinit hk_steps []) [AMain; AJob 1; AJob 1; AMain; AMain] in
   fell_off s = true /\ sfile_ s = [mkrow 1 se_A 0 0] /\ executed hk_nm s = [se_A] /\
   e_status (trap_exit_of s true) = 0 /\ e_report (trap_exit_of s true) = false /\ has_end (sfile_ s) = false /\
   spec_ok_trace hk_steps [] 1 (tev_of hk_nm (evlog s)) (e_status (trap_exit_of s true)) (has_end (sfile_ s)) = false).
Proof.
  exact (match robsd_hook_stdin as h return
           (h = HookStdinNull /\
            forall reads ncpu exit_of name_of sched s,
              orun_h h reads ncpu exit_of name_of s sched = orun ncpu exit_of name_of s sched) \/
           (h = HookStdinInherited /\
            let s := orun_h h (fun _ => true) 1 (fun _ => 0) hk_nm (oinit hk_steps []) [AMain; AJob 1; AJob 1; AMain; AMain] in
            fell_off s = true /\ sfile_ s = [mkrow 1 se_A 0 0] /\ executed hk_nm s = [se_A] /\
            e_status (trap_exit_of s true) = 0 /\ e_report (trap_exit_of s true) = false /\ has_end (sfile_ s) = false /\
            spec_ok_trace hk_steps [] 1 (tev_of hk_nm (evlog s)) (e_status (trap_exit_of s true)) (has_end (sfile_ s)) = false)
         with
         | HookStdinNull => or_introl (conj eq_refl (fun reads ncpu exit_of name_of sched s => orun_h_null reads ncpu exit_of name_of sched s))
         | HookStdinInherited => or_intror (conj eq_refl hook_reading_stdin_swallows_schedule)
         end).
Qed.
Print Assumptions C04_hook_reading_stdin_decided.

(* the source as it is now (/repo d8ba809): robsd_hook() gives the hook /dev/null as standard input, so every run with hooks
   that read their input is a run of the transition system.  Closed by [eq_refl] on the generated constant: reverting the
   repair makes this proof fail (and the lane hook-stdin finds the failing run) *)
Theorem C04_hook_stdin_is_dev_null_now :
  robsd_hook_stdin = HookStdinNull /\
  forall reads ncpu exit_of name_of sched s,
    orun_h robsd_hook_stdin reads ncpu exit_of name_of s sched = orun ncpu exit_of name_of s sched.
Proof.
  exact (match C04_hook_reading_stdin_decided with
         | or_introl H => H
         | or_intror (conj H _) => match (eq_ind robsd_hook_stdin (fun x => match x with HookStdinNull => True | HookStdinInherited => False end) I _ H) with end
         end).
Qed.
Print Assumptions C04_hook_stdin_is_dev_null_now.

(* a hook that does not read its input changes nothing, whatever it inherits *)
Theorem C04_hook_not_reading_is_harmless : forall hs ncpu s, main_step_h hs (fun _ => false) ncpu s = main_step ncpu s.
Proof. exact hook_not_reading_is_the_model. Qed.
Print Assumptions C04_hook_not_reading_is_harmless.

(* ---- the tie to util.sh ------------------------------------------------------------------------------------- *)

(* the loop body of robsd() and step_exec_job() as harness/t_orch.py found them in util.sh (statement groups in
   source order), INTERPRETED (Orch/ShapeSem.v), are main_step and job_step - in every state, hence every run under
   every schedule is a run of the transition system the theorems above are about.  LReboot and LLockAlive are given
   no effect (canvas has no reboot option; nobody but this invocation writes the lock file) *)
Theorem C04_loop_is_the_modelled_one :
  (forall ncpu exit_of name_of s a,
     step_of_shape ncpu exit_of name_of robsd_body step_exec_job_body s a = ostep ncpu exit_of name_of s a) /\
  (forall ncpu exit_of name_of sched s,
     run_of_shape ncpu exit_of name_of robsd_body step_exec_job_body s sched = orun ncpu exit_of name_of s sched).
Proof.
  exact (conj (fun ncpu exit_of name_of s a => step_tie ncpu exit_of name_of robsd_body step_exec_job_body s a (eq_refl modelled_body) (eq_refl modelled_job))
              (fun ncpu exit_of name_of sched s => run_tie ncpu exit_of name_of robsd_body step_exec_job_body sched (eq_refl modelled_body) (eq_refl modelled_job) s)).
Qed.
Print Assumptions C04_loop_is_the_modelled_one.

(* the interpretation tells loops apart: forgetting the oldest pid when the queue is full (seeded change C04),
   testing for end before the barrier (seeded change C11), and a step_exec_job without `return 1` each run
   differently from the transition system *)
Theorem C04_other_loops_are_not_the_model :
  (let b := mkbody [LSkipTest] [LQueueFull QWDropOldest; LForkJob] [LBarrier; LEnd; LSyncJob] [LReboot; LLockAlive] in
   let sched := [AMain; AMain; AJob 1; AJob 2; AJob 2; AJob 2; AMain; AMain] in
   let s := run_of_shape 2 (fun _ => 0) (fun _ => []) b modelled_job (oinit three_par []) sched in
   let s' := orun 2 (fun _ => 0) (fun _ => []) (oinit three_par []) sched in
   jobs s = [2; 3] /\ map fst (running s) = [1; 3] /\ jobs s' = [1; 3] /\ map fst (running s') = [1; 3]) /\
  (let steps := [mkpstep 1 [112]%N true 0; mkpstep 2 END false 0] in
   let b := mkbody [LSkipTest] [LQueueFull QWKeepStillRunning; LForkJob] [LEnd; LBarrier; LSyncJob] [LReboot; LLockAlive] in
   let sched := [AMain; AMain] in
   let s := run_of_shape 2 (fun _ => 0) (fun _ => []) b modelled_job (oinit steps []) sched in
   let s' := orun 2 (fun _ => 0) (fun _ => []) (oinit steps []) sched in
   mode s = ODone /\ map fst (running s) = [1] /\ mode s' = AtHead) /\
  (let steps := [mkpstep 1 [97]%N false 2; mkpstep 2 END false 0] in
   let jb := [JLogId; JT0; JWriteInflight (-1) (-1); JExec; JT1; JDuration; JDelta; JWriteDone; JHook] in
   let sched := [AMain; AJob 1; AJob 1; AMain; AMain] in
   let ex := fun i : Z => if i =? 1 then 2 else 0 in
   mode (run_of_shape 1 ex (fun _ => []) modelled_body jb (oinit steps []) sched) = ODone /\
   mode (orun 1 ex (fun _ => []) (oinit steps []) sched) = OFailed).
Proof. exact (conj drop_oldest_is_not_the_model (conj end_before_barrier_is_not_the_model no_return_is_not_the_model)). Qed.
Print Assumptions C04_other_loops_are_not_the_model.
