(* Properties_C04.v - steps run in configured order behind barriers and stop at the first failure.
   System: OrchDefs.v - the loop of robsd() and the jobs it forks, every schedule
   of main-loop moves and job moves (a list of actions of any length; moves that
   are not enabled are skipped).  [OInv] is the invariant; [oreach] = reachable
   from the initial state of a configuration with distinct step ids.
   ASSUMED: the contract of robsd-wait (see OrchDefs.v) and the shell's process
   control; proved: the bookkeeping of the loop. *)
From Robsd Require Import Orch.OrchSpec Orch.OrchProofs Orch.AccountProofs Orch.ResumeProofs.
Local Open Scope Z_scope.

(* the invariant holds in every reachable state of every configuration and schedule *)
Theorem C04_invariant : forall ncpu exit_of name_of steps f0 sched,
  NoDup (map p_id steps) -> (forall p, In p steps -> p_exit p = exit_of (p_id p)) ->
  OInv ncpu exit_of (orun ncpu exit_of name_of (oinit steps f0) sched).
Proof. exact (fun ncpu exit_of name_of steps f0 sched H1 H2 => inv_run ncpu exit_of name_of sched _ (inv_init ncpu exit_of steps f0 H1 H2)). Qed.
Print Assumptions C04_invariant.

(* never more than ncpu parallel steps at once *)
Theorem C04_ncpu_bound : forall ncpu exit_of s,
  OInv ncpu exit_of s ->
  (length (filter (fun i => negb (existsb (Z.eqb i) (fg s))) (rids s)) <= ncpu)%nat.
Proof. exact ncpu_bound. Qed.
Print Assumptions C04_ncpu_bound.

(* a step starts only at the head of the loop, in configuration order (it is the
   head of the remaining schedule), never when skipped; a synchronous step only
   when nothing at all is running (barrier); a parallel step only when no
   synchronous step is running (everything running is a remembered parallel job) *)
Theorem C04_start_conditions : forall ncpu exit_of s s' i par,
  OInv ncpu exit_of s -> main_step ncpu s = Some s' -> evlog s' = evlog s ++ [EStart i par] ->
  mode s = AtHead /\
  (exists p rest, todo s = p :: rest /\ p_id p = i /\ p_par p = par /\ skipped (sfile_ s) (p_name p) = false) /\
  (par = false -> running s = []) /\
  (forall k, In k (rids s) -> In k (jobs s)).
Proof. exact start_conditions. Qed.
Print Assumptions C04_start_conditions.

(* after a synchronous step failed nothing starts any more and the exit status is non-zero *)
Theorem C04_stop_at_first_sync_failure : forall ncpu s,
  mode s = OFailed -> main_step ncpu s = None /\ e_status (trap_exit (mode s) (sfile_ s) false) = 1.
Proof. exact stop_at_failure. Qed.
Print Assumptions C04_stop_at_first_sync_failure.

(* a failing parallel step does not change the course of the loop *)
Theorem C04_parallel_failure_continues : forall exit_of name_of s i s',
  job_step exit_of name_of s i = Some s' -> mode s' = mode s /\ todo s' = todo s /\ jobs s' = jobs s.
Proof. exact job_keeps_course. Qed.
Print Assumptions C04_parallel_failure_continues.

(* end is recorded only if every synchronous step that was started succeeded *)
Theorem C04_end_iff_all_sync_ok : forall ncpu exit_of s,
  OInv ncpu exit_of s -> mode s = ODone -> forall i, In (EStart i false) (evlog s) -> exit_of i = 0.
Proof. exact end_iff_sync_ok. Qed.
Print Assumptions C04_end_iff_all_sync_ok.

(* non-vacuity: a, then p1 p2 p3 in parallel with ncpu = 2, then b fails *)
Example C04_example :
  let n := fun c => [c]%N in
  let steps := [mkpstep 1 (n 97%N) false 0; mkpstep 2 (n 112%N) true 0; mkpstep 3 (n 113%N) true 3;
                mkpstep 4 (n 114%N) true 0; mkpstep 5 (n 98%N) false 2; mkpstep 6 END false 0] in
  let ex := fun i => match i with 3 => 3 | 5 => 2 | _ => 0 end in
  let nm := fun i => match i with 1 => n 97%N | 2 => n 112%N | 3 => n 113%N | 4 => n 114%N | 5 => n 98%N | _ => END end in
  let sched := [AMain; AJob 1; AJob 1; AMain; AMain; AMain; AMain; AJob 2; AJob 3; AJob 3; AMain; AMain; AJob 4;
                AJob 2; AJob 4; AJob 2; AJob 4; AMain; AMain; AJob 5; AJob 5; AMain; AMain] in
  let s := orun 2 ex nm (oinit steps []) sched in
  mode s = OFailed /\ running s = [] /\
  map r_exit (sfile_ s) = [0; 0; 3; 0; 2].
Proof. vm_compute. repeat split; reflexivity. Qed.
