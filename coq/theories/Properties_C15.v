(* Properties_C15.v - the invocation listing is exact and newest first.
   Only theorem statements, each closed by [exact] and followed by
   Print Assumptions.

   Quantifiers: every content of the invocation root (any list of directory
   entries with pairwise distinct names, each of any d_type), every root and
   keep-directory string, every content of the lock file (or none), and every
   function [sortf] that behaves like qsort(3) with directory_desc_cmp
   ([sorts]: returns a permutation whose adjacent elements compare <= 0).
   The mode does not occur: robsd-ls runs the same code in all five modes
   (checked by the correspondence harness on all five).

   [ls] is the model of invocation_alloc/invocation_walk + the loop of
   robsd-ls.c main (Inv/LsDefs.v), [listing_spec], [blt], [qualifies] the
   specification (Inv/LsSpec.v).

   PARTIAL in two places, each with the exact guard and a refutation outside:
   (1) "subdirectory" is what readdir(3) ANSWERS in d_type.  In terms of what
       the entries really are the statement holds when the file system fills
       in d_type faithfully (C15_exact_set_real); on a file system answering
       DT_UNKNOWN nothing at all is listed, with exit 0
       (C15_dt_unknown_lists_nothing; replayed with tools/iv_dtype_preload.c,
       findings/C15_dt_unknown.md).
   (2) "the directory named by the lock file" is the entry whose printed path
       EQUALS the lock's first line.  For the directory the lock DENOTES the
       clause holds exactly when the lock spells the path as robsd-ls prints it
       (C15_B_omits_denoted_iff, _partial); any other spelling leaves it listed
       (known finding B-lists-lock-target-spelled-differently). *)
From Robsd Require Import Inv.LsSpec Inv.LsProofs Inv.LsReal Inv.PurgeSpec Inv.PurgeProofs.
Local Open Scope N_scope.

(* exactly the non-hidden subdirectories other than the keep directory *)
Theorem C15_exact_set : forall sortf root keepdir lock ents p,
  sorts sortf ->
  (In p (ls sortf root keepdir false lock ents) <->
   exists de, In de ents /\ d_type de = DT_DIR /\ hidden (d_name de) = false /\
              mkpath root (d_name de) <> keepdir /\ p = mkpath root (d_name de)).
Proof. exact exact_set. Qed.
Print Assumptions C15_exact_set.

(* (1) in terms of what the entries REALLY are ([real name], the kind lstat(2)
   would report): when readdir answers d_type faithfully the listed set is
   exactly the real non-hidden subdirectories other than the keep directory *)
Theorem C15_exact_set_real : forall sortf root keepdir lock ents real p,
  sorts sortf -> faithful real ents ->
  (In p (ls sortf root keepdir false lock ents) <->
   exists de, In de ents /\ real (d_name de) = DT_DIR /\ hidden (d_name de) = false /\
              mkpath root (d_name de) <> keepdir /\ p = mkpath root (d_name de)).
Proof. exact exact_set_real. Qed.
Print Assumptions C15_exact_set_real.

(* ... and when it does not: a real directory answered as DT_UNKNOWN is not
   listed; a file system that never fills in d_type yields the empty listing
   with exit status 0, whatever the root holds *)
Theorem C15_dt_unknown_lists_nothing : forall sortf root keepdir skipB lock ents,
  sorts sortf ->
  (forall real de, distinct_names ents -> In de ents -> real (d_name de) = DT_DIR -> d_type de = DT_UNKNOWN ->
     ~ In (mkpath root (d_name de)) (ls sortf root keepdir skipB lock ents)) /\
  ((forall de, In de ents -> d_type de = DT_UNKNOWN) ->
     ls sortf root keepdir skipB lock ents = [] /\
     ls_main sortf root keepdir skipB lock (Some ents) = (0, [])).
Proof.
  exact (fun sortf root keepdir skipB lock ents Hs =>
    conj (fun real de Hn Hin Hr Hu => unknown_directory_not_listed sortf root keepdir skipB lock ents real de Hs Hn Hin Hr Hu)
         (all_unknown_lists_nothing sortf root keepdir skipB lock ents Hs)).
Qed.
Print Assumptions C15_dt_unknown_lists_nothing.

Theorem C15_exact_set_real_refuted :
  exists root keepdir ents real,
    (forall de, In de ents -> real (d_name de) = DT_DIR /\ hidden (d_name de) = false /\ mkpath root (d_name de) <> keepdir) /\
    ents <> [] /\ ls_exec root keepdir false None ents = [].
Proof. exact dt_unknown_refuted. Qed.
Print Assumptions C15_exact_set_real_refuted.

(* the listing is the list of invocations the cleaning specification speaks
   about (Inv/PurgeSpec.v [invocation]): the bridge C16 rests on *)
Theorem C15_listing_is_invocations : forall sortf rootstr f lock p,
  sorts sortf ->
  (In p (ls sortf rootstr (keepdir_of rootstr) false lock (dirents_of f)) <->
   exists v, invocation f v /\ p = mkpath rootstr v).
Proof. exact (fun sortf rootstr f lock p Hs => listing_invocation sortf Hs rootstr f lock p). Qed.
Print Assumptions C15_listing_is_invocations.

(* plain files, symbolic links (also to directories), entries of unknown type,
   hidden entries and the keep directory are never listed, with or without -B *)
Theorem C15_never_lists_others : forall sortf root keepdir skipB lock ents de,
  sorts sortf -> distinct_names ents -> In de ents ->
  d_type de <> DT_DIR \/ hidden (d_name de) = true \/ mkpath root (d_name de) = keepdir ->
  ~ In (mkpath root (d_name de)) (ls sortf root keepdir skipB lock ents).
Proof. exact never_listed. Qed.
Print Assumptions C15_never_lists_others.

(* each once *)
Theorem C15_nodup : forall sortf root keepdir skipB lock ents,
  sorts sortf -> distinct_names ents -> NoDup (ls sortf root keepdir skipB lock ents).
Proof. exact nodup_listing. Qed.
Print Assumptions C15_nodup.

(* strictly descending, as paths and - the root being a common prefix - as names *)
Theorem C15_strictly_descending : forall sortf root keepdir skipB lock ents,
  sorts sortf -> distinct_names ents ->
  StronglySorted (fun a b => blt b a) (ls sortf root keepdir skipB lock ents) /\
  exists names, ls sortf root keepdir skipB lock ents = map (mkpath root) names /\
                StronglySorted (fun a b => blt b a) names.
Proof. exact descending_names. Qed.
Print Assumptions C15_strictly_descending.

(* -B omits exactly the directory named by the lock file and nothing else:
   same elements minus that one, same order; a lock file that is absent, has
   no newline-terminated first line or names something that is not listed
   changes nothing *)
Theorem C15_B_omits_exactly_lock_target : forall sortf root keepdir lock ents,
  sorts sortf -> distinct_names ents ->
  let all := ls sortf root keepdir false lock ents in
  let withB := ls sortf root keepdir true lock ents in
  (forall p, In p withB <-> In p all /\ running_builddir lock <> Some p) /\
  withB = filter (fun p => negb (is_builddir (running_builddir lock) p)) all /\
  (forall b, running_builddir lock = Some b -> In b all ->
             exists l1 l2, all = l1 ++ b :: l2 /\ withB = l1 ++ l2) /\
  ((forall b, running_builddir lock = Some b -> ~ In b all) -> withB = all).
Proof. exact B_omits_exactly. Qed.
Print Assumptions C15_B_omits_exactly_lock_target.

(* C15_B_omits_exactly_lock_target reads "the directory named by the lock
   file" as: the entry whose printed path equals the lock's first line byte
   for byte - which is what the code does (strcmp).  Read as "the directory the
   lock file denotes" the statement is violated: a lock file that spells the
   path differently (/r//a for /r/a - `robsd -r` stores the readlink -f path,
   robsd-ls prints <robsddir as configured>/<name>) names a listed directory
   and -B still lists it; the oracle that is told which directory is meant
   rejects that output (known finding, same root cause as C16's) *)
Theorem C15_B_omits_denoted_directory_refuted :
  exists root keepdir lock ents name,
    running_builddir lock = Some (root ++ 47 :: 47 :: name) /\
    In (mkde name DT_DIR) ents /\
    In (mkpath root name) (ls_exec root keepdir true lock ents) /\
    spec_ok_stdout_named root keepdir (Some (mkpath root name)) (Some ents)
      (fst (ls_main_exec root keepdir true lock (Some ents)))
      (snd (ls_main_exec root keepdir true lock (Some ents))) = false.
Proof. exact respelled_lock_not_omitted. Qed.
Print Assumptions C15_B_omits_denoted_directory_refuted.

(* (2) in general, not for one witness: a qualifying directory is left out by
   -B exactly when the lock's first line is byte for byte the path robsd-ls
   prints for it; hence every other spelling [b] leaves it in the listing; and
   under the guard "spelled as printed" -B omits that directory and nothing else *)
Theorem C15_B_omits_denoted_iff : forall sortf root keepdir lock ents name,
  sorts sortf -> In (mkde name DT_DIR) ents -> hidden name = false -> mkpath root name <> keepdir ->
  (In (mkpath root name) (ls sortf root keepdir true lock ents) <->
   running_builddir lock <> Some (mkpath root name)).
Proof. exact B_omits_iff. Qed.
Print Assumptions C15_B_omits_denoted_iff.

Theorem C15_B_respelled_still_listed : forall sortf root keepdir lock ents name b,
  sorts sortf -> In (mkde name DT_DIR) ents -> hidden name = false -> mkpath root name <> keepdir ->
  running_builddir lock = Some b -> b <> mkpath root name ->
  In (mkpath root name) (ls sortf root keepdir true lock ents).
Proof. exact respelled_still_listed. Qed.
Print Assumptions C15_B_respelled_still_listed.

Theorem C15_B_omits_denoted_partial : forall sortf root keepdir lock ents name,
  sorts sortf -> distinct_names ents ->
  running_builddir lock = Some (mkpath root name) ->
  forall p, In p (ls sortf root keepdir true lock ents) <->
            In p (ls sortf root keepdir false lock ents) /\ p <> mkpath root name.
Proof. exact B_omits_denoted_partial. Qed.
Print Assumptions C15_B_omits_denoted_partial.

(* what "the directory named by the lock file" is *)
Theorem C15_lock_target : forall lock b,
  running_builddir lock = Some b <-> lock_names lock b.
Proof. exact running_builddir_spec. Qed.
Print Assumptions C15_lock_target.

(* the specification (exact set + strictly descending) has one solution, the
   model meets it whatever qsort does with it, and the oracle run on the
   implementation's output accepts exactly that solution *)
Theorem C15_spec_met_and_unique : forall sortf root keepdir (skipB : bool) lock ents,
  sorts sortf -> distinct_names ents ->
  let bd := if skipB then running_builddir lock else None in
  listing_spec root keepdir bd ents (ls sortf root keepdir skipB lock ents) /\
  (forall out, listing_spec root keepdir bd ents out -> out = ls sortf root keepdir skipB lock ents) /\
  ls sortf root keepdir skipB lock ents = ls_exec root keepdir skipB lock ents /\
  (forall lines, spec_ok_ls root keepdir bd ents lines = true <->
                 lines = ls sortf root keepdir skipB lock ents).
Proof.
  exact (fun sortf root keepdir skipB lock ents Hs Hn =>
    conj (ls_spec sortf Hs root keepdir skipB lock ents Hn)
   (conj (fun out Ho => listing_spec_unique root keepdir _ ents _ _ Ho
                          (ls_spec sortf Hs root keepdir skipB lock ents Hn))
   (conj (ls_any_qsort sortf root keepdir skipB lock ents Hs Hn)
         (fun lines => oracle_exact sortf root keepdir skipB lock ents lines Hs Hn)))).
Qed.
Print Assumptions C15_spec_met_and_unique.

(* the bytes on standard output and the exit status *)
Theorem C15_stdout : forall sortf root keepdir (skipB : bool) lock ents exit out,
  sorts sortf -> distinct_names ents -> nonl root ->
  Forall (fun de => nonl (d_name de)) ents ->
  (spec_ok_stdout root keepdir skipB lock (Some ents) exit out = true <->
   (exit, out) = ls_main sortf root keepdir skipB lock (Some ents)).
Proof. exact stdout_oracle_exact. Qed.
Print Assumptions C15_stdout.

(* both branches: whatever readdir does, the model's exit status and output
   are accepted by the oracle; a root that cannot be read means a non-zero
   exit and no output *)
Theorem C15_stdout_both_branches : forall sortf root keepdir (skipB : bool) lock readdir,
  sorts sortf ->
  match readdir with
  | Some ents => distinct_names ents /\ nonl root /\ Forall (fun de => nonl (d_name de)) ents
  | None => True
  end ->
  spec_ok_stdout root keepdir skipB lock readdir
    (fst (ls_main sortf root keepdir skipB lock readdir))
    (snd (ls_main sortf root keepdir skipB lock readdir)) = true /\
  (forall exit out, spec_ok_stdout root keepdir skipB lock None exit out = true <-> exit <> 0 /\ out = []).
Proof.
  exact (fun sortf root keepdir skipB lock readdir Hs H =>
    conj (ls_main_accepted sortf root keepdir skipB lock readdir Hs H)
         (stdout_failure_branch root keepdir skipB lock)).
Qed.
Print Assumptions C15_stdout_both_branches.

(* the hypothesis about qsort is satisfiable: insertion sort meets it *)
Theorem C15_qsort_contract_inhabited : sorts isort.
Proof. exact isort_sorts. Qed.
Print Assumptions C15_qsort_contract_inhabited.

(* non-vacuity: ten invocations on one day (".9" sorts after ".10"), a file,
   a symbolic link to a directory, a hidden directory, the attic inside the
   root, a lock file naming one of the invocations *)
From Coq Require Import String.
Local Open Scope string_scope.
Example C15_example :
  let root := bs "/r" in
  let ents := [mkde (bs "2024-01-02.9") DT_DIR; mkde (bs "file") DT_REG;
               mkde (bs "2024-01-02.10") DT_DIR; mkde (bs "link") DT_LNK;
               mkde (bs ".hidden") DT_DIR; mkde (bs "attic") DT_DIR;
               mkde (bs "2024-01-01") DT_DIR; mkde (bs "2024-01-02.1") DT_DIR] in
  let lock := Some (bs "/r/2024-01-02.10
") in
  ls_exec root (bs "/r/attic") false lock ents =
    [bs "/r/2024-01-02.9"; bs "/r/2024-01-02.10"; bs "/r/2024-01-02.1"; bs "/r/2024-01-01"] /\
  ls_exec root (bs "/r/attic") true lock ents =
    [bs "/r/2024-01-02.9"; bs "/r/2024-01-02.1"; bs "/r/2024-01-01"] /\
  ls_exec root (bs "/elsewhere") true (Some (bs "/r/2024-01-02.10")) ents =
    [bs "/r/attic"; bs "/r/2024-01-02.9"; bs "/r/2024-01-02.10"; bs "/r/2024-01-02.1"; bs "/r/2024-01-01"].
Proof. vm_compute. repeat split; reflexivity. Qed.
