(* Properties_C15.v - the invocation listing is exact and newest first.
   Only theorem statements, each closed by [exact] and followed by
   Print Assumptions.

   Quantifiers: every content of the invocation root (any list of directory
   entries with pairwise distinct names, each of any d_type), every root and
   keep-directory string, every content of the lock file (or none), and every
   function [sortf] that behaves like qsort(3) with directory_desc_cmp
   ([sorts]: returns a permutation whose adjacent elements compare <= 0).
   The mode does not occur: robsd-ls runs the same code in all five modes
   (checked by the correspondence harness on all five).

   [ls] is the model of invocation_alloc/invocation_walk + the loop of
   robsd-ls.c main (Inv/LsDefs.v), [listing_spec], [blt], [qualifies] the
   specification (Inv/LsSpec.v). *)
From Robsd Require Import Inv.LsSpec Inv.LsProofs.
Local Open Scope N_scope.

(* exactly the non-hidden subdirectories other than the keep directory *)
Theorem C15_exact_set : forall sortf root keepdir lock ents p,
  sorts sortf ->
  (In p (ls sortf root keepdir false lock ents) <->
   exists de, In de ents /\ d_type de = DT_DIR /\ hidden (d_name de) = false /\
              mkpath root (d_name de) <> keepdir /\ p = mkpath root (d_name de)).
Proof. exact exact_set. Qed.
Print Assumptions C15_exact_set.

(* plain files, symbolic links (also to directories), entries of unknown type,
   hidden entries and the keep directory are never listed, with or without -B *)
Theorem C15_never_lists_others : forall sortf root keepdir skipB lock ents de,
  sorts sortf -> distinct_names ents -> In de ents ->
  d_type de <> DT_DIR \/ hidden (d_name de) = true \/ mkpath root (d_name de) = keepdir ->
  ~ In (mkpath root (d_name de)) (ls sortf root keepdir skipB lock ents).
Proof. exact never_listed. Qed.
Print Assumptions C15_never_lists_others.

(* each once *)
Theorem C15_nodup : forall sortf root keepdir skipB lock ents,
  sorts sortf -> distinct_names ents -> NoDup (ls sortf root keepdir skipB lock ents).
Proof. exact nodup_listing. Qed.
Print Assumptions C15_nodup.

(* strictly descending, as paths and - the root being a common prefix - as names *)
Theorem C15_strictly_descending : forall sortf root keepdir skipB lock ents,
  sorts sortf -> distinct_names ents ->
  StronglySorted (fun a b => blt b a) (ls sortf root keepdir skipB lock ents) /\
  exists names, ls sortf root keepdir skipB lock ents = map (mkpath root) names /\
                StronglySorted (fun a b => blt b a) names.
Proof. exact descending_names. Qed.
Print Assumptions C15_strictly_descending.

(* -B omits exactly the directory named by the lock file and nothing else:
   same elements minus that one, same order; a lock file that is absent, has
   no newline-terminated first line or names something that is not listed
   changes nothing *)
Theorem C15_B_omits_exactly_lock_target : forall sortf root keepdir lock ents,
  sorts sortf -> distinct_names ents ->
  let all := ls sortf root keepdir false lock ents in
  let withB := ls sortf root keepdir true lock ents in
  (forall p, In p withB <-> In p all /\ running_builddir lock <> Some p) /\
  withB = filter (fun p => negb (is_builddir (running_builddir lock) p)) all /\
  (forall b, running_builddir lock = Some b -> In b all ->
             exists l1 l2, all = l1 ++ b :: l2 /\ withB = l1 ++ l2) /\
  ((forall b, running_builddir lock = Some b -> ~ In b all) -> withB = all).
Proof. exact B_omits_exactly. Qed.
Print Assumptions C15_B_omits_exactly_lock_target.

(* C15_B_omits_exactly_lock_target reads "the directory named by the lock
   file" as: the entry whose printed path equals the lock's first line byte
   for byte - which is what the code does (strcmp).  Read as "the directory the
   lock file denotes" the statement is violated: a lock file that spells the
   path differently (/r//a for /r/a - `robsd -r` stores the readlink -f path,
   robsd-ls prints <robsddir as configured>/<name>) names a listed directory
   and -B still lists it; the oracle that is told which directory is meant
   rejects that output (known finding, same root cause as C16's) *)
Theorem C15_B_omits_denoted_directory_refuted :
  exists root keepdir lock ents name,
    running_builddir lock = Some (root ++ 47 :: 47 :: name) /\
    In (mkde name DT_DIR) ents /\
    In (mkpath root name) (ls_exec root keepdir true lock ents) /\
    spec_ok_stdout_named root keepdir (Some (mkpath root name)) (Some ents)
      (fst (ls_main_exec root keepdir true lock (Some ents)))
      (snd (ls_main_exec root keepdir true lock (Some ents))) = false.
Proof. exact respelled_lock_not_omitted. Qed.
Print Assumptions C15_B_omits_denoted_directory_refuted.

(* what "the directory named by the lock file" is *)
Theorem C15_lock_target : forall lock b,
  running_builddir lock = Some b <-> lock_names lock b.
Proof. exact running_builddir_spec. Qed.
Print Assumptions C15_lock_target.

(* the specification (exact set + strictly descending) has one solution, the
   model meets it whatever qsort does with it, and the oracle run on the
   implementation's output accepts exactly that solution *)
Theorem C15_spec_met_and_unique : forall sortf root keepdir (skipB : bool) lock ents,
  sorts sortf -> distinct_names ents ->
  let bd := if skipB then running_builddir lock else None in
  listing_spec root keepdir bd ents (ls sortf root keepdir skipB lock ents) /\
  (forall out, listing_spec root keepdir bd ents out -> out = ls sortf root keepdir skipB lock ents) /\
  ls sortf root keepdir skipB lock ents = ls_exec root keepdir skipB lock ents /\
  (forall lines, spec_ok_ls root keepdir bd ents lines = true <->
                 lines = ls sortf root keepdir skipB lock ents).
Proof.
  exact (fun sortf root keepdir skipB lock ents Hs Hn =>
    conj (ls_spec sortf Hs root keepdir skipB lock ents Hn)
   (conj (fun out Ho => listing_spec_unique root keepdir _ ents _ _ Ho
                          (ls_spec sortf Hs root keepdir skipB lock ents Hn))
   (conj (ls_any_qsort sortf root keepdir skipB lock ents Hs Hn)
         (fun lines => oracle_exact sortf root keepdir skipB lock ents lines Hs Hn)))).
Qed.
Print Assumptions C15_spec_met_and_unique.

(* the bytes on standard output and the exit status *)
Theorem C15_stdout : forall sortf root keepdir (skipB : bool) lock ents exit out,
  sorts sortf -> distinct_names ents -> nonl root ->
  Forall (fun de => nonl (d_name de)) ents ->
  (spec_ok_stdout root keepdir skipB lock (Some ents) exit out = true <->
   (exit, out) = ls_main sortf root keepdir skipB lock (Some ents)).
Proof. exact stdout_oracle_exact. Qed.
Print Assumptions C15_stdout.

(* the hypothesis about qsort is satisfiable: insertion sort meets it *)
Theorem C15_qsort_contract_inhabited : sorts isort.
Proof. exact isort_sorts. Qed.
Print Assumptions C15_qsort_contract_inhabited.

(* non-vacuity: ten invocations on one day (".9" sorts after ".10"), a file,
   a symbolic link to a directory, a hidden directory, the attic inside the
   root, a lock file naming one of the invocations *)
From Coq Require Import String.
Local Open Scope string_scope.
Example C15_example :
  let root := bs "/r" in
  let ents := [mkde (bs "2024-01-02.9") DT_DIR; mkde (bs "file") DT_REG;
               mkde (bs "2024-01-02.10") DT_DIR; mkde (bs "link") DT_LNK;
               mkde (bs ".hidden") DT_DIR; mkde (bs "attic") DT_DIR;
               mkde (bs "2024-01-01") DT_DIR; mkde (bs "2024-01-02.1") DT_DIR] in
  let lock := Some (bs "/r/2024-01-02.10
") in
  ls_exec root (bs "/r/attic") false lock ents =
    [bs "/r/2024-01-02.9"; bs "/r/2024-01-02.10"; bs "/r/2024-01-02.1"; bs "/r/2024-01-01"] /\
  ls_exec root (bs "/r/attic") true lock ents =
    [bs "/r/2024-01-02.9"; bs "/r/2024-01-02.1"; bs "/r/2024-01-01"] /\
  ls_exec root (bs "/elsewhere") true (Some (bs "/r/2024-01-02.10")) ents =
    [bs "/r/attic"; bs "/r/2024-01-02.9"; bs "/r/2024-01-02.10"; bs "/r/2024-01-02.1"; bs "/r/2024-01-01"].
Proof. vm_compute. repeat split; reflexivity. Qed.
