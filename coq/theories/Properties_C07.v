(* Properties_C07.v - termination and timeout take down the whole step process group.
   Only theorem statements, each closed by [exact] and followed by Print Assumptions.

   WHAT THE THEOREMS ARE ABOUT.  [exec tr s] runs a schedule [tr] - any list of
   "the runner makes a transition" (LRun), "SIGTERM reaches the runner / the
   configured timeout expires" (LArrive 15 / 14), "member i of the step's group exits
   on its own" (LExit i) and "the forked child has done setsid and closes its end
   of the handshake pipe" (LUp) - on the composition of
     * the runner: step_exec / step_fork / waiteof / killwaitpg / killwaitpg1 /
       sighandler / exitstatus of step-exec.c transcribed statement by statement
       (KillDefs.v), INCLUDING the handshake: waiteof polls the pipe hpolls = 1000
       times; if the child has not closed its end by then the runner takes the
       "process group failure" path (waitpid(pid), return error ? error : 1, no
       alarm).  Its step function is proved to be the interpretation of the transition
       table the translator derives from the current source on every run
       (C07_model_matches_source),
       the status mapping is the clang-translated one of C06 (C07_exit_mapping); and
     * a KERNEL MODEL THAT IS AN ASSUMPTION, NOT A VERIFIED FACT: the step's group
       is a finite set of processes; kill(-pgid, s) reaches every live member;
       SIGKILL kills; SIGTERM kills the members with the default disposition;
       waitpid reaps only the main process; a handled signal interrupts a blocking
       waitpid and otherwise only sets gotsig; unhandled SIGTERM ends the runner;
       SIGALRM arrives only after alarm() was called; members cannot exit before the
       child is up.  Delivery latency, PID reuse, members leaving the group or
       forking during the kill, uninterruptible members are not modelled; NOT MODELLED
       either: any signal to the runner other than SIGTERM and SIGALRM ([arrive] answers
       None) - SIGINT, SIGHUP, SIGQUIT keep their default action in the parent (only the
       child resets them), so each of them kills the runner at EVERY program counter and
       leaves the group running, like window 1; SIGKILL/SIGSTOP of the runner; a stopped
       (SIGSTOP/SIGTSTP) step, which the runner waits for without limit unless the timeout
       fires; the property's quantifier names SIGTERM and the timeout only.  The
       process tree is used only as the list of its members (dispositions, who can
       exit on its own): parent/child structure has no semantics in the model.
   Quantifiers: every process tree, every timeout configuration, every schedule.
   No bound anywhere, no [terminated] premise: the theorems speak about every state
   in which the runner cannot move ([rstep s = None]: it has exited, been killed, or
   is blocked in a waitpid) and bound the number of its transitions.  The
   specification ([cut_ok], [uncut_ok], [spec], KillSpec.v) speaks only about what is
   visible from outside.  The claim is PARTIAL (manifest): theorems about this model;
   the model is tied to the binary by the driven correspondence runs of harness/c07.py. *)
From Robsd Require Import Exec.KillSpec Exec.KillProofs Exec.KillTerm Exec.KillWindows
  Exec.KillAlarm Exec.KillWitness Exec.KillLiteral Exec.KillTable Exec.KillTie.
From Robsd Require Exec.KillExit Exec.ArgvDefs Exec.ArgvSpec.
From RobsdGen Require Gen_Kill Gen_KillTable Gen_Exec.
Local Open Scope Z_scope.

(* THE MAIN THEOREM.  For every tree, every schedule [tr1] that brings the runner into
   waitpid(-pid), every event arriving there and EVERY continuation [tr2] (further signals,
   members exiting, any interleaving, any length):
     - the runner has made at most kbound = npolls + 6 = 56 transitions since, and still owes at
       most kmeasure of them (bounded waits: <= 51 polls of 100 ms, then SIGKILL, one poll, exit);
     - if it cannot move any more it has ended BY EXIT with the main process reaped, SIGTERM sent
       to the group and SIGKILL only against a main process ignoring SIGTERM (then nobody is
       left), no default-disposition member alive, status 124 if the last signal was the alarm
       and non-zero otherwise - unless the main process exited 0 by itself before the kill;
     - and it can always get there: left alone it exits within the remaining budget. *)
Theorem C07_event_takes_group_down : forall t timeout tr1 s sig s1 tr2 s',
  exec tr1 (init_tree t timeout) = Some s -> s_pc s = PWaiting ->
  arrive sig s = Some s1 -> exec tr2 s1 = Some s' ->
  (runs tr2 + kmeasure (s_pc s') <= kbound)%nat /\
  (rstep s' = None -> cut_ok (flatten t) (history_of s') (observe s')) /\
  (exists n s'', (runs tr2 + n <= kbound)%nat /\ exec (repeat LRun n) s' = Some s'' /\
     rstep s'' = None /\ cut_ok (flatten t) (history_of s'') (observe s'')).
Proof. exact event_takes_group_down. Qed.
Print Assumptions C07_event_takes_group_down.

(* hence no schedule lets the runner make more than 56 transitions after the event, and one in
   which it makes that many has brought it to its exit *)
Theorem C07_event_bounded_runs : forall t timeout tr1 s sig s1 tr2 s',
  exec tr1 (init_tree t timeout) = Some s -> s_pc s = PWaiting ->
  arrive sig s = Some s1 -> exec tr2 s1 = Some s' ->
  (runs tr2 <= kbound)%nat /\ ((kbound <= runs tr2)%nat -> terminated (s_pc s') = true) /\
  kbound = 56%nat.
Proof. exact event_bounded_runs. Qed.
Print Assumptions C07_event_bounded_runs.

(* THE TIMEOUT.  With a positive timeout the alarm is armed whenever the runner is blocked in
   waitpid(-pid): its expiry reaches the runner there, and then everything above holds, with
   status 124 unless a SIGTERM arrives afterwards. *)
Theorem C07_timeout_takes_group_down : forall t timeout tr1 s,
  0 < timeout -> exec tr1 (init_tree t timeout) = Some s -> s_pc s = PWaiting ->
  exists s1, arrive SIGALRM s = Some s1 /\
    forall tr2 s', exec tr2 s1 = Some s' ->
      (runs tr2 + kmeasure (s_pc s') <= kbound)%nat /\
      (rstep s' = None -> cut_ok (flatten t) (history_of s') (observe s')) /\
      (rstep s' = None -> only_alarm tr2 = true -> o_result (observe s') = RExit 124) /\
      (exists n s'', (runs tr2 + n <= kbound)%nat /\ exec (repeat LRun n) s' = Some s'' /\
         rstep s'' = None /\ cut_ok (flatten t) (history_of s'') (observe s'')).
Proof. exact timeout_takes_group_down. Qed.
Print Assumptions C07_timeout_takes_group_down.

(* without a timeout (not robsd-regress, or no regress-timeout) no alarm is ever armed, no SIGALRM
   ever reaches the runner, gotsig is never SIGALRM - in every state of every execution *)
Theorem C07_no_timeout_no_alarm : forall t timeout tr s',
  timeout <= 0 -> exec tr (init_tree t timeout) = Some s' ->
  s_armed s' = false /\ s_gotsig s' <> SIGALRM /\ s_event s' <> Some SIGALRM /\ s_late s' <> Some SIGALRM.
Proof. exact no_timeout_no_alarm. Qed.
Print Assumptions C07_no_timeout_no_alarm.

(* Without an event the step is never cut short - in EVERY state of every execution: the runner
   sends nothing to the group, does not die from a signal, nobody is dead except by its own exit,
   and if the runner exits the main process exited on its own, was reaped, and its exit code is
   the runner's status (after a failed handshake: that code if it is not 0, else 1). *)
Theorem C07_no_event_no_cut : forall t timeout tr s',
  exec tr (init_tree t timeout) = Some s' -> no_arrival tr = true ->
  h_event (history_of s') = None /\ h_late (history_of s') = None /\
  uncut_ok (flatten t) (history_of s') (observe s').
Proof. exact no_signal_no_cut. Qed.
Print Assumptions C07_no_event_no_cut.

(* the same when signals did arrive, but only after the main process had been reaped
   (the step had ended): nothing is killed; a late alarm turns the status into 124 *)
Theorem C07_no_event_while_running_no_cut : forall t timeout tr s',
  exec tr (init_tree t timeout) = Some s' -> s_event s' = None ->
  uncut_ok (flatten t) (history_of s') (observe s').
Proof. exact no_event_no_cut. Qed.
Print Assumptions C07_no_event_while_running_no_cut.

(* FULL STATEMENT for every arrival point after the fork - FALSE of the faithful model:

     C07_all_arrival_points : forall t timeout tr s',
       exec tr (init_tree t timeout) = Some s' -> rstep s' = None ->
       spec (flatten t) (history_of s') (observe s').

   Three windows refute it; all were reproduced on the real robsd-exec and are reported by the
   check under these signatures:
     sigterm-before-handler        (sync points exec.after_fork, exec.after_sigpipe)
     signal-before-waitpid         (exec.after_sigterm, exec.after_sigalrm, exec.before_waitpid)
     signal-during-group-failure   (child held before setsid for longer than waiteof's 1000 ms) *)
Theorem C07_all_arrival_points_refuted : exists t timeout tr s',
  exec tr (init_tree t timeout) = Some s' /\ rstep s' = None /\
  ~ spec (flatten t) (history_of s') (observe s').
Proof. exact all_points_refuted. Qed.
Print Assumptions C07_all_arrival_points_refuted.

(* THE EXACT GUARD, necessary and sufficient, for every tree, timeout and schedule: in a state
   in which the runner cannot move, the specification holds IF AND ONLY IF no event happened
   while the step was running, or some event of the schedule reached the runner while it was
   blocked in waitpid(-pid) ([hits_wait], a function of the schedule). *)
Theorem C07_all_arrival_points_partial : forall t timeout tr s',
  exec tr (init_tree t timeout) = Some s' -> rstep s' = None ->
  (spec (flatten t) (history_of s') (observe s') <->
   s_event s' = None \/ hits_wait tr (init_tree t timeout) = true).
Proof. exact spec_exact. Qed.
Print Assumptions C07_all_arrival_points_partial.

(* WHO SURVIVES, for every tree, timeout and schedule, when the runner cannot move any more: if
   the schedule hits the wait the runner has exited, the main process is reaped and no member
   that keeps the default disposition is alive; if it does not, the runner never sent anything
   to the group and EXACTLY the members that did not exit on their own are alive - so the
   unconditional reading of "no default-disposition process outlives the runner" is false
   precisely for the schedules that do not hit the wait (no event at all included). *)
Theorem C07_survivors_exact : forall t timeout tr s',
  exec tr (init_tree t timeout) = Some s' -> rstep s' = None ->
  if hits_wait tr (init_tree t timeout)
  then (exists c, o_result (observe s') = RExit c) /\ o_main (observe s') = MReaped /\
       forall i m, nth_error (flatten t) i = Some m -> m_disp m = Default ->
                   nth_error (o_alive (observe s')) i = Some false
  else o_kills (observe s') = [] /\
       forall i a, nth_error (o_alive (observe s')) i = Some a ->
                   a = negb (nth i (h_self (history_of s')) false).
Proof. exact survivors_exact. Qed.
Print Assumptions C07_survivors_exact.

(* WINDOW 1, universally: SIGTERM between fork() and siginstall(SIGTERM) (also after
   siginstall(SIGPIPE)).  For every tree, every schedule before and every schedule after: the
   runner is killed by the signal, never sends anything to the group, the main process is never
   reaped, exactly the members that do not exit on their own stay alive; the specification is
   violated.  Second part: the window is reachable (concrete execution). *)
Theorem C07_sigterm_before_handler_refuted :
  (forall t timeout tr1 s s1 tr2 s',
     exec tr1 (init_tree t timeout) = Some s -> term_handled (s_pc s) = false ->
     arrive SIGTERM s = Some s1 -> exec tr2 s1 = Some s' ->
     o_result (observe s') = RKilled SIGTERM /\ o_main (observe s') <> MReaped /\
     o_kills (observe s') = [] /\
     (forall i a, nth_error (o_alive (observe s')) i = Some a ->
                  a = negb (nth i (h_self (history_of s')) false)) /\
     h_event (history_of s') <> None /\
     ~ spec (flatten t) (history_of s') (observe s')) /\
  (exists s', exec [LArrive SIGTERM] (init_tree two_procs 0) = Some s' /\
     observe s' = mkobs (RKilled SIGTERM) MAlive [true; true] [] /\
     h_event (history_of s') = Some SIGTERM /\ rstep s' = None /\
     ~ spec (flatten two_procs) (history_of s') (observe s')).
Proof. exact (conj window_before_handler_all witness_before_handler). Qed.
Print Assumptions C07_sigterm_before_handler_refuted.

(* WINDOW 2, universally: an event after the handler is installed but before the runner blocks
   in a wait (during waiteof, at exec.after_sigterm / exec.after_sigalrm / exec.before_waitpid).
   For every tree, every schedule before, every continuation in which no further event finds the
   runner blocked in waitpid(-pid): the signal only sets gotsig; the runner never sends anything
   to the group and is not killed; exactly the members that do not exit on their own stay alive;
   the runner exits only after the main process exited on its own - with exitstatus(status,
   gotsig), i.e. 124 for the alarm, or 1 on the failure path; the specification is violated.
   If the main process cannot exit on its own, no continuation without a further event ever ends
   the runner: the termination request / the timeout is LOST.  Reachable (two executions). *)
Theorem C07_signal_before_waitpid_refuted :
  (forall t timeout tr1 s sig s1 tr2 s',
     exec tr1 (init_tree t timeout) = Some s -> handled_not_waiting (s_pc s) = true ->
     arrive sig s = Some s1 -> exec tr2 s1 = Some s' -> hits_wait tr2 s1 = false ->
     o_kills (observe s') = [] /\
     (forall i a, nth_error (o_alive (observe s')) i = Some a ->
                  a = negb (nth i (h_self (history_of s')) false)) /\
     (forall g, o_result (observe s') <> RKilled g) /\
     (forall c, o_result (observe s') = RExit c ->
        (o_main (observe s') = MReaped /\ nth 0 (h_self (history_of s')) false = true /\
         p_st (s_main s') = Some (s_status s') /\ exit_code_ok s' c) \/
        (o_main (observe s') <> MReaped /\ c = 1 /\ h_slow (history_of s') = true)) /\
     h_event (history_of s') <> None /\
     ~ spec (flatten t) (history_of s') (observe s')) /\
  (forall t timeout tr1 s sig s1 tr2 s',
     exec tr1 (init_tree t timeout) = Some s -> handled_not_waiting (s_pc s) = true ->
     arrive sig s = Some s1 -> exec tr2 s1 = Some s' -> no_arrival tr2 = true ->
     m_early (tree_main t) = None ->
     terminated (s_pc s') = false /\ o_kills (observe s') = [] /\ h_event (history_of s') <> None) /\
  (exists s', exec lost_term_schedule (init_tree two_procs_main_exits 0) = Some s' /\
     observe s' = mkobs (RExit 0) MReaped [false; true] [] /\
     h_event (history_of s') = Some SIGTERM /\ rstep s' = None /\
     ~ spec (flatten two_procs_main_exits) (history_of s') (observe s')) /\
  (exists s, exec lost_alarm_schedule (init_tree two_procs 1) = Some s /\
     s_pc s = PWaiting /\ s_event s = Some SIGALRM /\ s_gotsig s = SIGALRM /\
     observe s = mkobs RHang MAlive [true; true] [] /\ rstep s = None).
Proof.
  exact (conj window_before_wait_all (conj window_lost_event_all
          (conj witness_before_waitpid witness_lost_alarm))).
Qed.
Print Assumptions C07_signal_before_waitpid_refuted.

(* the alarm can reach the runner before it waits only at exec.before_waitpid (after alarm()) -
   or, as an unnoticed expiry, on the failure path *)
Theorem C07_alarm_window : forall t timeout tr s s1,
  exec tr (init_tree t timeout) = Some s -> early (s_pc s) = true -> waiting (s_pc s) = false ->
  arrive SIGALRM s = Some s1 ->
  (s_pc s = PBeforeWait /\ s1 = record_sig SIGALRM s) \/
  ((s_pc s = PGroupFail \/ s_pc s = PFailWaiting) /\ s1 = note_expiry s).
Proof. exact alarm_window. Qed.
Print Assumptions C07_alarm_window.

(* WINDOW 3, universally: the handshake has failed (the step's group was not there within
   waiteof's 1000 ms) and the runner is blocked in waitpid(pid, &status, 0).  For every tree and
   every schedule before and after: SIGTERM makes the runner return 1 after ONE more transition,
   without ever sending anything to the group; the main process is not reaped, exactly the
   members that do not exit on their own stay alive; the specification is violated.  And on
   that path the timeout is never armed: its expiry changes nothing in the runner.  Reachable
   (three executions: SIGTERM; expiry of the timeout; and - without any event - a step that
   completes with 0 reported as 1, which the specification accepts as "handshake failure"). *)
Theorem C07_signal_during_group_failure_refuted :
  (forall t timeout tr1 s s1 tr2 s',
     exec tr1 (init_tree t timeout) = Some s -> s_pc s = PFailWaiting ->
     arrive SIGTERM s = Some s1 -> exec tr2 s1 = Some s' ->
     (runs tr2 <= 1)%nat /\
     (rstep s' = None -> o_result (observe s') = RExit 1) /\
     o_main (observe s') <> MReaped /\ o_kills (observe s') = [] /\
     (forall i a, nth_error (o_alive (observe s')) i = Some a ->
                  a = negb (nth i (h_self (history_of s')) false)) /\
     h_event (history_of s') <> None /\ h_slow (history_of s') = true /\
     ~ spec (flatten t) (history_of s') (observe s')) /\
  (forall t timeout tr s,
     exec tr (init_tree t timeout) = Some s -> s_slow s = true ->
     s_armed s = false /\
     forall s1, arrive SIGALRM s = Some s1 ->
       s1 = note_expiry s /\ s_pc s1 = s_pc s /\ s_gotsig s1 = s_gotsig s /\ s_kills s1 = s_kills s) /\
  (exists s', exec group_failure_schedule (init_tree two_procs 0) = Some s' /\
     observe s' = mkobs (RExit 1) MAlive [true; true] [] /\
     history_of s' = mkhist (Some SIGTERM) None [false; false] true /\ rstep s' = None /\
     ~ spec (flatten two_procs) (history_of s') (observe s')) /\
  (exists s s1, exec (to_fail_wait ++ [LUp]) (init_tree two_procs 1) = Some s /\
     s_pc s = PFailWaiting /\ s_armed s = false /\
     arrive SIGALRM s = Some s1 /\
     observe s1 = mkobs RHang MAlive [true; true] [] /\ h_event (history_of s1) = Some SIGALRM /\
     rstep s1 = None /\ ~ spec (flatten two_procs) (history_of s1) (observe s1)) /\
  (exists s', exec (to_fail_wait ++ [LUp; LExit 0; LRun; LRun]) (init_tree two_procs_main_exits 0) = Some s' /\
     observe s' = mkobs (RExit 1) MReaped [false; true] [] /\
     history_of s' = mkhist None None [true; false] true /\
     spec (flatten two_procs_main_exits) (history_of s') (observe s')).
Proof.
  exact (conj window_group_failure_all (conj slow_never_armed
          (conj witness_group_failure (conj witness_unarmed_timeout witness_group_failure_status)))).
Qed.
Print Assumptions C07_signal_during_group_failure_refuted.

(* the reason for the "unless" in the status clause: SIGTERM interrupts the wait, the main
   process exits 0 by itself before the kill reaches it, the runner (correctly) reports 0 *)
Theorem C07_status_zero_is_reachable :
  exists s', exec (to_wait 0 ++ [LArrive SIGTERM; LExit 0; LRun; LRun; LRun; LRun])
               (init_tree two_procs_main_exits 0) = Some s' /\
    observe s' = mkobs (RExit 0) MReaped [false; false] [SIGTERM] /\
    spec (flatten two_procs_main_exits) (history_of s') (observe s').
Proof. exact status_zero_after_term. Qed.
Print Assumptions C07_status_zero_is_reachable.

(* ---- THE LETTER OF THE PROPERTY where [spec] is more lenient (Exec/KillLiteral.v).  [spec] is the reading the
   theorems above are exact about; on three clauses it concedes what the code does.  For each: the literal reading
   as a named proposition, its refutation by an execution of the faithful model (replayed on the real robsd-exec,
   corpus/C07/20..24; harness/c07.py judges every accepted run against the literal readings too and reports them
   under signatures of their own), and what holds instead. *)

(* (a) "No process of the step that keeps the default signal disposition outlives the step runner" - read
   unconditionally it is FALSE: without any event the main process ends by itself, the runner exits with its status
   and the other members of the group live on (the runner signals the group only after an event). *)
Theorem C07_survivors_literal_refuted :
  ~ survivors_literal /\
  exists s', exec normal_end_schedule (init_tree two_procs_main_exits 0) = Some s' /\
    no_arrival normal_end_schedule = true /\ terminated (s_pc s') = true /\
    observe s' = mkobs (RExit 0) MReaped [false; true] [] /\
    history_of s' = mkhist None None [true; false] false /\
    spec (flatten two_procs_main_exits) (history_of s') (observe s') /\
    ~ no_default_survivor (flatten two_procs_main_exits) (observe s').
Proof. exact (conj survivors_literal_refuted normal_end_witness). Qed.
Print Assumptions C07_survivors_literal_refuted.

(* ... it holds after an event that found the runner blocked in waitpid(-pid) *)
Theorem C07_survivors_partial : forall t timeout tr s',
  exec tr (init_tree t timeout) = Some s' -> rstep s' = None -> hits_wait tr (init_tree t timeout) = true ->
  terminated (s_pc s') = true /\ no_default_survivor (flatten t) (observe s').
Proof. exact survivors_partial. Qed.
Print Assumptions C07_survivors_partial.

(* (b) "... and only then exits, with a non-zero status" - FALSE: the runner reports 0 when the main process
   exited 0 by itself, although the request was noticed and the group was signalled; also FALSE when narrowed to
   "unless the main process had exited 0 BEFORE the event": it may exit between the event and the kill. *)
Theorem C07_status_nonzero_literal_refuted :
  ~ status_nonzero_literal /\ ~ status_nonzero_narrow /\
  (exists s', exec zero_after_event_schedule (init_tree two_procs_main_exits 0) = Some s' /\
     hits_wait zero_after_event_schedule (init_tree two_procs_main_exits 0) = true /\
     main_exit_first zero_after_event_schedule = false /\ s_event s' = Some SIGTERM /\
     observe s' = mkobs (RExit 0) MReaped [false; false] [SIGTERM]) /\
  (exists s', exec zero_before_event_schedule (init_tree two_procs_main_exits 0) = Some s' /\
     hits_wait zero_before_event_schedule (init_tree two_procs_main_exits 0) = true /\
     main_exit_first zero_before_event_schedule = true /\ s_event s' = Some SIGTERM /\
     observe s' = mkobs (RExit 0) MReaped [false; false] [SIGTERM]).
Proof.
  exact (conj status_nonzero_literal_refuted (conj status_nonzero_narrow_refuted
          (conj zero_after_event_witness zero_before_event_witness))).
Qed.
Print Assumptions C07_status_nonzero_literal_refuted.

(* ... what holds: status 0 only for a main process that exited by itself with a code that is 0 modulo 256 *)
Theorem C07_status_nonzero_partial : forall t timeout tr s' c,
  exec tr (init_tree t timeout) = Some s' -> rstep s' = None -> hits_wait tr (init_tree t timeout) = true ->
  o_result (observe s') = RExit c -> c = 0 -> main_exited_zero (flatten t) (history_of s').
Proof. exact status_nonzero_partial. Qed.
Print Assumptions C07_status_nonzero_partial.

(* (c) "... that is 124 for a timeout" - FALSE in both directions: the status follows the LAST signal that reached
   the runner, not the event that made it take the group down ([first_hit]).  Timeout, then SIGTERM during the
   kill phase: 143; SIGTERM, then the alarm: 124. *)
Theorem C07_timeout_status_literal_refuted :
  ~ timeout_status_literal /\ ~ termination_status_literal /\
  (exists s', exec timeout_then_term_schedule (init_tree two_procs 1) = Some s' /\ rstep s' = None /\
     first_hit timeout_then_term_schedule (init_tree two_procs 1) = Some SIGALRM /\
     observe s' = mkobs (RExit 143) MReaped [false; false] [SIGTERM] /\
     spec (flatten two_procs) (history_of s') (observe s')) /\
  (exists s', exec term_then_timeout_schedule (init_tree two_procs 1) = Some s' /\ rstep s' = None /\
     first_hit term_then_timeout_schedule (init_tree two_procs 1) = Some SIGTERM /\
     observe s' = mkobs (RExit 124) MReaped [false; false] [SIGTERM] /\
     spec (flatten two_procs) (history_of s') (observe s')).
Proof.
  exact (conj (proj1 timeout_status_literal_refuted) (conj (proj2 timeout_status_literal_refuted)
          (conj timeout_then_term_witness term_then_timeout_witness))).
Qed.
Print Assumptions C07_timeout_status_literal_refuted.

(* ... what holds: 124 whenever the last signal that reached the runner was the alarm *)
Theorem C07_timeout_status_partial : forall t timeout tr s' c,
  exec tr (init_tree t timeout) = Some s' -> rstep s' = None -> hits_wait tr (init_tree t timeout) = true ->
  o_result (observe s') = RExit c -> final_sig (history_of s') = Some SIGALRM -> c = 124.
Proof. exact timeout_status_partial. Qed.
Print Assumptions C07_timeout_status_partial.

(* REPEATED TERMINATION REQUESTS.  robsd-kill resends SIGTERM every 100 ms until the runner is gone.  A request
   lost in window 2 is made good by the next one that finds the runner in waitpid(-pid) (C07_event_takes_group_down
   has no premise on earlier events); windows 1 and 3 are final: the runner is gone, nothing reaches it any more.
   (harness/c07.py delivers SIGTERM two and three times: corpus/C07/25, 26.) *)
Theorem C07_resent_sigterm :
  (forall t timeout tr1 s0 sig0 s0' tr2 s s1 tr3 s',
     exec tr1 (init_tree t timeout) = Some s0 -> handled_not_waiting (s_pc s0) = true ->
     arrive sig0 s0 = Some s0' -> exec tr2 s0' = Some s -> s_pc s = PWaiting ->
     arrive SIGTERM s = Some s1 -> exec tr3 s1 = Some s' -> rstep s' = None ->
     cut_ok (flatten t) (history_of s') (observe s')) /\
  (forall s sig, terminated (s_pc s) = true -> arrive sig s = None).
Proof. exact (conj resend_heals_window2 runner_gone_nothing_arrives). Qed.
Print Assumptions C07_resent_sigterm.

(* the oracle the harness applies to what the real robsd-exec did is the specification ... *)
Theorem C07_oracle_reflects_spec : forall ms h o, spec_okb ms h o = true <-> spec ms h o.
Proof. exact spec_okb_iff. Qed.
Print Assumptions C07_oracle_reflects_spec.

(* ... and applied to the MODEL it accepts a state of rest of any execution exactly under the
   guard of C07_all_arrival_points_partial: every oracle failure on the implementation that the
   model reproduces is one of the windows, every other one is a disagreement with the model *)
Theorem C07_oracle_on_model : forall t timeout tr s',
  exec tr (init_tree t timeout) = Some s' -> rstep s' = None ->
  (spec_okb (flatten t) (history_of s') (observe s') = true <->
   s_event s' = None \/ hits_wait tr (init_tree t timeout) = true).
Proof. exact oracle_on_model. Qed.
Print Assumptions C07_oracle_on_model.

(* whatever the script interpreter of the correspondence driver produces is the end of an
   execution, so every model answer compared with the implementation is an instance of the
   quantifier of the theorems above *)
Theorem C07_interpreter_sound : forall script s,
  exists tr, exec tr s = Some (i_state (interp script s)).
Proof. exact interp_reachable. Qed.
Print Assumptions C07_interpreter_sound.

(* ONE exit-status mapping: the model's exitstatus is, for every pair of integers, C06's
   specification and the value of the clang-translated step-exec.c:exitstatus *)
Theorem C07_exit_mapping :
  (forall st g, KillDefs.exitstatus st g = ArgvSpec.exit_spec st g) /\
  (forall st g, ArgvDefs.exit_of_wait st g = Some (KillDefs.exitstatus st g)) /\
  KillDefs.SIGALRM = Gen_Exec.sigalrm /\ Gen_Kill.ex_timeout = 124.
Proof. exact KillExit.kill_exit_mapping. Qed.
Print Assumptions C07_exit_mapping.

(* THE TIE TO THE SOURCE.  harness/t_kill.py reads step_fork, waiteof, step_exec, killwaitpg and killwaitpg1
   statement by statement on every run and emits the runner's control flow between the sync points as a table of
   edges (Gen_KillTable.table; language and interpreter [tstep] in Exec/KillTable.v): the target of kill() (with or
   without the minus sign), the signals of the two rounds in their order, the constants stored and returned, the
   second argument of exitstatus(), which return value of waiteof / killwaitpg1 means failure, the direction of the
   timeout test, the loop bounds.  The model's step function IS the interpretation of that table, for every state;
   hence every execution the theorems above quantify over is an execution of the table's interpreter.  SIGTERM has
   its default action exactly at the locations the translator found before siginstall(SIGTERM, sighandler,
   SIG_NO_RESTART).  Pinned as TEXT only (string lists compared by reflexivity): exitstatus (also proved equal to
   C06's clang-translated function, C07_exit_mapping), siginstall, sighandler (the translator also insists on the
   whole body being `gotsig = signo;`), step_timeout; and the constants. *)
Theorem C07_model_matches_source :
  (forall s, rstep s = tstep Gen_KillTable.table s) /\
  (forall tr s, exec tr s = texec tr s) /\
  (forall p, term_handled p = negb (existsb (loc_eqb (loc_of p)) Gen_KillTable.sigterm_unhandled)) /\
  (Gen_Kill.calls_exitstatus = model_calls_exitstatus /\
   Gen_Kill.calls_siginstall = model_calls_siginstall /\
   Gen_Kill.calls_sighandler = model_calls_sighandler /\
   Gen_Kill.calls_step_timeout = model_calls_step_timeout) /\
  (Gen_Kill.ex_timeout = 124 /\ Gen_Kill.kill_timeout_ms = 5000 /\ Gen_Kill.kill_poll_ms = 100 /\
   npolls = 50%nat /\
   Gen_Kill.pipe_timeout_ms = 1000 /\ Gen_Kill.pipe_poll_ms = 1 /\ hpolls = 1000%nat).
Proof. exact (conj rstep_is_table (conj exec_is_table_exec (conj term_handled_is_source (conj tie_calls tie_constants)))). Qed.
Print Assumptions C07_model_matches_source.

(* non-vacuity: a main process that ignores SIGTERM with a default child (which has an ignoring
   child of its own) and a second child that could exit with 3; SIGTERM arrives while the runner
   is blocked in waitpid; 51 polls, SIGKILL, reaped at the first poll: 56 transitions, exit 137,
   nobody left *)
Example C07_example :
  let t := Node Ignore None [Node Default None [Node Ignore None []]; Node Default (Some 3) []] in
  match exec (to_wait 0) (init_tree t 0) with
  | Some s =>
      match arrive SIGTERM s with
      | Some s1 =>
          match exec (repeat LRun 56) s1 with
          | Some s' => (s_pc s, rstep s', Some (observe s'))
          | None => (s_pc s, None, None)
          end
      | None => (s_pc s, None, None)
      end
  | None => (PForked, None, None)
  end = (PWaiting, None, Some (mkobs (RExit 137) MReaped [false; false; false; false] [SIGTERM; SIGKILL])).
Proof. vm_compute. reflexivity. Qed.
