(* Properties_C07.v - termination and timeout take down the whole step process group.
   Only theorem statements, each closed by [exact] and followed by Print Assumptions.

   WHAT THE THEOREMS ARE ABOUT.  [exec tr s] runs a schedule [tr] - any list of
   "the runner makes a transition" (LRun), "SIGTERM / SIGALRM reaches the runner"
   (LArrive) and "member i of the step's group exits on its own" (LExit i) - on the
   composition of
     * the runner: step_exec / step_fork / killwaitpg / killwaitpg1 / sighandler /
       exitstatus of step-exec.c transcribed statement by statement (KillDefs.v;
       the order of its calls, its constants and its status mapping are compared
       with the current source on every run: C07_model_matches_source), and
     * a KERNEL MODEL THAT IS AN ASSUMPTION, NOT A VERIFIED FACT: the step's group
       is a finite set of processes; kill(-pgid, s) reaches every live member;
       SIGKILL kills; SIGTERM kills the members with the default disposition;
       waitpid reaps only the main process; a handled signal interrupts a blocking
       waitpid and otherwise only sets gotsig; unhandled SIGTERM ends the runner;
       the alarm cannot fire before alarm() was called.  Delivery latency, PID
       reuse, members leaving the group or forking during the kill,
       uninterruptible members and a failing setsid handshake are not modelled.
   Quantifiers: every process tree (depth, fan-out, dispositions, who can exit on
   its own and with which code - [tree]), every timeout configuration, every
   schedule.  No bound anywhere.  The specification ([cut_ok], [uncut_ok], [spec],
   KillSpec.v) speaks only about what is visible from outside: how the runner
   ended, whether the main process was reaped, who is alive, which signals the
   runner sent, and which signal arrived when.  The claim is PARTIAL (manifest):
   it is a theorem about this model; the model is tied to the binary by the
   driven correspondence runs of harness/c07.py. *)
From Robsd Require Import Exec.KillSpec Exec.KillProofs.
From RobsdGen Require Gen_Kill.
Local Open Scope Z_scope.

(* From "handlers installed and blocked in waitpid" on: for every tree, every schedule [tr1]
   that brings the runner into waitpid, every signal arriving there and every continuation
   [tr2] (further signals, members exiting on their own, any interleaving): when the runner
   has ended it has ended by exit (not by a signal), the main process has been reaped, the
   runner sent SIGTERM to the group and SIGKILL only against a main process ignoring SIGTERM
   (and then nobody is left), no default-disposition member is alive, the status is 124 if
   the last signal was the alarm and non-zero otherwise - unless the main process exited 0 by
   itself before the kill reached it. *)
Theorem C07_group_killed_after_handler : forall t timeout tr1 s sig s1 tr2 s',
  exec tr1 (init_tree t timeout) = Some s -> s_pc s = PWaiting ->
  arrive sig s = Some s1 -> exec tr2 s1 = Some s' -> terminated (s_pc s') = true ->
  cut_ok (flatten t) (history_of s') (observe s').
Proof. exact killed_from_waiting. Qed.
Print Assumptions C07_group_killed_after_handler.

(* ... and the runner does end: in the kill phase it is never blocked, every transition of
   its own strictly decreases a measure bounded by 2 * npolls + 6 that nothing the environment
   does can increase (bounded waits, then SIGKILL, then exit) *)
Theorem C07_kill_phase_terminates :
  (forall s, kill_phase (s_pc s) = true ->
     exists s', rstep s = Some s' /\ (kmeasure (s_pc s') < kmeasure (s_pc s))%nat /\
                (kill_phase (s_pc s') = true \/ exists c, s_pc s' = PExit c)) /\
  (forall l s s', is_arrival l = true \/ (exists i, l = LExit i) ->
     kill_phase (s_pc s) = true -> apply_label l s = Some s' -> s_pc s' = s_pc s) /\
  (forall p, (kmeasure p <= 2 * npolls + 6)%nat \/ exists ph n, p = PPoll ph n /\ (npolls < n)%nat).
Proof. exact (conj kill_phase_progress (conj kill_phase_env kmeasure_bound)). Qed.
Print Assumptions C07_kill_phase_terminates.

(* Without a signal the step is never cut short: the runner sends nothing to the group, does
   not die from a signal, nobody is dead except by its own exit, and if the runner exits the
   main process exited on its own, was reaped, and its exit code is the runner's status. *)
Theorem C07_no_event_no_cut : forall t timeout tr s',
  exec tr (init_tree t timeout) = Some s' -> no_arrival tr = true ->
  h_event (history_of s') = None /\ h_late (history_of s') = None /\
  uncut_ok (flatten t) (history_of s') (observe s').
Proof. exact no_signal_no_cut. Qed.
Print Assumptions C07_no_event_no_cut.

(* the same when signals did arrive, but only after the main process had been reaped
   (the step had ended): nothing is killed; a late alarm turns the status into 124 *)
Theorem C07_no_event_while_running_no_cut : forall t timeout tr s',
  exec tr (init_tree t timeout) = Some s' -> s_event s' = None ->
  uncut_ok (flatten t) (history_of s') (observe s').
Proof. exact no_event_no_cut. Qed.
Print Assumptions C07_no_event_while_running_no_cut.

(* FULL STATEMENT for every arrival point after the fork - FALSE of the faithful model:

     C07_all_arrival_points : forall t timeout tr s',
       exec tr (init_tree t timeout) = Some s' -> terminated (s_pc s') = true ->
       spec (flatten t) (history_of s') (observe s').

   Two windows refute it (D13); both were reproduced on the real robsd-exec through the sync
   points named below and are reported by the check under these signatures:
     sigterm-before-handler  (exec.after_fork, exec.after_sigpipe)
     signal-before-waitpid   (exec.after_sigterm, exec.after_sigalrm, exec.before_waitpid) *)
Theorem C07_all_arrival_points_refuted : exists t timeout tr s',
  exec tr (init_tree t timeout) = Some s' /\ terminated (s_pc s') = true /\
  ~ spec (flatten t) (history_of s') (observe s').
Proof.
  exact (ex_intro _ two_procs (ex_intro _ 0 (ex_intro _ [LArrive SIGTERM]
    match window_before_handler with
    | ex_intro _ s' (conj Hx (conj _ (conj _ (conj Ht Hn)))) => ex_intro _ s' (conj Hx (conj Ht Hn))
    end))).
Qed.
Print Assumptions C07_all_arrival_points_refuted.

(* window 1: SIGTERM between fork() and siginstall(SIGTERM) (also after siginstall(SIGPIPE)):
   the runner is killed by the default action, both processes of the step stay alive, nobody
   is reaped, nothing was sent to the group *)
Theorem C07_sigterm_before_handler_refuted :
  (exists s', exec [LArrive SIGTERM] (init_tree two_procs 0) = Some s' /\
     observe s' = mkobs (RKilled SIGTERM) MAlive [true; true] [] /\
     h_event (history_of s') = Some SIGTERM /\ terminated (s_pc s') = true /\
     ~ spec (flatten two_procs) (history_of s') (observe s')) /\
  (exists s', exec [LRun; LArrive SIGTERM] (init_tree two_procs 0) = Some s' /\
     observe s' = mkobs (RKilled SIGTERM) MAlive [true; true] [] /\
     terminated (s_pc s') = true /\
     ~ spec (flatten two_procs) (history_of s') (observe s')).
Proof. exact (conj window_before_handler window_after_sigpipe). Qed.
Print Assumptions C07_sigterm_before_handler_refuted.

(* window 2: a signal after the handler is installed but before waitpid is entered only sets
   gotsig.  SIGTERM: nothing is killed, the runner returns the step's own status (here 0) with a
   default-disposition member alive.  SIGALRM: a step that ends by itself is reported as 124 with
   nothing killed, and a step that does not end is never timed out: the runner sits in waitpid
   and no schedule without a further signal moves it. *)
Theorem C07_signal_before_waitpid_refuted :
  (exists s', exec lost_term_schedule (init_tree two_procs_main_exits 0) = Some s' /\
     observe s' = mkobs (RExit 0) MReaped [false; true] [] /\
     h_event (history_of s') = Some SIGTERM /\ terminated (s_pc s') = true /\
     ~ spec (flatten two_procs_main_exits) (history_of s') (observe s')) /\
  (exists s', exec [LRun; LRun; LArrive SIGTERM; LRun; LRun; LRun; LExit 0; LRun; LRun]
                (init_tree two_procs_main_exits 0) = Some s' /\
     observe s' = mkobs (RExit 0) MReaped [false; true] [] /\
     terminated (s_pc s') = true /\
     ~ spec (flatten two_procs_main_exits) (history_of s') (observe s')) /\
  (exists s', exec [LRun; LRun; LRun; LRun; LRun; LArrive SIGALRM; LRun; LExit 0; LRun; LRun]
                (init_tree two_procs_main_exits 1) = Some s' /\
     observe s' = mkobs (RExit 124) MReaped [false; true] [] /\
     terminated (s_pc s') = true /\
     ~ spec (flatten two_procs_main_exits) (history_of s') (observe s')) /\
  (exists s, exec lost_alarm_schedule (init_tree two_procs 1) = Some s /\
     s_pc s = PWaiting /\ s_event s = Some SIGALRM /\ s_gotsig s = SIGALRM /\ s_kills s = [] /\
     observe s = mkobs RHang MAlive [true; true] [] /\
     forall tr s', no_arrival tr = true -> exec tr s = Some s' -> s' = s).
Proof.
  exact (conj window_before_waitpid (conj window_after_sigterm
          (conj window_alarm_before_waitpid window_lost_alarm))).
Qed.
Print Assumptions C07_signal_before_waitpid_refuted.

(* what remains true for every arrival point: if the first signal of the schedule (if there is
   one) does not reach the runner before it has entered waitpid, the specification holds in
   every final state - [cut_ok] if a signal arrived while the step was running, [uncut_ok] if
   none did *)
Theorem C07_all_arrival_points_partial : forall t timeout tr s',
  exec tr (init_tree t timeout) = Some s' -> guarded tr (init_tree t timeout) = true ->
  terminated (s_pc s') = true -> spec (flatten t) (history_of s') (observe s').
Proof. exact all_points_partial. Qed.
Print Assumptions C07_all_arrival_points_partial.

(* the reason for the "unless" in the status clause: SIGTERM interrupts the wait, the main
   process exits 0 by itself before the kill reaches it, the runner (correctly) reports 0 *)
Theorem C07_status_zero_is_reachable :
  exists s', exec [LRun; LRun; LRun; LRun; LRun; LArrive SIGTERM; LExit 0; LRun; LRun; LRun; LRun]
               (init_tree two_procs_main_exits 0) = Some s' /\
    observe s' = mkobs (RExit 0) MReaped [false; false] [SIGTERM] /\
    spec (flatten two_procs_main_exits) (history_of s') (observe s').
Proof. exact status_zero_after_term. Qed.
Print Assumptions C07_status_zero_is_reachable.

(* the oracle the harness applies to what the real robsd-exec did is the specification *)
Theorem C07_oracle_reflects_spec : forall ms h o, spec_okb ms h o = true <-> spec ms h o.
Proof. exact spec_okb_iff. Qed.
Print Assumptions C07_oracle_reflects_spec.

(* whatever the script interpreter of the correspondence driver produces is the end of an
   execution, so every model answer compared with the implementation is an instance of the
   quantifier of the theorems above *)
Theorem C07_interpreter_sound : forall script s,
  exists tr, exec tr s = Some (i_state (interp script s)).
Proof. exact interp_reachable. Qed.
Print Assumptions C07_interpreter_sound.

(* the model transcribes step-exec.c as it is now: call order per function (handler
   installation after the fork, setsid in the child, kill(-pgid), waitpid flags, SIGKILL
   escalation, *status = 1, the status mapping) and the constants *)
Theorem C07_model_matches_source :
  (Gen_Kill.calls_step_exec = model_calls_step_exec /\
   Gen_Kill.calls_exitstatus = model_calls_exitstatus /\
   Gen_Kill.calls_killwaitpg = model_calls_killwaitpg /\
   Gen_Kill.calls_killwaitpg1 = model_calls_killwaitpg1 /\
   Gen_Kill.calls_siginstall = model_calls_siginstall /\
   Gen_Kill.calls_sighandler = model_calls_sighandler /\
   Gen_Kill.calls_step_fork = model_calls_step_fork /\
   Gen_Kill.calls_step_timeout = model_calls_step_timeout) /\
  (Gen_Kill.ex_timeout = 124 /\ Gen_Kill.kill_timeout_ms = 5000 /\ Gen_Kill.kill_poll_ms = 100 /\
   npolls = 50%nat).
Proof. exact (conj tie_calls tie_constants). Qed.
Print Assumptions C07_model_matches_source.

(* non-vacuity: a main process that ignores SIGTERM with a default child (which has an ignoring
   child of its own) and a second child that could exit with 3; SIGTERM arrives while the runner
   is blocked in waitpid; 50 polls, SIGKILL, reaped: exit 137, nobody left *)
Example C07_example :
  let t := Node Ignore None [Node Default None [Node Ignore None []]; Node Default (Some 3) []] in
  match exec (repeat LRun 5) (init_tree t 0) with
  | Some s =>
      match arrive SIGTERM s with
      | Some s1 =>
          match exec (repeat LRun 56) s1 with
          | Some s' => (s_pc s, terminated (s_pc s'), Some (observe s'))
          | None => (s_pc s, false, None)
          end
      | None => (s_pc s, false, None)
      end
  | None => (PForked, false, None)
  end = (PWaiting, true, Some (mkobs (RExit 137) MReaped [false; false; false; false] [SIGTERM; SIGKILL])).
Proof. vm_compute. reflexivity. Qed.
