(* Properties_C06.v - step and hook commands get their exact arguments; the exit
   status is faithful.  Only theorem statements, each closed by [exact] and
   followed by Print Assumptions.

   Model (Exec/ArgvDefs.v): the configuration as robsd-exec/robsd-hook see it
   ([cfgview]: variables as rendered by config_interpolate_lookup, rendered
   defaults, the step list, the hook list); config_steps_add_script's template,
   config_get_steps (every command of the schedule interpolated element by
   element with C09's model of interpolate.c, empty results dropped),
   find_step/resolve_step_command/step_exec ([resolve], [run_with]),
   config_append_var and hook_to_argv/main of robsd-hook ([hook_run]).
   gen/Gen_Exec.v, regenerated from the sources on every check by
   harness/t_exec.py, supplies the template, the step tables, the keyword
   lists, EX_TIMEOUT, the Gallina translation of step-exec.c's [exitstatus]
   (clang AST, glibc's W* macros expanded) and which of the two known bodies
   find_step has ([find_step_null_checked]).

   Specification (Exec/ArgvSpec.v): C09's substitution relation [Subst] lifted
   to lists ([renders], [step_argv_of], [hook_argv_of], [embeds]), lookup of the
   first step of a name ([first_named]), wait statuses decoded by arithmetic
   ([exit_spec]).

   The kernel (fork, execvp, waitpid) enters as the function [kern] from an
   argument vector to "execvp failed" or a wait status, and [gotsig]; both are
   universally quantified.

   FULL STATEMENT of the third clause, for reference (it was FALSE of the code
   as shipped - defect D5 - and is TRUE since fix 0771f90; C06_unresolvable_is_error
   is about the body step-exec.c has now, two historical pins about the old one):

     forall cv trace name kern gotsig,
       let o := step_run cv trace name kern gotsig in
       o <> Crash /\
       (unknown step name \/ a command of the schedule does not interpolate ->
          o = exited, nothing executed, status <> 0, some diagnostic) /\
       (the command resolves but execvp fails ->
          o = exited, status <> 0, the child's diagnostic)                        *)
From Robsd Require Import Conf.ConfDefs Conf.SchedDefs.
From Robsd Require Import Exec.ArgvSpec Exec.ArgvProofs Exec.ArgvRun Exec.ArgvSignal Exec.SchedBridge Exec.RunnerBridge.
From Robsd Require Exec.KillExit.
From RobsdGen Require Import Gen_Conf.
From Coq Require Import String.
Local Open Scope N_scope.

(* ---- arguments ---- *)

(* robsd-exec hands a vector to execvp exactly when every command of the
   schedule interpolates and the schedule has a step of that name; the vector
   is then the one of the FIRST such step: every configured element (for the
   script modes: sh -eu ${trace} <script> <name>) rendered as a whole by the
   substitution relation, the empty renderings left out, nothing else.  Holds
   for either body of find_step. *)
Theorem C06_argv_exact : forall checked cv trace name argv,
  resolve checked cv trace name = RArgv argv <->
  schedule_ok (env_of cv trace) (cv_steps cv) /\
  exists sd, first_named name (cv_steps cv) sd /\
             step_argv_of (env_of cv trace) (command_of sd) argv.
Proof. exact resolve_argv_exact. Qed.
Print Assumptions C06_argv_exact.

(* no word splitting, nothing added: the vector embeds monotonically into the
   configured list - each argument is the rendering of one configured element,
   each configured element yields at most one argument (none iff it renders to
   the empty string), so the vector is never longer than the configured list
   and holds no empty string *)
Theorem C06_argv_no_splitting : forall checked cv trace name argv,
  resolve checked cv trace name = RArgv argv ->
  exists sd, first_named name (cv_steps cv) sd /\
             embeds (env_of cv trace) (command_of sd) argv /\
             (List.length argv <= List.length (command_of sd))%nat /\
             Forall (fun a => a <> []) argv.
Proof. exact resolve_no_splitting. Qed.
Print Assumptions C06_argv_no_splitting.

(* "all configurations" = configuration FILES.  [SchedDefs.resolve] is robsd-exec on the text of a configuration
   (the parser model of C08, the schedule model of C10); [benv]/[bsteps] are the lookup function and the step list
   of the parsed configuration.  Exec/SchedBridge.v proves that the two runner models are one
   (C10_one_runner), hence C06_argv_exact speaks about every accepted file: the vector robsd-exec hands to execvp
   is the rendering of the first step of that name in the schedule of the mode (all five modes), nothing else.
   Guard for robsd-regress only: the schedule renders without the rdomain counter (C10_one_runner_rdomain_refuted
   is the witness outside). *)
Theorem C06_argv_exact_parsed : forall E m text c tr name argv,
  config_parse E (tables_of m) text = Accepted c ->
  let c' := after_parse (tables_of m) c in
  (schedule_ok (benv E m c' tr) (bsteps E m c' tr) \/ m <> ROBSD_REGRESS) ->
  (SchedDefs.resolve E (tables_of m) text tr name = Some argv <->
   schedule_ok (benv E m c' tr) (bsteps E m c' tr) /\
   exists sd, first_named name (bsteps E m c' tr) sd /\ step_argv_of (benv E m c' tr) (command_of sd) argv).
Proof. exact argv_exact_parsed. Qed.
Print Assumptions C06_argv_exact_parsed.

(* ... and the abstract view the other theorems quantify over can be taken to be [view_of] of the parsed
   configuration: robsd-exec on the file IS ArgvDefs.resolve on that view (modes without pattern keywords) *)
Theorem C06_view_of_parsed : forall E m text c tr name argv xs,
  m <> ROBSD_REGRESS -> config_parse E (tables_of m) text = Accepted c ->
  let c' := after_parse (tables_of m) c in
  benv E m c' tr TRACE <> None ->
  (SchedDefs.resolve E (tables_of m) text tr name = Some argv <->
   ArgvDefs.resolve true (view_of E m c' tr xs) tr name = RArgv argv).
Proof. exact bridge_view. Qed.
Print Assumptions C06_view_of_parsed.

(* the second hypothesis of C06_view_of_parsed holds unless the configuration stored a variable called trace while it
   was parsed (${trace} evaluated at parse time, e.g. canvas-dir "${trace}/x": the case of C06_trace_flag_shadowed) *)
Theorem C06_trace_resolves : forall E m c tr,
  find_var (c_vars c) TRACE = None -> benv E m c tr TRACE <> None.
Proof. exact benv_trace. Qed.
Print Assumptions C06_trace_resolves.

(* the vector of a script step (every step of robsd, robsd-cross, robsd-ports, every fixed step and every test
   of robsd-regress, the end step of canvas): sh -eu, -x exactly with the trace flag, the script path and the
   step name rendered like any argument *)
Theorem C06_script_argv_shape : forall cv trace sd p argv,
  sd_cmd sd = Script p -> alookup (cv_vars cv) TRACE = None ->
  (step_argv_of (env_of cv trace) (command_of sd) argv <->
   exists p' n', renders (env_of cv trace) p p' /\ renders (env_of cv trace) (sd_name sd) n' /\
                 argv = SH :: EU :: (if trace then [trace_on] else []) ++ filter nonempty [p'; n']).
Proof. exact script_argv_shape. Qed.
Print Assumptions C06_script_argv_shape.

(* outside the guard of the shape theorem: a variable called trace (stored when ${trace} is evaluated while the
   file is parsed, e.g. canvas-dir "${trace}/tmp") wins over the flag, -x is lost *)
Theorem C06_trace_flag_shadowed :
  let cv := mkcfg [(TRACE, [])] [] [mkstep [115] (Script [47; 115])] None in
  resolve true cv true [115] = RArgv [SH; EU; [47; 115]; [115]]
  /\ resolve true cv false [115] = RArgv [SH; EU; [47; 115]; [115]].
Proof. exact trace_shadowed. Qed.
Print Assumptions C06_trace_flag_shadowed.

(* robsd-hook executes a vector exactly when every -v argument is name=value
   with a name that is not a configuration keyword, a non-empty hook is
   configured, every element of it renders (in the environment extended by
   the -v variables) and execvp succeeds; the vector is the element-wise
   rendering - same length, nothing dropped, nothing split *)
Theorem C06_hook_argv_exact : forall m cv vs execok argv,
  (hook_run m cv vs execok = HExec argv <->
   exists extra l, Forall2 (var_rel (reserved_keywords m)) vs extra /\ cv_hook cv = Some l /\ l <> [] /\
                   hook_argv_of (alookup (env_list cv extra false)) l argv /\ execok argv = true) /\
  (forall env l, hook_argv_of env l argv -> List.length argv = List.length l).
Proof. exact (fun m cv vs execok argv => conj (hook_exact m cv vs execok argv) (fun env l => hook_argv_length env l argv)). Qed.
Print Assumptions C06_hook_argv_exact.

(* ---- exit status ---- *)

Local Open Scope Z_scope.

(* the function the repository compiles - step-exec.c exitstatus with glibc's
   WIFEXITED / WEXITSTATUS / WIFSIGNALED / WTERMSIG expanded, translated from
   clang's AST - is defined (no trap, no undefined behaviour) on every wait
   status and every signal number, all of [int] and beyond, and decodes it as
   [exit_spec] says.  In particular: a command that exited with code c gives c
   unchanged; death by signal s gives 128+s, core dump or not; a caught SIGALRM
   (regress-timeout) gives 124 whatever the status; and on the statuses
   waitpid(2) produces the result is 0 exactly for "exited with code 0". *)
Theorem C06_exit_faithful :
  (forall w g, exit_of_wait w g = Some (exit_spec w g)) /\
  (forall code g, 0 <= code <= 255 -> g <> sigalrm -> exit_of_wait (w_exited code) g = Some code) /\
  (forall s core g, 1 <= s <= 126 -> g <> sigalrm -> exit_of_wait (w_signaled s core) g = Some (128 + s)) /\
  (forall w, exit_of_wait w sigalrm = Some 124) /\
  (forall w g, kernel_status w -> g <> sigalrm -> (exit_of_wait w g = Some 0 <-> w = w_exited 0)) /\
  (forall w g, exit_of_wait w g = Some 0 <-> g <> sigalrm /\ w mod 128 = 0 /\ (w / 256) mod 256 = 0) /\
  (forall w g, 0 <= exit_spec w g <= 255).
Proof. exact exit_faithful_all. Qed.
Print Assumptions C06_exit_faithful.

(* THE RUNNER exits 0 if and only if the command exited 0 - stated for the whole of robsd-exec, any outcome of
   the resolution, with the exact guard: the fork handshake of step_fork completed in time and no SIGALRM was
   caught.  Every non-zero exit comes with a diagnostic, exit 0 is silent.  ([kernel_ok]: execvp fails or
   waitpid yields "exited with 0..255" / "killed by signal 1..126".) *)
Theorem C06_runner_exit_zero_iff : forall cv trace name kern g hs,
  (forall argv, kernel_ok (kern argv)) ->
  exists r, run_fork true cv trace name kern g hs = Exited r /\
    (hs = HsOk -> g <> sigalrm ->
       (rr_exit r = 0 <-> exists argv, resolve true cv trace name = RArgv argv /\ kern argv = KWait (w_exited 0))) /\
    (rr_exit r = 0 -> hs = HsOk /\ g <> sigalrm /\ exists argv, resolve true cv trace name = RArgv argv) /\
    (rr_exit r <> 0 -> rr_diag r <> []).
Proof. exact run_fork_zero_iff. Qed.
Print Assumptions C06_runner_exit_zero_iff.

(* the same for the run proper (handshake in time), with "exit 0 is silent" *)
Theorem C06_runner_exit : forall cv trace name kern g,
  g <> sigalrm -> (forall argv, kernel_ok (kern argv)) ->
  exists r, run_with true cv trace name kern g = Exited r /\
    (rr_exit r = 0 <-> exists argv, resolve true cv trace name = RArgv argv /\ kern argv = KWait (w_exited 0)) /\
    (rr_exit r = 0 -> rr_diag r = []) /\ (rr_exit r <> 0 -> rr_diag r <> []).
Proof. exact run_zero_iff. Qed.
Print Assumptions C06_runner_exit.

(* the hypothesis g <> SIGALRM discharged: gotsig is written by sighandler only, which is installed for SIGTERM
   and - only when step_timeout() > 0 - for SIGALRM.  In C07's transition system of the runner (Exec/KillDefs.v:
   every interleaving of runner steps, signal arrivals and exits of group members) gotsig is never SIGALRM
   outside robsd-regress, nor in robsd-regress without a positive regress-timeout. *)
Theorem C06_alarm_only_when_armed : forall m regress_timeout tr t s,
  KillDefs.exec tr (KillDefs.init_tree t (step_timeout m regress_timeout)) = Some s ->
  m <> MRegress \/ regress_timeout <= 0 ->
  KillDefs.s_gotsig s <> sigalrm.
Proof. exact alarm_only_when_armed. Qed.
Print Assumptions C06_alarm_only_when_armed.

(* C07's hand-written decoding of the wait status is the function C06 is about, on every pair of integers *)
Theorem C06_exitstatus_models_agree : forall st g, KillDefs.exitstatus st g = exit_spec st g.
Proof. exact KillExit.kill_exitstatus_spec. Qed.
Print Assumptions C06_exitstatus_models_agree.

(* EXCEPTION 1 (exact, by design of regress-timeout): with a SIGALRM caught the status is 124 whatever the
   command did - also when it had exited 0 at the moment the alarm went off *)
Theorem C06_exit_zero_iff_refuted_alarm : forall cv trace name kern argv,
  resolve true cv trace name = RArgv argv -> kern argv = KWait (w_exited 0) ->
  exists d, run_with true cv trace name kern sigalrm = Exited (mkrun (Some argv) 124 d).
Proof. exact alarm_masks_exit_zero. Qed.
Print Assumptions C06_exit_zero_iff_refuted_alarm.

(* EXCEPTION 2 (REFUTES the literal statement; replayed on the real robsd-exec, findings/C06_fork_handshake.md):
   the child does not reach setsid() within the second step_fork waits for it - "process group failure"; the
   command runs all the same and exits 0; the runner exits 1 *)
Theorem C06_exit_zero_iff_refuted_handshake : forall cv trace name kern g argv,
  resolve true cv trace name = RArgv argv -> kern argv = KWait (w_exited 0) ->
  run_fork true cv trace name kern g HsLate = Exited (mkrun (Some argv) 1 [DGroupFail]).
Proof. exact handshake_masks_exit_zero. Qed.
Print Assumptions C06_exit_zero_iff_refuted_handshake.

(* on that path the status is never 0, the diagnostic is always there, a non-zero code still passes through *)
Theorem C06_handshake_late_nonzero : forall cv trace name kern g,
  exists r, run_fork true cv trace name kern g HsLate = Exited r /\ rr_exit r <> 0 /\ rr_diag r <> [] /\
    (forall argv, resolve true cv trace name = RArgv argv ->
       rr_argv r = Some argv /\ In DGroupFail (rr_diag r) /\
       rr_exit r = (if exit_spec (child_status (kern argv)) 0 =? 0 then 1 else exit_spec (child_status (kern argv)) 0)).
Proof. exact handshake_late_nonzero. Qed.
Print Assumptions C06_handshake_late_nonzero.

(* ... and when a SIGTERM reaches the runner while it waits for the child on that path (the handler is installed
   without SA_RESTART: waitpid returns -1, step_fork returns 1): status 1 at once, whatever the command does.
   This is the path on which C06's and C07's models used to differ; see C06_one_runner below. *)
Theorem C06_handshake_late_interrupted : forall cv trace name kern g,
  exists r, run_fork true cv trace name kern g HsLateIntr = Exited r /\ rr_exit r <> 0 /\ rr_diag r <> [] /\
    (forall argv, resolve true cv trace name = RArgv argv ->
       rr_argv r = Some argv /\ rr_diag r = [DGroupFail] /\ rr_exit r = 1).
Proof. exact handshake_late_interrupted. Qed.
Print Assumptions C06_handshake_late_interrupted.

(* ONE RUNNER MODEL.  C07's transition system (Exec/KillDefs.v: the program counters of step_exec / step_fork /
   killwaitpg1, signal arrivals, members of the group exiting, the handshake) and [run_fork] are the same runner:
   for EVERY execution of that system that ends in an exit with status c, [run_fork] - told the wait status the
   main process had ([kern] constant), the gotsig the runner had, and which of the three handshake cases the
   execution is in ([hs_of]: in time / late / late and interrupted by SIGTERM) - exits with the same c.  Hence
   C06_runner_exit_zero_iff, C06_handshake_late_nonzero and C06_handshake_late_interrupted speak about the exits of
   C07's system; [kern] and [g] of those theorems are instantiated, not free. *)
Theorem C06_one_runner : forall t timeout tr s c cv trace name argv,
  KillDefs.exec tr (KillDefs.init_tree t timeout) = Some s -> KillDefs.s_pc s = KillDefs.PExit c ->
  resolve true cv trace name = RArgv argv ->
  exists d, run_fork true cv trace name (fun _ => KWait (KillDefs.s_status s)) (KillDefs.s_gotsig s) (hs_of s)
            = Exited (mkrun (Some argv) c d).
Proof. exact runner_models_agree. Qed.
Print Assumptions C06_one_runner.

(* the path where they used to differ, explicitly: handshake failed, runner blocked in waitpid(pid), SIGTERM *)
Theorem C06_late_handshake_sigterm : forall t timeout tr s s1 s2 cv trace name kern g argv,
  KillDefs.exec tr (KillDefs.init_tree t timeout) = Some s -> KillDefs.s_pc s = KillDefs.PFailWaiting ->
  KillDefs.arrive KillDefs.SIGTERM s = Some s1 -> KillDefs.rstep s1 = Some s2 ->
  resolve true cv trace name = RArgv argv ->
  KillDefs.s_pc s2 = KillDefs.PExit 1 /\ hs_of s2 = HsLateIntr /\
  run_fork true cv trace name kern g HsLateIntr = Exited (mkrun (Some argv) 1 [DGroupFail]).
Proof. exact late_handshake_sigterm_agree. Qed.
Print Assumptions C06_late_handshake_sigterm.

(* on the failure path no alarm is armed, gotsig is never SIGALRM: exitstatus(status, 0) there IS exitstatus(status, gotsig) *)
Theorem C06_no_alarm_on_late_path : forall t timeout tr s,
  KillDefs.exec tr (KillDefs.init_tree t timeout) = Some s -> KillDefs.s_slow s = true ->
  KillDefs.s_gotsig s <> KillDefs.SIGALRM.
Proof. exact gotsig_never_alarm_late. Qed.
Print Assumptions C06_no_alarm_on_late_path.

(* HISTORICAL PINS about the run proper on the empty vector - what step_exec did before /repo 8e76449, and what
   it would do again without the test (C06_empty_command_is_error below is about the source in force):
   a command of which nothing is left after interpolation (every element renders empty; canvas
   command { "${trace}" }): the vector is empty, the child calls execvp(NULL, ...), which cannot run anything -
   the runner reports a non-zero status with a diagnostic.  This is the case the oracle spec_ok_step demands
   failure for (ExpRun []); theorem and oracle now agree (C06_oracle_accepts_model). *)
Theorem C06_empty_argv : forall cv trace name kern g,
  resolve true cv trace name = RArgv [] -> null_exec_fails kern ->
  exists r, run_with true cv trace name kern g = Exited r /\ rr_exit r <> 0 /\ rr_diag r <> [].
Proof. exact empty_argv. Qed.
Print Assumptions C06_empty_argv.

(* what the runner reports for the empty vector, by what execvp(NULL, ...) does in the child on the platform: -1
   (status 1, the child's diagnostic) or death from signal s (status 128+s, "process group exited" only) *)
Theorem C06_empty_argv_status : forall cv trace name kern g,
  resolve true cv trace name = RArgv [] -> g <> sigalrm ->
  (kern [] = KNoExec -> run_with true cv trace name kern g = Exited (mkrun (Some []) 1 [DExec; DExited 1])) /\
  (forall s core, 1 <= s <= 126 -> kern [] = KWait (w_signaled s core) ->
     run_with true cv trace name kern g = Exited (mkrun (Some []) (128 + s) [DExited (128 + s)])).
Proof. exact empty_argv_status. Qed.
Print Assumptions C06_empty_argv_status.

(* THE LITERAL READING of "... yields a non-zero status with a diagnostic RATHER THAN A CRASH" for the empty vector
   ([empty_argv_no_crash]: the status is not 128+N) is REFUTED by what glibc does - the forked child of robsd-exec
   dereferences the NULL name and dies from SIGSEGV, status 139 (replayed: corpus/C06/s4-empty-command.json; the
   harness measures the platform with tools/argvnullexec.c on every run) - and holds where execvp returns -1. *)
Theorem C06_empty_argv_no_crash_refuted : ~ empty_argv_no_crash.
Proof. exact empty_argv_no_crash_refuted. Qed.
Print Assumptions C06_empty_argv_no_crash_refuted.

Theorem C06_empty_argv_no_crash_partial : forall cv trace name kern g,
  resolve true cv trace name = RArgv [] -> kern [] = KNoExec -> g <> sigalrm ->
  exists r, run_with true cv trace name kern g = Exited r /\ rr_exit r = 1 /\ In DExec (rr_diag r).
Proof. exact empty_argv_no_crash_partial. Qed.
Print Assumptions C06_empty_argv_no_crash_partial.

(* ---- a command of which nothing is left after interpolation: refused since /repo 8e76449 ---- *)

(* step_exec as a whole ([step_exec_run]): between resolve_step_command and step_fork the source now tests
   command[0] == NULL.  For every resolution other than the empty vector step_exec IS the run proper, so the
   theorems about [run_with] / [run_fork] are about step_exec ... *)
Theorem C06_step_exec_is_run_fork : forall echk checked cv trace name kern g hs,
  resolve checked cv trace name <> RArgv [] ->
  step_exec_run echk checked cv trace name kern g hs = run_fork checked cv trace name kern g hs.
Proof. exact step_exec_run_nonempty. Qed.
Print Assumptions C06_step_exec_is_run_fork.

(* ... and for the empty vector THE CLAUSE HOLDS NOW, with no assumption about the platform: nothing is forked,
   nothing executed, status 1 (below 128: no process of robsd-exec dies from a signal), diagnostic "empty step
   command" - whatever execvp(NULL, ...) would do, whatever signal arrives, whatever the handshake.  The translator
   tells which body step_exec has ([empty_command_checked]); this stops compiling when the test is removed. *)
Theorem C06_empty_command_is_error : empty_command_is_error empty_command_checked.
Proof. exact (empty_command_if_checked eq_refl eq_refl). Qed.
Print Assumptions C06_empty_command_is_error.

(* HISTORICAL PIN (the body before 8e76449; replayed then: exit 139 on glibc, corpus/C06/s4-empty-command.json):
   without the test the clause fails where execvp(NULL, ...) kills the caller *)
Theorem C06_empty_command_unchecked_refuted : ~ empty_command_is_error false.
Proof. exact empty_command_unchecked_refuted. Qed.
Print Assumptions C06_empty_command_unchecked_refuted.

(* ---- unresolvable is an error, never a crash ---- *)

(* HISTORICAL PINS, not results about the current tree: the two theorems below are about [run_with false], the
   body find_step had before fix 0771f90 (no NULL check on a schedule that failed to interpolate - defect D5).
   The translator tells which body the source has ([find_step_null_checked], C06_unresolvable_is_error below
   stops compiling if the check is removed); were it removed again, these say what happens then. *)
Theorem C06_unresolvable_is_error_refuted :
  exists cv trace name kern g, run_with false cv trace name kern g = Crash.
Proof. exact unresolvable_shipped_refuted. Qed.
Print Assumptions C06_unresolvable_is_error_refuted.

Theorem C06_shipped_crash_iff : forall cv trace name kern g,
  run_with false cv trace name kern g = Crash <-> ~ schedule_ok (env_of cv trace) (cv_steps cv).
Proof. exact shipped_crash_iff. Qed.
Print Assumptions C06_shipped_crash_iff.

(* ---- hook ---- *)

Local Open Scope N_scope.


(* the source as it is now has the NULL check (fix 0771f90): the full statement
   holds for the runner in force; this stops compiling if the check is removed *)
Theorem C06_unresolvable_is_error : unresolvable_is_error find_step_null_checked.
Proof. exact (unresolvable_if_checked eq_refl). Qed.
Print Assumptions C06_unresolvable_is_error.

(* the three outcomes of robsd-hook, each characterised by the specification relations (no reference to the
   control flow of the model): it does nothing - exit 0, silent - exactly when the -v arguments are well formed
   and no hook (or an empty one) is configured; it fails - always status 1, one diagnostic - exactly when a -v
   argument is malformed or names a keyword, or an element of the hook does not render, or execvp fails; in the
   remaining case it becomes the command (C06_hook_argv_exact) *)
Theorem C06_hook_outcomes : forall m cv vs execok,
  (hook_run m cv vs execok = HNoop <-> vars_ok m vs /\ hook_unset cv) /\
  ((exists e d, hook_run m cv vs execok = HFail e d) <->
     ~ vars_ok m vs \/
     (exists extra l, Forall2 (var_rel (reserved_keywords m)) vs extra /\ cv_hook cv = Some l /\ l <> [] /\
        (~ Forall (renderable (alookup (env_list cv extra false))) l \/
         exists argv, hook_argv_of (alookup (env_list cv extra false)) l argv /\ execok argv = false))) /\
  (forall e d, hook_run m cv vs execok = HFail e d -> e = 1%Z).
Proof. exact hook_outcomes. Qed.
Print Assumptions C06_hook_outcomes.

(* ---- tie to the sources and to the oracle ---- *)

(* what the translator read: config_get_steps drops empty arguments and appends
   the sentinel, hook_to_argv drops nothing, the template is
   sh -eu ${trace} <script> <name>, ${trace} is -x or empty, an unresolved step
   exits 1, EX_TIMEOUT is 124 *)
Theorem C06_source_tie :
  steps_drop_empty = true /\ steps_null_sentinel = true /\ hook_drop_empty = false /\
  script_template = documented_template /\ trace_on = [45; 120] /\ trace_off = [] /\
  notfound_exit = 1%Z /\ ex_timeout = 124%Z.
Proof. exact gen_ties. Qed.
Print Assumptions C06_source_tie.

(* the boolean expectations the harness applies to the implementation's
   observations are the specification / agree with the model *)
Theorem C06_oracle_reflects_spec :
  (forall cv trace name argv,
     expect_step cv trace name = ExpRun argv <->
     schedule_ok (env_of cv trace) (cv_steps cv) /\
     exists sd, first_named name (cv_steps cv) sd /\ step_argv_of (env_of cv trace) (command_of sd) argv) /\
  (forall m cv vs execok,
     match expect_hook m cv vs with
     | HxNoop => hook_run m cv vs execok = HNoop
     | HxRun argv => hook_run m cv vs execok = if execok argv then HExec argv else HFail 1 HExecFail
     | HxError => exists d, hook_run m cv vs execok = HFail 1 d
     end).
Proof. exact (conj expect_step_spec expect_hook_model). Qed.
Print Assumptions C06_oracle_reflects_spec.

(* the hook oracle's expectation, against the specification relations themselves *)
Theorem C06_oracle_reflects_spec_hook : forall m cv vs,
  (forall argv, expect_hook m cv vs = HxRun argv <->
     exists extra l, Forall2 (var_rel (reserved_keywords m)) vs extra /\ cv_hook cv = Some l /\ l <> [] /\
                     hook_argv_of (alookup (env_list cv extra false)) l argv) /\
  (expect_hook m cv vs = HxNoop <-> vars_ok m vs /\ hook_unset cv).
Proof. exact (fun m cv vs => conj (expect_hook_spec m cv vs) (expect_hook_noop_spec m cv vs)). Qed.
Print Assumptions C06_oracle_reflects_spec_hook.

(* the oracle the harness applies to what robsd-exec did accepts every run of the MODEL: whatever the
   configuration view, the name, the kernel function and gotsig, as long as they are what the harness arranged
   ([arranged kx]: the probe cannot be executed / exits with code c / dies from signal s / outlives the timeout).
   [obs_of]: the argv dump exists only when a command was started. *)
Theorem C06_oracle_accepts_model : forall cv trace name kern g kx,
  null_exec_fails kern ->
  (forall argv, resolve true cv trace name = RArgv argv -> argv <> [] -> arranged kx kern g argv) ->
  exists r, run_with true cv trace name kern g = Exited r /\ spec_ok_step cv trace name kx (obs_of kern r) = true.
Proof. exact oracle_accepts_model. Qed.
Print Assumptions C06_oracle_accepts_model.

(* ... and every run of step_exec as the source has it now, with no assumption about execvp(NULL, ...) *)
Theorem C06_oracle_accepts_step_exec : forall cv trace name kern g kx,
  (0 < empty_exit)%Z ->
  (forall argv, resolve true cv trace name = RArgv argv -> argv <> [] -> arranged kx kern g argv) ->
  exists r, step_exec_run true true cv trace name kern g HsOk = Exited r /\
            spec_ok_step cv trace name kx (obs_of kern r) = true.
Proof. exact oracle_accepts_step_exec. Qed.
Print Assumptions C06_oracle_accepts_step_exec.

(* the hook oracle accepts every run of robsd-hook's model: [hobs_of] is what the harness sees (nothing and
   status 0; the command in robsd-hook's place with the status arranged for it; a failure with a diagnostic),
   [harranged]: execvp succeeds exactly when the harness did not make the command unexecutable *)
Theorem C06_oracle_accepts_hook : forall m cv vs execok kx,
  harranged kx execok ->
  spec_ok_hook m cv vs kx (hobs_of (hook_run m cv vs execok) kx) = true.
Proof. exact oracle_accepts_hook. Qed.
Print Assumptions C06_oracle_accepts_hook.

(* ---- non-vacuity ---- *)
Local Open Scope string_scope.

(* robsd mode, EXECDIR "/x y" (a space: one argument all the same), -x given,
   step "kernel"; the command exits 3: the runner executed
   sh -eu -x "/x y/robsd-kernel.sh" kernel and exits 3.  Without -x the third
   element renders to the empty string and is dropped. *)
Example C06_nonvacuous :
  let cv := mkcfg [] [(bs "exec-dir", bs "/x y")] (mode_schedule MRobsd [] []) None in
  run_with false cv true (bs "kernel") (fun _ => KWait (w_exited 3)) 0 =
    Exited (mkrun (Some [bs "sh"; bs "-eu"; bs "-x"; bs "/x y/robsd-kernel.sh"; bs "kernel"]) 3 [DExited 3]) /\
  resolve false cv false (bs "kernel") = RArgv [bs "sh"; bs "-eu"; bs "/x y/robsd-kernel.sh"; bs "kernel"] /\
  resolve true cv false (bs "nein") = RNone [DNotFound] /\
  hook_run MRobsd (mkcfg [] [] [] (Some [bs "echo"; bs "${a}"; bs "${b}"])) [bs "a=x y"; bs "b="] (fun _ => true)
    = HExec [bs "echo"; bs "x y"; []].
Proof. vm_compute. repeat split; reflexivity. Qed.
