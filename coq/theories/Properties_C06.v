(* Properties_C06.v - step and hook commands get their exact arguments; the exit
   status is faithful.  Only theorem statements, each closed by [exact] and
   followed by Print Assumptions.

   Model (Exec/ArgvDefs.v): the configuration as robsd-exec/robsd-hook see it
   ([cfgview]: variables as rendered by config_interpolate_lookup, rendered
   defaults, the step list, the hook list); config_steps_add_script's template,
   config_get_steps (every command of the schedule interpolated element by
   element with C09's model of interpolate.c, empty results dropped),
   find_step/resolve_step_command/step_exec ([resolve], [run_with]),
   config_append_var and hook_to_argv/main of robsd-hook ([hook_run]).
   gen/Gen_Exec.v, regenerated from the sources on every check by
   harness/t_exec.py, supplies the template, the step tables, the keyword
   lists, EX_TIMEOUT, the Gallina translation of step-exec.c's [exitstatus]
   (clang AST, glibc's W* macros expanded) and which of the two known bodies
   find_step has ([find_step_null_checked]).

   Specification (Exec/ArgvSpec.v): C09's substitution relation [Subst] lifted
   to lists ([renders], [step_argv_of], [hook_argv_of], [embeds]), lookup of the
   first step of a name ([first_named]), wait statuses decoded by arithmetic
   ([exit_spec]).

   The kernel (fork, execvp, waitpid) enters as the function [kern] from an
   argument vector to "execvp failed" or a wait status, and [gotsig]; both are
   universally quantified.

   FULL STATEMENT of the third clause, for reference (it is FALSE of the code
   as shipped - defect D5 - and TRUE of the code with the NULL check of
   findings/D5_find_step_null.diff; both facts are theorems below, and
   C06_unresolvable_is_error_current follows whichever body step-exec.c has):

     forall cv trace name kern gotsig,
       let o := step_run cv trace name kern gotsig in
       o <> Crash /\
       (unknown step name \/ a command of the schedule does not interpolate ->
          o = exited, nothing executed, status <> 0, some diagnostic) /\
       (the command resolves but execvp fails ->
          o = exited, status <> 0, the child's diagnostic)                        *)
From Robsd Require Import Exec.ArgvSpec Exec.ArgvProofs.
From Coq Require Import String.
Local Open Scope N_scope.

(* ---- arguments ---- *)

(* robsd-exec hands a vector to execvp exactly when every command of the
   schedule interpolates and the schedule has a step of that name; the vector
   is then the one of the FIRST such step: every configured element (for the
   script modes: sh -eu ${trace} <script> <name>) rendered as a whole by the
   substitution relation, the empty renderings left out, nothing else.  Holds
   for either body of find_step. *)
Theorem C06_argv_exact : forall checked cv trace name argv,
  resolve checked cv trace name = RArgv argv <->
  schedule_ok (env_of cv trace) (cv_steps cv) /\
  exists sd, first_named name (cv_steps cv) sd /\
             step_argv_of (env_of cv trace) (command_of sd) argv.
Proof. exact resolve_argv_exact. Qed.
Print Assumptions C06_argv_exact.

(* no word splitting, nothing added: the vector embeds monotonically into the
   configured list - each argument is the rendering of one configured element,
   each configured element yields at most one argument (none iff it renders to
   the empty string), so the vector is never longer than the configured list
   and holds no empty string *)
Theorem C06_argv_no_splitting : forall checked cv trace name argv,
  resolve checked cv trace name = RArgv argv ->
  exists sd, first_named name (cv_steps cv) sd /\
             embeds (env_of cv trace) (command_of sd) argv /\
             (List.length argv <= List.length (command_of sd))%nat /\
             Forall (fun a => a <> []) argv.
Proof. exact resolve_no_splitting. Qed.
Print Assumptions C06_argv_no_splitting.

(* robsd-hook executes a vector exactly when every -v argument is name=value
   with a name that is not a configuration keyword, a non-empty hook is
   configured, every element of it renders (in the environment extended by
   the -v variables) and execvp succeeds; the vector is the element-wise
   rendering - same length, nothing dropped, nothing split *)
Theorem C06_hook_argv_exact : forall m cv vs execok argv,
  (hook_run m cv vs execok = HExec argv <->
   exists extra l, Forall2 (var_rel (reserved_keywords m)) vs extra /\ cv_hook cv = Some l /\ l <> [] /\
                   hook_argv_of (alookup (env_list cv extra false)) l argv /\ execok argv = true) /\
  (forall env l, hook_argv_of env l argv -> List.length argv = List.length l).
Proof. exact (fun m cv vs execok argv => conj (hook_exact m cv vs execok argv) (fun env l => hook_argv_length env l argv)). Qed.
Print Assumptions C06_hook_argv_exact.

(* ---- exit status ---- *)

Local Open Scope Z_scope.

(* the function the repository compiles - step-exec.c exitstatus with glibc's
   WIFEXITED / WEXITSTATUS / WIFSIGNALED / WTERMSIG expanded, translated from
   clang's AST - is defined (no trap, no undefined behaviour) on every wait
   status and every signal number, all of [int] and beyond, and decodes it as
   [exit_spec] says.  In particular: a command that exited with code c gives c
   unchanged; death by signal s gives 128+s, core dump or not; a caught SIGALRM
   (regress-timeout) gives 124 whatever the status; and on the statuses
   waitpid(2) produces the result is 0 exactly for "exited with code 0". *)
Theorem C06_exit_faithful :
  (forall w g, exit_of_wait w g = Some (exit_spec w g)) /\
  (forall code g, 0 <= code <= 255 -> g <> sigalrm -> exit_of_wait (w_exited code) g = Some code) /\
  (forall s core g, 1 <= s <= 126 -> g <> sigalrm -> exit_of_wait (w_signaled s core) g = Some (128 + s)) /\
  (forall w, exit_of_wait w sigalrm = Some 124) /\
  (forall w g, kernel_status w -> g <> sigalrm -> (exit_of_wait w g = Some 0 <-> w = w_exited 0)) /\
  (forall w g, exit_of_wait w g = Some 0 <-> g <> sigalrm /\ w mod 128 = 0 /\ (w / 256) mod 256 = 0) /\
  (forall w g, 0 <= exit_spec w g <= 255).
Proof. exact exit_faithful_all. Qed.
Print Assumptions C06_exit_faithful.

(* the runner's own exit status is that decoding of the wait status of the
   command it executed (execvp failing in the child counts as the child's
   err(1, ...)), with a diagnostic whenever it is not 0 *)
Theorem C06_runner_exit : forall checked cv trace name kern g argv,
  resolve checked cv trace name = RArgv argv ->
  exists d, run_with checked cv trace name kern g =
            Exited (mkrun (Some argv) (exit_spec (child_status (kern argv)) g) d) /\
            (exit_spec (child_status (kern argv)) g <> 0 -> d <> []) /\
            (kern argv = KNoExec -> In DExec d).
Proof. exact run_exit. Qed.
Print Assumptions C06_runner_exit.

(* ---- unresolvable is an error, never a crash ---- *)

(* REFUTED for find_step as shipped (defect D5): canvas
   step "s" command { "sh" "-c" "kill -9 $$" } - the lone '$' does not
   interpolate, config_get_steps returns NULL, find_step reads the length in
   front of the null pointer.  Replayed on the real binary by the check
   (signature exec-crash-on-uninterpolatable-command). *)
Theorem C06_unresolvable_is_error_refuted :
  exists cv trace name kern g, run_with false cv trace name kern g = Crash.
Proof. exact unresolvable_shipped_refuted. Qed.
Print Assumptions C06_unresolvable_is_error_refuted.

(* ... and that is the only way it crashes: exactly when some command of the
   schedule (of ANY step, not only the requested one) does not interpolate *)
Theorem C06_shipped_crash_iff : forall cv trace name kern g,
  run_with false cv trace name kern g = Crash <-> ~ schedule_ok (env_of cv trace) (cv_steps cv).
Proof. exact shipped_crash_iff. Qed.
Print Assumptions C06_shipped_crash_iff.

(* PARTIAL, the exact guard: with a schedule that interpolates, the shipped
   runner satisfies the full statement *)
Theorem C06_unresolvable_is_error_partial : forall cv trace name kern g,
  schedule_ok (env_of cv trace) (cv_steps cv) ->
  let o := run_with false cv trace name kern g in
  o <> Crash /\
  ((~ known_step name (cv_steps cv) \/ ~ schedule_ok (env_of cv trace) (cv_steps cv)) ->
     exists r, o = Exited r /\ rr_argv r = None /\ rr_exit r <> 0 /\ rr_diag r <> []) /\
  (forall argv, resolve false cv trace name = RArgv argv -> kern argv = KNoExec ->
     exists r, o = Exited r /\ rr_exit r <> 0 /\ In DExec (rr_diag r)).
Proof. exact (fun cv trace name kern g H => unresolvable_guarded false cv trace name kern g (or_intror H)). Qed.
Print Assumptions C06_unresolvable_is_error_partial.

(* FULL statement, for find_step with the NULL check *)
Theorem C06_unresolvable_is_error_fixed : unresolvable_is_error true.
Proof. exact unresolvable_checked. Qed.
Print Assumptions C06_unresolvable_is_error_fixed.

(* the code as it is now: the translator says which body find_step has; the
   model in force ([step_run]) is that variant, and it either has the witness
   or satisfies the full statement.  This theorem and the next one keep
   compiling when the NULL check is applied; the full statement then holds of
   [step_run] without a guard. *)
Theorem C06_unresolvable_is_error_current :
  (find_step_null_checked = false /\
   exists cv trace name kern g, step_run cv trace name kern g = Crash) \/
  (find_step_null_checked = true /\ unresolvable_is_error find_step_null_checked).
Proof. exact current_unresolvable. Qed.
Print Assumptions C06_unresolvable_is_error_current.

Theorem C06_unresolvable_is_error_when_checked :
  find_step_null_checked = true -> unresolvable_is_error find_step_null_checked.
Proof. exact unresolvable_if_checked. Qed.
Print Assumptions C06_unresolvable_is_error_when_checked.

(* ---- hook ---- *)

Local Open Scope N_scope.


(* the source as it is now has the NULL check (fix 0771f90): the full statement
   holds for the runner in force; this stops compiling if the check is removed *)
Theorem C06_unresolvable_is_error : unresolvable_is_error find_step_null_checked.
Proof. exact (unresolvable_if_checked eq_refl). Qed.
Print Assumptions C06_unresolvable_is_error.

(* no hook configured (or an empty one): robsd-hook never executes anything;
   it exits 0 without a word when the -v arguments are well formed and 1 with
   a diagnostic about the offending -v argument otherwise *)
Theorem C06_hook_noop_when_unset : forall m cv vs execok,
  hook_unset cv ->
  (forall argv, hook_run m cv vs execok <> HExec argv) /\
  ((exists extra, Forall2 (var_rel (reserved_keywords m)) vs extra) -> hook_run m cv vs execok = HNoop) /\
  (~ (exists extra, Forall2 (var_rel (reserved_keywords m)) vs extra) ->
     exists d, hook_run m cv vs execok = HFail 1 d).
Proof. exact hook_noop. Qed.
Print Assumptions C06_hook_noop_when_unset.

(* ---- tie to the sources and to the oracle ---- *)

(* what the translator read: config_get_steps drops empty arguments and appends
   the sentinel, hook_to_argv drops nothing, the template is
   sh -eu ${trace} <script> <name>, ${trace} is -x or empty, an unresolved step
   exits 1, EX_TIMEOUT is 124 *)
Theorem C06_source_tie :
  steps_drop_empty = true /\ steps_null_sentinel = true /\ hook_drop_empty = false /\
  script_template = documented_template /\ trace_on = [45; 120] /\ trace_off = [] /\
  notfound_exit = 1%Z /\ ex_timeout = 124%Z.
Proof. exact gen_ties. Qed.
Print Assumptions C06_source_tie.

(* the boolean expectations the harness applies to the implementation's
   observations are the specification / agree with the model *)
Theorem C06_oracle_reflects_spec :
  (forall cv trace name argv,
     expect_step cv trace name = ExpRun argv <->
     schedule_ok (env_of cv trace) (cv_steps cv) /\
     exists sd, first_named name (cv_steps cv) sd /\ step_argv_of (env_of cv trace) (command_of sd) argv) /\
  (forall m cv vs execok,
     match expect_hook m cv vs with
     | HxNoop => hook_run m cv vs execok = HNoop
     | HxRun argv => hook_run m cv vs execok = if execok argv then HExec argv else HFail 1 HExecFail
     | HxError => exists d, hook_run m cv vs execok = HFail 1 d
     end).
Proof. exact (conj expect_step_spec expect_hook_model). Qed.
Print Assumptions C06_oracle_reflects_spec.

(* ---- non-vacuity ---- *)
Local Open Scope string_scope.

(* robsd mode, EXECDIR "/x y" (a space: one argument all the same), -x given,
   step "kernel"; the command exits 3: the runner executed
   sh -eu -x "/x y/robsd-kernel.sh" kernel and exits 3.  Without -x the third
   element renders to the empty string and is dropped. *)
Example C06_nonvacuous :
  let cv := mkcfg [] [(bs "exec-dir", bs "/x y")] (mode_schedule MRobsd [] []) None in
  run_with false cv true (bs "kernel") (fun _ => KWait (w_exited 3)) 0 =
    Exited (mkrun (Some [bs "sh"; bs "-eu"; bs "-x"; bs "/x y/robsd-kernel.sh"; bs "kernel"]) 3 [DExited 3]) /\
  resolve false cv false (bs "kernel") = RArgv [bs "sh"; bs "-eu"; bs "/x y/robsd-kernel.sh"; bs "kernel"] /\
  resolve true cv false (bs "nein") = RNone [DNotFound] /\
  hook_run MRobsd (mkcfg [] [] [] (Some [bs "echo"; bs "${a}"; bs "${b}"])) [bs "a=x y"; bs "b="] (fun _ => true)
    = HExec [bs "echo"; bs "x y"; []].
Proof. vm_compute. repeat split; reflexivity. Qed.
