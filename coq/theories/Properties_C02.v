(* Properties_C02.v - concurrent step-file writers and readers are serialised.
   System: LockDefs.v - any number of processes, each performing
   open, flock, read, [truncate, write ... write/close], unlock as separate atomic steps, under
   ANY schedule (list of process ids of any length; steps that are not enabled
   are skipped).  [upd p c] is what process p writes after reading c (None for
   readers and rejected writes); for robsd-step it is [ops_upd ops] built from
   the C01 model (LockSpec.v).  [mids p c] are the contents the file passes through while the
   new content c is being written (several write(2) calls); every theorem holds for every [mids].
   [eff f0 l] = the content after the processes of l ran one at a time in that order.

   The property speaks of readers and writers that TAKE the lock (robsd-step -R / -W, robsd-report,
   robsd-regress-html all go through steps_parse).  What a reader that does not lock can see is
   stated too (C02_file_at_every_state) and is not always a committed prefix
   (C02_reader_without_lock_refuted).
   The order of the calls in step.c / robsd-step.c is regenerated from the source (Gen_Lock).  Each call
   is given its meaning on the shared state (LockInterp.exec_op: the assumptions about flock, read,
   fopen("we"), fwrite, fclose, LOCK_UN, stated per call) and the calls between two sync points,
   executed from any state, ARE the transition [LockDefs.step] makes there
   (C02_source_calls_are_model_steps); every interleaving of processes executing these lists is a run of
   the transition system (C02_source_interleavings_are_model_runs), so mutual exclusion, committed prefixes
   and serialisability hold of them (C02_source_interleavings_are_serialised); the hand-written automaton [walk1] of the earlier tie
   (C02_source_order_is_model_order: the lists are accepted by it - a pin) passes the sync points at
   exactly those counters (C02_walk_agrees_with_step).
   Assumed (kernel): flock grants the lock only when it is free; the operations
   between two sync points are atomic; a crash or a refused write inside the critical section is
   outside the property's quantifier (schedules only) - what a refused write does is
   C02_refused_write_under_lock_refuted. *)
From Robsd Require Import Lock.LockSpec Lock.LockProofs Lock.LockOracle Lock.LockBridge Lock.LockOps Lock.LockTie
  Lock.LockInterp Lock.LockRefine Lock.LockRefused.
From Robsd Require Import Step.StepSpec Step.StepRows Step.StepWrite Step.StepHistory Step.StepFault Step.StepExit0
  Step.StepRenumber Step.StepLatest Step.StepRead Interp.InterpSpec.
From RobsdGen Require Import Gen_Step Gen_Lock.
Local Open Scope N_scope.

Theorem C02_mutex : forall upd mids f0 s p q,
  reachable upd mids f0 s -> mid (pcs s p) -> mid (pcs s q) -> p = q.
Proof. exact mutual_exclusion. Qed.
Print Assumptions C02_mutex.

Theorem C02_only_holder_writes : forall upd mids f0 s p s',
  reachable upd mids f0 s -> step upd mids s p = Some s' -> file s' <> file s -> lock s = Some p.
Proof. exact only_holder_writes. Qed.
Print Assumptions C02_only_holder_writes.

(* no reader (or writer) that locks ever sees a partially written or empty intermediate:
   what it read is the complete result of a prefix of the lock order - although the file does
   hold empty and partial contents at times (C02_reader_without_lock_refuted) *)
Theorem C02_reads_see_committed_prefix : forall upd mids f0 s p,
  reachable upd mids f0 s -> has_read (pcs s p) ->
  exists pre post, log s = pre ++ p :: post /\ snaps s p = eff upd f0 pre.
Proof. exact snapshot_is_committed_prefix. Qed.
Print Assumptions C02_reads_see_committed_prefix.

(* no update is lost: once every started process has finished, the file is the
   result of applying them one at a time in the order of lock acquisition, each
   exactly once *)
Theorem C02_serialisable : forall upd mids f0 s,
  reachable upd mids f0 s -> (forall q, pcs s q = PDone \/ before_lock (pcs s q)) ->
  lock s = None /\ file s = eff upd f0 (log s) /\ NoDup (log s) /\
  (forall q, In q (log s) <-> pcs s q = PDone) /\
  (forall q, pcs s q = PDone -> exists pre post, log s = pre ++ q :: post /\ snaps s q = eff upd f0 pre).
Proof. exact quiescent_is_serial. Qed.
Print Assumptions C02_serialisable.

(* at EVERY reachable state, quiescent or not, what the file holds: the committed result when the
   lock is free; while h holds it, the result of those before h, or nothing (h truncated), or one of
   the intermediate contents of h's rewrite, or h's complete result.  The empty and intermediate
   contents exist only while the lock is held *)
Theorem C02_file_at_every_state : forall upd mids f0 s,
  reachable upd mids f0 s ->
  match lock s with
  | None => file s = eff upd f0 (log s)
  | Some h =>
      exists l', log s = l' ++ [h] /\
        (file s = eff upd f0 l' \/
         (pcs s h = PTruncated /\ file s = []) \/
         (exists todo c, pcs s h = PWriting todo /\ upd h (eff upd f0 l') = Some c /\ In (file s) (mids h c)) \/
         (pcs s h = PWritten /\ file s = eff upd f0 (l' ++ [h])))
  end.
Proof. exact file_at_every_state. Qed.
Print Assumptions C02_file_at_every_state.

(* a reader that does NOT take the lock is outside the property: there are reachable states in which
   the file is empty, or a strict prefix of the new content, and equals the result of no prefix of
   the lock order; the reader that waits for the lock reads the complete content *)
Theorem C02_reader_without_lock_refuted :
  let s0 := run append_upd half_mids (init [120; 121]) [0; 0; 0; 0; 0; 1; 1]%nat in
  let s1 := run append_upd half_mids s0 [0]%nat in
  let s2 := run append_upd half_mids s1 [0; 0; 1; 1]%nat in
  file s0 = [] /\ file s1 = [120] /\ lock s1 = Some 0%nat /\ pcs s1 1%nat = POpened /\
  (forall pre, file s0 <> eff append_upd [120; 121] pre) /\ (forall pre, file s1 <> eff append_upd [120; 121] pre) /\
  log s2 = [0; 1]%nat /\ snaps s2 1%nat = [120; 121; 97].
Proof. exact partial_content_is_reachable_but_never_read. Qed.
Print Assumptions C02_reader_without_lock_refuted.

(* ---- robsd-step: C02 composed with C01 ------------------------------------------------------------------ *)

(* the effect of serialised robsd-step processes is the C01 history of their write commands *)
Theorem C02_eff_is_C01_history : forall ops f0 l,
  eff (ops_upd ops) f0 l = fold_left model_step (writes_of ops l) f0.
Proof. exact eff_is_history. Qed.
Print Assumptions C02_eff_is_C01_history.

(* any concurrent run from the empty step file, once quiescent, equals a serial C01 history: the
   file represents the dictionary of the accepted writes in lock order, each process exactly once,
   and a read returns the most recently written value in that order - for every set of commands and
   every order of them: that no command renumbers a row is discharged by the id test of action_write
   (C01, [eq_refl] on the switch read from robsd-step.c) *)
Theorem C02_concurrent_history : forall ops mids s,
  reachable (ops_upd ops) mids [] s -> (forall q, pcs s q = PDone \/ before_lock (pcs s q)) ->
  NoDup (log s) /\ (forall q, In q (log s) <-> pcs s q = PDone) /\
  file s = fold_left model_step (writes_of ops (log s)) [] /\
  exists ds, Forall wfdata ds /\ sorted ds /\ reps ds (file s) /\
    abs ds = fold_left spec_step (writes_of ops (log s)) [] /\
    forall id fd, In fd fields ->
      match latest (tagged [] (map cw (writes_of ops (log s))) []) id (fd_index fd) with
      | None => find_data id ds = None
      | Some x =>
          exists d v, find_data id ds = Some d /\ x = Some v /\
            (forall posarg, strtonum id_min id_max (cstr posarg) = NumOk (Z.of_nat (S (pos_of id ds))) ->
               read_cmd (Some (file s)) (ById posarg) (ref (fd_name fd) ++ [NL]) = (0, render_value v ++ [NL])) /\
            (forall n, first_named (cstr n) ds = Some d ->
               read_cmd (Some (file s)) (ByName n) (ref (fd_name fd) ++ [NL]) = (0, render_value v ++ [NL]))
      end.
Proof. exact (fun ops mids s R Q => concurrent_history ops mids s R Q (never_renumbers_checked eq_refl _ [])). Qed.
Print Assumptions C02_concurrent_history.

(* what the harness compares per process ([final_reports]) is what the same command reports when
   run alone on the file of the C01 history of the processes granted the lock before it *)
Theorem C02_reports_are_serial : forall ops mids f0 s p o,
  reachable (ops_upd ops) mids f0 s -> pcs s p = PDone -> nth_error ops p = Some o ->
  exists pre post, log s = pre ++ p :: post /\
    nth_error (final_reports ops s) p = Some (op_out o (fold_left model_step (writes_of ops pre) f0)).
Proof. exact reports_are_serial. Qed.
Print Assumptions C02_reports_are_serial.

(* the serialisability oracle the harness applies to real processes accepts every run of the model:
   once the n processes have finished, final file and reports are those of the lock order, which is
   among the orders the oracle tries *)
Theorem C02_oracle_accepts_model : forall ops mids f0 s,
  reachable (ops_upd ops) mids f0 s ->
  (forall q, (q < length ops)%nat -> pcs s q = PDone) ->
  (forall q, (length ops <= q)%nat -> pcs s q = PStart) ->
  spec_ok_serial ops f0 (file s) (final_reports ops s) = true.
Proof. exact serial_oracle_accepts_model. Qed.
Print Assumptions C02_oracle_accepts_model.

(* ---- the code has the order the model assumes -------------------------------------------------------------- *)

(* the calls of a write command and of a read command, as they stand in step.c, walk through the
   program counters of the model, each sync point at the counter it stands for *)
Theorem C02_source_order_is_model_order :
  walk PStart writer_calls = Some PDone /\
  points PStart writer_calls =
    [(0, POpened); (1, PLocked); (2, PRead); (3, PBeforeTrunc); (4, PTruncated); (5, PWritten); (6, PDone)]%nat /\
  walk PStart reader_calls = Some PDone /\
  points PStart reader_calls = [(0, POpened); (1, PLocked); (2, PRead); (6, PDone)]%nat.
Proof. exact source_order_is_model_order. Qed.
Print Assumptions C02_source_order_is_model_order.

Theorem C02_command_call_order :
  main_write_calls = [CParse; CActionWrite; CFree] /\
  main_read_calls = [CParse; CRead; CFree] /\
  action_write_calls = [CFind; CSetKeyval; CWrite].
Proof. exact command_call_order. Qed.
Print Assumptions C02_command_call_order.

(* THE TIE, derived: the generated call lists, cut at the sync points, executed call by call under the
   per-call meaning [exec_op] from ANY state in which the caller stands at the counter of the previous
   point, give the state [LockDefs.step] gives (from PTruncated: the steps through all intermediate
   contents), are blocked exactly when [step] is, and the counters chain from PStart to PDone: for a
   command that rewrites the file and for one that does not (a reader, a rejected write) *)
Theorem C02_source_calls_are_model_steps : forall upd mids,
  (snd (segments [] writer_calls) = [] /\ chain_sim upd mids true PStart (fst (segments [] writer_calls))) /\
  (snd (segments [] reader_calls) = [] /\ chain_sim upd mids false PStart (fst (segments [] reader_calls))).
Proof.
  exact (fun upd mids => conj (writer_segments_are_model_steps upd mids) (reader_segments_are_model_steps upd mids)).
Qed.
Print Assumptions C02_source_calls_are_model_steps.

(* [step] cannot distinguish the states that simulation identifies (equal up to the extension of the
   per-process fields) *)
Theorem C02_step_respects_state_equivalence : forall upd mids a b p,
  steq a b -> osteq (step upd mids a p) (step upd mids b p).
Proof. exact step_respects_steq. Qed.
Print Assumptions C02_step_respects_state_equivalence.

(* THE REFINEMENT: processes that execute the generated call lists (after the read: write_path if the command
   rewrites the file, free_path if not), interleaved by ANY schedule at the granularity of the sync points -
   the granularity at which the harness drives the real processes - reach a state that some run of the
   transition system reaches (equal up to the extension of the per-process fields) *)
Theorem C02_source_interleavings_are_model_runs : forall upd mids f0 sched,
  exists sched', steq (impl_run upd mids (init f0) sched) (run upd mids (init f0) sched').
Proof. exact source_interleavings_are_model_runs. Qed.
Print Assumptions C02_source_interleavings_are_model_runs.

(* hence, for the call order that stands in step.c / robsd-step.c today: mutual exclusion, every process that
   has read has read the complete result of a prefix of the lock order, and a quiescent state holds the result
   of applying the processes one at a time in lock order, each exactly once *)
Theorem C02_source_interleavings_are_serialised : forall upd mids f0 sched,
  let s := impl_run upd mids (init f0) sched in
  (forall p q, mid (pcs s p) -> mid (pcs s q) -> p = q) /\
  (forall p, has_read (pcs s p) -> exists pre post, log s = pre ++ p :: post /\ snaps s p = eff upd f0 pre) /\
  ((forall q, pcs s q = PDone \/ before_lock (pcs s q)) ->
     lock s = None /\ file s = eff upd f0 (log s) /\ NoDup (log s) /\ (forall q, In q (log s) <-> pcs s q = PDone)).
Proof. exact source_interleavings_are_serialised. Qed.
Print Assumptions C02_source_interleavings_are_serialised.

(* the automaton of C02_source_order_is_model_order passes the sync points at the counters the points stand
   for, which are the counters [step] reaches by the theorem above; and the two call lists are what main
   and action_write of robsd-step.c (generated) expand to *)
Theorem C02_walk_agrees_with_step :
  (forall c n c', walk1 c (FPoint n) = Some c' -> point_pc n = Some c') /\
  points PStart writer_calls =
    map (fun sg => (snd sg, match point_pc (snd sg) with Some c => c | None => PStart end)) (fst (segments [] writer_calls)) /\
  points PStart reader_calls =
    map (fun sg => (snd sg, match point_pc (snd sg) with Some c => c | None => PStart end)) (fst (segments [] reader_calls)) /\
  flat_map expand_main main_write_calls = writer_calls /\
  flat_map expand_main main_read_calls = reader_calls.
Proof.
  exact (conj walk1_point (conj (proj1 walk_agrees_with_step) (conj (proj2 walk_agrees_with_step) command_calls_expand))).
Qed.
Print Assumptions C02_walk_agrees_with_step.

(* ---- what breaks it -------------------------------------------------------------------------------------------- *)

(* without the lock the same processes lose an update *)
Theorem C02_refuted_without_lock :
  let sched := [0; 0; 0; 1; 1; 1; 0; 0; 0; 0; 1; 1; 1; 1]%nat in
  let s := run_nolock append_upd no_mids (init []) sched in
  pcs s 0%nat = PDone /\ pcs s 1%nat = PDone /\ file s = [98] /\
  file s <> eff append_upd [] [0; 1]%nat /\ file s <> eff append_upd [] [1; 0]%nat.
Proof. exact lost_update_without_lock. Qed.
Print Assumptions C02_refuted_without_lock.

(* with the lock released after the truncation but before the data is in the file: a reader that
   locks reads an empty file (no prefix of the lock order) and an update is lost *)
Theorem C02_refuted_with_early_unlock :
  let sched := [0; 0; 0; 0; 0; 1; 1; 1; 1; 2; 2; 2; 2; 2; 2; 2; 0; 0]%nat in
  let s := run_early_unlock eu_upd no_mids (init [120]) sched in
  pcs s 0%nat = PDone /\ pcs s 1%nat = PDone /\ pcs s 2%nat = PDone /\ log s = [0; 1; 2]%nat /\
  snaps s 1%nat = [] /\
  (forall pre, snaps s 1%nat <> eff eu_upd [120] pre) /\
  file s = [120; 97] /\ file s <> eff eu_upd [120] (log s).
Proof. exact early_unlock_breaks_both_clauses. Qed.
Print Assumptions C02_refuted_with_early_unlock.

(* a write refused by the file system inside the critical section (C01) is not one of the successful
   writes, yet the next process starts from the empty file it left *)
Theorem C02_refused_write_under_lock_refuted :
  let f2 := fold_left model_step [([49], fw_full [111;110;101]); ([50], fw_full [116;119;111])] [] in
  let r3 := write_cmdk (Some 0%nat) (Some f2) [51] (fw_full [116;104;114;101;101]) in
  let r4 := write_cmdk None (snd r3) [52] (fw_full [102;111;117;114]) in
  fst r3 = 1 /\ fst r4 = 0 /\
  snd r4 <> Some (model_step f2 ([52], fw_full [102;111;117;114])).
Proof. exact refused_write_under_lock_refuted. Qed.
Print Assumptions C02_refused_write_under_lock_refuted.

(* what the others experience after a refusal (or after the holder was killed between fopen("we") and
   fclose - k = 0): the waiter that gets the lock next reads exactly the first k bytes of the new content *)
Theorem C02_waiter_reads_cut : forall upd mids k s p q c s1 s2 s3 s4,
  p <> q -> pcs s q = POpened -> upd p (snaps s p) = Some c ->
  step_refused upd k s p = Some s1 ->
  step upd mids s1 p = Some s2 -> step upd mids s2 q = Some s3 -> step upd mids s3 q = Some s4 ->
  file s1 = firstn k c /\ lock s2 = None /\ lock s3 = Some q /\ snaps s4 q = firstn k c.
Proof. exact waiter_reads_cut. Qed.
Print Assumptions C02_waiter_reads_cut.

(* and if that content does not parse, the run is poisoned: under EVERY schedule of robsd-step commands
   the file never changes again and every command exits 1 *)
Theorem C02_poisoned_run : forall ops mids f, parse_file f = None ->
  forall sched s, quiet_on f s ->
    quiet_on f (run (ops_upd ops) mids s sched) /\
    file (run (ops_upd ops) mids s sched) = f /\
    (forall p o, nth_error ops p = Some o -> fst (op_out o f) = 1).
Proof. exact poisoned_run. Qed.
Print Assumptions C02_poisoned_run.

(* non-vacuity: two writers and a reader interleaved; the second writer is blocked until the first unlocks *)
Example C02_example :
  let sched := [0; 1; 0; 1; 0; 0; 0; 0; 0; 1; 1; 1; 1; 1; 1; 2; 2; 2; 2; 2; 2; 2]%nat in
  let s := run append_upd no_mids (init [120]) sched in
  log s = [0; 1; 2]%nat /\ file s = [120; 97; 98; 99] /\ snaps s 1%nat = [120; 97] /\
  (forall q, (q < 3)%nat -> pcs s q = PDone).
Proof.
  cbv zeta. split; [vm_compute; reflexivity|]. split; [vm_compute; reflexivity|]. split; [vm_compute; reflexivity|].
  intros q Hq. destruct q as [|[|[|q]]]; try (vm_compute; reflexivity). lia.
Qed.
