(* Properties_C02.v - concurrent step-file writers and readers are serialised.
   System: LockDefs.v - any number of processes, each performing
   open, flock, read, [truncate, write], unlock as separate atomic steps, under
   ANY schedule (list of process ids of any length; steps that are not enabled
   are skipped).  [upd p c] is what process p writes after reading c (None for
   readers and rejected writes); for robsd-step it is [ops_upd ops] built from
   the C01 model (LockSpec.v).  [eff f0 l] = the content after the processes of
   l ran one at a time in that order.
   Assumed (kernel): flock grants the lock only when it is free; the operations
   between two sync points are atomic; a crash inside the critical section is
   outside the property's quantifier (schedules only). *)
From Robsd Require Import Lock.LockSpec Lock.LockProofs.
Local Open Scope N_scope.

Theorem C02_mutex : forall upd f0 s p q,
  reachable upd f0 s -> mid (pcs s p) -> mid (pcs s q) -> p = q.
Proof. exact mutual_exclusion. Qed.
Print Assumptions C02_mutex.

Theorem C02_only_holder_writes : forall upd f0 s p s',
  reachable upd f0 s -> step upd s p = Some s' -> file s' <> file s -> lock s = Some p.
Proof. exact only_holder_writes. Qed.
Print Assumptions C02_only_holder_writes.

(* no reader (or writer) ever sees a partially written or empty intermediate:
   what it read is the complete result of a prefix of the lock order *)
Theorem C02_reads_see_committed_prefix : forall upd f0 s p,
  reachable upd f0 s ->
  (pcs s p = PRead \/ pcs s p = PBeforeTrunc \/ pcs s p = PTruncated \/ pcs s p = PWritten \/ pcs s p = PDone) ->
  exists pre post, log s = pre ++ p :: post /\ snaps s p = eff upd f0 pre.
Proof. exact snapshot_is_committed_prefix. Qed.
Print Assumptions C02_reads_see_committed_prefix.

(* no update is lost: once every started process has finished, the file is the
   result of applying them one at a time in the order of lock acquisition, each
   exactly once *)
Theorem C02_serialisable : forall upd f0 s,
  reachable upd f0 s -> (forall q, pcs s q = PDone \/ before_lock (pcs s q)) ->
  lock s = None /\ file s = eff upd f0 (log s) /\ NoDup (log s) /\
  (forall q, In q (log s) <-> pcs s q = PDone) /\
  (forall q, pcs s q = PDone -> exists pre post, log s = pre ++ q :: post /\ snaps s q = eff upd f0 pre).
Proof. exact quiescent_is_serial. Qed.
Print Assumptions C02_serialisable.

(* the same, for robsd-step commands: what each process reports is what the
   command reports when run alone on the result of the processes before it *)
Theorem C02_robsd_step_reports : forall ops f0 s p o,
  reachable (ops_upd ops) f0 s -> pcs s p = PDone -> nth_error ops p = Some o ->
  exists pre post, log s = pre ++ p :: post /\
    op_out o (snaps s p) = op_out o (eff (ops_upd ops) f0 pre).
Proof.
  exact (fun ops f0 s p o R Hd _ =>
    match snapshot_is_committed_prefix (ops_upd ops) f0 s p R (or_intror (or_intror (or_intror (or_intror Hd)))) with
    | ex_intro _ pre (ex_intro _ post (conj Hl Hs)) =>
        ex_intro _ pre (ex_intro _ post (conj Hl (f_equal (op_out o) Hs)))
    end).
Qed.
Print Assumptions C02_robsd_step_reports.

(* without the lock the same processes lose an update *)
Theorem C02_refuted_without_lock :
  let sched := [0; 0; 0; 1; 1; 1; 0; 0; 0; 0; 1; 1; 1; 1]%nat in
  let s := run_nolock append_upd (init []) sched in
  pcs s 0%nat = PDone /\ pcs s 1%nat = PDone /\ file s = [98] /\
  file s <> eff append_upd [] [0; 1]%nat /\ file s <> eff append_upd [] [1; 0]%nat.
Proof. exact lost_update_without_lock. Qed.
Print Assumptions C02_refuted_without_lock.

(* non-vacuity: two writers and a reader interleaved; the second writer is blocked until the first unlocks *)
Example C02_example :
  let sched := [0; 1; 0; 1; 0; 0; 0; 0; 0; 1; 1; 1; 1; 1; 1; 2; 2; 2; 2; 2; 2; 2]%nat in
  let s := run append_upd (init [120]) sched in
  log s = [0; 1; 2]%nat /\ file s = [120; 97; 98; 99] /\ snaps s 1%nat = [120; 97] /\
  (forall q, (q < 3)%nat -> pcs s q = PDone).
Proof.
  cbv zeta. split; [vm_compute; reflexivity|]. split; [vm_compute; reflexivity|]. split; [vm_compute; reflexivity|].
  intros q Hq. destruct q as [|[|[|q]]]; try (vm_compute; reflexivity). lia.
Qed.
