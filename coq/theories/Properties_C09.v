(* Properties_C09.v - interpolation substitutes exactly, terminates, fails closed.
   [interp d ignore env s] models interpolate() with d usable nesting levels
   (InterpDefs.v); the code's limit comes from the translator (Gen_Interp).
   Totality/termination: [interp], [interp_file], [interp_cmd] are Coq functions
   defined by structural recursion on the remaining depth and on the text, with
   no fuel: they terminate on every template and every environment, cyclic or
   not; the correspondence check ties that to the C code. *)
From Robsd Require Import Interp.InterpSpec Interp.InterpProofs Interp.InterpMore Interp.InterpTie Interp.InterpCost.
From RobsdGen Require Import Gen_Interp Gen_InterpSrc.
Local Open Scope N_scope.

(* the model computes exactly the substitution relation *)
Theorem C09_model_iff_relation : forall env d s out,
  interp d false env s = IOk out <-> Subst env d s out.
Proof. exact interp_iff. Qed.
Print Assumptions C09_model_iff_relation.

Theorem C09_relation_functional : forall env d s o1 o2,
  Subst env d s o1 -> Subst env d s o2 -> o1 = o2.
Proof. exact subst_functional. Qed.
Print Assumptions C09_relation_functional.

(* every other byte is copied unchanged *)
Theorem C09_identity_without_dollar : forall env d ig s,
  ~ In DOLLAR s -> interp (S d) ig env s = IOk s.
Proof. exact identity_without_dollar. Qed.
Print Assumptions C09_identity_without_dollar.

(* ${n} is replaced by the recursively interpolated value; all-or-nothing *)
Theorem C09_substitution : forall env d ig a n b v,
  ~ In DOLLAR a -> n <> [] -> ~ In RBRACE n -> env n = Some v ->
  interp (S d) ig env (a ++ ref n ++ b) =
    match interp d ig env (cstr v) with
    | IErr e => IErr e
    | IOk ov => match interp (S d) ig env b with
                | IErr e => IErr e
                | IOk ob => IOk (a ++ ov ++ ob)
                end
    end.
Proof. exact substitution_law. Qed.
Print Assumptions C09_substitution.

(* malformed references and unknown variables are errors *)
Theorem C09_malformed_rejected : forall env d a t,
  ~ In DOLLAR a ->
  (match t with c :: _ => c <> LBRACE | [] => True end ->
     interp (S d) false env (a ++ DOLLAR :: t) = IErr EBrace) /\
  (~ In RBRACE t -> interp (S d) false env (a ++ DOLLAR :: LBRACE :: t) = IErr EClose) /\
  (interp (S d) false env (a ++ DOLLAR :: LBRACE :: RBRACE :: t) = IErr EEmpty) /\
  (forall n, n <> [] -> ~ In RBRACE n -> env n = None ->
     interp (S d) false env (a ++ ref n ++ t) = IErr (EUnknown n)).
Proof. exact malformed_laws. Qed.
Print Assumptions C09_malformed_rejected.

(* any set of variables in which every value refers (at a well-formed position)
   to a variable of the set - a self reference, a cycle of any length - makes
   every template that refers to one of them fail, at every depth limit *)
Theorem C09_cycle_rejected : forall env (P : bytes -> Prop),
  (forall n, P n ->
     exists v a m b, env n = Some v /\ cstr v = a ++ ref m ++ b /\ closed a /\
                     m <> [] /\ ~ In RBRACE m /\ P m) ->
  forall d a n b, closed a -> n <> [] -> ~ In RBRACE n -> P n ->
  exists e, interp d false env (a ++ ref n ++ b) = IErr e.
Proof. exact cycle_rejected. Qed.
Print Assumptions C09_cycle_rejected.

(* the limit is exact: a chain of k+1 variables interpolates iff k + 2 <= usable levels *)
Theorem C09_depth_exact : forall env k n d,
  chain env k n -> is_ok (interp d false env (ref n)) = Nat.leb (k + 2) d.
Proof. exact chain_depth. Qed.
Print Assumptions C09_depth_exact.

(* with the limit the source has now: three nested variables are accepted, four are not *)
Theorem C09_depth_limit_in_source :
  depth_limit = 5%nat /\
  forall env n, (chain env 2 n -> is_ok (interp (pred depth_limit) false env (ref n)) = true) /\
                (chain env 3 n -> is_ok (interp (pred depth_limit) false env (ref n)) = false).
Proof. exact depth_limit_facts. Qed.
Print Assumptions C09_depth_limit_in_source.

(* line by line: the file interpolates iff every line does, and the output is
   the interpolated lines each followed by a newline *)
Theorem C09_file_all_or_nothing : forall limit env content out,
  interp_file limit env content = inl out <->
  exists outs, Forall2 (fun l o => interp (pred limit) false env l = IOk o) (clines content) outs /\
               out = unlines outs.
Proof. exact (fun limit env content out => interp_lines_ok limit env 0 (clines content) out). Qed.
Print Assumptions C09_file_all_or_nothing.

(* fail closed: a failing line gives exit 1 and no output at all; the reported
   line is the first failing one *)
Theorem C09_fail_closed : forall limit env content,
  (forall k e, interp_file limit env content = inr (k, e) ->
     interp_cmd limit env content = (1, []) /\
     exists i l, nth_error (clines content) i = Some l /\ k = (i + 1)%nat /\
                 interp (pred limit) false env l = IErr e /\
                 forall j l', (j < i)%nat -> nth_error (clines content) j = Some l' ->
                              is_ok (interp (pred limit) false env l') = true) /\
  (fst (interp_cmd limit env content) = 0 \/
   (fst (interp_cmd limit env content) = 1 /\ snd (interp_cmd limit env content) = [])).
Proof. exact fail_closed. Qed.
Print Assumptions C09_fail_closed.

(* ---- the depth index only limits ------------------------------------------------------- *)

(* [SubstInf] is the substitution relation without any depth index: "the"
   recursively interpolated value.  The indexed relation is monotone, their
   union is SubstInf, SubstInf is functional; and a template that HAS an
   interpolation o has a threshold d0: with at least d0 usable levels the model
   returns o, with fewer it fails, and then with "recursion too deep" and no
   other error.  These - and only these - are rejected only because of the limit. *)
Theorem C09_depth_only_limits : forall env s o,
  (forall d, Subst env d s o -> Subst env (S d) s o) /\
  (SubstInf env s o <-> exists d, Subst env d s o) /\
  (forall o', SubstInf env s o -> SubstInf env s o' -> o = o') /\
  (SubstInf env s o ->
     exists d0, (1 <= d0)%nat /\
       forall d, ((d0 <= d)%nat -> interp d false env s = IOk o) /\
                 ((d < d0)%nat -> interp d false env s = IErr EDeep)).
Proof.
  exact (fun env s o => conj (fun d => Subst_mono env d s o) (conj (SubstInf_iff env s o)
           (conj (fun o' => SubstInf_functional env s o o') (limit_only_limits env s o)))).
Qed.
Print Assumptions C09_depth_only_limits.

(* a template without an interpolation (malformed or unknown reference on the
   way, a cycle) fails at every depth: the limit is never what rejects it *)
Theorem C09_no_interpolation_fails_everywhere : forall env s,
  (forall o, ~ SubstInf env s o) -> forall d, exists e, interp d false env s = IErr e.
Proof. exact no_interpolation_fails_everywhere. Qed.
Print Assumptions C09_no_interpolation_fails_everywhere.

(* with the limit found in the source (5, i.e. 4 usable levels) *)
Theorem C09_source_limit_only_limits : forall env s o,
  nonul s -> SubstInf env s o ->
  exists d0, (1 <= d0)%nat /\
    ((d0 <= pred depth_limit)%nat -> interp_str depth_limit false env s = IOk o) /\
    ((pred depth_limit < d0)%nat -> interp_str depth_limit false env s = IErr EDeep).
Proof. exact source_limit_only_limits. Qed.
Print Assumptions C09_source_limit_only_limits.

(* ---- no NUL in the output: printf("%s") prints all of it --------------------------------- *)

Theorem C09_output_has_no_nul : forall limit env content,
  (forall out, interp_file limit env content = inl out ->
     interp_cmd limit env content = (0, out) /\ ~ In 0 out) /\
  (forall x, interp_file limit env content = inr x -> interp_cmd limit env content = (1, [])) /\
  (forall ig s o, interp_str limit ig env s = IOk o -> nonul o).
Proof.
  exact (fun limit env content => conj (proj1 (interp_cmd_exact limit env content))
           (conj (proj2 (interp_cmd_exact limit env content))
                 (fun ig s o => interp_str_nonul limit ig env s o))).
Qed.
Print Assumptions C09_output_has_no_nul.

(* ---- INTERPOLATE_IGNORE_LOOKUP_ERRORS ------------------------------------------------------ *)

(* the mode used while a configuration is parsed.  [SubstIg] = [Subst] plus one
   rule: a well-formed reference to an unknown variable is copied verbatim and
   scanning goes on behind it.  The model in that mode computes exactly SubstIg;
   it agrees with the plain mode wherever that succeeds; malformed references
   are errors in this mode too. *)
Theorem C09_ignore_mode : forall env d,
  (forall s out, interp d true env s = IOk out <-> SubstIg env d s out) /\
  (forall s o, interp d false env s = IOk o -> interp d true env s = IOk o) /\
  ((forall n, env n <> None) -> forall s o, SubstIg env d s o -> Subst env d s o) /\
  (forall a n b, ~ In DOLLAR a -> n <> [] -> ~ In RBRACE n -> env n = None ->
     interp (S d) true env (a ++ ref n ++ b) =
       match interp (S d) true env b with
       | IErr e => IErr e
       | IOk ob => IOk (a ++ ref n ++ ob)
       end) /\
  (forall a t, ~ In DOLLAR a ->
     (match t with c :: _ => c <> LBRACE | [] => True end ->
        interp (S d) true env (a ++ DOLLAR :: t) = IErr EBrace) /\
     (~ In RBRACE t -> interp (S d) true env (a ++ DOLLAR :: LBRACE :: t) = IErr EClose) /\
     (interp (S d) true env (a ++ DOLLAR :: LBRACE :: RBRACE :: t) = IErr EEmpty)).
Proof.
  exact (fun env d => conj (fun s out => interp_ig_iff env d s out)
           (conj (ignore_agrees_on_success env d)
           (conj (fun Ht s o => SubstIg_total_env env d s o Ht)
           (conj (unknown_law_ig env d) (malformed_laws_ig env d))))).
Qed.
Print Assumptions C09_ignore_mode.

(* ---- the model against the source text (Gen_InterpSrc.v) ------------------------------------ *)

(* '$', '{', '}' are the characters interpolate_inner tests, the limit is the one
   constant compared with the pre-incremented counter, the counter is touched at
   exactly two places (the translator COUNTS the occurrences of the field; any other
   count stops this proof); and the character laws hold with the SOURCE's characters,
   in both modes.  The order of the tests, the IGNORE copy and the place of the
   increment/decrement are NOT theorems: harness/t_interpsrc.py pins the three function
   bodies as text and refuses any other. *)
Theorem C09_source_characters : forall env d ig,
  (DOLLAR = src_dollar /\ LBRACE = src_lbrace /\ RBRACE = src_rbrace) /\
  (src_depth_limit = depth_limit /\ src_depth_sites = 2%nat) /\
  (forall s, ~ In src_dollar s -> interp (S d) ig env s = IOk s) /\
  (forall a c t, ~ In src_dollar a -> c <> src_lbrace ->
     interp (S d) ig env (a ++ src_dollar :: c :: t) = IErr EBrace) /\
  (forall a, ~ In src_dollar a -> interp (S d) ig env (a ++ [src_dollar]) = IErr EBrace) /\
  (forall a t, ~ In src_dollar a -> ~ In src_rbrace t ->
     interp (S d) ig env (a ++ src_dollar :: src_lbrace :: t) = IErr EClose) /\
  (forall a t, ~ In src_dollar a ->
     interp (S d) ig env (a ++ src_dollar :: src_lbrace :: src_rbrace :: t) = IErr EEmpty).
Proof. exact (fun env d ig => conj tie_chars (conj tie_depth (source_char_laws env d ig))). Qed.
Print Assumptions C09_source_characters.

(* the five diagnostics after "invalid substitution, " as the source spells them are the texts the model's error classes
   stand for (the harness maps stderr to brace/close/empty/unknown/deep by exactly these prefixes, harness/c09.py KINDS) *)
Theorem C09_source_messages : src_messages =
  [[101; 120; 112; 101; 99; 116; 101; 100; 32; 39; 123; 39];                                            (* expected '{' *)
   [101; 120; 112; 101; 99; 116; 101; 100; 32; 39; 125; 39];                                            (* expected '}' *)
   [101; 109; 112; 116; 121; 32; 118; 97; 114; 105; 97; 98; 108; 101; 32; 110; 97; 109; 101];           (* empty variable name *)
   [117; 110; 107; 110; 111; 119; 110; 32; 118; 97; 114; 105; 97; 98; 108; 101];                        (* unknown variable *)
   [114; 101; 99; 117; 114; 115; 105; 111; 110; 32; 116; 111; 111; 32; 100; 101; 101; 112]].            (* recursion too deep *)
Proof. exact tie_messages. Qed.
Print Assumptions C09_source_messages.

(* the oracle applied to the implementation is exact for the model *)
Theorem C09_oracle_accepts_model : forall limit env content e o,
  spec_ok_cmd limit env content e o = true <-> interp_cmd limit (alookup env) content = (e, o).
Proof. exact oracle_cmd_exact. Qed.
Print Assumptions C09_oracle_accepts_model.

(* ---- termination is not promptness: the size of the result ------------------------------------ *)
(* with every value at most V >= 4 bytes long and d levels usable below the template: 4^d * |result| <= |template| * V^d,
   in both modes; and the family that reaches it (F references per value on every level give the leaf F^levels times).
   The consequence for "terminates promptly" is property C12's (known finding interpolation-fanout-not-prompt). *)
Theorem C09_output_bound : forall ig env V, (4 <= V)%nat ->
  (forall n v, env n = Some v -> (length (cstr v) <= V)%nat) ->
  forall d s out, interp (S d) ig env s = IOk out -> (4 ^ d * length out <= length s * V ^ d)%nat.
Proof. exact output_bound. Qed.
Print Assumptions C09_output_bound.

Theorem C09_fanout_exact : forall F levels leaf, (1 <= levels <= 20)%nat -> ~ In DOLLAR leaf -> ~ In 0%N leaf ->
  interp (S levels) false (fan_env F levels leaf) (rep F (ref (lvl_name 0))) = IOk (rep (F ^ levels) leaf).
Proof. exact (fun F levels leaf H Hd H0 => proj1 (fanout_exact F levels leaf H Hd H0)). Qed.
Print Assumptions C09_fanout_exact.

From Coq Require Import String.
Local Open Scope string_scope.
(* non-vacuity: nesting, a cycle, and a chain at the limit *)
Example C09_example :
  let env := alookup [(bs "a", bs "x${b}y"); (bs "b", bs "B"); (bs "c", bs "${c}");
                      (bs "p", bs "${q}"); (bs "q", bs "${r}"); (bs "r", bs "R"); (bs "o", bs "${p}")] in
  interp_str 5 false env (bs "<${a}${b}>") = IOk (bs "<xByB>") /\
  interp_str 5 false env (bs "${c}") = IErr EDeep /\
  interp_str 5 false env (bs "${p}") = IOk (bs "R") /\
  interp_str 5 false env (bs "${o}") = IErr EDeep /\
  chain env 2 (bs "p") /\ chain env 3 (bs "o").
Proof.
  assert (notin : forall (x : N) l, existsb (N.eqb x) l = false -> ~ In x l).
  { intros x l H Hin. assert (existsb (N.eqb x) l = true) by (apply existsb_exists; exists x; split; [exact Hin|apply N.eqb_refl]). congruence. }
  vm_compute alookup. vm_compute bs.
  repeat split; try reflexivity; try discriminate; try (apply notin; reflexivity).
  - exists [113]. repeat split; try reflexivity; try discriminate; try (apply notin; reflexivity).
    exists [114]. repeat split; try reflexivity; try discriminate; try (apply notin; reflexivity).
    eexists. split; [reflexivity|apply notin; reflexivity].
  - exists [112]. repeat split; try reflexivity; try discriminate; try (apply notin; reflexivity).
    exists [113]. repeat split; try reflexivity; try discriminate; try (apply notin; reflexivity).
    exists [114]. repeat split; try reflexivity; try discriminate; try (apply notin; reflexivity).
    eexists. split; [reflexivity|apply notin; reflexivity].
Qed.
