(* Properties_C09.v - interpolation substitutes exactly, terminates, fails closed.
   [interp d ignore env s] models interpolate() with d usable nesting levels
   (InterpDefs.v); the code's limit comes from the translator (Gen_Interp).
   Totality/termination: [interp], [interp_file], [interp_cmd] are Coq functions
   defined by structural recursion on the remaining depth and on the text, with
   no fuel: they terminate on every template and every environment, cyclic or
   not; the correspondence check ties that to the C code. *)
From Robsd Require Import Interp.InterpSpec Interp.InterpProofs.
From RobsdGen Require Import Gen_Interp.
Local Open Scope N_scope.

(* the model computes exactly the substitution relation *)
Theorem C09_model_iff_relation : forall env d s out,
  interp d false env s = IOk out <-> Subst env d s out.
Proof. exact interp_iff. Qed.
Print Assumptions C09_model_iff_relation.

Theorem C09_relation_functional : forall env d s o1 o2,
  Subst env d s o1 -> Subst env d s o2 -> o1 = o2.
Proof. exact subst_functional. Qed.
Print Assumptions C09_relation_functional.

(* every other byte is copied unchanged *)
Theorem C09_identity_without_dollar : forall env d ig s,
  ~ In DOLLAR s -> interp (S d) ig env s = IOk s.
Proof. exact identity_without_dollar. Qed.
Print Assumptions C09_identity_without_dollar.

(* ${n} is replaced by the recursively interpolated value; all-or-nothing *)
Theorem C09_substitution : forall env d ig a n b v,
  ~ In DOLLAR a -> n <> [] -> ~ In RBRACE n -> env n = Some v ->
  interp (S d) ig env (a ++ ref n ++ b) =
    match interp d ig env (cstr v) with
    | IErr e => IErr e
    | IOk ov => match interp (S d) ig env b with
                | IErr e => IErr e
                | IOk ob => IOk (a ++ ov ++ ob)
                end
    end.
Proof. exact substitution_law. Qed.
Print Assumptions C09_substitution.

(* malformed references and unknown variables are errors *)
Theorem C09_malformed_rejected : forall env d a t,
  ~ In DOLLAR a ->
  (match t with c :: _ => c <> LBRACE | [] => True end ->
     interp (S d) false env (a ++ DOLLAR :: t) = IErr EBrace) /\
  (~ In RBRACE t -> interp (S d) false env (a ++ DOLLAR :: LBRACE :: t) = IErr EClose) /\
  (interp (S d) false env (a ++ DOLLAR :: LBRACE :: RBRACE :: t) = IErr EEmpty) /\
  (forall n, n <> [] -> ~ In RBRACE n -> env n = None ->
     interp (S d) false env (a ++ ref n ++ t) = IErr (EUnknown n)).
Proof. exact malformed_laws. Qed.
Print Assumptions C09_malformed_rejected.

(* any set of variables in which every value refers (at a well-formed position)
   to a variable of the set - a self reference, a cycle of any length - makes
   every template that refers to one of them fail, at every depth limit *)
Theorem C09_cycle_rejected : forall env (P : bytes -> Prop),
  (forall n, P n ->
     exists v a m b, env n = Some v /\ cstr v = a ++ ref m ++ b /\ closed a /\
                     m <> [] /\ ~ In RBRACE m /\ P m) ->
  forall d a n b, closed a -> n <> [] -> ~ In RBRACE n -> P n ->
  exists e, interp d false env (a ++ ref n ++ b) = IErr e.
Proof. exact cycle_rejected. Qed.
Print Assumptions C09_cycle_rejected.

(* the limit is exact: a chain of k+1 variables interpolates iff k + 2 <= usable levels *)
Theorem C09_depth_exact : forall env k n d,
  chain env k n -> is_ok (interp d false env (ref n)) = Nat.leb (k + 2) d.
Proof. exact chain_depth. Qed.
Print Assumptions C09_depth_exact.

(* with the limit the source has now: three nested variables are accepted, four are not *)
Theorem C09_depth_limit_in_source :
  depth_limit = 5%nat /\
  forall env n, (chain env 2 n -> is_ok (interp (pred depth_limit) false env (ref n)) = true) /\
                (chain env 3 n -> is_ok (interp (pred depth_limit) false env (ref n)) = false).
Proof. exact depth_limit_facts. Qed.
Print Assumptions C09_depth_limit_in_source.

(* line by line: the file interpolates iff every line does, and the output is
   the interpolated lines each followed by a newline *)
Theorem C09_file_all_or_nothing : forall limit env content out,
  interp_file limit env content = inl out <->
  exists outs, Forall2 (fun l o => interp (pred limit) false env l = IOk o) (clines content) outs /\
               out = unlines outs.
Proof. exact (fun limit env content out => interp_lines_ok limit env 0 (clines content) out). Qed.
Print Assumptions C09_file_all_or_nothing.

(* fail closed: a failing line gives exit 1 and no output at all; the reported
   line is the first failing one *)
Theorem C09_fail_closed : forall limit env content,
  (forall k e, interp_file limit env content = inr (k, e) ->
     interp_cmd limit env content = (1, []) /\
     exists i l, nth_error (clines content) i = Some l /\ k = (i + 1)%nat /\
                 interp (pred limit) false env l = IErr e /\
                 forall j l', (j < i)%nat -> nth_error (clines content) j = Some l' ->
                              is_ok (interp (pred limit) false env l') = true) /\
  (fst (interp_cmd limit env content) = 0 \/
   (fst (interp_cmd limit env content) = 1 /\ snd (interp_cmd limit env content) = [])).
Proof. exact fail_closed. Qed.
Print Assumptions C09_fail_closed.

From Coq Require Import String.
Local Open Scope string_scope.
(* non-vacuity: nesting, a cycle, and a chain at the limit *)
Example C09_example :
  let env := alookup [(bs "a", bs "x${b}y"); (bs "b", bs "B"); (bs "c", bs "${c}");
                      (bs "p", bs "${q}"); (bs "q", bs "${r}"); (bs "r", bs "R"); (bs "o", bs "${p}")] in
  interp_str 5 false env (bs "<${a}${b}>") = IOk (bs "<xByB>") /\
  interp_str 5 false env (bs "${c}") = IErr EDeep /\
  interp_str 5 false env (bs "${p}") = IOk (bs "R") /\
  interp_str 5 false env (bs "${o}") = IErr EDeep /\
  chain env 2 (bs "p") /\ chain env 3 (bs "o").
Proof.
  assert (notin : forall (x : N) l, existsb (N.eqb x) l = false -> ~ In x l).
  { intros x l H Hin. assert (existsb (N.eqb x) l = true) by (apply existsb_exists; exists x; split; [exact Hin|apply N.eqb_refl]). congruence. }
  vm_compute alookup. vm_compute bs.
  repeat split; try reflexivity; try discriminate; try (apply notin; reflexivity).
  - exists [113]. repeat split; try reflexivity; try discriminate; try (apply notin; reflexivity).
    exists [114]. repeat split; try reflexivity; try discriminate; try (apply notin; reflexivity).
    eexists. split; [reflexivity|apply notin; reflexivity].
  - exists [112]. repeat split; try reflexivity; try discriminate; try (apply notin; reflexivity).
    exists [113]. repeat split; try reflexivity; try discriminate; try (apply notin; reflexivity).
    exists [114]. repeat split; try reflexivity; try discriminate; try (apply notin; reflexivity).
    eexists. split; [reflexivity|apply notin; reflexivity].
Qed.
