(* InterpDefs.v - executable model of interpolate.c.
   interpolate_inner  -> [inner]/[name_scan] (structural on the string)
   interpolate        -> [interp] (structural on the remaining depth)
   interpolate_file   -> [interp_file]
   The depth limit is a parameter; the instance used by the code comes from the
   translator (Gen_Interp.depth_limit, "++c->depth == 5"). *)
From Robsd Require Export Base.Bytes.
Local Open Scope N_scope.

Inductive ierr :=
| EBrace              (* expected '{' *)
| EClose              (* expected '}' *)
| EEmpty              (* empty variable name *)
| EUnknown (n : bytes)(* unknown variable *)
| EDeep.              (* recursion too deep *)

Inductive ires := IOk (out : bytes) | IErr (e : ierr).

Definition ibind (pre : bytes) (r : ires) : ires :=
  match r with IOk o => IOk (pre ++ o) | IErr e => IErr e end.

Definition DOLLAR : N := 36.
Definition LBRACE : N := 123.
Definition RBRACE : N := 125.

Section Inner.
  Variable ignore : bool.                       (* INTERPOLATE_IGNORE_LOOKUP_ERRORS *)
  Variable env : bytes -> option bytes.         (* the lookup callback, on C strings *)
  Variable rec : bytes -> ires.                 (* interpolate() one level deeper *)

  (* interpolate_inner: [inner] copies up to '$'; [name_scan] collects the name up to '}' *)
  Fixpoint inner (s : bytes) : ires :=
    match s with
    | [] => IOk []
    | c :: s' =>
        if c =? DOLLAR then
          match s' with
          | c2 :: s'' => if c2 =? LBRACE then name_scan [] s'' else IErr EBrace
          | [] => IErr EBrace
          end
        else ibind [c] (inner s')
    end
  with name_scan (acc : bytes) (s : bytes) : ires :=
    match s with
    | [] => IErr EClose
    | c :: s' =>
        if c =? RBRACE then
          match acc with
          | [] => IErr EEmpty
          | _ =>
              match env acc with
              | None =>
                  if ignore then ibind (DOLLAR :: LBRACE :: acc ++ [RBRACE]) (inner s')
                  else IErr (EUnknown acc)
              | Some v =>
                  match rec (cstr v) with
                  | IErr e => IErr e
                  | IOk o => ibind o (inner s')
                  end
              end
          end
        else name_scan (acc ++ [c]) s'
    end.
End Inner.

(* interpolate(): [d] = how many more levels may be entered *)
Fixpoint interp (d : nat) (ignore : bool) (env : bytes -> option bytes) (s : bytes) : ires :=
  match d with
  | O => IErr EDeep
  | S d' => inner ignore env (interp d' ignore env) s
  end.

(* interpolate_str / interpolate_buffer with the code's limit L ("++depth == L"
   fails): L - 1 levels are usable; the argument is a C string *)
Definition interp_str (limit : nat) (ignore : bool) env (s : bytes) : ires :=
  interp (pred limit) ignore env (cstr s).

(* interpolate_file: every line (as a C string) interpolated and terminated by
   a newline; the first failing line aborts everything.  Returns the line number
   of the failure. *)
Fixpoint interp_lines (limit : nat) env (lno : nat) (ls : list bytes) : bytes + (nat * ierr) :=
  match ls with
  | [] => inl []
  | l :: ls' =>
      match interp (pred limit) false env l with
      | IErr e => inr (S lno, e)
      | IOk o =>
          match interp_lines limit env (S lno) ls' with
          | inl rest => inl (o ++ 10 :: rest)
          | inr x => inr x
          end
      end
  end.

Definition interp_file (limit : nat) env (content : bytes) : bytes + (nat * ierr) :=
  interp_lines limit env 0 (clines content).

(* robsd-config -: (exit, stdout); printf("%s") of the result *)
Definition interp_cmd (limit : nat) env (content : bytes) : N * bytes :=
  match interp_file limit env content with
  | inl out => (0, cstr out)
  | inr _ => (1, [])
  end.

(* association-list environments (what -v name=value builds: first definition wins) *)
Fixpoint alookup (l : list (bytes * bytes)) (n : bytes) : option bytes :=
  match l with
  | [] => None
  | (k, v) :: l' => if beq k n then Some v else alookup l' n
  end.
