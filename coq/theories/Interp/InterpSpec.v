(* InterpSpec.v - what interpolation means, as a relation:
   a template without '$' is copied; a template whose first '$' starts a
   well-formed reference ${n} to a defined variable is the text before it, the
   interpolation of the variable's value one level deeper, and the
   interpolation of the rest.  Nothing else interpolates. *)
From Robsd Require Export Interp.InterpDefs.
Local Open Scope N_scope.

Definition ref (n : bytes) : bytes := DOLLAR :: LBRACE :: n ++ [RBRACE].

Inductive Subst (env : bytes -> option bytes) : nat -> bytes -> bytes -> Prop :=
| Sub_plain d s : ~ In DOLLAR s -> Subst env (S d) s s
| Sub_ref d a n b v ov ob :
    ~ In DOLLAR a -> n <> [] -> ~ In RBRACE n ->
    env n = Some v -> Subst env d (cstr v) ov -> Subst env (S d) b ob ->
    Subst env (S d) (a ++ ref n ++ b) (a ++ ov ++ ob).

(* text in which every '$' opens a complete, well-formed reference *)
Inductive closed : bytes -> Prop :=
| closed_nil : closed []
| closed_char c a : c <> DOLLAR -> closed a -> closed (c :: a)
| closed_ref n a : n <> [] -> ~ In RBRACE n -> closed a -> closed (ref n ++ a).

(* a chain of k+1 variables, each value being exactly a reference to the next,
   the last one plain *)
Fixpoint chain (env : bytes -> option bytes) (k : nat) (n : bytes) : Prop :=
  n <> [] /\ ~ In RBRACE n /\
  match k with
  | O => exists v, env n = Some v /\ ~ In DOLLAR (cstr v)
  | S k' => exists m, env n = Some (ref m) /\ ~ In 0 m /\ chain env k' m
  end.

Definition is_ok (r : ires) : bool := match r with IOk _ => true | IErr _ => false end.

(* oracle for the command: the observation equals what the relation's unique
   solution gives (decided by running the model, which InterpProofs shows to be
   equivalent to the relation) *)
Definition spec_ok_cmd (limit : nat) (env : list (bytes * bytes)) (content : bytes)
    (exit : N) (out : bytes) : bool :=
  let '(e, o) := interp_cmd limit (alookup env) content in (e =? exit) && beq o out.
