(* InterpCost.v - how large the result of an interpolation can get, and that the bound is reached.

   interpolate.c enters at most [limit - 1] levels (the template is the first one).  A value may hold any number of
   references, each reference costs at least four bytes of text ("${x}") and yields the expansion of a whole value, so
   the size of the result multiplies by (V / 4) per level, V = the length of the longest value:

       4^d * |out|  <=  |s| * V^d           for [interp (S d) ig env s = IOk out], every value at most V >= 4 bytes long

   ([output_bound]; depth limit 5: d = 3).  [fanout_exact] shows the family that reaches it: a template of F references
   to a, a = F references to b, b = F references to c, c = the leaf, gives the leaf F^3 times (in general F^levels); with
   a leaf of 4F bytes both sides of the bound are equal ([fanout_attains_bound]).  Consequently no bound LINEAR in the size
   of the input holds ([no_linear_bound]): "terminates promptly" cannot be read as "in time proportional to the input".
   The correspondence lane `fanout` of harness/c12.py runs this family on the real helpers. *)
From Robsd Require Import Interp.InterpSpec Interp.InterpProofs.
From Coq Require Import Lia Arith.

Local Open Scope nat_scope.

(* ---------------------------------------------------------------- the bound *)
Section OneLevel.
  Variable ignore : bool.
  Variable env : bytes -> option bytes.
  Variable rec : bytes -> ires.
  Variables V A B : nat.                 (* A = 4^d, B = V^d *)
  Hypothesis HAB : A <= B.
  Hypothesis Henv : forall n v, env n = Some v -> length (cstr v) <= V.
  Hypothesis Hrec : forall x o, length x <= V -> rec x = IOk o -> A * length o <= 4 * B.

  Lemma inner_cons c s : inner ignore env rec (c :: s) =
    if N.eqb c DOLLAR then match s with c2 :: s2 => if N.eqb c2 LBRACE then name_scan ignore env rec [] s2 else IErr EBrace | [] => IErr EBrace end
    else ibind [c] (inner ignore env rec s).
  Proof. reflexivity. Qed.

  Lemma name_scan_cons acc c s : name_scan ignore env rec acc (c :: s) =
    if N.eqb c RBRACE then
      match acc with
      | [] => IErr EEmpty
      | _ => match env acc with
             | None => if ignore then ibind (DOLLAR :: LBRACE :: acc ++ [RBRACE]) (inner ignore env rec s) else IErr (EUnknown acc)
             | Some v => match rec (cstr v) with IErr e => IErr e | IOk o => ibind o (inner ignore env rec s) end
             end
      end
    else name_scan ignore env rec (acc ++ [c]) s.
  Proof. reflexivity. Qed.

  Lemma inner_cost_len n : forall s, length s <= n ->
    (forall out, inner ignore env rec s = IOk out -> A * length out <= length s * B)
    /\ (forall acc out, name_scan ignore env rec acc s = IOk out -> A * length out <= (2 + length acc + length s) * B).
  Proof.
    induction n as [|n IH]; intros s Hlen.
    - destruct s as [|c s]; [|simpl in Hlen; lia]. split.
      + intros out H. cbn in H. injection H as H; subst out. simpl. lia.
      + intros acc out H. cbn in H. discriminate.
    - destruct s as [|c s].
      { split; [intros out H; cbn in H; injection H as H; subst out; simpl; lia|intros acc out H; cbn in H; discriminate]. }
      simpl in Hlen. assert (Hs : length s <= n) by lia. destruct (IH s Hs) as [I1 I2]. split.
      + intros out H. rewrite inner_cons in H. destruct (N.eqb c DOLLAR).
        * destruct s as [|c2 s2]; [discriminate|]. destruct (N.eqb c2 LBRACE); [|discriminate].
          simpl in Hs. destruct (IH s2 ltac:(lia)) as [_ J2]. specialize (J2 [] out H). simpl in J2. simpl. lia.
        * destruct (inner ignore env rec s) as [o|e] eqn:E; [|discriminate]. cbn [ibind] in H. injection H as H; subst out.
          specialize (I1 o eq_refl). simpl. nia.
      + intros acc out H. rewrite name_scan_cons in H. destruct (N.eqb c RBRACE).
        * destruct acc as [|a acc]; [discriminate|]. destruct (env (a :: acc)) as [v|] eqn:Ev; cbv beta iota in H.
          -- destruct (rec (cstr v)) as [o|e] eqn:Er; cbv beta iota in H; [|discriminate].
             destruct (inner ignore env rec s) as [o2|e2] eqn:E2; cbn [ibind] in H; [|discriminate]. injection H as H; subst out.
             pose proof (Hrec (cstr v) o (Henv _ _ Ev) Er) as H1. specialize (I1 o2 eq_refl).
             rewrite app_length. simpl. nia.
          -- destruct ignore; cbv beta iota in H; [|discriminate].
             destruct (inner true env rec s) as [o2|e2] eqn:E2; cbn [ibind] in H; [|discriminate]. injection H as H; subst out.
             specialize (I1 o2 eq_refl). simpl. rewrite !app_length. simpl. nia.
        * specialize (I2 (acc ++ [c]) out H). rewrite app_length in I2. simpl in I2. simpl. lia.
  Qed.

  Lemma inner_cost s out : inner ignore env rec s = IOk out -> A * length out <= length s * B.
  Proof. exact (proj1 (inner_cost_len (length s) s (le_n _)) out). Qed.
End OneLevel.

Lemma pow4_le V d : 4 <= V -> 4 ^ d <= V ^ d.
Proof. intros H. apply Nat.pow_le_mono_l. exact H. Qed.

(* THE bound: both values of the IGNORE flag, every environment whose values have at most V >= 4 bytes *)
Theorem output_bound ig env V : 4 <= V -> (forall n v, env n = Some v -> length (cstr v) <= V) ->
  forall d s out, interp (S d) ig env s = IOk out -> 4 ^ d * length out <= length s * V ^ d.
Proof.
  intros HV Henv. induction d as [|d IH]; intros s out H; cbn [interp] in H.
  - apply (inner_cost ig env (interp 0 ig env) V (4 ^ 0) (V ^ 0)) in H; [exact H|simpl; lia|exact Henv|].
    intros x o _ Hx. cbn in Hx. discriminate.
  - apply (inner_cost ig env (interp (S d) ig env) V (4 ^ S d) (V ^ S d)) in H; [exact H|apply pow4_le; exact HV|exact Henv|].
    intros x o Hx Ho. specialize (IH x o Ho). cbn [Nat.pow].
    assert (length x * V ^ d <= V * V ^ d) by (apply Nat.mul_le_mono_r; exact Hx). nia.
Qed.

(* the same for the command on one line of the template at the code's limit L: L - 1 usable levels *)
Corollary output_bound_limit ig env V limit : 4 <= V -> (forall n v, env n = Some v -> length (cstr v) <= V) ->
  forall s out, interp_str (S (S limit)) ig env s = IOk out ->
  4 ^ limit * length out <= length (cstr s) * V ^ limit.
Proof. intros HV Henv s out H. unfold interp_str in H. cbn [pred] in H. exact (output_bound ig env V HV Henv limit (cstr s) out H). Qed.

(* ---------------------------------------------------------------- the family that reaches it *)
Fixpoint rep (k : nat) (x : bytes) : bytes :=
  match k with O => [] | S k' => x ++ rep k' x end.

Lemma rep_length k x : length (rep k x) = k * length x.
Proof. induction k as [|k IH]; simpl; [reflexivity|]. rewrite app_length, IH. reflexivity. Qed.

Lemma rep_add m n x : rep (m + n) x = rep m x ++ rep n x.
Proof. induction m as [|m IH]; simpl; [reflexivity|]. rewrite IH, app_assoc. reflexivity. Qed.

Lemma rep_rep a b x : rep a (rep b x) = rep (a * b) x.
Proof. induction a as [|a IH]; simpl; [reflexivity|]. rewrite IH, rep_add. reflexivity. Qed.

Lemma nonul_cstr s : ~ In 0%N s -> cstr s = s.
Proof.
  induction s as [|c s IH]; intros H; [reflexivity|]. cbn [cstr].
  destruct (N.eqb_spec c 0) as [->|Hc]; [elim H; now left|]. rewrite IH; [reflexivity|]. intros Hin. apply H. now right.
Qed.

Lemma rep_notin (x : N) k s : ~ In x s -> ~ In x (rep k s).
Proof. intros H. induction k as [|k IH]; simpl; [intros []|]. rewrite in_app_iff. tauto. Qed.

(* F references to a variable whose value expands to [o]: the result is [o] F times *)
Lemma rep_ref_expands env d n v o F :
  n <> [] -> ~ In RBRACE n -> env n = Some v -> interp d false env (cstr v) = IOk o ->
  interp (S d) false env (rep F (ref n)) = IOk (rep F o).
Proof.
  intros Hn Hr Hv Ho. induction F as [|F IH]; [reflexivity|].
  cbn [rep]. pose proof (substitution_law env d false [] n (rep F (ref n)) v (fun H => H) Hn Hr Hv) as L.
  cbn [app] in L. rewrite L, Ho, IH. reflexivity.
Qed.

(* names of the levels: single letters a, b, c, ... never '}' nor NUL nor '$' *)
Definition lvl_name (i : nat) : bytes := [(97 + N.of_nat i)%N].

(* the environment: level i < levels - 1 refers F times to level i+1, the last level is the leaf *)
Definition fan_env (F levels : nat) (leaf : bytes) (n : bytes) : option bytes :=
  match n with
  | [c] =>
      let i := N.to_nat (c - 97) in
      if (97 <=? c)%N && (S i <? levels) then Some (rep F (ref (lvl_name (S i))))
      else if (97 <=? c)%N && (S i =? levels) then Some leaf
      else None
  | _ => None
  end.

Lemma lvl_idx i : N.to_nat (97 + N.of_nat i - 97) = i.
Proof. rewrite N.add_comm, N.add_sub. apply Nat2N.id. Qed.

Lemma lvl_ge i : (97 <=? 97 + N.of_nat i)%N = true.
Proof. apply N.leb_le. lia. Qed.

Lemma fan_env_inner F levels leaf i : S (S i) <= levels ->
  fan_env F levels leaf (lvl_name i) = Some (rep F (ref (lvl_name (S i)))).
Proof.
  intros H. unfold fan_env, lvl_name at 1. rewrite lvl_idx, lvl_ge. cbn [andb].
  destruct (Nat.ltb_spec (S i) levels); [|lia]. reflexivity.
Qed.

Lemma fan_env_leaf F levels leaf i : S i = levels -> fan_env F levels leaf (lvl_name i) = Some leaf.
Proof.
  intros H. unfold fan_env, lvl_name. rewrite lvl_idx, lvl_ge. cbn [andb].
  destruct (Nat.ltb_spec (S i) levels); [lia|]. destruct (Nat.eqb_spec (S i) levels); [reflexivity|lia].
Qed.

Lemma lvl_name_ok i : i < 20 -> lvl_name i <> [] /\ ~ In RBRACE (lvl_name i) /\ ~ In 0%N (ref (lvl_name i)).
Proof.
  intros Hi. unfold lvl_name, ref, RBRACE, DOLLAR, LBRACE. split; [discriminate|].
  assert (Hr : (97 + N.of_nat i <> 125)%N) by lia.
  assert (H0 : (97 + N.of_nat i <> 0)%N) by lia.
  split.
  - cbn [In]. intros [E|[]]. exact (Hr E).
  - cbn [In app]. intros [E|[E|[E|[E|[]]]]]; try discriminate. exact (H0 E).
Qed.

(* below level i (0-based) there are [levels - 1 - i] further fan-out levels *)
Lemma fan_level F leaf levels : ~ In DOLLAR leaf -> ~ In 0%N leaf -> levels <= 20 ->
  forall k i, S i + k = levels ->
  interp (S (S k)) false (fan_env F levels leaf) (rep F (ref (lvl_name i))) = IOk (rep (F ^ S k) leaf).
Proof.
  intros Hd H0 Hl. induction k as [|k IH]; intros i Hi.
  - destruct (lvl_name_ok i ltac:(lia)) as [N1 [N2 _]].
    rewrite (rep_ref_expands _ 1 (lvl_name i) leaf leaf F N1 N2 (fan_env_leaf F levels leaf i ltac:(lia))).
    + cbn [Nat.pow]. rewrite Nat.mul_1_r. reflexivity.
    + rewrite (nonul_cstr leaf H0). apply identity_without_dollar. exact Hd.
  - destruct (lvl_name_ok i ltac:(lia)) as [N1 [N2 _]]. destruct (lvl_name_ok (S i) ltac:(lia)) as [_ [_ N3]].
    rewrite (rep_ref_expands _ (S (S k)) (lvl_name i) (rep F (ref (lvl_name (S i)))) (rep (F ^ S k) leaf) F N1 N2
               (fan_env_inner F levels leaf i ltac:(lia))).
    + rewrite rep_rep. reflexivity.
    + rewrite (nonul_cstr _ (rep_notin 0%N F _ N3)). apply IH. lia.
Qed.

(* F references in the template and in every one of the [levels - 1] value levels above the leaf: the leaf F^levels
   times.  Depth used: levels + 1 (the code's limit 5 admits levels = 3). *)
Theorem fanout_exact F levels leaf : 1 <= levels <= 20 -> ~ In DOLLAR leaf -> ~ In 0%N leaf ->
  interp (S levels) false (fan_env F levels leaf) (rep F (ref (lvl_name 0))) = IOk (rep (F ^ levels) leaf)
  /\ length (rep F (ref (lvl_name 0))) = 4 * F
  /\ length (rep (F ^ levels) leaf) = F ^ levels * length leaf
  /\ (forall n v, fan_env F levels leaf n = Some v -> length v <= Nat.max (4 * F) (length leaf)).
Proof.
  intros [H1 H20] Hd H0. split; [|split; [|split]].
  - destruct levels as [|k]; [lia|]. apply (fan_level F leaf (S k) Hd H0 H20 k 0). lia.
  - rewrite rep_length. unfold ref, lvl_name. cbn [length app]. lia.
  - apply rep_length.
  - intros n v. unfold fan_env. destruct n as [|c [|c2 n]]; try discriminate.
    destruct ((97 <=? c)%N && (S (N.to_nat (c - 97)) <? levels)).
    + intros E. injection E as E; subst v. rewrite rep_length. unfold ref, lvl_name. cbn [length app]. lia.
    + destruct ((97 <=? c)%N && (S (N.to_nat (c - 97)) =? levels)); [|discriminate].
      intros E. injection E as E; subst v. lia.
Qed.

(* at the code's limit (three value levels) with a leaf as long as the other values the bound is an equality *)
Theorem fanout_attains_bound F : 1 <= F ->
  let leaf := rep (4 * F) [120%N] in
  exists out, interp 4 false (fan_env F 3 leaf) (rep F (ref (lvl_name 0))) = IOk out
              /\ 4 ^ 3 * length out = length (rep F (ref (lvl_name 0))) * (4 * F) ^ 3.
Proof.
  intros HF leaf.
  assert (Hd : ~ In DOLLAR leaf) by (apply rep_notin; intros [E|[]]; discriminate).
  assert (H0 : ~ In 0%N leaf) by (apply rep_notin; intros [E|[]]; discriminate).
  destruct (fanout_exact F 3 leaf ltac:(lia) Hd H0) as [E [L1 [L2 _]]].
  exists (rep (F ^ 3) leaf). split; [exact E|]. rewrite L1, L2. unfold leaf. rewrite rep_length. simpl. nia.
Qed.

(* no bound linear in the total size of the input (template + all values) holds, whatever the constant *)
Theorem no_linear_bound : forall K : nat, exists env s out (size : nat),
  interp 4 false env s = IOk out
  /\ length s <= size /\ (forall n v, env n = Some v -> length v <= size)
  /\ K * size < length out.
Proof.
  intros K. set (F := 4 * K + 4).
  assert (Hd : ~ In DOLLAR [120%N]) by (intros [E|[]]; discriminate).
  assert (H0 : ~ In 0%N [120%N]) by (intros [E|[]]; discriminate).
  destruct (fanout_exact F 3 [120%N] ltac:(lia) Hd H0) as [E [L1 [L2 L3]]].
  exists (fan_env F 3 [120%N]), (rep F (ref (lvl_name 0))), (rep (F ^ 3) [120%N]), (4 * F).
  split; [exact E|]. split; [lia|]. split.
  - intros n v Hv. specialize (L3 n v Hv). simpl in L3. lia.
  - rewrite L2. simpl. unfold F. nia.
Qed.
