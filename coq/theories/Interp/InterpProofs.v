From Robsd Require Import Interp.InterpSpec.
Local Open Scope N_scope.

Lemma ref_app n b : ref n ++ b = DOLLAR :: LBRACE :: n ++ RBRACE :: b.
Proof. unfold ref. simpl. now rewrite <- app_assoc. Qed.

Lemma ibind_ibind a b r : ibind a (ibind b r) = ibind (a ++ b) r.
Proof. destruct r; simpl; [now rewrite app_assoc|reflexivity]. Qed.

Lemma ibind_nil r : ibind [] r = r.
Proof. destruct r; reflexivity. Qed.

Section Inner.
  Variable ignore : bool.
  Variable env : bytes -> option bytes.
  Variable rec : bytes -> ires.

  Notation inner := (inner ignore env rec).
  Notation name_scan := (name_scan ignore env rec).

  Lemma inner_nodollar s : ~ In DOLLAR s -> inner s = IOk s.
  Proof.
    induction s as [|c s IH]; intros H; [reflexivity|].
    cbn [InterpDefs.inner]. destruct (N.eqb_spec c DOLLAR) as [->|Hc].
    - elim H. now left.
    - rewrite IH; [reflexivity|]. intros Hin. apply H. now right.
  Qed.

  Lemma inner_prefix a t : ~ In DOLLAR a -> inner (a ++ t) = ibind a (inner t).
  Proof.
    induction a as [|c a IH]; intros H; [now rewrite ibind_nil|].
    cbn [app InterpDefs.inner]. destruct (N.eqb_spec c DOLLAR) as [->|Hc].
    - elim H. now left.
    - rewrite IH; [now rewrite ibind_ibind|]. intros Hin. apply H. now right.
  Qed.

  Definition after_name (n : bytes) (b : bytes) : ires :=
    match n with
    | [] => IErr EEmpty
    | _ =>
        match env n with
        | None => if ignore then ibind (DOLLAR :: LBRACE :: n ++ [RBRACE]) (inner b)
                  else IErr (EUnknown n)
        | Some v => match rec (cstr v) with
                    | IErr e => IErr e
                    | IOk o => ibind o (inner b)
                    end
        end
    end.

  Lemma name_scan_spec acc n b :
    ~ In RBRACE n -> name_scan acc (n ++ RBRACE :: b) = after_name (acc ++ n) b.
  Proof.
    revert acc; induction n as [|c n IH]; intros acc H.
    - cbn [app InterpDefs.name_scan]. rewrite N.eqb_refl, app_nil_r. reflexivity.
    - cbn [app InterpDefs.name_scan]. destruct (N.eqb_spec c RBRACE) as [->|Hc].
      + elim H. now left.
      + rewrite IH; [now rewrite <- app_assoc|]. intros Hin. apply H. now right.
  Qed.

  Lemma name_scan_noclose acc s : ~ In RBRACE s -> name_scan acc s = IErr EClose.
  Proof.
    revert acc; induction s as [|c s IH]; intros acc H; [reflexivity|].
    cbn [InterpDefs.name_scan]. destruct (N.eqb_spec c RBRACE) as [->|Hc].
    - elim H. now left.
    - apply IH. intros Hin. apply H. now right.
  Qed.

  Lemma inner_ref n b : ~ In RBRACE n -> inner (ref n ++ b) = after_name n b.
  Proof.
    intros H. rewrite ref_app. cbn [InterpDefs.inner]. rewrite !N.eqb_refl.
    apply (name_scan_spec [] n b H).
  Qed.

  Lemma inner_dollar t :
    inner (DOLLAR :: t) =
      match t with
      | c2 :: t' => if c2 =? LBRACE then name_scan [] t' else IErr EBrace
      | [] => IErr EBrace
      end.
  Proof. reflexivity. Qed.
End Inner.

(* composition over closed prefixes *)
Lemma inner_closed_app ignore env rec a b :
  closed a ->
  inner ignore env rec (a ++ b) =
    match inner ignore env rec a with
    | IErr e => IErr e
    | IOk oa => ibind oa (inner ignore env rec b)
    end.
Proof.
  induction 1 as [|c a Hc _ IH|n a Hn Hr _ IH].
  - simpl. now rewrite ibind_nil.
  - cbn [app inner]. destruct (N.eqb_spec c DOLLAR); [contradiction|].
    rewrite IH. destruct (inner ignore env rec a); cbn [ibind]; [now rewrite ibind_ibind|reflexivity].
  - rewrite <- app_assoc, !inner_ref by exact Hr. unfold after_name.
    destruct n as [|x n]; [congruence|].
    destruct (env (x :: n)) as [v|].
    + destruct (rec (cstr v)) as [o|e]; [|reflexivity].
      rewrite IH. destruct (inner ignore env rec a); cbn [ibind]; [now rewrite !ibind_ibind|reflexivity].
    + destruct ignore; [|reflexivity].
      rewrite IH. destruct (inner true env rec a); cbn [ibind]; [now rewrite !ibind_ibind|reflexivity].
Qed.


(* ---- first-occurrence decomposition ------------------------------------------ *)

Lemma split_first (x : N) (s : bytes) :
  ~ In x s \/ exists a t, s = a ++ x :: t /\ ~ In x a.
Proof.
  induction s as [|c s IH]; [left; intros []|].
  destruct (N.eqb_spec c x) as [->|Hc].
  - right. exists [], s. split; [reflexivity|intros []].
  - destruct IH as [H|[a [t [-> Ha]]]].
    + left. intros [H1|H1]; [congruence|contradiction].
    + right. exists (c :: a), t. split; [reflexivity|].
      intros [H1|H1]; [congruence|contradiction].
Qed.

(* ---- model <-> relation ---------------------------------------------------------- *)

Lemma interp_complete env d s out : Subst env d s out -> interp d false env s = IOk out.
Proof.
  induction 1 as [d s Hs|d a n b v ov ob Ha Hn Hr Hv _ IHv _ IHb].
  - cbn [interp]. now apply inner_nodollar.
  - cbn [interp]. rewrite inner_prefix by exact Ha. rewrite inner_ref by exact Hr.
    unfold after_name. destruct n as [|x n]; [congruence|]. rewrite Hv, IHv.
    cbn [interp] in IHb. rewrite IHb. simpl. reflexivity.
Qed.

Lemma interp_sound env d : forall s out, interp d false env s = IOk out -> Subst env d s out.
Proof.
  induction d as [|d IHd]; intros s out H; [discriminate|].
  cbn [interp] in H.
  remember (length s) as k eqn:Hk. revert s out Hk H.
  induction k as [k IHk] using lt_wf_ind. intros s out Hk H.
  destruct (split_first DOLLAR s) as [Hno|[a [t [-> Ha]]]].
  - rewrite inner_nodollar in H by exact Hno. injection H as <-. now constructor.
  - rewrite inner_prefix in H by exact Ha.
    rewrite inner_dollar in H.
    destruct t as [|c2 t]; [discriminate H|].
    destruct (N.eqb_spec c2 LBRACE) as [->|Hc2]; [|discriminate H].
    destruct (split_first RBRACE t) as [Hnc|[n [b [-> Hn]]]].
    + rewrite name_scan_noclose in H by exact Hnc. discriminate H.
    + rewrite (name_scan_spec false env (interp d false env) [] n b Hn) in H.
      cbn [app] in H. unfold after_name in H.
      destruct n as [|x n]; [discriminate H|].
      destruct (env (x :: n)) as [v|] eqn:Hv; [|discriminate H].
      destruct (interp d false env (cstr v)) as [ov|] eqn:Hrec; [|discriminate H].
      destruct (inner false env (interp d false env) b) as [ob|] eqn:Hb; [|discriminate H].
      simpl in H. injection H as <-.
      replace (a ++ DOLLAR :: LBRACE :: (x :: n) ++ RBRACE :: b) with (a ++ ref (x :: n) ++ b)
        by now rewrite ref_app.
      apply Sub_ref with (v := v); auto; [discriminate|].
      apply (IHk (length b)); [|reflexivity|exact Hb].
      subst k. rewrite !app_length. simpl. rewrite app_length. simpl. lia.
Qed.

Lemma interp_iff env d s out : interp d false env s = IOk out <-> Subst env d s out.
Proof. split; [apply interp_sound|apply interp_complete]. Qed.

Lemma subst_functional env d s o1 o2 : Subst env d s o1 -> Subst env d s o2 -> o1 = o2.
Proof. intros H1 H2. apply interp_complete in H1, H2. congruence. Qed.

Lemma interp_error_no_subst env d s e : interp d false env s = IErr e -> forall out, ~ Subst env d s out.
Proof. intros H out Hs. apply interp_complete in Hs. congruence. Qed.

(* ---- algebraic laws ---------------------------------------------------------------- *)

Lemma identity_without_dollar env d ig s : ~ In DOLLAR s -> interp (S d) ig env s = IOk s.
Proof. intros H. cbn [interp]. now apply inner_nodollar. Qed.

Lemma substitution_law env d ig a n b v :
  ~ In DOLLAR a -> n <> [] -> ~ In RBRACE n -> env n = Some v ->
  interp (S d) ig env (a ++ ref n ++ b) =
    match interp d ig env (cstr v) with
    | IErr e => IErr e
    | IOk ov => match interp (S d) ig env b with
                | IErr e => IErr e
                | IOk ob => IOk (a ++ ov ++ ob)
                end
    end.
Proof.
  intros Ha Hn Hr Hv. cbn [interp]. rewrite inner_prefix by exact Ha.
  rewrite inner_ref by exact Hr. unfold after_name.
  destruct n as [|x n]; [congruence|]. rewrite Hv.
  destruct (interp d ig env (cstr v)); [|reflexivity].
  destruct (inner ig env (interp d ig env) b); reflexivity.
Qed.

Lemma malformed_laws env d a t :
  ~ In DOLLAR a ->
  (* '$' not followed by '{' *)
  (match t with c :: _ => c <> LBRACE | [] => True end ->
     interp (S d) false env (a ++ DOLLAR :: t) = IErr EBrace) /\
  (* "${" never closed *)
  (~ In RBRACE t -> interp (S d) false env (a ++ DOLLAR :: LBRACE :: t) = IErr EClose) /\
  (* "${}" *)
  (interp (S d) false env (a ++ DOLLAR :: LBRACE :: RBRACE :: t) = IErr EEmpty) /\
  (* unknown variable *)
  (forall n, n <> [] -> ~ In RBRACE n -> env n = None ->
     interp (S d) false env (a ++ ref n ++ t) = IErr (EUnknown n)).
Proof.
  intros Ha. cbn [interp]. repeat split.
  - intros H. rewrite inner_prefix by exact Ha. rewrite inner_dollar.
    destruct t as [|c t]; [reflexivity|]. destruct (N.eqb_spec c LBRACE); [contradiction|reflexivity].
  - intros H. rewrite inner_prefix by exact Ha. rewrite inner_dollar, N.eqb_refl.
    now rewrite name_scan_noclose.
  - rewrite inner_prefix by exact Ha. rewrite inner_dollar, N.eqb_refl. reflexivity.
  - intros n Hn Hr He. rewrite inner_prefix by exact Ha. rewrite inner_ref by exact Hr.
    unfold after_name. destruct n; [congruence|]. now rewrite He.
Qed.

(* ---- cycles ------------------------------------------------------------------------------ *)

Section Cycle.
  Variable env : bytes -> option bytes.
  Variable P : bytes -> Prop.   (* a set of variable names closed under "refers to" *)
  Hypothesis P_refers : forall n, P n ->
    exists v a m b, env n = Some v /\ cstr v = a ++ ref m ++ b /\ closed a /\
                    m <> [] /\ ~ In RBRACE m /\ P m.

  Lemma closed_ref_fails d a m b :
    closed a -> m <> [] -> ~ In RBRACE m ->
    (forall v, env m = Some v -> exists e, interp d false env (cstr v) = IErr e) ->
    exists e, interp (S d) false env (a ++ ref m ++ b) = IErr e.
  Proof.
    intros Ha Hm Hr Hrec. cbn [interp]. rewrite inner_closed_app by exact Ha.
    destruct (inner false env (interp d false env) a) as [oa|e]; [|eauto].
    rewrite inner_ref by exact Hr. unfold after_name.
    destruct m as [|x m]; [congruence|].
    destruct (env (x :: m)) as [v|] eqn:Hv; [|simpl; eauto].
    destruct (Hrec v eq_refl) as [e He]. rewrite He. simpl. eauto.
  Qed.

  Lemma cycle_value_fails d : forall n v, P n -> env n = Some v ->
    exists e, interp d false env (cstr v) = IErr e.
  Proof.
    induction d as [|d IH]; intros n v Hp Hv; [simpl; eauto|].
    destruct (P_refers n Hp) as [v' [a [m [b [Hv' [Hc [Ha [Hm [Hr Hpm]]]]]]]]].
    rewrite Hv in Hv'. injection Hv' as <-. rewrite Hc.
    apply closed_ref_fails; auto. intros vm Hvm. apply (IH m vm Hpm Hvm).
  Qed.

  Lemma cycle_rejected d a n b :
    closed a -> n <> [] -> ~ In RBRACE n -> P n ->
    exists e, interp d false env (a ++ ref n ++ b) = IErr e.
  Proof.
    intros Ha Hn Hr Hp. destruct d as [|d]; [simpl; eauto|].
    apply closed_ref_fails; auto. intros v Hv. apply (cycle_value_fails d n v Hp Hv).
  Qed.
End Cycle.

(* ---- exact depth ----------------------------------------------------------------------------- *)

Lemma cstr_ref m : ~ In 0 m -> cstr (ref m) = ref m.
Proof.
  intros H. apply cstr_id. unfold ref. repeat constructor; try discriminate.
  apply Forall_app. split; [|repeat constructor; discriminate].
  apply Forall_forall. intros c Hc Hz. subst. contradiction.
Qed.

Lemma chain_depth env k : forall n d,
  chain env k n -> is_ok (interp d false env (ref n)) = Nat.leb (k + 2) d.
Proof.
  induction k as [|k IH]; intros n d [Hn [Hr Hc]].
  - destruct Hc as [v [Hv Hd]].
    destruct d as [|d]; [reflexivity|].
    replace (ref n) with ([] ++ ref n ++ []) by (simpl; now rewrite app_nil_r).
    rewrite substitution_law with (v := v) by (auto; intros []).
    destruct d as [|d]; [reflexivity|].
    rewrite identity_without_dollar by exact Hd.
    rewrite identity_without_dollar by (intros []). reflexivity.
  - destruct Hc as [m [Hv [Hz Hm]]].
    destruct d as [|d]; [reflexivity|].
    replace (ref n) with ([] ++ ref n ++ []) by (simpl; now rewrite app_nil_r).
    rewrite substitution_law with (v := ref m) by (auto; intros []).
    rewrite cstr_ref by exact Hz.
    specialize (IH m d Hm).
    destruct (interp d false env (ref m)) as [o|e]; simpl in IH.
    + rewrite identity_without_dollar by (intros []). simpl. rewrite IH. reflexivity.
    + simpl. rewrite IH. reflexivity.
Qed.

(* ---- files and the command -------------------------------------------------------------------- *)

Lemma interp_lines_ok limit env lno ls out :
  interp_lines limit env lno ls = inl out <->
  exists outs, Forall2 (fun l o => interp (pred limit) false env l = IOk o) ls outs /\
               out = unlines outs.
Proof.
  revert lno out; induction ls as [|l ls IH]; intros lno out.
  - simpl. split.
    + intros H. injection H as <-. exists []. split; [constructor|reflexivity].
    + intros [outs [HF ->]]. inversion HF; subst. reflexivity.
  - cbn [interp_lines]. split.
    + destruct (interp (pred limit) false env l) as [o|e] eqn:Hl; [|discriminate].
      destruct (interp_lines limit env (S lno) ls) as [rest|x] eqn:Hr; [|discriminate].
      intros H. injection H as <-.
      apply IH in Hr. destruct Hr as [outs [HF ->]].
      exists (o :: outs). split; [constructor; assumption|reflexivity].
    + intros [outs [HF ->]]. inversion HF as [|? o ? outs' Hl HF']; subst.
      rewrite Hl.
      assert (Hr : interp_lines limit env (S lno) ls = inl (unlines outs')).
      { apply IH. eauto. }
      rewrite Hr. reflexivity.
Qed.

Lemma interp_lines_err limit env lno ls k e :
  interp_lines limit env lno ls = inr (k, e) ->
  exists i l, nth_error ls i = Some l /\ k = (lno + i + 1)%nat /\
              interp (pred limit) false env l = IErr e /\
              forall j l', (j < i)%nat -> nth_error ls j = Some l' ->
                           is_ok (interp (pred limit) false env l') = true.
Proof.
  revert lno; induction ls as [|l ls IH]; intros lno H; [discriminate|].
  cbn [interp_lines] in H.
  destruct (interp (pred limit) false env l) as [o|e'] eqn:Hl.
  - destruct (interp_lines limit env (S lno) ls) as [rest|x] eqn:Hr; [discriminate|].
    injection H as ->. destruct (IH _ Hr) as [i [l0 [Hn [Hk [He Hbefore]]]]].
    exists (S i), l0. repeat split; auto; [lia|].
    intros j l' Hj Hnj. destruct j as [|j]; simpl in Hnj.
    + injection Hnj as <-. now rewrite Hl.
    + apply (Hbefore j l'); [lia|exact Hnj].
  - injection H as <- <-. exists 0%nat, l. repeat split; auto; [lia|].
    intros j l' Hj. lia.
Qed.

Lemma cmd_fail_closed limit env content :
  (exists x, interp_file limit env content = inr x) ->
  interp_cmd limit env content = (1, []).
Proof. intros [x Hx]. unfold interp_cmd. now rewrite Hx. Qed.

Lemma cmd_exit limit env content :
  fst (interp_cmd limit env content) = 0 \/
  (fst (interp_cmd limit env content) = 1 /\ snd (interp_cmd limit env content) = []).
Proof. unfold interp_cmd. destruct (interp_file limit env content); simpl; auto. Qed.

Lemma fail_closed limit env content :
  (forall k e, interp_file limit env content = inr (k, e) ->
     interp_cmd limit env content = (1, []) /\
     exists i l, nth_error (clines content) i = Some l /\ k = (i + 1)%nat /\
                 interp (pred limit) false env l = IErr e /\
                 forall j l', (j < i)%nat -> nth_error (clines content) j = Some l' ->
                              is_ok (interp (pred limit) false env l') = true) /\
  (fst (interp_cmd limit env content) = 0 \/
   (fst (interp_cmd limit env content) = 1 /\ snd (interp_cmd limit env content) = [])).
Proof.
  split; [|apply cmd_exit].
  intros k e H. split; [apply cmd_fail_closed; eauto|].
  unfold interp_file in H. apply interp_lines_err in H.
  destruct H as [i [l [H1 [H2 [H3 H4]]]]]. exists i, l. repeat split; auto.
Qed.

From RobsdGen Require Import Gen_Interp.

Lemma depth_limit_facts :
  depth_limit = 5%nat /\
  forall env n, (chain env 2 n -> is_ok (interp (pred depth_limit) false env (ref n)) = true) /\
                (chain env 3 n -> is_ok (interp (pred depth_limit) false env (ref n)) = false).
Proof.
  split; [reflexivity|]. intros env n.
  split; intros H; rewrite (chain_depth _ _ _ _ H); reflexivity.
Qed.
