(* InterpTie.v - the model of InterpDefs.v against what harness/t_interpsrc.py reads
   from interpolate.c on every check (coq/gen/Gen_InterpSrc.v): the three
   characters of a reference, the recursion limit and the number of places that
   touch the depth counter, the diagnostics.  The translator matches
   interpolate_inner, interpolate and the line loop of interpolate_file token
   for token (order of the tests behind a '$', the IGNORE branch copying
   p .. ve inclusive, one pre-increment test and one decrement of c->depth) and
   raises otherwise; the laws below are the model's, restated with the
   characters found in the source. *)
From Robsd Require Import Interp.InterpSpec Interp.InterpProofs Interp.InterpMore.
From RobsdGen Require Import Gen_Interp Gen_InterpSrc.
Local Open Scope N_scope.

Lemma tie_chars : DOLLAR = src_dollar /\ LBRACE = src_lbrace /\ RBRACE = src_rbrace.
Proof. repeat split; reflexivity. Qed.

Lemma tie_depth : src_depth_limit = depth_limit /\ src_depth_sites = 2%nat.
Proof. split; reflexivity. Qed.

(* brace, close, empty, unknown, deep - the texts the harness classifies stderr by *)
Lemma tie_messages : src_messages =
  [[101; 120; 112; 101; 99; 116; 101; 100; 32; 39; 123; 39];
   [101; 120; 112; 101; 99; 116; 101; 100; 32; 39; 125; 39];
   [101; 109; 112; 116; 121; 32; 118; 97; 114; 105; 97; 98; 108; 101; 32; 110; 97; 109; 101];
   [117; 110; 107; 110; 111; 119; 110; 32; 118; 97; 114; 105; 97; 98; 108; 101];
   [114; 101; 99; 117; 114; 115; 105; 111; 110; 32; 116; 111; 111; 32; 100; 101; 101; 112]].
Proof. reflexivity. Qed.

(* the character laws, with the source's characters *)
Theorem source_char_laws env d ig :
  (forall s, ~ In src_dollar s -> interp (S d) ig env s = IOk s) /\
  (forall a c t, ~ In src_dollar a -> c <> src_lbrace ->
     interp (S d) ig env (a ++ src_dollar :: c :: t) = IErr EBrace) /\
  (forall a, ~ In src_dollar a -> interp (S d) ig env (a ++ [src_dollar]) = IErr EBrace) /\
  (forall a t, ~ In src_dollar a -> ~ In src_rbrace t ->
     interp (S d) ig env (a ++ src_dollar :: src_lbrace :: t) = IErr EClose) /\
  (forall a t, ~ In src_dollar a ->
     interp (S d) ig env (a ++ src_dollar :: src_lbrace :: src_rbrace :: t) = IErr EEmpty).
Proof.
  change src_dollar with DOLLAR. change src_lbrace with LBRACE. change src_rbrace with RBRACE.
  split; [intros s H; now apply identity_without_dollar|].
  destruct ig.
  - split; [|split; [|split]].
    + intros a c t Ha Hc. now apply (proj1 (malformed_laws_ig env d a (c :: t) Ha)).
    + intros a Ha. now apply (proj1 (malformed_laws_ig env d a [] Ha)).
    + intros a t Ha Ht. now apply (proj1 (proj2 (malformed_laws_ig env d a t Ha))).
    + intros a t Ha. apply (proj2 (proj2 (malformed_laws_ig env d a t Ha))).
  - split; [|split; [|split]].
    + intros a c t Ha Hc. now apply (proj1 (malformed_laws env d a (c :: t) Ha)).
    + intros a Ha. now apply (proj1 (malformed_laws env d a [] Ha)).
    + intros a t Ha Ht. now apply (proj1 (proj2 (malformed_laws env d a t Ha))).
    + intros a t Ha. apply (proj1 (proj2 (proj2 (malformed_laws env d a t Ha)))).
Qed.

(* the limit of the source, depth-free reading: a C-string template that HAS an
   interpolation is accepted by interpolate_str / interpolate_file iff its least
   sufficient depth d0 is at most limit - 1 (= 4), and is otherwise rejected with
   "recursion too deep" and no other diagnostic *)
Theorem source_limit_only_limits env s o :
  nonul s -> SubstInf env s o ->
  exists d0, (1 <= d0)%nat /\
    ((d0 <= pred depth_limit)%nat -> interp_str depth_limit false env s = IOk o) /\
    ((pred depth_limit < d0)%nat -> interp_str depth_limit false env s = IErr EDeep).
Proof.
  intros Hz H. destruct (limit_only_limits env s o H) as [d0 [H1 H2]].
  exists d0. split; [exact H1|]. unfold interp_str. rewrite (cstr_id s Hz).
  split; intros Hd; now apply (H2 (pred depth_limit)).
Qed.

(* the oracle the harness applies to robsd-config is exact for the model *)
Lemma oracle_cmd_exact limit env content e o :
  spec_ok_cmd limit env content e o = true <-> interp_cmd limit (alookup env) content = (e, o).
Proof.
  unfold spec_ok_cmd. destruct (interp_cmd limit (alookup env) content) as [e' o'].
  rewrite andb_true_iff, N.eqb_eq, beq_eq. split; [intros [-> ->]; reflexivity|].
  intros H. injection H as -> ->. auto.
Qed.
