(* InterpMore.v - strengthening of the C09 development (nothing in InterpDefs /
   InterpSpec / InterpProofs is altered):

   1. the depth index only limits: [Subst] is monotone in it;
   2. [SubstInf], the substitution relation WITHOUT a depth index ("the"
      recursively interpolated value), is the union of the indexed relations;
      every template it accepts has a least sufficient depth d0, succeeds with
      the same result at every depth >= d0 and fails with "recursion too deep"
      - no other error - below it: these, and only these, are the templates
      rejected only because of the limit;
   3. no NUL byte can appear in the output, hence printf("%s") prints all of it;
   4. INTERPOLATE_IGNORE_LOOKUP_ERRORS as a relation of its own, [SubstIg]: a
      well-formed reference to an UNKNOWN variable is copied verbatim and
      scanning continues behind it; everything else as in [Subst]. *)
From Robsd Require Import Interp.InterpSpec Interp.InterpProofs.
Local Open Scope N_scope.

(* ---- 1. monotonicity -------------------------------------------------------------- *)

Lemma Subst_mono env d s o : Subst env d s o -> Subst env (S d) s o.
Proof.
  induction 1 as [d s Hs|d a n b v ov ob Ha Hn Hr Hv _ IHv _ IHb].
  - now constructor.
  - now apply Sub_ref with (v := v).
Qed.

Lemma Subst_le env d d' s o : (d <= d')%nat -> Subst env d s o -> Subst env d' s o.
Proof. induction 1 as [|d' _ IH]; intros H; [exact H|]. apply Subst_mono. auto. Qed.

Lemma Subst_zero env s o : ~ Subst env 0 s o.
Proof. intros H. inversion H. Qed.

(* ---- 2. the depth-free relation ------------------------------------------------------ *)

Inductive SubstInf (env : bytes -> option bytes) : bytes -> bytes -> Prop :=
| SubI_plain s : ~ In DOLLAR s -> SubstInf env s s
| SubI_ref a n b v ov ob :
    ~ In DOLLAR a -> n <> [] -> ~ In RBRACE n ->
    env n = Some v -> SubstInf env (cstr v) ov -> SubstInf env b ob ->
    SubstInf env (a ++ ref n ++ b) (a ++ ov ++ ob).

Lemma Subst_SubstInf env d s o : Subst env d s o -> SubstInf env s o.
Proof.
  induction 1 as [d s Hs|d a n b v ov ob Ha Hn Hr Hv _ IHv _ IHb].
  - now constructor.
  - now apply SubI_ref with (v := v).
Qed.

Lemma SubstInf_Subst env s o : SubstInf env s o -> exists d, Subst env d s o.
Proof.
  induction 1 as [s Hs|a n b v ov ob Ha Hn Hr Hv _ [d1 IHv] _ [d2 IHb]].
  - exists 1%nat. now constructor.
  - exists (S (Nat.max d1 d2)). apply Sub_ref with (v := v); auto.
    + apply (Subst_le env d1); [apply Nat.le_max_l|exact IHv].
    + apply (Subst_le env d2); [|exact IHb].
      apply Nat.le_trans with (Nat.max d1 d2); [apply Nat.le_max_r|apply Nat.le_succ_diag_r].
Qed.

Theorem SubstInf_iff env s o : SubstInf env s o <-> exists d, Subst env d s o.
Proof. split; [apply SubstInf_Subst|intros [d H]; now apply Subst_SubstInf with d]. Qed.

Lemma SubstInf_functional env s o1 o2 : SubstInf env s o1 -> SubstInf env s o2 -> o1 = o2.
Proof.
  intros H1 H2. apply SubstInf_Subst in H1, H2. destruct H1 as [d1 H1], H2 as [d2 H2].
  apply (subst_functional env (Nat.max d1 d2) s).
  - apply (Subst_le env d1); [apply Nat.le_max_l|exact H1].
  - apply (Subst_le env d2); [apply Nat.le_max_r|exact H2].
Qed.

(* a template that has a depth-free interpolation can fail at depth d in one way only *)
Lemma SubstInf_interp env s o :
  SubstInf env s o -> forall d, interp d false env s = IOk o \/ interp d false env s = IErr EDeep.
Proof.
  induction 1 as [s Hs|a n b v ov ob Ha Hn Hr Hv _ IHv _ IHb]; intros d.
  - destruct d as [|d]; [now right|]. left. now apply identity_without_dollar.
  - destruct d as [|d]; [now right|].
    rewrite substitution_law with (v := v) by assumption.
    destruct (IHv d) as [-> | ->]; [|now right].
    destruct (IHb (S d)) as [-> | ->]; [now left|now right].
Qed.

(* the least sufficient depth *)
Lemma least_depth env s o d :
  Subst env d s o ->
  exists d0, (d0 <= d)%nat /\ Subst env d0 s o /\ forall d', (d' < d0)%nat -> ~ Subst env d' s o.
Proof.
  induction d as [|d IH]; intros H; [now apply Subst_zero in H|].
  destruct (interp d false env s) as [o'|e] eqn:E.
  - apply interp_sound in E.
    assert (o' = o) by (apply (subst_functional env (S d) s); [now apply Subst_mono|exact H]).
    subst o'. destruct (IH E) as [d0 [Hle [H0 Hmin]]]. exists d0. repeat split; auto.
  - exists (S d). repeat split; auto. intros d' Hlt Hd'.
    assert (Hd : Subst env d s o) by (apply (Subst_le env d'); [lia|exact Hd']).
    apply interp_complete in Hd. congruence.
Qed.

(* THE statement about the limit: a template with a (depth-free) interpolation
   has a threshold d0 >= 1; with at least d0 usable levels the model returns that
   interpolation, with fewer it fails, and then with "recursion too deep" *)
Theorem limit_only_limits env s o :
  SubstInf env s o ->
  exists d0, (1 <= d0)%nat /\
    forall d, ((d0 <= d)%nat -> interp d false env s = IOk o) /\
              ((d < d0)%nat -> interp d false env s = IErr EDeep).
Proof.
  intros HI. destruct (SubstInf_Subst env s o HI) as [d Hd].
  destruct (least_depth env s o d Hd) as [d0 [_ [H0 Hmin]]]. exists d0.
  split. { destruct d0; [now apply Subst_zero in H0|lia]. }
  intros d'. split; intros Hc.
  - apply interp_complete. now apply (Subst_le env d0).
  - destruct (SubstInf_interp env s o HI d') as [E|E]; [|exact E].
    apply interp_sound in E. now apply Hmin in E.
Qed.

(* and a template WITHOUT a depth-free interpolation (malformed or unknown
   reference somewhere on the way, a cycle) fails at every depth *)
Theorem no_interpolation_fails_everywhere env s :
  (forall o, ~ SubstInf env s o) -> forall d, exists e, interp d false env s = IErr e.
Proof.
  intros H d. destruct (interp d false env s) as [o|e] eqn:E; [|eauto].
  apply interp_sound, Subst_SubstInf in E. now apply H in E.
Qed.

(* ---- 3. no NUL in the output ------------------------------------------------------------ *)

Lemma nonul_app_inv a b : nonul (a ++ b) -> nonul a /\ nonul b.
Proof. intros H. apply Forall_app in H. exact H. Qed.

Lemma nonul_app2 a b : nonul a -> nonul b -> nonul (a ++ b).
Proof. intros; apply Forall_app; split; assumption. Qed.

Lemma Subst_nonul env d s o : Subst env d s o -> nonul s -> nonul o.
Proof.
  induction 1 as [d s Hs|d a n b v ov ob Ha Hn Hr Hv _ IHv _ IHb]; intros Hz; [exact Hz|].
  apply nonul_app_inv in Hz. destruct Hz as [Hza Hz]. apply nonul_app_inv in Hz.
  destruct Hz as [_ Hzb].
  apply nonul_app2; [exact Hza|]. apply nonul_app2; [apply IHv, cstr_nonul|now apply IHb].
Qed.

Lemma unlines_nonul ls : Forall nonul ls -> nonul (unlines ls).
Proof.
  induction 1 as [|l ls Hl _ IH]; simpl; [constructor|].
  apply nonul_app2; [exact Hl|]. constructor; [discriminate|exact IH].
Qed.

Theorem interp_file_nonul limit env content out :
  interp_file limit env content = inl out -> nonul out.
Proof.
  intros H. apply (interp_lines_ok limit env 0 (clines content) out) in H.
  destruct H as [outs [HF ->]]. apply unlines_nonul.
  assert (Hc : Forall nonul (clines content)) by apply clines_nonul.
  induction HF as [|l o ls outs Hl _ IH]; [constructor|].
  inversion Hc as [|? ? Hl0 Hls]; subst. constructor; [|now apply IH].
  apply interp_sound in Hl. now apply (Subst_nonul env _ l o Hl).
Qed.

(* the command prints the whole result: the "%s" of robsd-config cuts nothing *)
Theorem interp_cmd_exact limit env content :
  (forall out, interp_file limit env content = inl out ->
     interp_cmd limit env content = (0, out) /\ ~ In 0 out) /\
  (forall x, interp_file limit env content = inr x -> interp_cmd limit env content = (1, [])).
Proof.
  split.
  - intros out H. pose proof (interp_file_nonul limit env content out H) as Hz.
    unfold interp_cmd. rewrite H. split; [now rewrite cstr_id|].
    intros Hin. unfold nonul in Hz. rewrite Forall_forall in Hz. now apply (Hz 0 Hin).
  - intros x H. unfold interp_cmd. now rewrite H.
Qed.

(* ---- 4. INTERPOLATE_IGNORE_LOOKUP_ERRORS --------------------------------------------------- *)

Inductive SubstIg (env : bytes -> option bytes) : nat -> bytes -> bytes -> Prop :=
| SIg_plain d s : ~ In DOLLAR s -> SubstIg env (S d) s s
| SIg_ref d a n b v ov ob :
    ~ In DOLLAR a -> n <> [] -> ~ In RBRACE n ->
    env n = Some v -> SubstIg env d (cstr v) ov -> SubstIg env (S d) b ob ->
    SubstIg env (S d) (a ++ ref n ++ b) (a ++ ov ++ ob)
| SIg_unknown d a n b ob :
    ~ In DOLLAR a -> n <> [] -> ~ In RBRACE n ->
    env n = None -> SubstIg env (S d) b ob ->
    SubstIg env (S d) (a ++ ref n ++ b) (a ++ ref n ++ ob).

Lemma interp_ig_complete env d s out : SubstIg env d s out -> interp d true env s = IOk out.
Proof.
  induction 1 as [d s Hs|d a n b v ov ob Ha Hn Hr Hv _ IHv _ IHb|d a n b ob Ha Hn Hr Hv _ IHb].
  - cbn [interp]. now apply inner_nodollar.
  - rewrite substitution_law with (v := v) by assumption. now rewrite IHv, IHb.
  - cbn [interp]. rewrite inner_prefix by exact Ha. rewrite inner_ref by exact Hr.
    unfold after_name. destruct n as [|x n]; [congruence|]. rewrite Hv.
    cbn [interp] in IHb. rewrite IHb. cbn [ibind]. unfold ref. cbn [app].
    now rewrite <- !app_assoc.
Qed.

Lemma interp_ig_sound env d : forall s out, interp d true env s = IOk out -> SubstIg env d s out.
Proof.
  induction d as [|d IHd]; intros s out H; [discriminate|].
  cbn [interp] in H.
  remember (length s) as k eqn:Hk. revert s out Hk H.
  induction k as [k IHk] using lt_wf_ind. intros s out Hk H.
  destruct (split_first DOLLAR s) as [Hno|[a [t [-> Ha]]]].
  - rewrite inner_nodollar in H by exact Hno. injection H as <-. now constructor.
  - rewrite inner_prefix in H by exact Ha.
    rewrite inner_dollar in H.
    destruct t as [|c2 t]; [discriminate H|].
    destruct (N.eqb_spec c2 LBRACE) as [->|Hc2]; [|discriminate H].
    destruct (split_first RBRACE t) as [Hnc|[n [b [-> Hn]]]].
    + rewrite name_scan_noclose in H by exact Hnc. discriminate H.
    + rewrite (name_scan_spec true env (interp d true env) [] n b Hn) in H.
      cbn [app] in H. unfold after_name in H.
      destruct n as [|x n]; [discriminate H|].
      assert (Hlen : (length b < k)%nat).
      { subst k. rewrite !app_length. simpl. rewrite app_length. simpl. lia. }
      replace (a ++ DOLLAR :: LBRACE :: (x :: n) ++ RBRACE :: b) with (a ++ ref (x :: n) ++ b)
        by now rewrite ref_app.
      destruct (env (x :: n)) as [v|] eqn:Hv.
      * destruct (interp d true env (cstr v)) as [ov|] eqn:Hrec; [|discriminate H].
        destruct (inner true env (interp d true env) b) as [ob|] eqn:Hb; [|discriminate H].
        simpl in H. injection H as <-.
        apply SIg_ref with (v := v); auto; [discriminate|].
        apply (IHk (length b)); [exact Hlen|reflexivity|exact Hb].
      * destruct (inner true env (interp d true env) b) as [ob|] eqn:Hb; [|discriminate H].
        cbn [ibind] in H. injection H as <-.
        change (SubstIg env (S d) (a ++ ref (x :: n) ++ b) (a ++ ref (x :: n) ++ ob)).
        apply SIg_unknown; auto; [discriminate|].
        apply (IHk (length b)); [exact Hlen|reflexivity|exact Hb].
Qed.

(* the model in IGNORE mode computes exactly [SubstIg] *)
Theorem interp_ig_iff env d s out : interp d true env s = IOk out <-> SubstIg env d s out.
Proof. split; [apply interp_ig_sound|apply interp_ig_complete]. Qed.

Lemma SubstIg_functional env d s o1 o2 : SubstIg env d s o1 -> SubstIg env d s o2 -> o1 = o2.
Proof. intros H1 H2. apply interp_ig_complete in H1, H2. congruence. Qed.

(* the flag changes nothing when no lookup fails ... *)
Lemma Subst_SubstIg env d s o : Subst env d s o -> SubstIg env d s o.
Proof.
  induction 1 as [d s Hs|d a n b v ov ob Ha Hn Hr Hv _ IHv _ IHb].
  - now constructor.
  - now apply SIg_ref with (v := v).
Qed.

Lemma SubstIg_total_env env d s o :
  (forall n, env n <> None) -> SubstIg env d s o -> Subst env d s o.
Proof.
  intros Ht. induction 1 as [d s Hs|d a n b v ov ob Ha Hn Hr Hv _ IHv _ IHb|d a n b ob Ha Hn Hr Hv _ IHb].
  - now constructor.
  - now apply Sub_ref with (v := v).
  - now apply Ht in Hv.
Qed.

(* ... where the plain mode succeeds, the IGNORE mode gives the same result *)
Theorem ignore_agrees_on_success env d s o :
  interp d false env s = IOk o -> interp d true env s = IOk o.
Proof. intros H. apply interp_ig_complete, Subst_SubstIg, interp_sound, H. Qed.

(* what the flag does NOT forgive: malformed references stay errors *)
Lemma malformed_laws_ig env d a t :
  ~ In DOLLAR a ->
  (match t with c :: _ => c <> LBRACE | [] => True end ->
     interp (S d) true env (a ++ DOLLAR :: t) = IErr EBrace) /\
  (~ In RBRACE t -> interp (S d) true env (a ++ DOLLAR :: LBRACE :: t) = IErr EClose) /\
  (interp (S d) true env (a ++ DOLLAR :: LBRACE :: RBRACE :: t) = IErr EEmpty).
Proof.
  intros Ha. cbn [interp]. repeat split.
  - intros H. rewrite inner_prefix by exact Ha. rewrite inner_dollar.
    destruct t as [|c t]; [reflexivity|]. destruct (N.eqb_spec c LBRACE); [contradiction|reflexivity].
  - intros H. rewrite inner_prefix by exact Ha. rewrite inner_dollar, N.eqb_refl.
    now rewrite name_scan_noclose.
  - rewrite inner_prefix by exact Ha. rewrite inner_dollar, N.eqb_refl. reflexivity.
Qed.

(* the law of the unknown reference: copied verbatim, scanning continues *)
Lemma unknown_law_ig env d a n b :
  ~ In DOLLAR a -> n <> [] -> ~ In RBRACE n -> env n = None ->
  interp (S d) true env (a ++ ref n ++ b) =
    match interp (S d) true env b with
    | IErr e => IErr e
    | IOk ob => IOk (a ++ ref n ++ ob)
    end.
Proof.
  intros Ha Hn Hr Hv. cbn [interp]. rewrite inner_prefix by exact Ha.
  rewrite inner_ref by exact Hr. unfold after_name. destruct n as [|x n]; [congruence|].
  rewrite Hv. destruct (inner true env (interp d true env) b); [|reflexivity].
  cbn [ibind]. unfold ref. cbn [app]. now rewrite <- !app_assoc.
Qed.

(* nor does it forgive depth: a value nested too deep is an error in both modes *)
Lemma SubstIg_nonul env d s o : SubstIg env d s o -> nonul s -> nonul o.
Proof.
  induction 1 as [d s Hs|d a n b v ov ob Ha Hn Hr Hv _ IHv _ IHb|d a n b ob Ha Hn Hr Hv _ IHb];
    intros Hz; [exact Hz| |].
  - apply nonul_app_inv in Hz. destruct Hz as [Hza Hz]. apply nonul_app_inv in Hz.
    destruct Hz as [_ Hzb].
    apply nonul_app2; [exact Hza|]. apply nonul_app2; [apply IHv, cstr_nonul|now apply IHb].
  - apply nonul_app_inv in Hz. destruct Hz as [Hza Hz]. apply nonul_app_inv in Hz.
    destruct Hz as [Hzn Hzb].
    apply nonul_app2; [exact Hza|]. apply nonul_app2; [exact Hzn|now apply IHb].
Qed.

(* interpolate_str in either mode returns a C string that holds all of the result *)
Theorem interp_str_nonul limit ig env s o :
  interp_str limit ig env s = IOk o -> nonul o.
Proof.
  unfold interp_str. intros H. destruct ig.
  - apply interp_ig_sound in H. apply (SubstIg_nonul _ _ _ _ H), cstr_nonul.
  - apply interp_sound in H. apply (Subst_nonul _ _ _ _ H), cstr_nonul.
Qed.
