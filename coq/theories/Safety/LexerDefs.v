(* LexerDefs.v - the input cursor of lexer.c: lexer_getc / lexer_ungetc on (off, eof, lno).
   The offset is a Z so that a missing guard shows as a negative or too large offset
   instead of being hidden by nat truncation.  Which guards the source has comes from
   the translator (Gen_Lexer). *)
From Robsd Require Export Base.Bytes.
From RobsdGen Require Import Gen_Lexer.
Local Open Scope Z_scope.

Record lstate := mklstate { l_off : Z; l_eof : Z; l_lno : Z }.

Inductive lop := OpGetc | OpUngetc (ch : N).

(* an access to buf[off] outside 0 <= off < len is recorded *)
Record lres := mklres { l_state : lstate; l_oob : bool }.

Definition lgetc (len : Z) (byte_at : Z -> N) (s : lstate) : lres :=
  if getc_checks_end && (l_off s =? len) then
    mklres (mklstate (l_off s) (l_eof s + 1) (l_lno s)) false
  else
    let c := byte_at (l_off s) in
    mklres (mklstate (l_off s + 1) (l_eof s) (if (c =? 10)%N then l_lno s + 1 else l_lno s))
           (negb ((0 <=? l_off s) && (l_off s <? len))).

Definition lungetc (s : lstate) (ch : N) : lres :=
  if ungetc_checks_eof && (0 <? l_eof s) then mklres s false
  else
    let lno := if (ch =? 10)%N && (1 <? l_lno s) then l_lno s - 1 else l_lno s in
    let off := if ungetc_checks_zero then (if 0 <? l_off s then l_off s - 1 else l_off s) else l_off s - 1 in
    mklres (mklstate off (l_eof s) lno) false.

Definition lstep (len : Z) (byte_at : Z -> N) (s : lstate) (o : lop) : lres :=
  match o with OpGetc => lgetc len byte_at s | OpUngetc ch => lungetc s ch end.

Fixpoint lrun (len : Z) (byte_at : Z -> N) (s : lstate) (ops : list lop) : lstate * bool :=
  match ops with
  | [] => (s, false)
  | o :: ops' =>
      let r := lstep len byte_at s o in
      let '(s', oob) := lrun len byte_at (l_state r) ops' in
      (s', l_oob r || oob)
  end.

Definition linit : lstate := mklstate 0 0 1.
