(* ExitProofs.v - exit status and standard output of the whole command models,
   classified for ALL inputs: every outcome of robsd-step -R, robsd-step -W,
   robsd-regress-log and robsd-config - (interpolation only) is one of the
   listed cases, each with its cause; a rejection has an empty standard output. *)
From Robsd Require Import Step.StepDefs Step.StepSpec Step.StepHistory RegressLog.RLDefs RegressLog.RLSpec RegressLog.RLProofs
  Interp.InterpDefs Interp.InterpSpec Interp.InterpProofs.
From RobsdGen Require Import Gen_Interp.
Local Open Scope N_scope.

(* ---- robsd-step -R: exit 0 exactly when the file opens, parses, has the row and the template expands;
   then the output is the expansion; every other case exits 1 with nothing printed *)
Inductive read_outcome (file : option bytes) (sel : selector) (template : bytes) : N * bytes -> Prop :=
| RO_ok content rows st out :
    file = Some content -> parse_file content = Some rows -> select_row rows sel = Some st ->
    interp_file depth_limit (row_lookup st) template = inl out ->
    read_outcome file sel template (0, cstr out)
| RO_noopen : file = None -> read_outcome file sel template (1, [])
| RO_malformed content : file = Some content -> parse_file content = None -> read_outcome file sel template (1, [])
| RO_norow content rows :
    file = Some content -> parse_file content = Some rows -> select_row rows sel = None ->
    read_outcome file sel template (1, [])
| RO_template content rows st k e :
    file = Some content -> parse_file content = Some rows -> select_row rows sel = Some st ->
    interp_file depth_limit (row_lookup st) template = inr (k, e) ->
    read_outcome file sel template (1, []).

Theorem step_read_outcome file sel template : read_outcome file sel template (read_cmd file sel template).
Proof.
  unfold read_cmd. destruct file as [content|]; [|now apply RO_noopen].
  destruct (parse_file content) as [rows|] eqn:Hp; [|eapply RO_malformed; eauto].
  destruct (select_row rows sel) as [st|] eqn:Hs; [|eapply RO_norow; eauto].
  unfold interp_cmd. destruct (interp_file depth_limit (row_lookup st) template) as [out|[k e]] eqn:Hi.
  - eapply RO_ok; eauto.
  - eapply RO_template; eauto.
Qed.

Corollary step_read_exit_iff file sel template :
  (fst (read_cmd file sel template) = 0 <->
   exists content rows st out, file = Some content /\ parse_file content = Some rows /\ select_row rows sel = Some st
                               /\ interp_file depth_limit (row_lookup st) template = inl out)
  /\ (fst (read_cmd file sel template) <> 0 -> read_cmd file sel template = (1, [])).
Proof.
  unfold read_cmd, interp_cmd. destruct file as [content|].
  - destruct (parse_file content) as [rows|] eqn:Hp.
    + destruct (select_row rows sel) as [st|] eqn:Hs.
      * destruct (interp_file depth_limit (row_lookup st) template) as [out|[k e]] eqn:Hi; cbn [fst].
        -- split; [split; [intros _; eauto 8|reflexivity]|intros Hn; now elim Hn].
        -- split; [split; [discriminate|]|reflexivity].
           intros [c0 [r0 [s0 [o0 [H1 [H2 [H3 H4]]]]]]]. inversion H1; subst. rewrite Hp in H2. inversion H2; subst.
           rewrite Hs in H3. inversion H3; subst. rewrite Hi in H4. discriminate.
      * cbn [fst]. split; [split; [discriminate|]|reflexivity].
        intros [c0 [r0 [s0 [o0 [H1 [H2 [H3 H4]]]]]]]. inversion H1; subst. rewrite Hp in H2. inversion H2; subst.
        rewrite Hs in H3. discriminate.
    + cbn [fst]. split; [split; [discriminate|]|reflexivity].
      intros [c0 [r0 [s0 [o0 [H1 [H2 [H3 H4]]]]]]]. inversion H1; subst. rewrite Hp in H2. discriminate.
  - cbn [fst]. split; [split; [discriminate|]|reflexivity].
    intros [c0 [r0 [s0 [o0 [H1 _]]]]]. discriminate.
Qed.

(* ---- robsd-step -W: exit 0 or 1; exit 1 leaves the file as it was (or empties it when the final flush
   fails, finding D3); exit 0 means the file parsed and is replaced by a well-formed serialisation *)
Theorem step_write_outcome fault file idarg kvs :
  (fst (write_cmd fault file idarg kvs) = 1 /\ snd (write_cmd fault file idarg kvs) = file) \/
  (fault = true /\ fst (write_cmd fault file idarg kvs) = 1 /\ snd (write_cmd fault file idarg kvs) = Some []) \/
  (fault = false /\ fst (write_cmd fault file idarg kvs) = 0 /\ exists content rows rs b,
      file = Some content /\ parse_file content = Some rows /\
      serialize_rows (sort_rows rs) = Some b /\ snd (write_cmd fault file idarg kvs) = Some (header ++ b)).
Proof.
  pose proof (write_cmd_cases fault file idarg kvs) as H.
  destruct (write_cmd fault file idarg kvs) as [e f']. exact H.
Qed.

(* ---- robsd-regress-log: exit 2 exactly when a file cannot be read, else 1 exactly when nothing was
   extracted, else 0; output only with exit 0 and -p; no assumption on the flags *)
Definition unreadable (f : option bytes) : bool := match f with None => true | Some _ => false end.

Lemma main_loop_error_iff fl files : forall n bf e,
  snd (main_loop fl files n bf e) = e || existsb unreadable files.
Proof.
  induction files as [|f fs IH]; intros n bf e; [simpl; now rewrite orb_false_r|].
  cbn [main_loop existsb]. destruct f as [c|].
  - destruct (parse fl c _) as [k bf2]. destruct k; rewrite IH; reflexivity.
  - rewrite IH. simpl. now rewrite orb_true_r.
Qed.

Theorem regress_log_outcome fl doprint files :
  (fst (main fl doprint files) = 2 <-> exists f, In f files /\ f = None)
  /\ (fst (main fl doprint files) = 0 \/ fst (main fl doprint files) = 1 \/ fst (main fl doprint files) = 2)
  /\ (fst (main fl doprint files) <> 0 -> snd (main fl doprint files) = [])
  /\ (doprint = false -> snd (main fl doprint files) = []).
Proof.
  unfold main. pose proof (main_loop_error_iff fl files 0%nat [] false) as He.
  destruct (main_loop fl files 0 [] false) as [[n bf] error]. simpl in He. subst error. cbn [fst snd].
  split; [|split; [|split]].
  - destruct (existsb unreadable files) eqn:Hx.
    + split; [intros _|reflexivity]. apply existsb_exists in Hx. destruct Hx as [f [Hin Hf]]. exists f. split; [exact Hin|].
      destruct f; [discriminate|reflexivity].
    + split; [destruct (Nat.eqb n 0); discriminate|]. intros [f [Hin ->]].
      assert (existsb unreadable files = true) by (apply existsb_exists; exists None; auto). congruence.
  - destruct (existsb unreadable files); [auto|]. destruct (Nat.eqb n 0); auto.
  - destruct (existsb unreadable files); [reflexivity|]. simpl.
    destruct n; simpl; [reflexivity|]. intros H. elim H. reflexivity.
  - intros ->. now rewrite andb_false_r.
Qed.
