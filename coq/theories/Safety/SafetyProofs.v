From Robsd Require Import Safety.LexerDefs Step.StepDefs Step.StepSpec Step.StepHistory RegressLog.RLSpec RegressLog.RLProofs Interp.InterpSpec Interp.InterpProofs.
From RobsdGen Require Import Gen_Lexer.
Local Open Scope Z_scope.

(* ---- the lexer cursor never leaves the buffer ------------------------------------------------ *)
Definition lgood (len : Z) (s : lstate) : Prop := 0 <= l_off s <= len /\ 0 <= l_eof s /\ 1 <= l_lno s.

Lemma lstep_good len byte_at s o :
  0 <= len -> lgood len s -> lgood len (l_state (lstep len byte_at s o)) /\ l_oob (lstep len byte_at s o) = false.
Proof.
  intros Hlen [Ho [He Hl]]. destruct o as [|ch]; cbn [lstep].
  - unfold lgetc. change getc_checks_end with true. cbn [andb].
    destruct (Z.eqb_spec (l_off s) len) as [E|E]; cbn [l_state l_oob l_off l_eof l_lno].
    + split; [unfold lgood; cbn; lia|reflexivity].
    + split.
      * unfold lgood; cbn. destruct (byte_at (l_off s) =? 10)%N; lia.
      * apply negb_false_iff, andb_true_iff. split; [apply Z.leb_le|apply Z.ltb_lt]; lia.
  - unfold lungetc. change ungetc_checks_eof with true. change ungetc_checks_zero with true. cbn [andb].
    destruct (Z.ltb_spec 0 (l_eof s)); cbn [l_state l_oob]; [split; [split; auto|reflexivity]|].
    split; [|reflexivity]. unfold lgood; cbn [l_off l_eof l_lno].
    destruct (Z.ltb_spec 0 (l_off s)); destruct ((ch =? 10)%N && (1 <? l_lno s)) eqn:E; try lia.
    all: try (apply andb_true_iff in E; destruct E as [_ E]; apply Z.ltb_lt in E; lia).
  Qed.

Theorem lexer_bounds len byte_at ops :
  0 <= len -> forall s, lgood len s ->
  lgood len (fst (lrun len byte_at s ops)) /\ snd (lrun len byte_at s ops) = false.
Proof.
  intros Hlen. induction ops as [|o ops IH]; intros s G; [split; [exact G|reflexivity]|].
  cbn [lrun]. destruct (lstep_good len byte_at s o Hlen G) as [G1 O1].
  destruct (IH _ G1) as [G2 O2].
  destruct (lrun len byte_at (l_state (lstep len byte_at s o)) ops) as [s' oob]. cbn [fst snd] in *.
  split; [exact G2|]. now rewrite O1, O2.
Qed.

Lemma linit_good len : 0 <= len -> lgood len linit.
Proof. intros H. unfold lgood, linit; cbn; lia. Qed.

(* ---- the row loop of the step parser always terminates: every row consumes a token -------- *)
Lemma row_loop_consumes cols : forall toks col st st' rest,
  row_loop cols col st toks = Some (st', rest) -> (length rest < length toks)%nat.
Proof.
  induction toks as [toks IH] using (induction_ltof1 _ (@length token)). unfold ltof in IH.
  intros col st st' rest H. destruct toks as [|t ts]; [discriminate|].
  cbn [row_loop] in H. destruct t as [| |v].
  - apply IH in H; cbn in *; lia.
  - discriminate.
  - destruct (nth_error cols col) as [key|]; [|discriminate].
    destruct (set_field st key v) as [st1|]; [|discriminate].
    destruct ts as [|t2 ts']; [discriminate|]. destruct t2 as [| |v2].
    + apply IH in H; cbn in *; lia.
    + injection H as <- <-. cbn. lia.
    + discriminate.
Qed.

Lemma parse_row_consumes cols toks st rest :
  parse_row cols toks = Some (st, rest) -> (length rest < length toks)%nat.
Proof.
  unfold parse_row. destruct step_init as [st0|]; [|discriminate].
  destruct (row_loop cols 0 st0 toks) as [[st1 r]|] eqn:E; [|discriminate].
  destruct (validate st1); [|discriminate]. intros H. injection H as <- <-.
  eapply row_loop_consumes; eauto.
Qed.

Theorem parse_rows_fuel_sufficient cols : forall n toks f,
  (length toks <= n)%nat -> (n < f)%nat -> parse_rows f cols toks = parse_rows (S n) cols toks.
Proof.
  induction n as [|n IH]; intros toks f Hl Hf.
  - destruct toks; [|cbn in Hl; lia]. destruct f; reflexivity.
  - destruct f as [|f]; [lia|]. destruct toks as [|t ts]; [reflexivity|].
    cbn [parse_rows]. destruct (parse_row cols (t :: ts)) as [[st rest]|] eqn:E; [|reflexivity].
    apply parse_row_consumes in E. cbn in E, Hl.
    rewrite (IH rest f) by lia. reflexivity.
Qed.

(* ---- documented exit statuses, nothing on stdout when rejecting -------------------------------- *)
Local Open Scope N_scope.

Theorem step_read_exit file sel template :
  fst (read_cmd file sel template) = 0 \/
  (fst (read_cmd file sel template) = 1 /\ snd (read_cmd file sel template) = []).
Proof.
  unfold read_cmd. destruct file as [c|]; [|now right].
  destruct (parse_file c); [|now right]. destruct (select_row _ sel); [|now right].
  apply cmd_exit.
Qed.

Theorem step_write_exit fault file idarg kvs :
  fst (write_cmd fault file idarg kvs) = 0 \/ fst (write_cmd fault file idarg kvs) = 1.
Proof.
  pose proof (write_cmd_cases fault file idarg kvs) as H.
  destruct (write_cmd fault file idarg kvs) as [e f']. cbn [fst].
  destruct H as [[-> _]|[[_ [-> _]]|[_ [-> _]]]]; auto.
Qed.

Theorem regress_log_exit fl doprint files :
  fNEWLINE fl = false ->
  (fst (main fl doprint files) = 0 \/ fst (main fl doprint files) = 1 \/ fst (main fl doprint files) = 2) /\
  (fst (main fl doprint files) <> 0 -> snd (main fl doprint files) = []).
Proof.
  intros Hnl. rewrite main_refines_spec by exact Hnl. unfold spec_main.
  destruct (all_some files) as [fs|]; [|split; [auto|reflexivity]].
  destruct (filter nonempty (map (file_blocks fl) fs)); cbn; split; auto. intros H; now elim H.
Qed.
