(* ISort.v - a generic insertion sort as the executable stand-in for qsort(3),
   and what is assumed about any qsort: it returns a permutation of its input
   whose elements are pairwise ordered by the comparison ("sorts").  Generic
   lemmas, no property theorem. *)
From Coq Require Import List Bool Sorting.Sorted Sorting.Permutation.
Import ListNotations.

Section ISort.
  Variable A : Type.
  Variable le : A -> A -> bool.     (* cmp(a, b) <= 0: a may stay before b *)

  Fixpoint insert (x : A) (l : list A) : list A :=
    match l with
    | [] => [x]
    | y :: l' => if le x y then x :: l else y :: insert x l'
    end.

  Fixpoint isort (l : list A) : list A :=
    match l with
    | [] => []
    | x :: l' => insert x (isort l')
    end.

  (* what a sorting function promises *)
  Definition sorts (f : list A -> list A) : Prop :=
    forall l, Permutation l (f l) /\ StronglySorted (fun a b => le a b = true) (f l).

  Lemma insert_perm x l : Permutation (x :: l) (insert x l).
  Proof.
    induction l as [|y l IH]; simpl; [reflexivity|].
    destruct (le x y); [reflexivity|].
    eapply perm_trans; [apply perm_swap|]. now apply perm_skip.
  Qed.

  Lemma isort_perm l : Permutation l (isort l).
  Proof.
    induction l as [|x l IH]; simpl; [constructor|].
    eapply perm_trans; [apply perm_skip, IH|apply insert_perm].
  Qed.

  Hypothesis le_total : forall a b, le a b = true \/ le b a = true.
  Hypothesis le_trans : forall a b c, le a b = true -> le b c = true -> le a c = true.

  Lemma insert_sorted x l :
    StronglySorted (fun a b => le a b = true) l ->
    StronglySorted (fun a b => le a b = true) (insert x l).
  Proof.
    induction 1 as [|y l Hs IH Hall]; simpl; [repeat constructor|].
    destruct (le x y) eqn:E.
    - constructor; [constructor; assumption|].
      constructor; [exact E|]. rewrite Forall_forall in *. intros z Hz.
      eapply le_trans; [exact E|now apply Hall].
    - constructor; [exact IH|].
      assert (Hyx : le y x = true) by (destruct (le_total x y); congruence).
      rewrite Forall_forall in *. intros z Hz.
      apply (Permutation_in _ (Permutation_sym (insert_perm x l))) in Hz.
      destruct Hz as [<-|Hz]; [exact Hyx|now apply Hall].
  Qed.

  Lemma isort_sorted l : StronglySorted (fun a b => le a b = true) (isort l).
  Proof. induction l as [|x l IH]; simpl; [constructor|now apply insert_sorted]. Qed.

  Lemma isort_sorts : sorts isort.
  Proof. intros l. split; [apply isort_perm|apply isort_sorted]. Qed.
End ISort.

Arguments insert {A}.
Arguments isort {A}.
Arguments sorts {A}.
