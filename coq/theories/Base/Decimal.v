(* Decimal.v - decimal rendering ("%d", "%lld") and parsing (strtoll base 10,
   strtonum) of integers on byte strings, through the standard library's
   Decimal.uint so that the round trip rests on DecimalZ.of_to. *)
From Robsd Require Export Base.Bytes.
From Coq Require Import Decimal DecimalZ.
Local Open Scope N_scope.

Fixpoint bytes_of_uint (u : uint) : bytes :=
  match u with
  | Nil => []
  | D0 u => 48 :: bytes_of_uint u | D1 u => 49 :: bytes_of_uint u
  | D2 u => 50 :: bytes_of_uint u | D3 u => 51 :: bytes_of_uint u
  | D4 u => 52 :: bytes_of_uint u | D5 u => 53 :: bytes_of_uint u
  | D6 u => 54 :: bytes_of_uint u | D7 u => 55 :: bytes_of_uint u
  | D8 u => 56 :: bytes_of_uint u | D9 u => 57 :: bytes_of_uint u
  end.

Definition bytes_of_int (i : Decimal.int) : bytes :=
  match i with
  | Pos u => bytes_of_uint u
  | Neg u => 45 :: bytes_of_uint u
  end.

(* printf("%d") / "%lld" / PRId64 of a value that fits the type *)
Definition render_Z (z : Z) : bytes := bytes_of_int (Z.to_int z).

Definition digit_cons (c : N) (u : uint) : option uint :=
  match c with
  | 48 => Some (D0 u) | 49 => Some (D1 u) | 50 => Some (D2 u) | 51 => Some (D3 u)
  | 52 => Some (D4 u) | 53 => Some (D5 u) | 54 => Some (D6 u) | 55 => Some (D7 u)
  | 56 => Some (D8 u) | 57 => Some (D9 u)
  | _ => None
  end.

(* all bytes decimal digits *)
Fixpoint uint_of_bytes (s : bytes) : option uint :=
  match s with
  | [] => Some Nil
  | c :: s' => match uint_of_bytes s' with
               | None => None
               | Some u => digit_cons c u
               end
  end.

Definition is_space (c : N) : bool :=
  (c =? 32) || ((9 <=? c) && (c <=? 13)).

Fixpoint skip_space (s : bytes) : bytes :=
  match s with
  | c :: s' => if is_space c then skip_space s' else s
  | [] => []
  end.

Inductive numres := NumOk (z : Z) | NumInvalid | NumTooSmall | NumTooLarge.

(* strtonum(s, lo, hi, &errstr) for lo <= hi within long long: strtoll skips
   white space, takes an optional sign and at least one digit; anything left
   over is "invalid"; a value below lo (or below LLONG_MIN) "too small", above
   hi "too large" *)
Definition strtonum (lo hi : Z) (s : bytes) : numres :=
  let s1 := skip_space s in
  let '(neg, s2) := match s1 with
                    | c :: r => if c =? 45 then (true, r)
                                else if c =? 43 then (false, r) else (false, s1)
                    | [] => (false, s1)
                    end in
  match s2 with
  | [] => NumInvalid
  | _ =>
      match uint_of_bytes s2 with
      | None => NumInvalid
      | Some u =>
          let z := if neg then Z.opp (Z.of_uint u) else Z.of_uint u in
          if (z <? lo)%Z then NumTooSmall
          else if (hi <? z)%Z then NumTooLarge
          else NumOk z
      end
  end.
