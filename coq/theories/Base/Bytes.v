(* Bytes.v - byte strings as lists of N, C-string truncation, substring search,
   line splitting as buffer_getline does it.  Executable definitions and their
   lemmas; no property theorem lives here.

   A byte is an [N]; the implementation only ever produces values 0..255 and
   every theorem of the development is stated for all lists of N, a superset. *)
From Coq Require Export List NArith ZArith Bool Lia.
From Coq Require Import Ascii String.
From Coq.Strings Require Import Byte.
Export ListNotations.
Local Open Scope N_scope.

(* notations, not definitions: [bytes] and [list N] are the same term, so rewriting
   never trips over an implicit argument that says [byte] where another says [N] *)
Notation byte := N (only parsing).
Notation bytes := (list N) (only parsing).

Definition bs (s : string) : bytes := map Byte.to_N (list_byte_of_string s).

Definition NL : byte := 10.
Definition NUL : byte := 0.

Fixpoint beq (a b : bytes) : bool :=
  match a, b with
  | [], [] => true
  | x :: a', y :: b' => (x =? y) && beq a' b'
  | _, _ => false
  end.

Lemma beq_spec a b : reflect (a = b) (beq a b).
Proof.
  revert b; induction a as [|x a IH]; intros [|y b]; simpl; try (constructor; congruence).
  destruct (N.eqb_spec x y) as [->|Hn]; simpl.
  - destruct (IH b) as [->|Hn]; constructor; congruence.
  - constructor; congruence.
Qed.

Lemma beq_eq a b : beq a b = true <-> a = b.
Proof. destruct (beq_spec a b); split; congruence. Qed.

Lemma beq_refl a : beq a a = true.
Proof. apply beq_eq; reflexivity. Qed.

(* C string view: the bytes before the first NUL *)
Fixpoint cstr (l : bytes) : bytes :=
  match l with
  | [] => []
  | c :: l' => if c =? 0 then [] else c :: cstr l'
  end.

Definition nonul (l : bytes) : Prop := Forall (fun c => c <> 0) l.

Lemma cstr_nonul l : nonul (cstr l).
Proof.
  induction l as [|c l IH]; simpl; [constructor|].
  destruct (N.eqb_spec c 0); [constructor|]. constructor; assumption.
Qed.

Lemma cstr_id l : nonul l -> cstr l = l.
Proof.
  induction 1 as [|c l Hc _ IH]; simpl; [reflexivity|].
  destruct (N.eqb_spec c 0); [contradiction|]. now rewrite IH.
Qed.

Lemma cstr_idem l : cstr (cstr l) = cstr l.
Proof. apply cstr_id, cstr_nonul. Qed.

(* strncmp(s, p, strlen p) == 0 on C strings without NUL in p *)
Fixpoint prefixb (p s : bytes) : bool :=
  match p, s with
  | [], _ => true
  | x :: p', y :: s' => (x =? y) && prefixb p' s'
  | _ :: _, [] => false
  end.

Lemma prefixb_spec p s : prefixb p s = true <-> exists t, s = p ++ t.
Proof.
  revert s; induction p as [|x p IH]; intros s; simpl.
  - split; [eauto|reflexivity].
  - destruct s as [|y s]; [split; [discriminate|intros [t Ht]; discriminate]|].
    rewrite andb_true_iff, IH, N.eqb_eq. split.
    + intros [-> [t ->]]. eauto.
    + intros [t Ht]. injection Ht as -> ->. eauto.
Qed.

(* strstr(s, p) != NULL *)
Fixpoint infixb (p s : bytes) : bool :=
  prefixb p s || match s with [] => false | _ :: s' => infixb p s' end.

Lemma infixb_spec p s : infixb p s = true <-> exists a b, s = a ++ p ++ b.
Proof.
  induction s as [|y s IH].
  - cbn [infixb]. rewrite orb_false_r, prefixb_spec. split.
    + intros [t Ht]. exists [], t. exact Ht.
    + intros [a [b H]]. destruct a; [exists b; exact H|discriminate].
  - cbn [infixb]. rewrite orb_true_iff, prefixb_spec, IH. split.
    + intros [[t Ht]|[a [b Hab]]].
      * exists [], t. exact Ht.
      * exists (y :: a), b. simpl. now rewrite Hab.
    + intros [a [b Hab]]. destruct a as [|x a].
      * left. exists b. exact Hab.
      * right. injection Hab as -> ->. eauto.
Qed.

(* buffer_getline: successive lines of a buffer; a final line without newline
   counts, an empty tail after the last newline does not *)
Fixpoint getlines (l : bytes) : list bytes :=
  match l with
  | [] => []
  | c :: l' =>
      if c =? 10 then [] :: getlines l'
      else match getlines l' with
           | [] => [[c]]
           | x :: xs => (c :: x) :: xs
           end
  end.

(* what the callers see: each line as a C string *)
Definition clines (l : bytes) : list bytes := map cstr (getlines l).

Definition nonl (l : bytes) : Prop := Forall (fun c => c <> 10) l.

Lemma getlines_nonl l : Forall nonl (getlines l).
Proof.
  induction l as [|c l IH]; simpl; [constructor|].
  destruct (N.eqb_spec c 10) as [->|Hc].
  - constructor; [constructor|assumption].
  - destruct (getlines l) as [|x xs]; [repeat constructor; assumption|].
    inversion IH; subst. constructor; [constructor; assumption|assumption].
Qed.

Fixpoint unlines (ls : list bytes) : bytes :=
  match ls with
  | [] => []
  | l :: ls' => l ++ 10 :: unlines ls'
  end.

Lemma getlines_unlines ls : Forall nonl ls -> getlines (unlines ls) = ls.
Proof.
  induction 1 as [|l ls Hl _ IH]; [reflexivity|]. simpl.
  induction Hl as [|c l Hc _ IHl]; simpl.
  - now rewrite IH.
  - destruct (N.eqb_spec c 10); [contradiction|]. now rewrite IHl.
Qed.

(* content reconstruction: the lines joined by newlines give back the buffer,
   up to an optional final newline *)
Lemma unlines_getlines l :
  unlines (getlines l) = l \/ unlines (getlines l) = l ++ [10].
Proof.
  induction l as [|c l IH]; simpl; [now left|].
  destruct (N.eqb_spec c 10) as [->|Hc].
  - simpl. destruct IH as [-> | ->]; [now left|now right].
  - destruct (getlines l) as [|x xs] eqn:E.
    + destruct l as [|d l]; [simpl; now right|].
      simpl in E. destruct (d =? 10); [discriminate|]. destruct (getlines l); discriminate.
    + simpl in *. destruct IH as [-> | ->]; [now left|now right].
Qed.

Lemma cstr_nonl l : nonl l -> nonl (cstr l).
Proof.
  induction 1 as [|c l Hc _ IH]; simpl; [constructor|].
  destruct (c =? 0); constructor; assumption.
Qed.

Lemma clines_nonl l : Forall nonl (clines l).
Proof.
  unfold clines. rewrite Forall_map. eapply Forall_impl; [|apply getlines_nonl].
  intros a. apply cstr_nonl.
Qed.

Lemma clines_nonul l : Forall nonul (clines l).
Proof. unfold clines. rewrite Forall_map. apply Forall_forall. intros; apply cstr_nonul. Qed.
