(* CInt.v - C11 integer semantics on LP64 (the ABI of this platform and of
   OpenBSD/amd64, arm64, ...) made explicit over Z, for the leaf functions that
   translator T2 (harness/t_*.py) regenerates from clang's AST.

   A C value of integer type is the mathematical integer it denotes.  Every
   operation carries the C type it is performed in (the type clang's AST gives
   the operator node after the usual arithmetic conversions; the integer
   promotions int32_t -> int, uint32_t -> unsigned int are identities on LP64
   and show up as the typedef resolution printed by the translator).

   [cval = option Z]: [None] means "evaluating this expression is undefined
   behaviour or traps" - signed overflow, division by zero, INT_MIN / -1,
   oversized or negative shift counts.  Unsigned arithmetic wraps modulo 2^N.
   Conversions to a signed type of an out-of-range value are
   implementation-defined, and defined by gcc and clang as reduction modulo
   2^N; that is what [ccast] does.

   Statement level: [cres = option (Z * option Z)] is (value returned, last
   value stored through the function's single out-pointer if any); [None]
   again means the function itself trapped / had UB.

   This file is part of the trusted base (DESIGN.md section 9): it is this
   development's reading of the C standard.  The translators are validated
   against compiled code on every run. *)
From Coq Require Import ZArith Lia Bool.
Local Open Scope Z_scope.

Inductive cty := TInt | TUInt | TLong | TULong.

Definition cbits (t : cty) : Z :=
  match t with TInt | TUInt => 32 | TLong | TULong => 64 end.
Definition csigned (t : cty) : bool :=
  match t with TInt | TLong => true | TUInt | TULong => false end.
Definition cmin (t : cty) : Z :=
  match t with
  | TInt => -2147483648
  | TLong => -9223372036854775808
  | TUInt | TULong => 0
  end.
Definition cmax (t : cty) : Z :=
  match t with
  | TInt => 2147483647
  | TUInt => 4294967295
  | TLong => 9223372036854775807
  | TULong => 18446744073709551615
  end.
Definition cmodulus (t : cty) : Z :=
  match t with
  | TInt | TUInt => 4294967296
  | TLong | TULong => 18446744073709551616
  end.

Definition in_range (t : cty) (z : Z) : Prop := cmin t <= z <= cmax t.
Definition in_rangeb (t : cty) (z : Z) : bool := (cmin t <=? z) && (z <=? cmax t).

(* the representative of z modulo 2^N inside the range of t *)
Definition cwrap (t : cty) (z : Z) : Z :=
  if csigned t then (z - cmin t) mod cmodulus t + cmin t else z mod cmodulus t.

Definition cval := option Z.
Definition cres := option (Z * option Z).

Definition cvar (z : Z) : cval := Some z.
Definition clit (t : cty) (z : Z) : cval := if in_rangeb t z then Some z else None.
Definition cbool (b : bool) : cval := Some (if b then 1 else 0).

Definition cbind2 (x y : cval) (f : Z -> Z -> cval) : cval :=
  match x, y with Some a, Some b => f a b | _, _ => None end.
Definition cbind1 (x : cval) (f : Z -> cval) : cval :=
  match x with Some a => f a | None => None end.

(* result of +,-,*,unary - performed in type t on the exact value z *)
Definition carith (t : cty) (z : Z) : cval :=
  if csigned t then (if in_rangeb t z then Some z else None) else Some (cwrap t z).

Definition cadd t x y := cbind2 x y (fun a b => carith t (a + b)).
Definition csub t x y := cbind2 x y (fun a b => carith t (a - b)).
Definition cmul t x y := cbind2 x y (fun a b => carith t (a * b)).
Definition cneg t x := cbind1 x (fun a => carith t (- a)).
(* C division truncates towards zero: Z.quot / Z.rem *)
Definition cdiv t x y := cbind2 x y (fun a b =>
  if b =? 0 then None
  else if csigned t && (a =? cmin t) && (b =? -1) then None
  else Some (Z.quot a b)).
Definition crem t x y := cbind2 x y (fun a b =>
  if b =? 0 then None
  else if csigned t && (a =? cmin t) && (b =? -1) then None
  else Some (Z.rem a b)).

(* comparisons: operands already converted to the common type t; result int *)
Definition clt (t : cty) x y := cbind2 x y (fun a b => cbool (a <? b)).
Definition cgt (t : cty) x y := cbind2 x y (fun a b => cbool (b <? a)).
Definition cle (t : cty) x y := cbind2 x y (fun a b => cbool (a <=? b)).
Definition cge (t : cty) x y := cbind2 x y (fun a b => cbool (b <=? a)).
Definition ceq (t : cty) x y := cbind2 x y (fun a b => cbool (a =? b)).
Definition cne (t : cty) x y := cbind2 x y (fun a b => cbool (negb (a =? b))).

Definition clnot x := cbind1 x (fun a => cbool (a =? 0)).
(* && and || evaluate the right operand only when needed *)
Definition cand (x y : cval) : cval :=
  match x with
  | None => None
  | Some a => if a =? 0 then Some 0 else cbind1 y (fun b => cbool (negb (b =? 0)))
  end.
Definition cor (x y : cval) : cval :=
  match x with
  | None => None
  | Some a => if a =? 0 then cbind1 y (fun b => cbool (negb (b =? 0))) else Some 1
  end.
Definition ccond (c x y : cval) : cval :=
  match c with
  | None => None
  | Some a => if a =? 0 then y else x
  end.

(* integral conversion (implicit or C-style cast) *)
Definition ccast (from to : cty) x := cbind1 x (fun a => Some (cwrap to a)).

(* bitwise operators on the two's complement representation *)
Definition cband (t : cty) x y := cbind2 x y (fun a b => Some (Z.land a b)).
Definition cbor (t : cty) x y := cbind2 x y (fun a b => Some (Z.lor a b)).
Definition cbxor (t : cty) x y := cbind2 x y (fun a b => Some (Z.lxor a b)).
Definition cbnot (t : cty) x := cbind1 x (fun a => Some (if csigned t then - a - 1 else cmax t - a)).
(* shifts: t is the (promoted) type of the left operand *)
Definition cshl (t : cty) x y := cbind2 x y (fun a b =>
  if (b <? 0) || (cbits t <=? b) then None
  else if csigned t then (if a <? 0 then None else if in_rangeb t (a * 2 ^ b) then Some (a * 2 ^ b) else None)
  else Some (cwrap t (a * 2 ^ b))).
Definition cshr (t : cty) x y := cbind2 x y (fun a b =>
  if (b <? 0) || (cbits t <=? b) then None else Some (Z.shiftr a b)).

(* statements *)
Definition cif (c : cval) (th el : cres) : cres :=
  match c with
  | None => None
  | Some a => if a =? 0 then el else th
  end.
Definition creturn (e : cval) (st : option Z) : cres :=
  match e with None => None | Some v => Some (v, st) end.
(* *out = e, e already converted to the pointee type t *)
Definition cstore (t : cty) (e : cval) (k : option Z -> cres) : cres :=
  match e with None => None | Some v => k (Some v) end.
Definition clet (e : cval) (k : Z -> cres) : cres :=
  match e with None => None | Some v => k v end.

(* ---- facts ------------------------------------------------------------- *)

Lemma cmin_pow t : cmin t = if csigned t then - 2 ^ (cbits t - 1) else 0.
Proof. destruct t; reflexivity. Qed.
Lemma cmax_pow t : cmax t = if csigned t then 2 ^ (cbits t - 1) - 1 else 2 ^ cbits t - 1.
Proof. destruct t; reflexivity. Qed.
Lemma cmodulus_pow t : cmodulus t = 2 ^ cbits t.
Proof. destruct t; reflexivity. Qed.
Lemma cmodulus_span t : cmax t - cmin t + 1 = cmodulus t.
Proof. destruct t; reflexivity. Qed.

Lemma in_rangeb_spec t z : reflect (in_range t z) (in_rangeb t z).
Proof.
  apply iff_reflect. unfold in_range, in_rangeb.
  rewrite andb_true_iff, !Z.leb_le. reflexivity.
Qed.

Lemma cwrap_in_range t z : in_range t (cwrap t z).
Proof.
  unfold in_range, cwrap. pose proof (cmodulus_span t) as Hs.
  assert (Hm : 0 < cmodulus t) by (destruct t; reflexivity).
  destruct (csigned t) eqn:Es.
  - pose proof (Z.mod_pos_bound (z - cmin t) (cmodulus t) Hm). lia.
  - pose proof (Z.mod_pos_bound z (cmodulus t) Hm).
    assert (cmin t = 0) by (destruct t; try discriminate; reflexivity). lia.
Qed.

Lemma cwrap_id t z : in_range t z -> cwrap t z = z.
Proof.
  unfold in_range, cwrap. intros H. pose proof (cmodulus_span t) as Hs.
  destruct (csigned t) eqn:Es.
  - rewrite Z.mod_small by lia. lia.
  - assert (cmin t = 0) by (destruct t; try discriminate; reflexivity).
    apply Z.mod_small. lia.
Qed.

Lemma cwrap_congr t z : exists k, cwrap t z = z + k * cmodulus t.
Proof.
  unfold cwrap. assert (Hm : cmodulus t <> 0) by (destruct t; discriminate).
  destruct (csigned t).
  - exists (- ((z - cmin t) / cmodulus t)).
    pose proof (Z.div_mod (z - cmin t) (cmodulus t) Hm). lia.
  - exists (- (z / cmodulus t)). pose proof (Z.div_mod z (cmodulus t) Hm). lia.
Qed.

(* truncating division, in the form nia can use *)
Lemma rem_bound_nonneg a b : b <> 0 -> 0 <= a -> 0 <= Z.rem a b < Z.abs b.
Proof.
  intros Hb Ha. destruct (Z.lt_total b 0) as [H|[H|H]]; [|contradiction|].
  - rewrite <- (Z.rem_opp_r a b) by assumption. rewrite Z.abs_neq by lia.
    apply Z.rem_bound_pos; lia.
  - rewrite Z.abs_eq by lia. apply Z.rem_bound_pos; lia.
Qed.

Lemma quot_rem_facts a b : b <> 0 ->
  a = b * Z.quot a b + Z.rem a b /\
  (0 <= a -> 0 <= Z.rem a b < Z.abs b) /\
  (a <= 0 -> - Z.abs b < Z.rem a b <= 0).
Proof.
  intros Hb. split; [apply Z.quot_rem'|]. split; intros Ha.
  - apply rem_bound_nonneg; assumption.
  - pose proof (rem_bound_nonneg (- a) b Hb ltac:(lia)) as H.
    rewrite Z.rem_opp_l in H by assumption. lia.
Qed.

(* converting a literal that fits both types does nothing *)
Lemma ccast_clit f t z :
  in_rangeb f z = true -> in_rangeb t z = true -> ccast f t (clit f z) = Some z.
Proof.
  intros Hf Ht. unfold ccast, clit. rewrite Hf. simpl. f_equal.
  apply cwrap_id. destruct (in_rangeb_spec t z); [assumption|discriminate].
Qed.
