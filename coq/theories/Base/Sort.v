(* Sort.v - what "sorted" pins down.  Generic lemmas, no property theorem.

   For a strict order (irreflexive, transitive) a list that is strongly sorted
   has no duplicates, and two strongly sorted lists with the same elements are
   equal: the result of sorting distinct keys does not depend on the sorting
   algorithm.  This is how libc's qsort enters the models: as "some function
   returning a sorted permutation", never as an axiom. *)
From Coq Require Import List Sorting.Sorted Sorting.Permutation.
Import ListNotations.

Section StrictOrder.
  Variable A : Type.
  Variable lt : A -> A -> Prop.
  Hypothesis lt_irrefl : forall a, ~ lt a a.
  Hypothesis lt_trans : forall a b c, lt a b -> lt b c -> lt a c.

  Lemma ssorted_nodup l : StronglySorted lt l -> NoDup l.
  Proof.
    induction 1 as [|x l Hs IH Hall]; constructor; [|exact IH].
    intros Hin. rewrite Forall_forall in Hall. exact (lt_irrefl x (Hall x Hin)).
  Qed.

  Lemma ssorted_perm_unique l1 : forall l2,
    StronglySorted lt l1 -> StronglySorted lt l2 -> Permutation l1 l2 -> l1 = l2.
  Proof.
    induction l1 as [|x l1 IH]; intros l2 H1 H2 Hp.
    - apply Permutation_nil in Hp. now subst.
    - destruct l2 as [|y l2]; [apply Permutation_sym, Permutation_nil in Hp; discriminate|].
      inversion H1 as [|? ? H1s H1a]; subst. inversion H2 as [|? ? H2s H2a]; subst.
      rewrite Forall_forall in H1a, H2a.
      assert (Hxy : x = y).
      { assert (Hx : In x (y :: l2)) by (eapply Permutation_in; [exact Hp|now left]).
        assert (Hy : In y (x :: l1)) by (eapply Permutation_in; [apply Permutation_sym; exact Hp|now left]).
        destruct Hx as [Hx|Hx]; [now symmetry|].
        destruct Hy as [Hy|Hy]; [exact Hy|].
        exfalso. apply (lt_irrefl x). eapply lt_trans; [apply H1a, Hy|apply H2a, Hx]. }
      subst y. f_equal. apply IH; try assumption.
      eapply Permutation_cons_inv; exact Hp.
  Qed.

  (* a weakly sorted list without duplicates is strictly sorted *)
  Variable le : A -> A -> Prop.
  Hypothesis le_lt_or_eq : forall a b, le a b -> lt a b \/ a = b.
  Hypothesis le_trans : forall a b c, le a b -> le b c -> le a c.

  Lemma sorted_le_nodup_ssorted_lt l :
    Sorted le l -> NoDup l -> StronglySorted lt l.
  Proof.
    intros Hs Hn. apply Sorted_StronglySorted in Hs; [|exact le_trans].
    induction Hs as [|x l Hs IH Hall]; [constructor|].
    inversion Hn as [|? ? Hnx Hnl]; subst. constructor; [apply IH; exact Hnl|].
    rewrite Forall_forall in *. intros y Hy.
    destruct (le_lt_or_eq _ _ (Hall y Hy)) as [Hlt|Heq]; [exact Hlt|].
    subst y. contradiction.
  Qed.

  (* the statement used by the listing models: two weakly sorted permutations
     of one duplicate-free list coincide *)
  Lemma sorted_perm_unique l l1 l2 :
    NoDup l -> Permutation l l1 -> Permutation l l2 ->
    Sorted le l1 -> Sorted le l2 -> l1 = l2.
  Proof.
    intros Hn Hp1 Hp2 Hs1 Hs2.
    apply ssorted_perm_unique.
    - apply sorted_le_nodup_ssorted_lt; [exact Hs1|]. eapply Permutation_NoDup; eassumption.
    - apply sorted_le_nodup_ssorted_lt; [exact Hs2|]. eapply Permutation_NoDup; eassumption.
    - eapply Permutation_trans; [apply Permutation_sym; exact Hp1|exact Hp2].
  Qed.
End StrictOrder.

(* reversal turns ascending into descending *)
Lemma ssorted_rev {A} (R : A -> A -> Prop) l :
  StronglySorted R l -> StronglySorted (fun a b => R b a) (rev l).
Proof.
  induction 1 as [|x l Hs IH Hall]; simpl; [constructor|].
  assert (Happ : forall l1 l2, StronglySorted (fun a b => R b a) l1 ->
            StronglySorted (fun a b => R b a) l2 ->
            (forall a b, In a l1 -> In b l2 -> R b a) ->
            StronglySorted (fun a b => R b a) (l1 ++ l2)).
  { induction l1 as [|a l1 IH1]; intros l2 H1 H2 Hc; simpl; [exact H2|].
    inversion H1 as [|? ? H1s H1a]; subst. constructor.
    - apply IH1; try assumption. intros; apply Hc; [now right|assumption].
    - rewrite Forall_forall in *. intros b Hb. apply in_app_or in Hb as [Hb|Hb].
      + now apply H1a.
      + apply Hc; [now left|assumption]. }
  apply Happ; [exact IH|repeat constructor|].
  rewrite Forall_forall in Hall.
  intros a b Ha [<-|[]]. apply Hall. now apply in_rev.
Qed.

(* filtering keeps a strongly sorted list strongly sorted *)
Lemma ssorted_filter {A} (R : A -> A -> Prop) (f : A -> bool) l :
  StronglySorted R l -> StronglySorted R (filter f l).
Proof.
  induction 1 as [|x l Hs IH Hall]; simpl; [constructor|].
  destruct (f x); [|exact IH]. constructor; [exact IH|].
  rewrite Forall_forall in *. intros y Hy. apply filter_In in Hy as [Hy _]. now apply Hall.
Qed.
