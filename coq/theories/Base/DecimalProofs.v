(* DecimalProofs.v - rendering a Z and reading it back with strtonum *)
From Robsd Require Import Base.Decimal.
From Coq Require Import Decimal DecimalPos DecimalN DecimalZ.
Local Open Scope N_scope.

Definition isdigit (c : N) : bool := (48 <=? c) && (c <=? 57).

Lemma bytes_of_uint_digits u : forallb isdigit (bytes_of_uint u) = true.
Proof. induction u; simpl; auto. Qed.

Lemma uint_of_bytes_of_uint u : uint_of_bytes (bytes_of_uint u) = Some u.
Proof. induction u; simpl; try rewrite IHu; reflexivity. Qed.

Lemma bytes_of_uint_nonnil u : u <> Nil -> bytes_of_uint u <> [].
Proof. destruct u; simpl; congruence. Qed.

Lemma skip_space_digit c s : isdigit c = true -> skip_space (c :: s) = c :: s.
Proof.
  intros H. simpl. unfold is_space. unfold isdigit in H.
  apply andb_true_iff in H. destruct H as [H1 H2].
  apply N.leb_le in H1. apply N.leb_le in H2.
  destruct (N.eqb_spec c 32); [lia|].
  destruct (N.leb_spec 9 c); destruct (N.leb_spec c 13); simpl; try reflexivity; lia.
Qed.

Lemma digits_head u c s : bytes_of_uint u = c :: s -> isdigit c = true.
Proof.
  intros H. pose proof (bytes_of_uint_digits u) as Hd. rewrite H in Hd. simpl in Hd.
  apply andb_true_iff in Hd. tauto.
Qed.

Lemma strtonum_uint lo hi u :
  u <> Nil ->
  strtonum lo hi (bytes_of_uint u) =
    (if (Z.of_uint u <? lo)%Z then NumTooSmall
     else if (hi <? Z.of_uint u)%Z then NumTooLarge else NumOk (Z.of_uint u)).
Proof.
  intros Hu. unfold strtonum.
  destruct (bytes_of_uint u) as [|c s] eqn:E; [apply bytes_of_uint_nonnil in Hu; congruence|].
  pose proof (digits_head u c s E) as Hc.
  rewrite skip_space_digit by exact Hc.
  assert (c <> 45 /\ c <> 43) as [H45 H43].
  { unfold isdigit in Hc. apply andb_true_iff in Hc. destruct Hc as [H1 _]. apply N.leb_le in H1. lia. }
  destruct (N.eqb_spec c 45); [contradiction|]. destruct (N.eqb_spec c 43); [contradiction|].
  rewrite <- E, uint_of_bytes_of_uint. reflexivity.
Qed.

Lemma strtonum_neg lo hi u :
  u <> Nil ->
  strtonum lo hi (45 :: bytes_of_uint u) =
    (if (- Z.of_uint u <? lo)%Z then NumTooSmall
     else if (hi <? - Z.of_uint u)%Z then NumTooLarge else NumOk (- Z.of_uint u)%Z).
Proof.
  intros Hu. unfold strtonum.
  change (skip_space (45 :: bytes_of_uint u)) with (45 :: bytes_of_uint u).
  cbn [N.eqb Pos.eqb].
  destruct (bytes_of_uint u) as [|c s] eqn:E; [apply bytes_of_uint_nonnil in Hu; congruence|].
  rewrite <- E, uint_of_bytes_of_uint. reflexivity.
Qed.

Theorem strtonum_render lo hi z :
  (lo <= z <= hi)%Z -> strtonum lo hi (render_Z z) = NumOk z.
Proof.
  intros [Hlo Hhi]. unfold render_Z.
  destruct z as [|p|p]; cbn [Z.to_int bytes_of_int].
  - change (N.to_uint 0) with (D0 Nil).
    rewrite strtonum_uint by discriminate. change (Z.of_uint (D0 Nil)) with 0%Z.
    destruct (Z.ltb_spec 0 lo); [lia|]. destruct (Z.ltb_spec hi 0); [lia|reflexivity].
  - rewrite strtonum_uint by apply DecimalPos.Unsigned.to_uint_nonnil.
    unfold Z.of_uint. rewrite DecimalPos.Unsigned.of_to. cbn [Z.of_N].
    destruct (Z.ltb_spec (Z.pos p) lo); [lia|]. destruct (Z.ltb_spec hi (Z.pos p)); [lia|reflexivity].
  - rewrite strtonum_neg by apply DecimalPos.Unsigned.to_uint_nonnil.
    unfold Z.of_uint. rewrite DecimalPos.Unsigned.of_to. cbn [Z.of_N Z.opp].
    destruct (Z.ltb_spec (Z.neg p) lo); [lia|]. destruct (Z.ltb_spec hi (Z.neg p)); [lia|reflexivity].
Qed.

(* rendered integers consist of digits and possibly a leading minus sign *)
Definition numchar (c : N) : bool := isdigit c || (c =? 45).

Lemma render_Z_chars z : forallb numchar (render_Z z) = true.
Proof.
  assert (H : forall u, forallb numchar (bytes_of_uint u) = true).
  { intros u. pose proof (bytes_of_uint_digits u) as Hd.
    rewrite forallb_forall in *. intros c Hc. unfold numchar. now rewrite (Hd c Hc). }
  unfold render_Z. destruct (Z.to_int z); simpl; auto.
Qed.

Lemma render_Z_nonempty z : render_Z z <> [].
Proof.
  unfold render_Z. destruct z as [|p|p]; cbn [Z.to_int bytes_of_int]; try discriminate.
  apply bytes_of_uint_nonnil, DecimalPos.Unsigned.to_uint_nonnil.
Qed.
