(* Properties_C11.v - every executed step is accounted for; lock, hook and report follow the run.
   Same transition system as C04 (OrchDefs.v) with what step_exec_job writes to the step file and the hook
   calls; [trap_exit] models the exit handler; Orch/RunLock.v is ONE model of lock_acquire / lock_release /
   build_init / the exit trap for the invocation that runs and for every invocation started meanwhile.
   The property-shaped checker OrchSpec.spec_ok_account (the oracle the harness applies to real canvas runs)
   is PROVED to accept what every ended run of the model leaves behind.
   NOT MODELLED (observed end to end by the harness): the content of log files, the mail transport, the
   duration field.  ASSUMED: lock_acquire is atomic.  The shapes of trap_exit, lock_acquire, lock_release in
   util.sh are pinned by harness/t_orch.py (gen/Gen_Orch.v). *)
From Robsd Require Import Orch.OrchSpec Orch.OrchProofs Orch.AccountProofs Orch.ResumeProofs Orch.ResumeSpec Orch.StepBridge.
From Robsd Require Import Orch.OrchSteps Orch.TraceMeaning Orch.TraceOracle Orch.AccountOracle Orch.FreshFile Orch.RunLock Orch.RunLockProofs
  Orch.Statements Orch.ModelShape.
From Robsd Require Import Step.StepSpec Step.StepRows Step.StepWrite Step.StepLex Base.DecimalProofs.
From RobsdGen Require Import Gen_Step Gen_Orch.
Local Open Scope Z_scope.

(* each step that ran and finished has exactly one record, carrying its real
   exit status and not marked skipped, and finished exactly once *)
Theorem C11_one_record_real_exit : forall ncpu exit_of name_of steps f0,
  NoDup (map p_id steps) -> (forall p, In p steps -> p_exit p = exit_of (p_id p)) -> ids_asc f0 ->
  forall s i, oreach ncpu exit_of name_of steps f0 s -> started s i -> ~ In i (map fst (running s)) ->
  lookup (sfile_ s) i = Some (mkrow i (name_of i) (exit_of i) 0) /\
  (forall r, In r (sfile_ s) -> r_id r = i -> r = mkrow i (name_of i) (exit_of i) 0) /\
  count_occ Z.eq_dec (map fst (finishes (evlog s))) i = 1%nat.
Proof. exact one_record_real_exit. Qed.
Print Assumptions C11_one_record_real_exit.

(* when the invocation has ended nothing is running, every record of a started
   step is its completion record, and every other record is the initial one (the
   skip records) or the end record: no record is left in flight *)
Theorem C11_no_inflight_unless_killed : forall ncpu exit_of name_of steps f0,
  NoDup (map p_id steps) -> (forall p, In p steps -> p_exit p = exit_of (p_id p)) -> ids_asc f0 ->
  forall s, oreach ncpu exit_of name_of steps f0 s -> mode s = ODone \/ mode s = OFailed ->
  running s = [] /\
  forall r, In r (sfile_ s) ->
    (started s (r_id r) /\ r = mkrow (r_id r) (name_of (r_id r)) (exit_of (r_id r)) 0) \/
    (~ started s (r_id r) /\ (lookup f0 (r_id r) = Some r \/ (r_name r = END /\ r_exit r = 0 /\ r_skip r = 0))).
Proof. exact nothing_in_flight_at_the_end. Qed.
Print Assumptions C11_no_inflight_unless_killed.

(* the hook ran once per finished step with that step's name and exit status; at
   the end every started step has finished *)
Theorem C11_hook_once_per_step : forall ncpu exit_of name_of steps f0,
  NoDup (map p_id steps) -> (forall p, In p steps -> p_exit p = exit_of (p_id p)) -> ids_asc f0 ->
  forall s, oreach ncpu exit_of name_of steps f0 s ->
  hooks (evlog s) = map (fun x => (name_of (fst x), snd x)) (finishes (evlog s)) /\
  NoDup (map fst (finishes (evlog s))) /\
  (forall i, In i (map fst (finishes (evlog s))) -> started s i) /\
  (mode s = ODone \/ mode s = OFailed -> forall i, started s i -> In (i, exit_of i) (finishes (evlog s))).
Proof. exact hook_once_per_step. Qed.
Print Assumptions C11_hook_once_per_step.

(* skipped steps: in every reachable state of a fresh invocation a step whose name is in the skip set was never
   started, its record is still the skip record canvas wrote (exit 0, skip 1), and no hook was called for it *)
Theorem C11_skipped_steps_never_run_keep_record : forall ncpu exit_of name_of steps skip,
  wf_cfg exit_of name_of steps -> fresh_ok steps skip ->
  forall s p, oreach ncpu exit_of name_of steps (skip_file steps skip) s -> In p steps -> In (p_name p) skip ->
  ~ started s (p_id p) /\ lookup (sfile_ s) (p_id p) = Some (mkrow (p_id p) (p_name p) 0 1) /\
  (forall e, ~ In (p_name p, e) (hooks (evlog s))).
Proof. exact F_skipped_never_run. Qed.
Print Assumptions C11_skipped_steps_never_run_keep_record.

(* the report decision IN TERMS OF THE RECORDS: when the invocation has ended a report exists exactly when the
   build has steps and (some record of a step that is not skipped carries a non-zero status, or an end record
   exists); it is mailed exactly when detached; the end hook runs exactly when end was recorded; the exit status
   is 0 exactly when end was recorded and non-zero exactly when a started synchronous step finished with a
   non-zero status (replaces the definitional C11_report_iff_failed_or_end) *)
Theorem C11_report_iff_failing_record_or_end : forall ncpu exit_of name_of steps skip,
  wf_cfg exit_of name_of steps -> fresh_ok steps skip ->
  forall s d, oreach ncpu exit_of name_of steps (skip_file steps skip) s -> terminal s ->
  e_report (trap_exit (mode s) (sfile_ s) d) = has_steps (sfile_ s) && (failing_record (sfile_ s) || has_end (sfile_ s)) /\
  e_mail (trap_exit (mode s) (sfile_ s) d) = e_report (trap_exit (mode s) (sfile_ s) d) && d /\
  e_endhook (trap_exit (mode s) (sfile_ s) d) = has_end (sfile_ s) /\
  (e_status (trap_exit (mode s) (sfile_ s) d) = 0 <-> has_end (sfile_ s) = true) /\
  (e_status (trap_exit (mode s) (sfile_ s) d) <> 0 <->
     exists i, In (EStart i false) (evlog s) /\ In (EFinish i (exit_of i)) (evlog s) /\ exit_of i <> 0).
Proof. exact F_report_decision. Qed.
Print Assumptions C11_report_iff_failing_record_or_end.

(* what happens when ONLY a parallel step failed and end is reached: exit status 0, a report exists, and the
   failing record is in the step file (robsd does the same: harness lane "parallel-failure-exit") *)
Theorem C11_parallel_failure_alone_exits_zero : forall ncpu exit_of name_of steps skip,
  wf_cfg exit_of name_of steps -> fresh_ok steps skip ->
  forall s d i, oreach ncpu exit_of name_of steps (skip_file steps skip) s ->
  mode s = ODone -> In (EStart i true) (evlog s) -> exit_of i <> 0 ->
  e_status (trap_exit (mode s) (sfile_ s) d) = 0 /\ e_report (trap_exit (mode s) (sfile_ s) d) = true /\
  lookup (sfile_ s) i = Some (mkrow i (name_of i) (exit_of i) 0) /\ failing_record (sfile_ s) = true.
Proof. exact F_parallel_failure_exit_zero. Qed.
Print Assumptions C11_parallel_failure_alone_exits_zero.

(* the accounting oracle (one record per executed step with its real status, its log, one hook call; skip
   records for the skipped, no hook; nothing in flight, no stray record; one hook per executed step plus the end
   hook exactly when end was recorded; report and mail) accepts what EVERY ended fresh run leaves behind.
   The log bits are "fine" by fiat (no log content in the model) and the two lock bits are parameters here;
   C11_invocation_accounted takes them from the lock model *)
Theorem C11_accounting_oracle_accepts_every_ended_run : forall ncpu exit_of name_of steps skip,
  wf_cfg exit_of name_of steps -> fresh_ok steps skip ->
  (forall p, In p steps -> p_exit p <> -1) ->
  forall s d, oreach ncpu exit_of name_of steps (skip_file steps skip) s -> terminal s ->
  spec_ok_account steps skip (executed name_of s) (leftovers_of s d true false) = true.
Proof. exact F_account_oracle. Qed.
Print Assumptions C11_accounting_oracle_accepts_every_ended_run.

(* the whole invocation - build_init, lock_acquire, the run interleaved IN ANY WAY with other invocations being
   started (any names other than its own, prefix-related or not), the exit trap: it gets the lock; the
   orchestrator's state is a reachable state of the plain model (nobody touched it); at every point of the run
   the lock names it; afterwards the lock is gone; every other invocation was refused with status 1; and when
   the run has ended the accounting oracle accepts the leftovers with the lock bits this model computed *)
Theorem C11_invocation_accounted : forall ncpu exit_of name_of steps skip,
  wf_cfg exit_of name_of steps -> fresh_ok steps skip ->
  forall b w l d,
  (forall p, In p steps -> p_exit p <> -1) ->
  b <> [] -> lock_free_for (iw_lock w) b -> (forall b' d', In (WOther b' d') l -> b' <> b) ->
  exists ws w2 st,
    invocation ncpu exit_of name_of ACQ REL b w steps (skip_file steps skip) l d = Some (ws, w2, st) /\
    oreach ncpu exit_of name_of steps (skip_file steps skip) (ws_orch ws) /\
    (forall l1 l2, l = l1 ++ l2 ->
       lock_names b (iw_lock (ws_world (wrun ncpu exit_of name_of ACQ REL b
                                          (mkwstate (begun b w (skip_file steps skip)) (oinit steps (skip_file steps skip)) []) l1))) = true) /\
    lock_present (iw_lock w2) = false /\
    ws_refused ws = map (fun x => (x, Some 1)) (others l) /\
    (terminal (ws_orch ws) ->
       st = e_status (trap_exit (mode (ws_orch ws)) (sfile_ (ws_orch ws)) d) /\
       spec_ok_account steps skip (executed name_of (ws_orch ws))
         (leftovers_of (ws_orch ws) d (lock_names b (iw_lock (ws_world ws))) (lock_present (iw_lock w2))) = true).
Proof. exact F_invocation_accounted. Qed.
Print Assumptions C11_invocation_accounted.

(* with a substring ownership test (grep -F, a seeded change) the refused invocation of a name that is a prefix
   of the owner's removes the owner's lock: why the test is pinned *)
Theorem C11_substring_release_breaks_refusal :
  exists w o b', iw_lock w = Some o /\ o <> [] /\ o <> b' /\
    iw_lock (fst (attempt ACQ RelFixedSubstring w b' false)) = None.
Proof. exact substring_release_breaks_refusal. Qed.
Print Assumptions C11_substring_release_breaks_refusal.

Example C11_example :
  let n := fun c => [c]%N in
  let steps := [mkpstep 1 (n 97%N) false 0; mkpstep 2 (n 112%N) true 3; mkpstep 3 END false 0] in
  let ex := fun i => match i with 2 => 3 | _ => 0 end in
  let nm := fun i => match i with 1 => n 97%N | 2 => n 112%N | _ => END end in
  let sched := [AMain; AJob 1; AJob 1; AMain; AMain; AJob 2; AJob 2; AMain; AMain] in
  let s := orun 2 ex nm (oinit steps []) sched in
  mode s = ODone /\ hooks (evlog s) = [(n 97%N, 0); (n 112%N, 3)] /\
  final_hooks s true = [(n 97%N, 0); (n 112%N, 3); (END, 0)] /\
  sfile_ s = [mkrow 1 (n 97%N) 0 0; mkrow 2 (n 112%N) 3 0; mkrow 3 END 0 0] /\
  e_report (trap_exit (mode s) (sfile_ s) true) = true /\ e_status (trap_exit (mode s) (sfile_ s) true) = 0 /\
  spec_ok_account steps [] (executed nm s) (leftovers_of s true true false) = true.
Proof. vm_compute. repeat split; reflexivity. Qed.

(* ---- the record writes are the step file writes of C01 ------------------------------------------------------ *)

(* the record the orchestrator writes through util.sh step_write / robsd-step -W for a step that has no record
   yet denotes, in the dictionary specification of the step file (C01), exactly one ordered upsert of the row
   (id, name, exit, skip) - which is how the transition system above models a record write *)
Theorem C11_record_write_is_row_insert : forall (s : astate) id name exit duration delta log user time skip,
  alist_find id s = None ->
  (id_min <= id <= id_max) -> id <> 0 ->
  i64 exit -> i64 duration -> i64 delta -> i64 time -> i64 skip ->
  representable (nth 1 fields (mkfdef [] FStr 1%nat false [])) name = true ->
  representable (nth 5 fields (mkfdef [] FStr 5%nat true [])) log = true ->
  representable (nth 6 fields (mkfdef [] FStr 6%nat false [])) user = true ->
  exists r, spec_write s (render_Z id) (step_write_kvs name exit duration delta log user (Some time) skip)
            = Some (alist_put id r s) /\
            map proj_row (alist_put id r s) = upsert (mkrow id name exit skip) (map proj_row s).
Proof. exact step_write_row_upsert. Qed.
Print Assumptions C11_record_write_is_row_insert.

(* the UPDATE case - the completion record of step_exec_job (every key but time passed again): on an existing
   record the write is accepted, replaces the orchestrator's row, and KEEPS the field that is not passed (the
   start time written with the in-flight record) *)
Theorem C11_completion_write_updates_row : forall (s : astate) id r0 tm name exit duration delta log user skip,
  alist_find id s = Some r0 ->
  length r0 = 9%nat -> nth_error r0 0 = Some (Some (VInt id)) -> nth_error r0 7 = Some (Some tm) ->
  (id_min <= id <= id_max) -> id <> 0 -> log <> [] ->
  i64 exit -> i64 duration -> i64 delta -> i64 skip ->
  representable (nth 1 fields (mkfdef [] FStr 1%nat false [])) name = true ->
  representable (nth 5 fields (mkfdef [] FStr 5%nat true [])) log = true ->
  representable (nth 6 fields (mkfdef [] FStr 6%nat false [])) user = true ->
  exists r, spec_write s (render_Z id) (step_write_kvs name exit duration delta log user None skip) = Some (alist_put id r s) /\
            proj_row (id, r) = mkrow id name exit skip /\
            nth_error r 7 = Some (Some tm) /\
            nth_error r 0 = Some (Some (VInt id)) /\ length r = 9%nat /\
            map proj_row (alist_put id r s) = upsert (mkrow id name exit skip) (map proj_row s).
Proof. exact step_write_update_row. Qed.
Print Assumptions C11_completion_write_updates_row.

(* step_exec_job's two writes in sequence on the dictionary are the two upserts of OrchDefs.job_step *)
Theorem C11_step_exec_job_two_writes : forall (s : astate) id name log user time exit duration delta,
  alist_find id s = None ->
  (id_min <= id <= id_max) -> id <> 0 -> log <> [] ->
  i64 exit -> i64 duration -> i64 delta -> i64 time ->
  representable (nth 1 fields (mkfdef [] FStr 1%nat false [])) name = true ->
  representable (nth 5 fields (mkfdef [] FStr 5%nat true [])) log = true ->
  representable (nth 6 fields (mkfdef [] FStr 6%nat false [])) user = true ->
  exists r1 r2,
    spec_write s (render_Z id) (step_write_kvs name (-1) (-1) 0 log user (Some time) 0) = Some (alist_put id r1 s) /\
    spec_write (alist_put id r1 s) (render_Z id) (step_write_kvs name exit duration delta log user None 0)
      = Some (alist_put id r2 (alist_put id r1 s)) /\
    map proj_row (alist_put id r1 s) = upsert (mkrow id name (-1) 0) (map proj_row s) /\
    map proj_row (alist_put id r2 (alist_put id r1 s)) = upsert (mkrow id name exit 0) (upsert (mkrow id name (-1) 0) (map proj_row s)) /\
    nth_error r2 7 = Some (Some (VInt time)).
Proof. exact step_exec_job_two_writes. Qed.
Print Assumptions C11_step_exec_job_two_writes.

(* ---- the tie to util.sh (last, so that a change of util.sh to a known variant leaves everything above standing) ---- *)

(* the loop, step_exec_job, trap_exit, lock_acquire and lock_release as found in util.sh are the modelled ones *)
Theorem C11_exit_trap_and_lock_are_the_modelled_ones :
  robsd_loop = modelled_loop /\ trap_exit_shape = modelled_exit /\ step_exec_job_shape = modelled_job /\
  lock_acquire_test = ACQ /\ lock_release_test = REL.
Proof. exact (conj (eq_refl modelled_loop) (conj (eq_refl modelled_exit) (conj (eq_refl modelled_job) (conj (eq_refl ACQ) (eq_refl REL))))). Qed.
Print Assumptions C11_exit_trap_and_lock_are_the_modelled_ones.

(* an invocation started while another holds the lock - for EVERY pair of build directory names, e.g. DATE.1
   while DATE.10 runs - ends with status 1, leaves the lock naming the owner, leaves every build directory but
   its own as it was, and its own directory is removed when it has no steps (a fresh one) and kept otherwise (an
   older one resumed).  Stated for the tests harness/t_orch.py found in lock_acquire / lock_release
   (replaces the definitional C11_second_invocation_refused_untouched) *)
Theorem C11_second_invocation_refused_untouched : forall w o b' d',
  iw_lock w = Some o -> o <> [] -> o <> b' ->
  exists w', attempt lock_acquire_test lock_release_test w b' d' = (w', Some 1) /\
    iw_lock w' = Some o /\
    (forall x, x <> b' -> dir_find (iw_dirs w') x = dir_find (iw_dirs w) x) /\
    dir_find (iw_dirs w') b' = match dir_find (iw_dirs w) b' with
                               | Some f => if has_steps f then Some f else None
                               | None => None
                               end.
Proof. exact (fun w o b' d' => attempt_refused_untouched_for lock_acquire_test lock_release_test w o b' d' (eq_refl ACQ) (eq_refl REL)). Qed.
Print Assumptions C11_second_invocation_refused_untouched.
