(* Properties_C11.v - every executed step is accounted for; lock, hook and report follow the run.
   Same transition system as C04, extended with what step_exec_job writes to the
   step file and with the hook calls; [trap_exit] models the exit handler.
   PARTIAL: log file contents, the mail transport and the lock file are observed
   end to end by the harness; the lock/second-invocation logic is a small separate
   model of lock_acquire / trap_exit. *)
From Robsd Require Import Orch.OrchSpec Orch.OrchProofs Orch.AccountProofs Orch.ResumeProofs Orch.ResumeSpec Orch.StepBridge.
From Robsd Require Import Step.StepSpec Step.StepRows Step.StepWrite Step.StepLex Base.DecimalProofs.
From RobsdGen Require Import Gen_Step.
Local Open Scope Z_scope.

(* each step that ran and finished has exactly one record, carrying its real
   exit status and not marked skipped, and finished exactly once *)
Theorem C11_one_record_real_exit : forall ncpu exit_of name_of steps f0,
  NoDup (map p_id steps) -> (forall p, In p steps -> p_exit p = exit_of (p_id p)) -> ids_asc f0 ->
  forall s i, oreach ncpu exit_of name_of steps f0 s -> started s i -> ~ In i (map fst (running s)) ->
  lookup (sfile_ s) i = Some (mkrow i (name_of i) (exit_of i) 0) /\
  (forall r, In r (sfile_ s) -> r_id r = i -> r = mkrow i (name_of i) (exit_of i) 0) /\
  count_occ Z.eq_dec (map fst (finishes (evlog s))) i = 1%nat.
Proof. exact one_record_real_exit. Qed.
Print Assumptions C11_one_record_real_exit.

(* when the invocation has ended nothing is running, every record of a started
   step is its completion record, and every other record is the initial one (the
   skip records) or the end record: no record is left in flight *)
Theorem C11_no_inflight_unless_killed : forall ncpu exit_of name_of steps f0,
  NoDup (map p_id steps) -> (forall p, In p steps -> p_exit p = exit_of (p_id p)) -> ids_asc f0 ->
  forall s, oreach ncpu exit_of name_of steps f0 s -> mode s = ODone \/ mode s = OFailed ->
  running s = [] /\
  forall r, In r (sfile_ s) ->
    (started s (r_id r) /\ r = mkrow (r_id r) (name_of (r_id r)) (exit_of (r_id r)) 0) \/
    (~ started s (r_id r) /\ (lookup f0 (r_id r) = Some r \/ (r_name r = END /\ r_exit r = 0 /\ r_skip r = 0))).
Proof. exact nothing_in_flight_at_the_end. Qed.
Print Assumptions C11_no_inflight_unless_killed.

(* the hook ran once per finished step with that step's name and exit status; at
   the end every started step has finished *)
Theorem C11_hook_once_per_step : forall ncpu exit_of name_of steps f0,
  NoDup (map p_id steps) -> (forall p, In p steps -> p_exit p = exit_of (p_id p)) -> ids_asc f0 ->
  forall s, oreach ncpu exit_of name_of steps f0 s ->
  hooks (evlog s) = map (fun x => (name_of (fst x), snd x)) (finishes (evlog s)) /\
  NoDup (map fst (finishes (evlog s))) /\
  (forall i, In i (map fst (finishes (evlog s))) -> started s i) /\
  (mode s = ODone \/ mode s = OFailed -> forall i, started s i -> In (i, exit_of i) (finishes (evlog s))).
Proof. exact hook_once_per_step. Qed.
Print Assumptions C11_hook_once_per_step.

(* skipped steps never run (C04_start_conditions) and keep their skip record: a
   step that was not started keeps its initial record *)

(* a report exists exactly when the build has steps and a step failed (non-zero
   exit of the invocation) or end was reached; it is mailed exactly when detached;
   the end hook runs exactly when end was recorded *)
Theorem C11_report_iff_failed_or_end : forall m f d,
  e_report (trap_exit m f d) = has_steps f && (negb (match m with ODone => true | _ => false end) || has_end f) /\
  e_mail (trap_exit m f d) = e_report (trap_exit m f d) && d /\
  (e_status (trap_exit m f d) = 0 <-> m = ODone).
Proof. exact report_decision. Qed.
Print Assumptions C11_report_iff_failed_or_end.

(* a second invocation started while another holds the lock is refused with a
   non-zero status and leaves the lock and every build directory as they were *)
Theorem C11_second_invocation_refused_untouched : forall w owner b,
  w_lock w = Some owner -> owner <> [] -> owner <> b ->
  second_invocation w b = (w, 1, false).
Proof. exact second_invocation_refused. Qed.
Print Assumptions C11_second_invocation_refused_untouched.

Example C11_example :
  let n := fun c => [c]%N in
  let steps := [mkpstep 1 (n 97%N) false 0; mkpstep 2 (n 112%N) true 3; mkpstep 3 END false 0] in
  let ex := fun i => match i with 2 => 3 | _ => 0 end in
  let nm := fun i => match i with 1 => n 97%N | 2 => n 112%N | _ => END end in
  let sched := [AMain; AJob 1; AJob 1; AMain; AMain; AJob 2; AJob 2; AMain; AMain] in
  let s := orun 2 ex nm (oinit steps []) sched in
  mode s = ODone /\ hooks (evlog s) = [(n 97%N, 0); (n 112%N, 3)] /\
  sfile_ s = [mkrow 1 (n 97%N) 0 0; mkrow 2 (n 112%N) 3 0; mkrow 3 END 0 0] /\
  e_report (trap_exit (mode s) (sfile_ s) true) = true.
Proof. vm_compute. repeat split; reflexivity. Qed.

(* the record the orchestrator writes through util.sh step_write / robsd-step -W denotes, in the
   dictionary specification of the step file (C01), exactly one ordered upsert of the row
   (id, name, exit, skip) - which is how the transition system above models a record write *)
Theorem C11_record_write_is_row_upsert : forall (s : astate) id name exit duration delta log user time skip,
  alist_find id s = None ->
  (id_min <= id <= id_max) -> id <> 0 ->
  i64 exit -> i64 duration -> i64 delta -> i64 time -> i64 skip ->
  representable (nth 1 fields (mkfdef [] FStr 1%nat false [])) name = true ->
  representable (nth 5 fields (mkfdef [] FStr 5%nat true [])) log = true ->
  representable (nth 6 fields (mkfdef [] FStr 6%nat false [])) user = true ->
  exists r, spec_write s (render_Z id) (step_write_kvs name exit duration delta log user (Some time) skip)
            = Some (alist_put id r s) /\
            map proj_row (alist_put id r s) = upsert (mkrow id name exit skip) (map proj_row s).
Proof. exact step_write_row_upsert. Qed.
Print Assumptions C11_record_write_is_row_upsert.
