(* Properties_C11.v - every executed step is accounted for; lock, hook and report follow the run.
   Same transition system as C04 (OrchDefs.v) with what step_exec_job writes to the step file and the hook
   calls; [trap_exit] models the exit handler; Orch/RunLock.v is ONE model of lock_acquire / lock_release /
   build_init / the exit trap for the invocation that runs and for every invocation started meanwhile.
   The property-shaped checker OrchSpec.spec_ok_account (the oracle the harness applies to real canvas runs)
   is PROVED to accept what every ended run of the model leaves behind.
   NOT MODELLED (observed end to end by the harness): the content of log files, the mail transport.
   ASSUMED: lock_acquire is atomic; the clock read by date(1) does not step back (duration clause, with a witness
   for a clock that does).  The tie to util.sh: harness/t_orch.py writes the statement groups of robsd()'s loop,
   step_exec_job() and trap_exit() down in source order (gen/Gen_Orch.v); the LAST theorems of this file prove
   that their interpretation (Orch/ShapeSem.v) is main_step / job_step / trap_exit / invoke_end.
   Statements whose full reading the code REFUTES carry `_refuted` (witness, replayed on the real canvas by a
   harness lane with its own signature) and `_partial` (the guard): the second invocation naming the RUNNING
   directory, a refused resume mailing again, end in the skip set, the in-flight record of a parallel step below
   the resume point, the duration under a clock that steps back. *)
From Robsd Require Import Orch.OrchSpec Orch.OrchProofs Orch.AccountProofs Orch.ResumeProofs Orch.ResumeSpec Orch.StepBridge.
From Robsd Require Import Orch.OrchSteps Orch.TraceMeaning Orch.TraceOracle Orch.AccountOracle Orch.FreshFile Orch.RunLock Orch.RunLockProofs
  Orch.Statements Orch.ModelShape.
From Robsd Require Import Orch.ShapeSem Orch.OrchTie Orch.LoopEnd Orch.LoopEndProofs Orch.SameDir.
From Robsd Require Import Step.StepSpec Step.StepRows Step.StepWrite Step.StepLex Base.DecimalProofs.
From RobsdGen Require Import Gen_Step Gen_Orch.
Local Open Scope Z_scope.

(* each step that ran and finished has exactly one record, carrying its real
   exit status and not marked skipped, and finished exactly once *)
Theorem C11_one_record_real_exit : forall ncpu exit_of name_of steps f0,
  NoDup (map p_id steps) -> (forall p, In p steps -> p_exit p = exit_of (p_id p)) -> ids_asc f0 ->
  forall s i, oreach ncpu exit_of name_of steps f0 s -> started s i -> ~ In i (map fst (running s)) ->
  lookup (sfile_ s) i = Some (mkrow i (name_of i) (exit_of i) 0) /\
  (forall r, In r (sfile_ s) -> r_id r = i -> r = mkrow i (name_of i) (exit_of i) 0) /\
  count_occ Z.eq_dec (map fst (finishes (evlog s))) i = 1%nat.
Proof. exact one_record_real_exit. Qed.
Print Assumptions C11_one_record_real_exit.

(* when the invocation has ended nothing is running, every record of a started
   step is its completion record, and every other record is the initial one (the
   skip records) or the end record: no record is left in flight *)
Theorem C11_no_inflight_unless_killed : forall ncpu exit_of name_of steps f0,
  NoDup (map p_id steps) -> (forall p, In p steps -> p_exit p = exit_of (p_id p)) -> ids_asc f0 ->
  forall s, oreach ncpu exit_of name_of steps f0 s -> mode s = ODone \/ mode s = OFailed ->
  running s = [] /\
  forall r, In r (sfile_ s) ->
    (started s (r_id r) /\ r = mkrow (r_id r) (name_of (r_id r)) (exit_of (r_id r)) 0) \/
    (~ started s (r_id r) /\ (lookup f0 (r_id r) = Some r \/ (r_name r = END /\ r_exit r = 0 /\ r_skip r = 0))).
Proof. exact nothing_in_flight_at_the_end. Qed.
Print Assumptions C11_no_inflight_unless_killed.

(* the hook ran once per finished step with that step's name and exit status; at
   the end every started step has finished *)
Theorem C11_hook_once_per_step : forall ncpu exit_of name_of steps f0,
  NoDup (map p_id steps) -> (forall p, In p steps -> p_exit p = exit_of (p_id p)) -> ids_asc f0 ->
  forall s, oreach ncpu exit_of name_of steps f0 s ->
  hooks (evlog s) = map (fun x => (name_of (fst x), snd x)) (finishes (evlog s)) /\
  NoDup (map fst (finishes (evlog s))) /\
  (forall i, In i (map fst (finishes (evlog s))) -> started s i) /\
  (mode s = ODone \/ mode s = OFailed -> forall i, started s i -> In (i, exit_of i) (finishes (evlog s))).
Proof. exact hook_once_per_step. Qed.
Print Assumptions C11_hook_once_per_step.

(* skipped steps: in every reachable state of a fresh invocation a step whose name is in the skip set was never
   started, its record is still the skip record canvas wrote (exit 0, skip 1), and no hook was called for it *)
Theorem C11_skipped_steps_never_run_keep_record : forall ncpu exit_of name_of steps skip,
  wf_cfg exit_of name_of steps -> fresh_ok steps skip ->
  forall s p, oreach ncpu exit_of name_of steps (skip_file steps skip) s -> In p steps -> In (p_name p) skip ->
  ~ started s (p_id p) /\ lookup (sfile_ s) (p_id p) = Some (mkrow (p_id p) (p_name p) 0 1) /\
  (forall e, ~ In (p_name p, e) (hooks (evlog s))).
Proof. exact F_skipped_never_run. Qed.
Print Assumptions C11_skipped_steps_never_run_keep_record.

(* the report decision IN TERMS OF THE RECORDS: when the invocation has ended a report exists exactly when the
   build has steps and (some record of a step that is not skipped carries a non-zero status, or an end record
   exists); it is mailed exactly when detached; the end hook runs exactly when end was recorded; the exit status
   is 0 exactly when end was recorded and non-zero exactly when a started synchronous step finished with a
   non-zero status (replaces the definitional C11_report_iff_failed_or_end) *)
Theorem C11_report_iff_failing_record_or_end : forall ncpu exit_of name_of steps skip,
  wf_cfg exit_of name_of steps -> fresh_ok steps skip ->
  forall s d, oreach ncpu exit_of name_of steps (skip_file steps skip) s -> terminal s ->
  e_report (trap_exit (mode s) (sfile_ s) d) = has_steps (sfile_ s) && (failing_record (sfile_ s) || has_end (sfile_ s)) /\
  e_mail (trap_exit (mode s) (sfile_ s) d) = e_report (trap_exit (mode s) (sfile_ s) d) && d /\
  e_endhook (trap_exit (mode s) (sfile_ s) d) = has_end (sfile_ s) /\
  (e_status (trap_exit (mode s) (sfile_ s) d) = 0 <-> has_end (sfile_ s) = true) /\
  (e_status (trap_exit (mode s) (sfile_ s) d) <> 0 <->
     exists i, In (EStart i false) (evlog s) /\ In (EFinish i (exit_of i)) (evlog s) /\ exit_of i <> 0).
Proof. exact F_report_decision. Qed.
Print Assumptions C11_report_iff_failing_record_or_end.

(* what happens when ONLY a parallel step failed and end is reached: exit status 0, a report exists, and the
   failing record is in the step file (robsd does the same: harness lane "parallel-failure-exit") *)
Theorem C11_parallel_failure_alone_exits_zero : forall ncpu exit_of name_of steps skip,
  wf_cfg exit_of name_of steps -> fresh_ok steps skip ->
  forall s d i, oreach ncpu exit_of name_of steps (skip_file steps skip) s ->
  mode s = ODone -> In (EStart i true) (evlog s) -> exit_of i <> 0 ->
  e_status (trap_exit (mode s) (sfile_ s) d) = 0 /\ e_report (trap_exit (mode s) (sfile_ s) d) = true /\
  lookup (sfile_ s) i = Some (mkrow i (name_of i) (exit_of i) 0) /\ failing_record (sfile_ s) = true.
Proof. exact F_parallel_failure_exit_zero. Qed.
Print Assumptions C11_parallel_failure_alone_exits_zero.

(* the accounting oracle (one record per executed step with its real status, its log, one hook call; skip
   records for the skipped, no hook; nothing in flight, no stray record; one hook per executed step plus the end
   hook exactly when end was recorded; report and mail) accepts what EVERY ended fresh run leaves behind.
   The log bits are "fine" by fiat (no log content in the model) and the two lock bits are parameters here;
   C11_invocation_accounted takes them from the lock model *)
Theorem C11_accounting_oracle_accepts_every_ended_run : forall ncpu exit_of name_of steps skip,
  wf_cfg exit_of name_of steps -> fresh_ok steps skip ->
  (forall p, In p steps -> p_exit p <> -1) ->
  forall s d, oreach ncpu exit_of name_of steps (skip_file steps skip) s -> terminal s ->
  spec_ok_account steps skip (executed name_of s) (leftovers_of s d true false) = true.
Proof. exact F_account_oracle. Qed.
Print Assumptions C11_accounting_oracle_accepts_every_ended_run.

(* the whole invocation - build_init, lock_acquire, the run interleaved IN ANY WAY with other invocations being
   started (any names other than its own, prefix-related or not), the exit trap: it gets the lock; the
   orchestrator's state is a reachable state of the plain model (nobody touched it); at every point of the run
   the lock names it; afterwards the lock is gone; every other invocation was refused with status 1; and when
   the run has ended the accounting oracle accepts the leftovers with the lock bits this model computed *)
Theorem C11_invocation_accounted : forall ncpu exit_of name_of steps skip,
  wf_cfg exit_of name_of steps -> fresh_ok steps skip ->
  forall b w l d,
  (forall p, In p steps -> p_exit p <> -1) ->
  b <> [] -> lock_free_for (iw_lock w) b -> (forall b' d', In (WOther b' d') l -> b' <> b) ->
  exists ws w2 st,
    invocation ncpu exit_of name_of ACQ REL b w steps (skip_file steps skip) l d = Some (ws, w2, st) /\
    oreach ncpu exit_of name_of steps (skip_file steps skip) (ws_orch ws) /\
    (forall l1 l2, l = l1 ++ l2 ->
       lock_names b (iw_lock (ws_world (wrun ncpu exit_of name_of ACQ REL b
                                          (mkwstate (begun b w (skip_file steps skip)) (oinit steps (skip_file steps skip)) []) l1))) = true) /\
    lock_present (iw_lock w2) = false /\
    ws_refused ws = map (fun x => (x, Some 1)) (others l) /\
    (terminal (ws_orch ws) ->
       st = e_status (trap_exit (mode (ws_orch ws)) (sfile_ (ws_orch ws)) d) /\
       spec_ok_account steps skip (executed name_of (ws_orch ws))
         (leftovers_of (ws_orch ws) d (lock_names b (iw_lock (ws_world ws))) (lock_present (iw_lock w2))) = true).
Proof. exact F_invocation_accounted. Qed.
Print Assumptions C11_invocation_accounted.

(* with a substring ownership test (grep -F, a seeded change) the refused invocation of a name that is a prefix
   of the owner's removes the owner's lock: why the test is pinned *)
Theorem C11_substring_release_breaks_refusal :
  exists w o b', iw_lock w = Some o /\ o <> [] /\ o <> b' /\
    iw_lock (fst (attempt ACQ RelFixedSubstring w b' false)) = None.
Proof. exact substring_release_breaks_refusal. Qed.
Print Assumptions C11_substring_release_breaks_refusal.

Example C11_example :
  let n := fun c => [c]%N in
  let steps := [mkpstep 1 (n 97%N) false 0; mkpstep 2 (n 112%N) true 3; mkpstep 3 END false 0] in
  let ex := fun i => match i with 2 => 3 | _ => 0 end in
  let nm := fun i => match i with 1 => n 97%N | 2 => n 112%N | _ => END end in
  let sched := [AMain; AJob 1; AJob 1; AMain; AMain; AJob 2; AJob 2; AMain; AMain] in
  let s := orun 2 ex nm (oinit steps []) sched in
  mode s = ODone /\ hooks (evlog s) = [(n 97%N, 0); (n 112%N, 3)] /\
  final_hooks s true = [(n 97%N, 0); (n 112%N, 3); (END, 0)] /\
  sfile_ s = [mkrow 1 (n 97%N) 0 0; mkrow 2 (n 112%N) 3 0; mkrow 3 END 0 0] /\
  e_report (trap_exit (mode s) (sfile_ s) true) = true /\ e_status (trap_exit (mode s) (sfile_ s) true) = 0 /\
  spec_ok_account steps [] (executed nm s) (leftovers_of s true true false) = true.
Proof. vm_compute. repeat split; reflexivity. Qed.

(* ---- statements the code refutes outside a guard ------------------------------------------------------------- *)

(* "no record is left in the in-flight state unless the invocation was killed", for RESUMED invocations.
   C11_no_inflight_unless_killed above lets a record of the initial file through unchanged (its last disjunct).
   REFUTED: a parallel step 1 in flight and the parallel step 2 completed when the invocation was killed; the resumed
   invocation starts at 3 (step_next), runs c and end, ends with status 0 - and record 1 still says -1.
   Replayed on the real canvas (harness lane parallel-resume; C03_parallel_resume_skips_inflight is the C03 side) *)
Theorem C11_no_inflight_after_resume_refuted :
  let f := [mkrow 1 se_A (-1) 0; mkrow 2 se_P 0 0] in
  let s := orun 2 (fun _ => 0) pr_nm (oinit (psteps_from 3 pr_steps) f) [AMain; AJob 3; AJob 3; AMain; AMain] in
  ResumeDefs.step_next f = Some 3 /\ mode s = ODone /\ running s = [] /\ e_status (trap_exit_of s false) = 0 /\
  In (mkrow 1 se_A (-1) 0) (sfile_ s).
Proof. exact inflight_parallel_record_left_after_resume. Qed.
Print Assumptions C11_no_inflight_after_resume_refuted.

(* the guard: every in-flight record of the initial file belongs to a step this invocation starts (a fresh invocation;
   a sequential one resumed at its in-flight step): then NO record at all is in flight once it has ended *)
Theorem C11_no_inflight_unless_killed_partial : forall ncpu exit_of name_of steps f0,
  NoDup (map p_id steps) -> (forall p, In p steps -> p_exit p = exit_of (p_id p)) -> ids_asc f0 ->
  (forall i, exit_of i <> -1) ->
  forall s, oreach ncpu exit_of name_of steps f0 s -> mode s = ODone \/ mode s = OFailed ->
  (forall r, In r f0 -> r_exit r = -1 -> started s (r_id r)) ->
  forall r, In r (sfile_ s) -> r_exit r <> -1.
Proof. exact no_inflight_when_resumed_at_the_inflight_step. Qed.
Print Assumptions C11_no_inflight_unless_killed_partial.

(* every way a fresh invocation can end is a [terminal] state - when end is configured and NOT skipped: the
   accounting theorems above then cover every end of the invocation *)
Theorem C11_every_end_is_terminal_partial : forall ncpu exit_of name_of steps skip,
  wf_cfg exit_of name_of steps -> fresh_ok steps skip -> (exists p, In p steps /\ p_name p = END) ->
  forall s, oreach ncpu exit_of name_of steps (skip_file steps skip) s -> fell_off s = false.
Proof. exact fell_off_unreachable_fresh. Qed.
Print Assumptions C11_every_end_is_terminal_partial.

(* skip { "end" } (a skip set of the configuration: inside the quantifier).  "skipped steps have a skip record ... the
   hook ran once per executed step (and once for end)": REFUTED on a FAILED build - a fails with 2, end is skipped:
   the exit trap still runs the end hook (step-name=end step-exit=0) because it looks the end record up by name,
   whatever its skip flag; the accounting oracle rejects what is left.  The configuration is well formed in every
   other respect (first conjunct).  fresh_ok - end not in the skip set - is the guard of the theorems above *)
Theorem C11_skipped_end_gets_the_end_hook_refuted :
  (wf_cfg se_ex1 se_nm1 se_steps1 /\ end_last se_steps1 /\ ids_ascending se_steps1 /\
   (forall n, In n [END] -> exists p, In p se_steps1 /\ p_name p = n)) /\
  let s := orun 1 se_ex1 se_nm1 (oinit se_steps1 (skip_file se_steps1 [END])) [AMain; AJob 1; AJob 1; AMain] in
  mode s = OFailed /\ sfile_ s = [mkrow 1 se_A 2 0; mkrow 2 END 0 1] /\
  e_status (trap_exit_of s false) = 1 /\ e_endhook (trap_exit_of s false) = true /\
  final_hooks s false = [(se_A, 2); (END, 0)] /\
  spec_ok_account se_steps1 [END] (executed se_nm1 s) (leftovers_of s false true false) = false.
Proof. exact (conj se_wf1 skip_end_hook_on_failed_build). Qed.
Print Assumptions C11_skipped_end_gets_the_end_hook_refuted.

(* ... and with a parallel last step the loop runs out of schedule lines without the barrier: report, end hook and
   lock release happen while step 2 is in flight (record -1); its failure is recorded after the report was made *)
Theorem C11_exit_trap_while_parallel_step_runs_refuted :
  let s := orun 2 se_ex2 se_nm2 (oinit se_steps2 (skip_file se_steps2 [END]))
             [AMain; AJob 1; AJob 1; AMain; AMain; AJob 2; AMain] in
  fell_off s = true /\ running s = [(2, JRunning)] /\
  sfile_ s = [mkrow 1 se_A 0 0; mkrow 2 se_P (-1) 0; mkrow 3 END 0 1] /\
  e_status (trap_exit_of s false) = 0 /\ e_report (trap_exit_of s false) = true /\ e_endhook (trap_exit_of s false) = true /\
  failing_record (sfile_ (orun 2 se_ex2 se_nm2 s [AJob 2])) = true.
Proof. exact skip_end_exit_trap_while_parallel_step_runs. Qed.
Print Assumptions C11_exit_trap_while_parallel_step_runs_refuted.

(* "a second invocation started meanwhile is refused without touching the first" - for EVERY directory the second
   invocation names.  REFUTED for the directory of the running invocation itself (canvas -r <it>): lock_acquire
   passes because the owner equals the build directory; world unchanged, NOT refused.  (Stated for the tests ACQ / REL;
   that these are the tests of util.sh is the tie theorem at the end of the file) *)
Theorem C11_second_invocation_refused_for_every_directory_refuted :
  (exists w o b' d', iw_lock w = Some o /\ o <> [] /\ snd (attempt ACQ REL w b' d') = None) /\
  (forall w b d f, iw_lock w = Some b -> dir_find (iw_dirs w) b = Some f ->
     attempt ACQ REL w b d = (w, None)).
Proof. exact (conj second_invocation_refused_for_every_directory_refuted attempt_same_dir_not_refused). Qed.
Print Assumptions C11_second_invocation_refused_for_every_directory_refuted.

(* what follows, on the combined model: the running invocation holds the lock with step 1 in flight; `canvas -r` of
   its directory is not refused; step_next of the file it finds is the in-flight step (it runs a second time,
   concurrently: replayed on the real canvas, harness lane same-directory); and whichever of the two ends first
   releases the lock under the other *)
Theorem C11_same_directory_resume_witness :
  (let b := [100]%N in
   let steps := [mkpstep 1 [97]%N false 0; mkpstep 2 END false 0] in
   let nm := fun i : Z => if i =? 1 then [97]%N else END in
   let w0 := mkiworld None [] [] 0 in
   let ws := wrun 1 (fun _ => 0) nm ACQ REL b
               (mkwstate (begun b w0 []) (oinit steps []) []) [WOrch AMain; WOrch (AJob 1); WOther b false] in
   iw_lock (ws_world ws) = Some b /\ running (ws_orch ws) = [(1, JRunning)] /\
   ws_refused ws = [(b, None)] /\
   (exists f, dir_find (iw_dirs (ws_world ws)) b = Some f /\ ResumeDefs.step_next f = Some 1) /\
   iw_lock (fst (invoke_end REL (ws_world ws) b OFailed false)) = None) /\
  (forall f i n, ResumeDefs.step_next (f ++ [mkrow i n (-1) 0]) = Some i) /\
  (forall w b m d, iw_lock w = Some b -> iw_lock (fst (invoke_end REL w b m d)) = None).
Proof. exact (conj same_dir_resume_witness (conj step_next_of_inflight_tail same_dir_exit_releases_the_lock)). Qed.
Print Assumptions C11_same_directory_resume_witness.

(* "a report ... (mailed once when running in the background)", "the hook ran ... once for end" - per build directory.
   A REFUSED `canvas -r OLD` (refused correctly: lock and every other directory untouched, status 1) still runs its
   exit trap with a non-zero status on OLD: OLD's report is written again, mailed again when in the background, and
   OLD's end hook runs again when OLD has an end record.  REFUTED by the second conjunct: one mail before, two after.
   Replayed on the real canvas (harness lane refused-resume) *)
Theorem C11_refused_resume_reports_again :
  (forall w o b' d' f,
     iw_lock w = Some o -> o <> [] -> o <> b' -> dir_find (iw_dirs w) b' = Some f -> has_steps f = true ->
     let w' := fst (attempt ACQ REL w b' d') in
     snd (attempt ACQ REL w b' d') = Some 1 /\
     iw_reports w' = b' :: iw_reports w /\
     iw_mails w' = (if d' then S (iw_mails w) else iw_mails w) /\
     e_endhook (trap_exit OFailed f d') = has_end f) /\
  (exists w o b' f, iw_lock w = Some o /\ o <> [] /\ o <> b' /\ dir_find (iw_dirs w) b' = Some f /\ has_end f = true /\
     iw_mails w = 1%nat /\ iw_mails (fst (attempt ACQ REL w b' true)) = 2%nat /\
     e_endhook (trap_exit OFailed f true) = true).
Proof. exact (conj refused_resume_side_effects refused_resume_mails_again). Qed.
Print Assumptions C11_refused_resume_reports_again.

(* "a non-negative duration": step_exec_job reads the clock (date +%s) before the in-flight record and after the step,
   and records the difference.  For the statement list found in util.sh: under a clock that never steps back the
   recorded duration is >= 0, whatever the pace of the statements *)
Theorem C11_duration_nonneg_partial : forall clock at_ d,
  monotone clock -> increasing at_ -> duration_of_shape step_exec_job_body clock at_ = Some d -> 0 <= d.
Proof. exact (fun clock at_ d => duration_nonneg step_exec_job_body clock at_ d (eq_refl modelled_job)). Qed.
Print Assumptions C11_duration_nonneg_partial.

(* REFUTED without the hypothesis: date +%s is wall-clock time; set back by 600 s while the step runs, the record
   carries -600 (replayed with a stepping date stand-in, harness lane duration) *)
Theorem C11_duration_nonneg_refuted :
  exists clock at_ d, increasing at_ /\ ~ monotone clock /\
    duration_of_shape step_exec_job_body clock at_ = Some d /\ d < 0.
Proof. exact duration_negative_when_clock_steps_back. Qed.
Print Assumptions C11_duration_nonneg_refuted.

(* ---- the record writes are the step file writes of C01 ------------------------------------------------------ *)

(* the record the orchestrator writes through util.sh step_write / robsd-step -W for a step that has no record
   yet denotes, in the dictionary specification of the step file (C01), exactly one ordered upsert of the row
   (id, name, exit, skip) - which is how the transition system above models a record write *)
Theorem C11_record_write_is_row_insert : forall (s : astate) id name exit duration delta log user time skip,
  alist_find id s = None ->
  (id_min <= id <= id_max) -> id <> 0 ->
  i64 exit -> i64 duration -> i64 delta -> i64 time -> i64 skip ->
  representable (nth 1 fields (mkfdef [] FStr 1%nat false [])) name = true ->
  representable (nth 5 fields (mkfdef [] FStr 5%nat true [])) log = true ->
  representable (nth 6 fields (mkfdef [] FStr 6%nat false [])) user = true ->
  exists r, spec_write s (render_Z id) (step_write_kvs name exit duration delta log user (Some time) skip)
            = Some (alist_put id r s) /\
            map proj_row (alist_put id r s) = upsert (mkrow id name exit skip) (map proj_row s).
Proof. exact step_write_row_upsert. Qed.
Print Assumptions C11_record_write_is_row_insert.

(* the UPDATE case - the completion record of step_exec_job (every key but time passed again): on an existing
   record the write is accepted, replaces the orchestrator's row, and KEEPS the field that is not passed (the
   start time written with the in-flight record) *)
Theorem C11_completion_write_updates_row : forall (s : astate) id r0 tm name exit duration delta log user skip,
  alist_find id s = Some r0 ->
  length r0 = 9%nat -> nth_error r0 0 = Some (Some (VInt id)) -> nth_error r0 7 = Some (Some tm) ->
  (id_min <= id <= id_max) -> id <> 0 -> log <> [] ->
  i64 exit -> i64 duration -> i64 delta -> i64 skip ->
  representable (nth 1 fields (mkfdef [] FStr 1%nat false [])) name = true ->
  representable (nth 5 fields (mkfdef [] FStr 5%nat true [])) log = true ->
  representable (nth 6 fields (mkfdef [] FStr 6%nat false [])) user = true ->
  exists r, spec_write s (render_Z id) (step_write_kvs name exit duration delta log user None skip) = Some (alist_put id r s) /\
            proj_row (id, r) = mkrow id name exit skip /\
            nth_error r 7 = Some (Some tm) /\
            nth_error r 0 = Some (Some (VInt id)) /\ length r = 9%nat /\
            map proj_row (alist_put id r s) = upsert (mkrow id name exit skip) (map proj_row s).
Proof. exact step_write_update_row. Qed.
Print Assumptions C11_completion_write_updates_row.

(* step_exec_job's two writes in sequence on the dictionary are the two upserts of OrchDefs.job_step *)
Theorem C11_step_exec_job_two_writes : forall (s : astate) id name log user time exit duration delta,
  alist_find id s = None ->
  (id_min <= id <= id_max) -> id <> 0 -> log <> [] ->
  i64 exit -> i64 duration -> i64 delta -> i64 time ->
  representable (nth 1 fields (mkfdef [] FStr 1%nat false [])) name = true ->
  representable (nth 5 fields (mkfdef [] FStr 5%nat true [])) log = true ->
  representable (nth 6 fields (mkfdef [] FStr 6%nat false [])) user = true ->
  exists r1 r2,
    spec_write s (render_Z id) (step_write_kvs name (-1) (-1) 0 log user (Some time) 0) = Some (alist_put id r1 s) /\
    spec_write (alist_put id r1 s) (render_Z id) (step_write_kvs name exit duration delta log user None 0)
      = Some (alist_put id r2 (alist_put id r1 s)) /\
    map proj_row (alist_put id r1 s) = upsert (mkrow id name (-1) 0) (map proj_row s) /\
    map proj_row (alist_put id r2 (alist_put id r1 s)) = upsert (mkrow id name exit 0) (upsert (mkrow id name (-1) 0) (map proj_row s)) /\
    nth_error r2 7 = Some (Some (VInt time)).
Proof. exact step_exec_job_two_writes. Qed.
Print Assumptions C11_step_exec_job_two_writes.

(* ---- the tie to util.sh (last, so that a change of util.sh to a known variant leaves everything above standing) ---- *)

(* the statement lists of robsd()'s loop, step_exec_job and trap_exit as harness/t_orch.py found them in util.sh,
   INTERPRETED (Orch/ShapeSem.v), are the transition system, trap_exit and the exit trap of the invocation model, in
   every state; lock_acquire and lock_release use the tests the lock theorems are proved for *)
Theorem C11_exit_trap_and_lock_are_the_modelled_ones :
  (forall ncpu exit_of name_of sched s,
     run_of_shape ncpu exit_of name_of robsd_body step_exec_job_body s sched = orun ncpu exit_of name_of s sched) /\
  (forall m f d, exit_of_shape trap_exit_body m f d = trap_exit m f d) /\
  (forall t w b m d, invoke_end_of_shape trap_exit_body t w b m d = invoke_end t w b m d) /\
  lock_acquire_test = ACQ /\ lock_release_test = REL.
Proof.
  exact (conj (fun ncpu exit_of name_of sched s => run_tie ncpu exit_of name_of robsd_body step_exec_job_body sched (eq_refl modelled_body) (eq_refl modelled_job) s)
        (conj (fun m f d => exit_tie trap_exit_body m f d (eq_refl modelled_exit))
        (conj (fun t w b m d => invoke_end_tie trap_exit_body t w b m d (eq_refl modelled_exit))
        (conj (eq_refl ACQ) (eq_refl REL))))).
Qed.
Print Assumptions C11_exit_trap_and_lock_are_the_modelled_ones.

(* an invocation started while another holds the lock - for EVERY pair of build directory names, e.g. DATE.1
   while DATE.10 runs - ends with status 1, leaves the lock naming the owner, leaves every build directory but
   its own as it was, and its own directory is removed when it has no steps (a fresh one) and kept otherwise (an
   older one resumed).  Stated for the tests harness/t_orch.py found in lock_acquire / lock_release
   GUARD o <> b': the second invocation names another directory than the running one's
   (C11_second_invocation_refused_for_every_directory_refuted is the case outside) *)
Theorem C11_second_invocation_refused_untouched_partial : forall w o b' d',
  iw_lock w = Some o -> o <> [] -> o <> b' ->
  exists w', attempt lock_acquire_test lock_release_test w b' d' = (w', Some 1) /\
    iw_lock w' = Some o /\
    (forall x, x <> b' -> dir_find (iw_dirs w') x = dir_find (iw_dirs w) x) /\
    dir_find (iw_dirs w') b' = match dir_find (iw_dirs w) b' with
                               | Some f => if has_steps f then Some f else None
                               | None => None
                               end.
Proof. exact (fun w o b' d' => attempt_refused_untouched_for lock_acquire_test lock_release_test w o b' d' (eq_refl ACQ) (eq_refl REL)). Qed.
Print Assumptions C11_second_invocation_refused_untouched_partial.
