(* HtmlRowDefs.v - the cell clause of the oracle row by row: executable definitions
   (extracted; the proofs about them are in HtmlRowOracle.v).

   [row_onceb v S] and [row_notiesb v S] together are the per-row guard
   HtmlRow.row_guard v S as booleans (invocations told apart by their arch/date
   directory); [cells_soundb] is what HtmlRow.cells_sound proves of every row
   without any guard; [rows_report] judges every row of an observation. *)
From Robsd Require Export Html.HtmlSpec.
Local Open Scope N_scope.

(* ---- the guard, as booleans ---- *)

Definition suite_is (S : bytes) (sr : srun) : bool := beq (sr_suite sr) S.

Definition onceb (S : bytes) (I : sinv) : bool :=
  Nat.leb (List.length (filter (suite_is S) (si_runs I))) 1.

Definition ranb (S : bytes) (I : sinv) : bool := existsb (suite_is S) (si_runs I).

Definition row_onceb (v : list sinv) (S : bytes) : bool := forallb (onceb S) v.

(* invocations are told apart by their arch/date directory *)
Definition row_notiesb (v : list sinv) (S : bytes) : bool :=
  forallb (fun I => negb (ranb S I) ||
                    forallb (fun J => negb (si_time I =? si_time J)%Z || beq (sinv_dir I) (sinv_dir J)) v) v.

Definition row_guardb (v : list sinv) (S : bytes) : bool := row_onceb v S && row_notiesb v S.

(* ---- what holds for every row, as a boolean on the observed row ---- *)

Definition cell_sound (v : list sinv) (S : bytes) (J : sinv) (oc : option ocell) : bool :=
  match oc with
  | None => true
  | Some c =>
      existsb (fun I => (si_time J <=? si_time I)%Z &&
                        existsb (fun sr => suite_is S sr &&
                                           ocell_ok (Some (srun_status sr, pjoin (sinv_dir I) (sr_log sr))) (Some c))
                                (si_runs I)) v
  end.

Fixpoint cells_soundb (v : list sinv) (S : bytes) (cols : list sinv) (cells : list (option ocell)) : bool :=
  match cells, cols with
  | [], _ => true
  | c :: cells', J :: cols' => cell_sound v S J c && cells_soundb v S cols' cells'
  | _ :: _, [] => false
  end.

(* ---- the report ---- *)

Record rowrep := mkrr {
  rr_suite : bytes;
  rr_cells_ok : bool;
  rr_sound : bool;
  rr_once : bool;
  rr_noties : bool;
}.

Definition row_report (v cols : list sinv) (r : orow) : rowrep :=
  mkrr (or_suite r)
       (list_all2 ocell_ok (spec_row cols (or_suite r)) (or_cells r))
       (cells_soundb v (or_suite r) cols (or_cells r))
       (row_onceb v (or_suite r)) (row_notiesb v (or_suite r)).

(* None: there is no matrix to judge (invalid input, or a header that does not
   name invocations of the view - clauses 1 and 2 of spec_check say so) *)
Definition rows_report (inp : input) (o : obs) : option (list rowrep) :=
  match view (walk_dirs exec_qsorts) inp with
  | None => None
  | Some v =>
      match all_some (map (find_inv v) (o_cols o)) with
      | None => None
      | Some cols => Some (map (row_report v cols) (o_rows o))
      end
  end.

