(* HtmlProofs.v - lemmas about the regress HTML model (HtmlDefs.v) and its
   specification (HtmlSpec.v). *)
From Robsd Require Export Html.HtmlSpec.
From Robsd Require Import RegressLog.RLProofs Base.Sort.
From Robsd Require Inv.LsProofs.
From RobsdGen Require Import Gen_Html.
From Coq Require Import Sorting.Sorted Sorting.Permutation.
Local Open Scope N_scope.

(* ---- what the translator read, against what the model assumes ---- *)

Lemma statuses_tie :
  run_statuses = map (fun s => (status_str s, status_failure s)) all_statuses.
Proof. reflexivity. Qed.

Lemma constants_tie :
  ex_timeout = 124%Z /\ delta_threshold = 600%Z /\ nonregress_prefix = [46; 46; 47] /\
  name_end = [101; 110; 100] /\ name_attic = [97; 116; 116; 105; 99].
Proof. repeat split; reflexivity. Qed.

Lemma failure_statuses s :
  status_failure s = true <-> s = FAIL \/ s = XPASS \/ s = NOTERM.
Proof.
  destruct s; simpl; split; intros H; try discriminate; auto;
    destruct H as [H|[H|H]]; discriminate.
Qed.

(* ---- status: the peek loop against the comprehension ---- *)

Lemma selected_xpassed l : selected fl_xpassed l = isxpassed l.
Proof. unfold selected, fl_xpassed; simpl. reflexivity. Qed.
Lemma selected_xfailed l : selected fl_xfailed l = isxfailed l.
Proof. unfold selected, fl_xfailed; simpl. now rewrite ?orb_false_r. Qed.
Lemma selected_skipped l : selected fl_skipped l = isskipped l.
Proof. unfold selected, fl_skipped; simpl. now rewrite ?orb_false_r. Qed.

Lemma existsb_ext_eq {A} (f g : A -> bool) l : (forall x, f x = g x) -> existsb f l = existsb g l.
Proof. intros H. induction l as [|x l IH]; simpl; [reflexivity|]. now rewrite H, IH. Qed.

Lemma peek_pos fl log :
  Nat.ltb 0 (peek fl log) = existsb (selected fl) (drop_trace (clines log)).
Proof. rewrite peek_spec. destruct (existsb _ _); reflexivity. Qed.

Lemma classify_spec exit log : classify exit log = spec_status exit log.
Proof.
  unfold classify, spec_status, log_has. rewrite !peek_pos.
  rewrite (existsb_ext_eq _ _ _ selected_xpassed), (existsb_ext_eq _ _ _ selected_xfailed),
          (existsb_ext_eq _ _ _ selected_skipped).
  reflexivity.
Qed.

(* the keywords behind the statuses, as the property words them *)
Lemma status_cases exit log :
  let after := drop_trace (clines log) in
  (spec_status exit log = NOTERM <-> exit = ex_timeout) /\
  (spec_status exit log = XPASS <-> exit <> ex_timeout /\ exit <> 0%Z /\ existsb isxpassed after = true) /\
  (spec_status exit log = FAIL <-> exit <> ex_timeout /\ exit <> 0%Z /\ existsb isxpassed after = false) /\
  (spec_status exit log = XFAIL <-> exit <> ex_timeout /\ exit = 0%Z /\ existsb isxfailed after = true) /\
  (spec_status exit log = SKIP <-> exit <> ex_timeout /\ exit = 0%Z /\ existsb isxfailed after = false /\
                                   existsb isskipped after = true) /\
  (spec_status exit log = PASS <-> exit <> ex_timeout /\ exit = 0%Z /\ existsb isxfailed after = false /\
                                   existsb isskipped after = false).
Proof.
  cbv zeta. unfold spec_status, log_has.
  destruct (Z.eqb_spec exit ex_timeout) as [Ht|Ht];
  destruct (Z.eqb_spec exit 0) as [H0|H0]; cbn [negb];
  destruct (existsb isxpassed _) eqn:E1; destruct (existsb isxfailed _) eqn:E2;
  destruct (existsb isskipped _) eqn:E3;
  repeat split; intros; try discriminate; try tauto;
  repeat match goal with H : _ /\ _ |- _ => destruct H end; try congruence; try tauto.
Qed.

(* ---- the copy of a log: parse twice / trim against the block comprehension ---- *)

Lemma file_blocks_nl nl log : file_blocks (fl_skipped_nl nl) log = file_blocks fl_skipped log.
Proof. reflexivity. Qed.

Lemma extract_spec st log : extract_log st log = spec_extract st log.
Proof.
  unfold extract_log, spec_extract. rewrite !parse_spec. cbn [app].
  rewrite !file_blocks_nl. cbn [fNEWLINE fl_failures fl_skipped_nl].
  destruct (file_blocks fl_failures log) as [|b bl]; cbn [List.length].
  - change (Nat.ltb 0 0) with false. cbn [render_from app].
    destruct (file_blocks fl_skipped log) as [|c cl]; cbn [List.length nonempty]; reflexivity.
  - reflexivity.
Qed.

(* ---- the parse loops against the view ---- *)

Definition run_of (I : sinv) (sr : srun) : bytes * run :=
  (sr_suite sr, mkrun (pjoin (sinv_dir I) (sr_log sr)) (si_time I) (sr_exit sr) (srun_status sr)).
Definition runs_of (I : sinv) : list (bytes * run) := map (run_of I) (si_runs I).
Definition rinv_of (I : sinv) : rinv :=
  mkrinv (si_arch I) (si_date I) (si_time I) (si_seconds I) (spec_delta I) (si_total I) (si_fail I)
         (si_cvs I) (List.length (si_patches I)).

Definition is_suite_row (r : row) : bool := is_regress_step (str_field r f_name).

Lemma rows_loop_view dir time e rows : forall acc t res t',
  rows_loop dir time e rows acc t = Some (res, t') ->
  exists srs, all_some (map (srun_of e) (filter is_suite_row rows)) = Some srs /\
    res = acc ++ map (fun sr => (sr_suite sr,
                                 mkrun (pjoin dir (sr_log sr)) time (sr_exit sr) (srun_status sr))) srs.
Proof.
  induction rows as [|r rows IH]; intros acc t res t' H.
  - cbn in H. injection H as <- <-. exists []. split; [reflexivity|]. now rewrite app_nil_r.
  - cbn [rows_loop] in H. cbn [filter]. unfold is_suite_row at 1.
    destruct (is_regress_step (str_field r f_name)) eqn:Es; cbn [negb] in H.
    + cbn [map all_some]. unfold srun_of at 1.
      destruct (lookup_log e (str_field r f_log)) as [| |c] eqn:El; try discriminate.
      apply IH in H. destruct H as [srs [Ha Hr]]. rewrite Ha.
      eexists. split; [reflexivity|]. rewrite Hr, <- app_assoc. cbn [map app].
      unfold srun_status. cbn [sr_suite sr_log sr_exit sr_content]. now rewrite classify_spec.
    + apply IH in H. exact H.
Qed.

Lemma count_fail_map (f : srun -> bytes * run) srs :
  (forall sr, r_status (snd (f sr)) = srun_status sr) ->
  count_fail (map f srs) = List.length (filter (fun sr => status_failure (srun_status sr)) srs).
Proof.
  intros Hf. unfold count_fail. induction srs as [|sr srs IH]; [reflexivity|].
  cbn [map filter]. rewrite Hf. destruct (status_failure (srun_status sr)); cbn [List.length]; now rewrite IH.
Qed.

Lemma parse_invocation_view arch prev e st st' d :
  parse_invocation arch prev e st = Some (st', d) ->
  exists I, sinv_of arch prev e = Some I /\ d = si_seconds I /\
    st_invs st' = st_invs st ++ [rinv_of I] /\
    st_suites st' = fold_left add_run (runs_of I) (st_suites st).
Proof.
  unfold parse_invocation, sinv_of. intros H.
  destruct (e_step e) as [content|]; [|discriminate].
  destruct (parse_file content) as [[|first rows]|]; try discriminate.
  destruct (find_by_name (first :: rows) name_end) as [last|]; [|discriminate].
  destruct (mkdir_x _ _) as [t2|]; [|discriminate].
  destruct (mkdir_x _ _) as [t5|]; [|discriminate].
  destruct (rows_loop _ _ _ _ _ _) as [[rs t7]|] eqn:ER; [|discriminate].
  apply rows_loop_view in ER. destruct ER as [srs [Ha Hr]]. cbn [app] in Hr.
  fold is_suite_row. rewrite Ha.
  injection H as <- <-. eexists. split; [reflexivity|].
  cbn [si_seconds st_invs st_suites]. split; [reflexivity|]. split.
  - f_equal. unfold rinv_of, spec_delta, si_total, si_fail.
    cbn [si_arch si_date si_time si_seconds si_prev si_cvs si_patches si_runs].
    subst rs. rewrite map_length. rewrite count_fail_map by reflexivity. reflexivity.
  - subst rs. reflexivity.
Qed.

Lemma arch_loop_view arch es : forall prev st st',
  arch_loop arch prev es st = Some st' ->
  exists v, view_arch arch prev es = Some v /\
    st_invs st' = st_invs st ++ map rinv_of v /\
    st_suites st' = fold_left add_run (flat_map runs_of v) (st_suites st).
Proof.
  induction es as [|e es IH]; intros prev st st' H.
  - cbn in H. injection H as <-. exists []. cbn. now rewrite app_nil_r.
  - cbn [arch_loop] in H.
    destruct (parse_invocation arch prev e st) as [[st1 d]|] eqn:EP; [|discriminate].
    apply parse_invocation_view in EP. destruct EP as [I [HI [-> [Hi Hs]]]].
    apply IH in H. destruct H as [v [Hv [Hi' Hs']]].
    exists (I :: v). cbn [view_arch]. rewrite HI, Hv. split; [reflexivity|]. split.
    + rewrite Hi', Hi, <- app_assoc. reflexivity.
    + rewrite Hs', Hs. cbn [flat_map]. now rewrite fold_left_app.
Qed.

Lemma parse_all_view q inp : forall st st',
  parse_all q inp st = Some st' ->
  exists v, view (walk_dirs q) inp = Some v /\
    st_invs st' = st_invs st ++ map rinv_of v /\
    st_suites st' = fold_left add_run (flat_map runs_of v) (st_suites st).
Proof.
  induction inp as [|a inp IH]; intros st st' H.
  - cbn in H. injection H as <-. exists []. cbn. now rewrite app_nil_r.
  - cbn [parse_all] in H.
    destruct (arch_loop _ _ _ _) as [st1|] eqn:EA; [|discriminate].
    apply arch_loop_view in EA. destruct EA as [v1 [Hv1 [Hi1 Hs1]]].
    apply IH in H. destruct H as [v2 [Hv2 [Hi2 Hs2]]].
    exists (v1 ++ v2). cbn [view]. rewrite Hv1, Hv2. split; [reflexivity|]. split.
    + rewrite Hi2, Hi1, map_app, app_assoc. reflexivity.
    + rewrite Hs2, Hs1, flat_map_app, fold_left_app. reflexivity.
Qed.

(* the whole command: a page means a valid view *)
Lemma run_html_view q inp pg :
  run_html q inp = Some pg ->
  exists v, view (walk_dirs q) inp = Some v /\ inp <> [] /\
    pg = render q (mkstate (map rinv_of v) (fold_left add_run (flat_map runs_of v) [])
                           (p_tree pg)).
Proof.
  unfold run_html. destruct inp as [|a inp]; [discriminate|].
  destruct (parse_all q (a :: inp) _) as [st|] eqn:EP; [|discriminate].
  intros H. injection H as <-.
  apply parse_all_view in EP. destruct EP as [v [Hv [Hi Hs]]].
  exists v. split; [exact Hv|]. split; [discriminate|].
  cbn [st_invs st_suites app] in Hi, Hs. unfold render. cbn [st_invs st_suites st_tree p_tree].
  now rewrite Hi, Hs.
Qed.

Lemma run_html_invalid q inp :
  view (walk_dirs q) inp = None -> run_html q inp = None.
Proof.
  intros Hv. destruct (run_html q inp) as [pg|] eqn:E; [|reflexivity].
  apply run_html_view in E. destruct E as [v [Hv' _]]. congruence.
Qed.

(* ---- the output tree: the sequence of exclusive creates against "the first
   entry of a path decides" ---- *)

Definition tree_add (t : tree) (e : bytes * option bytes) : tree :=
  if tree_has t (fst e) then t else t ++ [e].

Lemma write_log_add t p c : write_log t p c = tree_add t (p, Some c).
Proof. reflexivity. Qed.
Lemma mkdir_p_add t p : mkdir_p t p = tree_add t (p, None).
Proof. reflexivity. Qed.
Lemma mkdir_x_add t p t' : mkdir_x t p = Some t' -> t' = tree_add t (p, None).
Proof.
  unfold mkdir_x, tree_add. cbn [fst]. destruct (tree_has t p); [discriminate|]. now intros [= <-].
Qed.

Lemma write_all_add dir fs : forall t,
  write_all t dir fs = fold_left tree_add (map (fun f => (pjoin dir (fst f), Some (snd f))) fs) t.
Proof.
  induction fs as [|[n c] fs IH]; intros t; [reflexivity|]. cbn [write_all map fold_left]. now rewrite IH.
Qed.

Lemma rows_loop_tree dir time e rows : forall acc t res t',
  rows_loop dir time e rows acc t = Some (res, t') ->
  exists srs, all_some (map (srun_of e) (filter is_suite_row rows)) = Some srs /\
    t' = fold_left tree_add
           (map (fun sr => (pjoin dir (sr_log sr),
                            Some (spec_extract (srun_status sr) (sr_content sr)))) srs) t.
Proof.
  induction rows as [|r rows IH]; intros acc t res t' H.
  - cbn in H. injection H as <- <-. exists []. split; reflexivity.
  - cbn [rows_loop] in H. cbn [filter]. unfold is_suite_row at 1.
    destruct (is_regress_step (str_field r f_name)) eqn:Es; cbn [negb] in H.
    + cbn [map all_some]. unfold srun_of at 1.
      destruct (lookup_log e (str_field r f_log)) as [| |c] eqn:El; try discriminate.
      apply IH in H. destruct H as [srs [Ha Ht]]. rewrite Ha.
      eexists. split; [reflexivity|]. rewrite Ht. cbn [map fold_left].
      unfold srun_status. cbn [sr_log sr_exit sr_content].
      now rewrite write_log_add, extract_spec, classify_spec.
    + apply IH in H. exact H.
Qed.

Lemma fold_add_app a b t : fold_left tree_add (a ++ b) t = fold_left tree_add b (fold_left tree_add a t).
Proof. apply fold_left_app. Qed.

Lemma parse_invocation_tree arch prev e st st' d :
  parse_invocation arch prev e st = Some (st', d) ->
  exists I, sinv_of arch prev e = Some I /\
    st_tree st' = fold_left tree_add (spec_tree_inv I) (st_tree st).
Proof.
  unfold parse_invocation, sinv_of. intros H.
  destruct (e_step e) as [content|]; [|discriminate].
  destruct (parse_file content) as [[|first rows]|]; try discriminate.
  destruct (find_by_name (first :: rows) name_end) as [last|]; [|discriminate].
  destruct (mkdir_x _ _) as [t2|] eqn:E2; [|discriminate].
  destruct (mkdir_x _ (pjoin (pjoin arch (e_name e)) name_diff)) as [t5|] eqn:E5; [|discriminate].
  destruct (rows_loop _ _ _ _ _ _) as [[rs t7]|] eqn:ER; [|discriminate].
  apply rows_loop_tree in ER. destruct ER as [srs [Ha Ht]].
  fold is_suite_row. rewrite Ha.
  injection H as <- <-. eexists. split; [reflexivity|].
  cbn [st_tree]. unfold spec_tree_inv, sinv_dir.
  cbn [si_arch si_date si_dmesg si_comment si_patches si_runs].
  apply mkdir_x_add in E2, E5. rewrite mkdir_p_add in E2.
  rewrite !fold_add_app. cbn [fold_left]. rewrite <- E2.
  rewrite Ht, write_all_add. f_equal. f_equal. rewrite E5. f_equal.
  destruct (assoc name_dmesg (all_files e)); destruct (assoc name_comment (all_files e));
    cbn [opt_file fold_left]; now rewrite ?write_log_add.
Qed.

Lemma arch_loop_tree arch es : forall prev st st',
  arch_loop arch prev es st = Some st' ->
  exists v, view_arch arch prev es = Some v /\
    st_tree st' = fold_left tree_add (flat_map spec_tree_inv v) (st_tree st).
Proof.
  induction es as [|e es IH]; intros prev st st' H.
  - cbn in H. injection H as <-. exists []. split; reflexivity.
  - cbn [arch_loop] in H.
    destruct (parse_invocation arch prev e st) as [[st1 d]|] eqn:EP; [|discriminate].
    pose proof (parse_invocation_view _ _ _ _ _ _ EP) as [I0 [HI0 [Hd _]]].
    apply parse_invocation_tree in EP. destruct EP as [I [HI Ht]].
    assert (I0 = I) by congruence. subst I0 d.
    apply IH in H. destruct H as [v [Hv Ht']].
    exists (I :: v). cbn [view_arch]. rewrite HI, Hv. split; [reflexivity|].
    rewrite Ht', Ht. cbn [flat_map]. now rewrite fold_add_app.
Qed.

Lemma parse_all_tree q inp : forall st st',
  parse_all q inp st = Some st' ->
  exists v, view (walk_dirs q) inp = Some v /\
    st_tree st' = fold_left tree_add (flat_map spec_tree_inv v) (st_tree st).
Proof.
  induction inp as [|a inp IH]; intros st st' H.
  - cbn in H. injection H as <-. exists []. split; reflexivity.
  - cbn [parse_all] in H.
    destruct (arch_loop _ _ _ _) as [st1|] eqn:EA; [|discriminate].
    apply arch_loop_tree in EA. destruct EA as [v1 [Hv1 Ht1]].
    apply IH in H. destruct H as [v2 [Hv2 Ht2]].
    exists (v1 ++ v2). cbn [view]. rewrite Hv1, Hv2. split; [reflexivity|].
    rewrite Ht2, Ht1, flat_map_app, fold_add_app. reflexivity.
Qed.

Lemma beq_sym a b : beq a b = beq b a.
Proof. destruct (beq_spec a b) as [E|E]; destruct (beq_spec b a) as [E'|E']; congruence. Qed.

Lemma fold_add_first_wins ops : forall t seen,
  (forall p, existsb (beq p) seen = tree_has t p) ->
  fold_left tree_add ops t = t ++ first_wins seen ops.
Proof.
  induction ops as [|[p c] ops IH]; intros t seen Hs; cbn [fold_left first_wins].
  - now rewrite app_nil_r.
  - unfold tree_add at 2. cbn [fst]. rewrite (Hs p). destruct (tree_has t p) eqn:E.
    + now apply IH.
    + rewrite (IH (t ++ [(p, c)]) (p :: seen)).
      * now rewrite <- app_assoc.
      * intros x. cbn [existsb]. unfold tree_has. rewrite existsb_app. cbn [existsb fst].
        rewrite orb_false_r, Hs. unfold tree_has. rewrite orb_comm. f_equal. apply beq_sym.
Qed.

(* the output tree of a page is the specified one *)
Lemma page_tree q inp pg : run_html q inp = Some pg ->
  exists v, view (walk_dirs q) inp = Some v /\ p_tree pg = spec_tree v.
Proof.
  unfold run_html. destruct inp as [|a inp]; [discriminate|].
  destruct (parse_all q (a :: inp) _) as [st|] eqn:EP; [|discriminate].
  intros H. injection H as <-. apply parse_all_tree in EP. destruct EP as [v [Hv Ht]].
  exists v. split; [exact Hv|]. unfold render. cbn [p_tree st_tree] in *.
  rewrite Ht. unfold spec_tree. now rewrite (fold_add_first_wins _ [] []).
Qed.

(* ... hence every run's link leads to a file of the tree: the copy of that
   run's log, unless an earlier entry of the same invocation has the same path *)
Lemma first_wins_in ops : forall seen p c,
  In (p, c) ops -> existsb (beq p) seen = false ->
  exists c', In (p, c') (first_wins seen ops).
Proof.
  induction ops as [|[p0 c0] ops IH]; intros seen p c Hin Hs; [destruct Hin|].
  cbn [first_wins]. destruct (existsb (beq p0) seen) eqn:E0.
  - destruct Hin as [Heq|Hin]; [injection Heq as -> ->; congruence|]. now apply (IH seen p c).
  - destruct (beq_spec p p0) as [->|Hne].
    + exists c0. now left.
    + destruct Hin as [Heq|Hin]; [injection Heq as -> ->; congruence|].
      destruct (IH (p0 :: seen) p c Hin) as [c' Hc'].
      * cbn [existsb]. rewrite Hs. destruct (beq_spec p p0); [congruence|reflexivity].
      * exists c'. now right.
Qed.

Lemma links_exist q inp pg : run_html q inp = Some pg ->
  exists v, view (walk_dirs q) inp = Some v /\
    forall I sr, In I v -> In sr (si_runs I) ->
      exists c, In (pjoin (pjoin (si_arch I) (si_date I)) (sr_log sr), c) (p_tree pg).
Proof.
  intros H. destruct (page_tree q inp pg H) as [v [Hv Ht]]. exists v. split; [exact Hv|].
  intros I sr HI Hsr. rewrite Ht. unfold spec_tree.
  apply (first_wins_in _ [] _ (Some (spec_extract (srun_status sr) (sr_content sr)))); [|reflexivity].
  apply in_flat_map. exists I. split; [exact HI|]. unfold spec_tree_inv.
  repeat (apply in_or_app; right). apply in_map_iff. exists sr. split; [reflexivity|exact Hsr].
Qed.

(* ---- the suites map: find_suite / add_run against a comprehension ---- *)

Definition runs_for (n : bytes) (nrs : list (bytes * run)) : list run :=
  map snd (filter (fun nr => beq (fst nr) n) nrs).
Definition nfail (rs : list run) : nat :=
  List.length (filter (fun r => status_failure (r_status r)) rs).
Definition fail_inc (r : run) : nat := if status_failure (r_status r) then 1%nat else 0%nat.

Lemma runs_for_snoc n nrs n' r :
  runs_for n (nrs ++ [(n', r)]) = runs_for n nrs ++ (if beq n' n then [r] else []).
Proof.
  unfold runs_for. rewrite filter_app, map_app. cbn [filter fst].
  destruct (beq n' n); reflexivity.
Qed.

Lemma nfail_snoc l r : nfail (l ++ [r]) = (nfail l + fail_inc r)%nat.
Proof.
  unfold nfail, fail_inc. rewrite filter_app, app_length. cbn [filter].
  destruct (status_failure (r_status r)); reflexivity.
Qed.

Definition suites_inv (ss : list suite) (nrs : list (bytes * run)) : Prop :=
  NoDup (map s_name ss) /\
  (forall s, In s ss -> s_runs s = runs_for (s_name s) nrs /\ s_fail s = nfail (s_runs s) /\ s_runs s <> []) /\
  (forall n, In n (map s_name ss) <-> In n (map fst nrs)).

Lemma add_run_names ss n r :
  map s_name (add_run ss (n, r)) =
  if existsb (beq n) (map s_name ss) then map s_name ss else map s_name ss ++ [n].
Proof.
  induction ss as [|s ss IH]; [reflexivity|].
  cbn [add_run map existsb]. destruct (beq_spec (s_name s) n) as [E|E].
  - subst n. rewrite beq_refl. reflexivity.
  - destruct (beq_spec n (s_name s)) as [E'|_]; [congruence|]. cbn [orb map].
    rewrite IH. destruct (existsb _ _); reflexivity.
Qed.

Lemma add_run_elems ss n r : NoDup (map s_name ss) ->
  forall s', In s' (add_run ss (n, r)) ->
    (In s' ss /\ s_name s' <> n) \/
    (s_name s' = n /\
     ((exists s, In s ss /\ s_name s = n /\ s_runs s' = s_runs s ++ [r] /\
                 s_fail s' = (s_fail s + fail_inc r)%nat) \/
      (~ In n (map s_name ss) /\ s_runs s' = [r] /\ s_fail s' = fail_inc r))).
Proof.
  induction ss as [|s ss IH]; intros Hnd s' Hin.
  - cbn in Hin. destruct Hin as [<-|[]]. right. split; [reflexivity|]. right. cbn. tauto.
  - cbn [add_run] in Hin. inversion Hnd as [|? ? Hni Hnd']; subst.
    destruct (beq_spec (s_name s) n) as [E|E].
    + destruct Hin as [<-|Hin].
      * right. cbn. split; [exact E|]. left. exists s. cbn. tauto.
      * left. split; [now right|]. intros E'. apply Hni. rewrite E, <- E'. now apply in_map.
    + destruct Hin as [<-|Hin]; [left; split; [now left|exact E]|].
      destruct (IH Hnd' s' Hin) as [[Hi Hn]|[Hn [[s0 [Hi0 H0]]|[Hni0 H0]]]].
      * left. split; [now right|exact Hn].
      * right. split; [exact Hn|]. left. exists s0. split; [now right|exact H0].
      * right. split; [exact Hn|]. right. split; [|exact H0].
        cbn [map]. intros [E'|E']; [congruence|contradiction].
Qed.

Lemma existsb_beq_In n l : existsb (beq n) l = true <-> In n l.
Proof.
  rewrite existsb_exists. split.
  - intros [x [Hx He]]. apply beq_eq in He. now subst.
  - intros H. exists n. split; [exact H|apply beq_refl].
Qed.

Lemma NoDup_app_snoc {A} (l : list A) x : NoDup l -> ~ In x l -> NoDup (l ++ [x]).
Proof.
  induction 1 as [|y l Hy Hnd IH]; intros Hx; cbn.
  - constructor; [intros []|constructor].
  - constructor.
    + rewrite in_app_iff. intros [H|[H|[]]]; [contradiction|]. apply Hx. now left.
    + apply IH. intros H. apply Hx. now right.
Qed.

Lemma filter_none {A} (f : A -> bool) l : (forall x, In x l -> f x = false) -> filter f l = [].
Proof.
  induction l as [|x l IH]; intros H; [reflexivity|]. cbn.
  rewrite (H x (or_introl eq_refl)). apply IH. intros y Hy. apply H. now right.
Qed.

Lemma suites_inv_step ss nrs n r :
  suites_inv ss nrs -> suites_inv (add_run ss (n, r)) (nrs ++ [(n, r)]).
Proof.
  intros [Hnd [Hel Hnm]]. repeat split.
  - rewrite add_run_names. destruct (existsb (beq n) (map s_name ss)) eqn:E; [exact Hnd|].
    apply NoDup_app_snoc; [exact Hnd|]. intros Hin. apply existsb_beq_In in Hin. congruence.
  - destruct (add_run_elems ss n r Hnd s H) as [[Hi Hn]|[Hn [[s0 [Hi0 [Hn0 [Hr Hf]]]]|[Hni [Hr Hf]]]]].
    + rewrite runs_for_snoc. destruct (beq_spec n (s_name s)); [congruence|].
      rewrite app_nil_r. apply Hel, Hi.
    + rewrite runs_for_snoc, Hn, beq_refl, Hr. f_equal. rewrite <- Hn0. apply Hel, Hi0.
    + rewrite runs_for_snoc, Hn, beq_refl, Hr.
      assert (Hz : runs_for n nrs = []).
      { unfold runs_for. rewrite filter_none; [reflexivity|].
        intros x Hx. destruct (beq_spec (fst x) n) as [Ex|]; [|reflexivity].
        exfalso. apply Hni, Hnm. rewrite <- Ex. now apply in_map. }
      now rewrite Hz.
  - destruct (add_run_elems ss n r Hnd s H) as [[Hi Hn]|[Hn [[s0 [Hi0 [Hn0 [Hr Hf]]]]|[Hni [Hr Hf]]]]].
    + apply Hel, Hi.
    + rewrite Hr, nfail_snoc, Hf. f_equal. apply Hel, Hi0.
    + rewrite Hr, Hf. unfold nfail, fail_inc. cbn. destruct (status_failure _); reflexivity.
  - destruct (add_run_elems ss n r Hnd s H) as [[Hi Hn]|[Hn [[s0 [Hi0 [Hn0 [Hr Hf]]]]|[Hni [Hr Hf]]]]].
    + apply Hel, Hi.
    + rewrite Hr. intros E. now apply app_eq_nil in E as [_ E].
    + rewrite Hr. discriminate.
  - rewrite add_run_names, map_app, in_app_iff. cbn [map fst In].
    destruct (existsb (beq n) (map s_name ss)) eqn:E.
    + intros Hin. left. now apply Hnm.
    + rewrite in_app_iff. cbn. intros [Hin|[<-|[]]]; [left; now apply Hnm|right; now left].
  - rewrite add_run_names, map_app, in_app_iff. cbn [map fst In].
    destruct (existsb (beq n) (map s_name ss)) eqn:E.
    + intros [Hin|[<-|[]]]; [now apply Hnm|now apply existsb_beq_In].
    + rewrite in_app_iff. cbn. intros [Hin|[<-|[]]]; [left; now apply Hnm|right; now left].
Qed.

Lemma suites_inv_fold todo : forall ss done,
  suites_inv ss done -> suites_inv (fold_left add_run todo ss) (done ++ todo).
Proof.
  induction todo as [|[n r] todo IH]; intros ss done H.
  - cbn. now rewrite app_nil_r.
  - cbn [fold_left]. replace (done ++ (n, r) :: todo) with ((done ++ [(n, r)]) ++ todo)
      by (now rewrite <- app_assoc).
    apply IH, suites_inv_step, H.
Qed.

Lemma suites_inv_all nrs : suites_inv (fold_left add_run nrs []) nrs.
Proof.
  apply (suites_inv_fold nrs [] []). split; [constructor|]. split; [intros s []|]. cbn. tauto.
Qed.

(* ---- qsort(3): what is assumed, and that the driver's insertion sort has it ---- *)

Definition qsorts_ok (q : qsorts) : Prop :=
  sorts dir_le (qs_dirs q) /\ sorts inv_le (qs_invs q) /\
  sorts run_le (qs_runs q) /\ sorts suite_le (qs_suites q).

Lemma dir_le_desc a b : dir_le a b = LsDefs.desc_cmp_le (e_name b) (e_name a).
Proof.
  unfold dir_le, LsDefs.desc_cmp_le, strcmp. rewrite (LsProofs.strcmp_antisym (e_name a) (e_name b)).
  destruct (LsDefs.strcmp (e_name a) (e_name b)); reflexivity.
Qed.

Lemma strcmp_le_total a b :
  (match strcmp a b with Gt => false | _ => true end) = true \/
  (match strcmp b a with Gt => false | _ => true end) = true.
Proof.
  unfold strcmp. rewrite (LsProofs.strcmp_antisym a b).
  destruct (LsDefs.strcmp a b); cbn; auto.
Qed.

Lemma strcmp_le_trans a b c :
  (match strcmp a b with Gt => false | _ => true end) = true ->
  (match strcmp b c with Gt => false | _ => true end) = true ->
  (match strcmp a c with Gt => false | _ => true end) = true.
Proof. exact (LsProofs.cmp_le_trans a b c). Qed.

Lemma suite_le_total a b : suite_le a b = true \/ suite_le b a = true.
Proof.
  unfold suite_le.
  destruct (Nat.ltb_spec (s_fail a) (s_fail b)); destruct (Nat.ltb_spec (s_fail b) (s_fail a));
    try lia; auto. apply strcmp_le_total.
Qed.

Lemma suite_le_trans a b c : suite_le a b = true -> suite_le b c = true -> suite_le a c = true.
Proof.
  unfold suite_le.
  destruct (Nat.ltb_spec (s_fail a) (s_fail b)); [discriminate|].
  destruct (Nat.ltb_spec (s_fail b) (s_fail c)); [discriminate|].
  destruct (Nat.ltb_spec (s_fail a) (s_fail c)); [lia|].
  destruct (Nat.ltb_spec (s_fail b) (s_fail a)); destruct (Nat.ltb_spec (s_fail c) (s_fail b));
    destruct (Nat.ltb_spec (s_fail c) (s_fail a)); try lia; auto.
  apply strcmp_le_trans.
Qed.

Lemma exec_qsorts_ok : qsorts_ok exec_qsorts.
Proof.
  repeat split; cbn; apply isort_perm || apply isort_sorted.
  - intros a b. rewrite !dir_le_desc. destruct (LsProofs.cmp_le_total (e_name a) (e_name b)); auto.
  - intros a b c. rewrite !dir_le_desc. intros H1 H2. exact (LsProofs.cmp_le_trans _ _ _ H2 H1).
  - intros a b. unfold inv_le. lia.
  - intros a b c. unfold inv_le. lia.
  - intros a b. unfold run_le. lia.
  - intros a b c. unfold run_le. lia.
  - apply suite_le_total.
  - apply suite_le_trans.
Qed.

(* ---- the column walk ---- *)

(* the same walk, on the columns still ahead of the pointer *)
Fixpoint walk_s (bounded : bool) (rest : list rinv) (runs : list run) (acc : list cell) : rowres :=
  match rest with
  | [] => match runs with
          | [] => RowOk acc
          | _ :: _ => if bounded then RowOk acc else RowOOB acc
          end
  | c :: rest' =>
      match runs with
      | [] => RowOk acc
      | r :: runs' =>
          if (r_time r <? ri_time c)%Z then walk_s bounded rest' runs (acc ++ [None])
          else walk_s bounded rest' runs' (acc ++ [Some (r_status r, r_log r)])
      end
  end.

Lemma skipn_cons_S {A} (l : list A) i x rest : skipn i l = x :: rest -> skipn (S i) l = rest.
Proof.
  revert i. induction l as [|y l IH]; intros [|i] H; cbn in *; try discriminate.
  - now injection H as _ <-.
  - destruct l; [destruct i; discriminate|]. now apply IH.
Qed.

Lemma skip_from_walk b cols r runs' rest : forall i acc,
  skipn i cols = rest ->
  let '(j, acc', atend) := skip_from rest i (r_time r) acc in
  if atend then walk_s b rest (r :: runs') acc = (if b then RowOk acc' else RowOOB acc')
  else walk_s b rest (r :: runs') acc =
       walk_s b (skipn (S j) cols) runs' (acc' ++ [Some (r_status r, r_log r)]).
Proof.
  induction rest as [|c rest IH]; intros i acc Hs; cbn [skip_from walk_s].
  - reflexivity.
  - destruct (r_time r <? ri_time c)%Z.
    + apply IH. eapply skipn_cons_S, Hs.
    + now rewrite (skipn_cons_S _ _ _ _ Hs).
Qed.

Lemma walk_eq b cols runs : forall i acc,
  walk b cols i runs acc = walk_s b (skipn i cols) runs acc.
Proof.
  induction runs as [|r runs IH]; intros i acc.
  - cbn. destruct (skipn i cols); reflexivity.
  - cbn [walk]. unfold skip_cols.
    pose proof (skip_from_walk b cols r runs (skipn i cols) i acc eq_refl) as H.
    destruct (skip_from (skipn i cols) i (r_time r) acc) as [[j acc'] atend].
    destruct atend; [now rewrite H|]. rewrite H. apply IH.
Qed.

(* ---- the index arithmetic of the source (walk_ix, with the constants the
   translator read) against the checked walk ---- *)

Lemma skip_ix_none rest : forall i t acc,
  skip_ix None rest i t acc =
  let '(j, acc', atend) := skip_from rest i t acc in (j, acc', if atend then SkOOB else SkStop).
Proof.
  induction rest as [|c rest IH]; intros i t acc; cbn; [reflexivity|].
  destruct (t <? ri_time c)%Z; [apply IH|reflexivity].
Qed.

Lemma walk_ix_none cols runs : forall i acc, walk_ix None cols i runs acc = walk false cols i runs acc.
Proof.
  induction runs as [|r runs IH]; intros i acc; [reflexivity|].
  cbn [walk_ix walk]. unfold skip_cols. rewrite skip_ix_none.
  destruct (skip_from (skipn i cols) i (r_time r) acc) as [[j acc'] atend].
  destruct atend; [reflexivity|]. cbn [at_end]. apply IH.
Qed.

(* end = invocations + VECTOR_LENGTH and the loop tests ri < end: no read is
   ever attempted outside the vector, and the walk is the bounded checked walk *)
Lemma skip_ix_exact n be rest : forall i t acc, (List.length rest + i = n)%nat ->
  exists j acc', skip_ix (Some (mkwl (Z.of_nat n) true be)) rest i t acc = (j, acc', SkStop) /\
    skip_from rest i t acc = (j, acc', Nat.eqb j n) /\ (j <= n)%nat.
Proof.
  induction rest as [|c rest IH]; intros i t acc Hn; cbn [skip_ix skip_from in_range wl_strict wl_end].
  - cbn in Hn. subst i. rewrite Z.ltb_irrefl. exists n, acc. rewrite Nat.eqb_refl. repeat split. lia.
  - cbn [List.length] in Hn. destruct (Z.ltb_spec (Z.of_nat i) (Z.of_nat n)) as [_|Hge]; [|lia].
    destruct (t <? ri_time c)%Z.
    + apply IH. lia.
    + exists i, acc. destruct (Nat.eqb_spec i n) as [E|_]; [lia|]. repeat split. lia.
Qed.

Lemma at_end_exact n be j : (j <= n)%nat ->
  at_end (Some (mkwl (Z.of_nat n) true be)) j = Nat.eqb j n.
Proof.
  intros Hj. cbn. destruct be.
  - destruct (Z.eqb_spec (Z.of_nat j) (Z.of_nat n)); destruct (Nat.eqb_spec j n); try reflexivity; lia.
  - destruct (Z.leb_spec (Z.of_nat n) (Z.of_nat j)); destruct (Nat.eqb_spec j n); try reflexivity; lia.
Qed.

Lemma walk_ix_exact be cols runs : forall i acc, (i <= List.length cols)%nat ->
  walk_ix (Some (mkwl (Z.of_nat (List.length cols)) true be)) cols i runs acc = walk true cols i runs acc.
Proof.
  induction runs as [|r runs IH]; intros i acc Hi; [reflexivity|].
  cbn [walk_ix walk]. unfold skip_cols.
  destruct (skip_ix_exact (List.length cols) be (skipn i cols) i (r_time r) acc) as [j [acc' [E1 [E2 Hj]]]].
  { rewrite skipn_length. lia. }
  rewrite E1, E2, (at_end_exact _ _ _ Hj).
  destruct (Nat.eqb_spec j (List.length cols)) as [E|E]; [reflexivity|]. apply IH. lia.
Qed.

(* what the theorems need of the generated constants: the source either has no
   end pointer at all (the checked walk then reports the read) or
   end = ri + VECTOR_LENGTH(r->invocations) and the loop tests ri < end *)
Definition walk_params_ok : Prop :=
  walk_is_bounded = false \/ (walk_end_extra = 0%Z /\ walk_end_strict = true).

Lemma render_suite_walk : walk_params_ok -> forall q cols s,
  render_suite q cols s = (s_name s, walk walk_is_bounded cols 0 (qs_runs q (s_runs s)) []).
Proof.
  intros H q cols s. unfold render_suite, walk_limit. f_equal.
  destruct H as [Hb|[He Hs]].
  - rewrite Hb. apply walk_ix_none.
  - rewrite He, Hs, Z.add_0_r. destruct walk_is_bounded; [|apply walk_ix_none].
    apply walk_ix_exact. lia.
Qed.

(* stops compiling when the bound of render_suite is off (end = ri + VECTOR_LENGTH + 1,
   ri <= end, ...): the model then follows the source and reads outside the vector
   on corpus/C14/03_d9_oob_one_invocation.json (HtmlTie.bound_is_tight) *)
Lemma walk_params_sane : walk_params_ok.
Proof. unfold walk_params_ok. first [left; reflexivity | right; split; reflexivity]. Qed.

Lemma render_suite_eq q cols s :
  render_suite q cols s = (s_name s, walk walk_is_bounded cols 0 (qs_runs q (s_runs s)) []).
Proof. exact (render_suite_walk walk_params_sane q cols s). Qed.

Lemma trim_cells_all_none (l : list cell) : (forall c, In c l -> c = None) -> trim_cells l = [].
Proof.
  induction l as [|c l IH]; intros H; [reflexivity|]. cbn.
  rewrite (H c (or_introl eq_refl)), IH; [reflexivity|]. intros; apply H. now right.
Qed.

Lemma trim_cells_some (l : list cell) x : In (Some x) l -> trim_cells l <> [].
Proof.
  induction l as [|c l IH]; intros H; [destruct H|]. cbn.
  destruct H as [->|H]; [destruct (trim_cells l); discriminate|].
  destruct c; [destruct (trim_cells l); discriminate|].
  specialize (IH H). destruct (trim_cells l); [contradiction|discriminate].
Qed.

Section Walk.
  Variable X : Type.
  Variable colf : X -> rinv.
  Variable pick : X -> option run.
  Hypothesis pick_time : forall x r, pick x = Some r -> r_time r = ri_time (colf x).

  Definition picked (xs : list X) : list run :=
    flat_map (fun x => match pick x with Some r => [r] | None => [] end) xs.
  Definition cell_of (x : X) : cell :=
    match pick x with Some r => Some (r_status r, r_log r) | None => None end.

  Lemma picked_in xs r : In r (picked xs) -> exists x, In x xs /\ pick x = Some r.
  Proof.
    unfold picked. rewrite in_flat_map. intros [x [Hx Hr]]. exists x. split; [exact Hx|].
    destruct (pick x); [destruct Hr as [->|[]]; reflexivity|destruct Hr].
  Qed.

  Lemma walk_s_sorted b xs :
    StronglySorted (fun a c => (ri_time (colf c) < ri_time (colf a))%Z) xs ->
    forall acc, walk_s b (map colf xs) (picked xs) acc = RowOk (acc ++ trim_cells (map cell_of xs)).
  Proof.
    induction 1 as [|x xs Hs IH Hall]; intros acc.
    - cbn. now rewrite app_nil_r.
    - cbn [map]. unfold picked. cbn [flat_map]. fold (picked xs). unfold cell_of at 1.
      destruct (pick x) as [r|] eqn:Ep.
      + cbn [app walk_s]. rewrite (pick_time x r Ep), Z.ltb_irrefl.
        rewrite IH, <- app_assoc. cbn [app trim_cells]. reflexivity.
      + cbn [app]. destruct (picked xs) as [|r rs] eqn:Epk.
        * cbn [walk_s]. rewrite trim_cells_all_none; [now rewrite app_nil_r|].
          intros c [<-|Hc]; [reflexivity|]. apply in_map_iff in Hc. destruct Hc as [y [<- Hy]].
          unfold cell_of. destruct (pick y) as [r|] eqn:Ey; [|reflexivity].
          exfalso. assert (Hin : In r (picked xs)).
          { unfold picked. apply in_flat_map. exists y. split; [exact Hy|]. rewrite Ey. now left. }
          rewrite Epk in Hin. destruct Hin.
        * cbn [walk_s].
          assert (Hin : In r (picked xs)) by (rewrite Epk; now left).
          apply picked_in in Hin. destruct Hin as [y [Hy Hpy]].
          rewrite Forall_forall in Hall. specialize (Hall y Hy).
          rewrite (pick_time y r Hpy). apply Z.ltb_lt in Hall. rewrite Hall.
          rewrite IH, <- app_assoc. cbn [app]. f_equal. f_equal.
          cbn [trim_cells]. destruct (trim_cells (map cell_of xs)) eqn:Et; [|reflexivity].
          exfalso. eapply trim_cells_some; [|exact Et].
          apply in_map_iff. exists y. split; [|exact Hy]. unfold cell_of. now rewrite Hpy.
  Qed.
End Walk.

(* ---- columns ---- *)

Definition time_ge (a b : sinv) : Prop := (si_time b <= si_time a)%Z.
Definition time_gt (a b : sinv) : Prop := (si_time b < si_time a)%Z.

Lemma ssorted_map {A B} (f : A -> B) (R : B -> B -> Prop) l :
  StronglySorted R (map f l) <-> StronglySorted (fun a b => R (f a) (f b)) l.
Proof.
  induction l as [|x l IH]; cbn; split; intros H; try constructor; inversion H; subst.
  - now apply IH.
  - rewrite Forall_forall in *. intros y Hy. apply H3. now apply in_map.
  - now apply IH.
  - rewrite Forall_forall in *. intros y Hy. apply in_map_iff in Hy. destruct Hy as [z [<- Hz]]. now apply H3.
Qed.

Lemma ssorted_impl {A} (R S : A -> A -> Prop) l :
  (forall a b, In a l -> In b l -> R a b -> S a b) -> StronglySorted R l -> StronglySorted S l.
Proof.
  intros H Hs. induction Hs as [|x l Hs IH Hall]; constructor.
  - apply IH. intros a b Ha Hb. apply H; now right.
  - rewrite Forall_forall in *. intros y Hy. apply H; [now left|now right|now apply Hall].
Qed.

Lemma cols_of_view q v : qsorts_ok q ->
  exists vs, qs_invs q (map rinv_of v) = map rinv_of vs /\ Permutation v vs /\
             StronglySorted time_ge vs.
Proof.
  intros [_ [Hq _]]. destruct (Hq (map rinv_of v)) as [Hp Hs].
  apply Permutation_sym, Permutation_map_inv in Hp. destruct Hp as [vs [He Hp]].
  exists vs. split; [exact He|]. split; [exact Hp|].
  rewrite He in Hs. apply ssorted_map in Hs.
  eapply ssorted_impl; [|exact Hs]. intros a b _ _ H. unfold inv_le in H. cbn in H.
  unfold time_ge. now apply Z.leb_le.
Qed.

(* weakly sorted with pairwise different keys is strictly sorted *)
Lemma ssorted_strict {A} (key : A -> Z) l :
  StronglySorted (fun a b => (key b <= key a)%Z) l -> NoDup (map key l) ->
  StronglySorted (fun a b => (key b < key a)%Z) l.
Proof.
  induction 1 as [|x l Hs IH Hall]; intros Hnd; constructor; cbn in Hnd; inversion Hnd; subst.
  - now apply IH.
  - rewrite Forall_forall in *. intros y Hy. specialize (Hall y Hy).
    assert (key y <> key x) by (intros E; apply H1; rewrite <- E; now apply in_map). lia.
Qed.

(* ---- the runs of one suite, column by column ---- *)

Definition pick_suite (S : bytes) (I : sinv) : option run :=
  match find (fun sr => beq (sr_suite sr) S) (si_runs I) with
  | Some sr => Some (snd (run_of I sr))
  | None => None
  end.

Lemma pick_suite_time S I r : pick_suite S I = Some r -> r_time r = ri_time (rinv_of I).
Proof.
  unfold pick_suite. destruct (find _ _); [|discriminate]. intros H. injection H as <-. reflexivity.
Qed.

Lemma cell_of_pick S I : cell_of sinv (pick_suite S) I = spec_cell S I.
Proof. unfold cell_of, pick_suite, spec_cell. destruct (find _ _); reflexivity. Qed.

Lemma filter_find_nodup S (l : list srun) : NoDup (map sr_suite l) ->
  filter (fun sr => beq (sr_suite sr) S) l =
  match find (fun sr => beq (sr_suite sr) S) l with Some sr => [sr] | None => [] end.
Proof.
  induction l as [|sr l IH]; intros Hnd; [reflexivity|]. cbn in *. inversion Hnd; subst.
  destruct (beq_spec (sr_suite sr) S) as [E|E].
  - f_equal. apply filter_none. intros x Hx. destruct (beq_spec (sr_suite x) S) as [E'|]; [|reflexivity].
    exfalso. apply H1. rewrite E, <- E'. now apply in_map.
  - now apply IH.
Qed.

Lemma runs_for_view S v :
  runs_for S (flat_map runs_of v) =
  flat_map (fun I => map (fun sr => snd (run_of I sr))
                         (filter (fun sr => beq (sr_suite sr) S) (si_runs I))) v.
Proof.
  unfold runs_for. induction v as [|I v IH]; [reflexivity|].
  cbn [flat_map]. rewrite filter_app, map_app, IH. f_equal.
  unfold runs_of. induction (si_runs I) as [|sr l IHl]; [reflexivity|].
  cbn [map filter]. cbn [run_of fst]. destruct (beq (sr_suite sr) S); cbn [map]; now rewrite IHl.
Qed.

Lemma runs_for_picked S v : one_run_per_suite v ->
  runs_for S (flat_map runs_of v) = picked sinv (pick_suite S) v.
Proof.
  intros H. rewrite runs_for_view. unfold picked.
  induction v as [|I v IH]; [reflexivity|]. cbn [flat_map]. rewrite IH.
  - f_equal. rewrite filter_find_nodup by (apply H; now left). unfold pick_suite.
    destruct (find _ _); reflexivity.
  - intros J HJ. apply H. now right.
Qed.

Lemma picked_perm S v vs : Permutation v vs ->
  Permutation (picked sinv (pick_suite S) v) (picked sinv (pick_suite S) vs).
Proof. intros H. unfold picked. now apply Permutation_flat_map. Qed.

Lemma picked_sorted S vs : StronglySorted time_gt vs ->
  StronglySorted (fun a b => (r_time b < r_time a)%Z) (picked sinv (pick_suite S) vs).
Proof.
  induction 1 as [|I vs Hs IH Hall]; [constructor|].
  unfold picked. cbn [flat_map]. fold (picked sinv (pick_suite S) vs).
  destruct (pick_suite S I) as [r|] eqn:Ep; [|exact IH]. cbn [app]. constructor; [exact IH|].
  rewrite Forall_forall in *. intros r' Hr'. apply picked_in in Hr'. destruct Hr' as [J [HJ Hp]].
  rewrite (pick_suite_time _ _ _ Ep), (pick_suite_time _ _ _ Hp). cbn. exact (Hall J HJ).
Qed.

Lemma picked_times_nodup S vs : NoDup (map si_time vs) ->
  NoDup (map r_time (picked sinv (pick_suite S) vs)).
Proof.
  induction vs as [|I vs IH]; intros Hnd; [constructor|]. cbn in Hnd. inversion Hnd; subst.
  unfold picked. cbn [flat_map]. fold (picked sinv (pick_suite S) vs).
  destruct (pick_suite S I) as [r|] eqn:Ep; [|now apply IH]. cbn [app map]. constructor; [|now apply IH].
  intros Hin. apply in_map_iff in Hin. destruct Hin as [r' [Et Hr']].
  apply picked_in in Hr'. destruct Hr' as [J [HJ Hp]].
  apply H1. rewrite (pick_suite_time _ _ _ Ep), (pick_suite_time _ _ _ Hp) in Et. cbn in Et.
  rewrite <- Et. now apply in_map.
Qed.

(* the row of a suite, under the guards *)
Lemma row_of_suite q b v vs S :
  qsorts_ok q -> Permutation v vs -> StronglySorted time_ge vs ->
  distinct_times v -> one_run_per_suite v ->
  walk b (map rinv_of vs) 0 (qs_runs q (runs_for S (flat_map runs_of v))) [] = RowOk (spec_row vs S).
Proof.
  intros [_ [_ [Hq _]]] Hp Hs Hd Ho.
  assert (Hdv : NoDup (map si_time vs)).
  { eapply Permutation_NoDup; [|exact Hd]. now apply Permutation_map. }
  assert (Hst : StronglySorted time_gt vs) by (apply (ssorted_strict si_time); assumption).
  rewrite runs_for_picked by exact Ho.
  assert (Hruns : qs_runs q (picked sinv (pick_suite S) v) = picked sinv (pick_suite S) vs).
  { destruct (Hq (picked sinv (pick_suite S) v)) as [Hperm Hsorted].
    apply (ssorted_perm_unique run (fun a c => (r_time c < r_time a)%Z)).
    - intros a. lia.
    - intros a c d. lia.
    - apply (ssorted_strict r_time).
      + eapply ssorted_impl; [|exact Hsorted]. intros a c _ _ H. unfold run_le in H. now apply Z.leb_le.
      + eapply Permutation_NoDup; [apply Permutation_map; exact Hperm|].
        apply picked_times_nodup. exact Hd.
    - now apply picked_sorted.
    - eapply perm_trans; [apply Permutation_sym; exact Hperm|]. now apply picked_perm. }
  rewrite Hruns, walk_eq. cbn [skipn].
  rewrite (walk_s_sorted sinv rinv_of (pick_suite S) (pick_suite_time S)).
  - cbn [app]. unfold spec_row. f_equal. f_equal. apply map_ext. intros I. apply cell_of_pick.
  - eapply ssorted_impl; [|exact Hst]. intros a c _ _ H. exact H.
Qed.

(* ---- sort_suites ---- *)

Lemma filter3_perm {A} (f g : A -> bool) l :
  Permutation l (filter f l ++ filter (fun x => negb (f x) && negb (g x)) l
                 ++ filter (fun x => negb (f x) && g x) l).
Proof.
  induction l as [|x l IH]; [constructor|]. cbn [filter].
  destruct (f x); cbn [negb andb].
  - cbn [app]. now apply perm_skip.
  - destruct (g x); cbn [negb].
    + rewrite app_assoc. apply Permutation_cons_app. now rewrite <- app_assoc.
    + apply Permutation_cons_app. exact IH.
Qed.

Lemma sort_suites_perm q ss : qsorts_ok q -> Permutation ss (sort_suites q ss).
Proof.
  intros [_ [_ [_ Hq]]]. unfold sort_suites.
  eapply perm_trans; [apply (filter3_perm (fun s => Nat.ltb 0 (s_fail s))
                                          (fun s => prefixb nonregress_prefix (s_name s)))|].
  repeat apply Permutation_app; apply Hq.
Qed.

Lemma ssorted_app {A} (R : A -> A -> Prop) l1 l2 :
  StronglySorted R l1 -> StronglySorted R l2 -> (forall a b, In a l1 -> In b l2 -> R a b) ->
  StronglySorted R (l1 ++ l2).
Proof.
  induction 1 as [|x l1 Hs IH Hall]; intros H2 Hc; cbn; [exact H2|]. constructor.
  - apply IH; [exact H2|]. intros a b Ha Hb. apply Hc; [now right|exact Hb].
  - rewrite Forall_forall in *. intros y Hy. apply in_app_or in Hy as [Hy|Hy].
    + now apply Hall.
    + apply Hc; [now left|exact Hy].
Qed.

Lemma nfail_app a b : nfail (a ++ b) = (nfail a + nfail b)%nat.
Proof. unfold nfail. now rewrite filter_app, app_length. Qed.

Lemma fail_spec S v : nfail (runs_for S (flat_map runs_of v)) = spec_fail v S.
Proof.
  rewrite runs_for_view. unfold spec_fail, all_runs.
  induction v as [|I v IH]; [reflexivity|].
  cbn [flat_map]. rewrite nfail_app, filter_app, app_length, IH. f_equal.
  induction (si_runs I) as [|sr l IHl]; [reflexivity|]. cbn [filter].
  destruct (beq (sr_suite sr) S); cbn [andb map]; [|exact IHl].
  change (nfail (?x :: ?l)) with (nfail ([x] ++ l)). rewrite nfail_app, IHl.
  unfold nfail at 1. cbn [filter run_of snd r_status].
  destruct (status_failure (srun_status sr)); reflexivity.
Qed.

Lemma names_of_runs v : map fst (flat_map runs_of v) = map sr_suite (all_runs v).
Proof.
  unfold all_runs. induction v as [|I v IH]; [reflexivity|]. cbn [flat_map].
  rewrite !map_app, IH. f_equal. unfold runs_of. rewrite map_map. reflexivity.
Qed.

Lemma dedup_in x l : In x (dedup l) <-> In x l.
Proof.
  induction l as [|y l IH]; [tauto|]. cbn. rewrite filter_In, IH.
  destruct (beq_spec x y) as [->|E]; cbn; [tauto|]. split.
  - intros [->|[H _]]; tauto.
  - intros [->|H]; [tauto|]. right. split; [exact H|reflexivity].
Qed.

Lemma dedup_nodup l : NoDup (dedup l).
Proof.
  induction l as [|y l IH]; [constructor|]. cbn. constructor.
  - rewrite filter_In. intros [_ H]. now rewrite beq_refl in H.
  - now apply NoDup_filter.
Qed.

Section Rows.
  Variable q : qsorts.
  Hypothesis q_ok : qsorts_ok q.
  Variable v : list sinv.
  Let nrs := flat_map runs_of v.
  Let ss := fold_left add_run nrs [].

  Lemma ss_inv : suites_inv ss nrs.
  Proof. apply suites_inv_all. Qed.

  Lemma ss_fail s : In s ss -> s_fail s = spec_fail v (s_name s).
  Proof.
    intros H. destruct ss_inv as [_ [He _]]. destruct (He s H) as [Hr [Hf _]].
    rewrite Hf, Hr. apply fail_spec.
  Qed.

  Lemma ss_names_perm : Permutation (map s_name ss) (spec_suites v).
  Proof.
    destruct ss_inv as [Hnd [_ Hn]]. apply NoDup_Permutation; [exact Hnd|apply dedup_nodup|].
    intros n. unfold spec_suites. rewrite dedup_in, Hn. unfold nrs. now rewrite names_of_runs.
  Qed.

  Lemma sorted_names_perm : Permutation (map s_name (sort_suites q ss)) (spec_suites v).
  Proof.
    eapply perm_trans; [|exact ss_names_perm].
    apply Permutation_map, Permutation_sym, sort_suites_perm, q_ok.
  Qed.

  Lemma sorted_names_nodup : NoDup (map s_name (sort_suites q ss)).
  Proof.
    eapply Permutation_NoDup; [apply Permutation_sym, sorted_names_perm|apply dedup_nodup].
  Qed.

  Definition grp (s : suite) : nat :=
    if Nat.ltb 0 (s_fail s) then 0%nat
    else if prefixb nonregress_prefix (s_name s) then 2%nat else 1%nat.

  Lemma grp_spec s : In s ss -> grp s = spec_group v (s_name s).
  Proof. intros H. unfold grp, spec_group. now rewrite (ss_fail s H). Qed.

  Lemma part_sorted (f : suite -> bool) g :
    (forall s, f s = true -> grp s = g) ->
    StronglySorted (fun a b => row_le v a b = true) (map s_name (qs_suites q (filter f ss))).
  Proof.
    intros Hg. destruct q_ok as [_ [_ [_ Hq]]]. destruct (Hq (filter f ss)) as [Hp Hs].
    apply ssorted_map. eapply ssorted_impl; [|exact Hs]. intros a b Ha Hb Hab. cbv beta in Hab.
    apply (Permutation_in _ (Permutation_sym Hp)), filter_In in Ha.
    apply (Permutation_in _ (Permutation_sym Hp)), filter_In in Hb.
    destruct Ha as [Ha Hfa], Hb as [Hb Hfb].
    unfold row_le. rewrite <- (grp_spec a Ha), <- (grp_spec b Hb), (Hg a Hfa), (Hg b Hfb).
    rewrite Nat.ltb_irrefl. rewrite <- (ss_fail a Ha), <- (ss_fail b Hb).
    unfold suite_le in Hab.
    destruct (Nat.ltb (s_fail a) (s_fail b)); [discriminate|].
    destruct (Nat.ltb (s_fail b) (s_fail a)); [reflexivity|exact Hab].
  Qed.

  Lemma in_part (f : suite -> bool) s :
    In s (qs_suites q (filter f ss)) -> In s ss /\ f s = true.
  Proof.
    intros H. destruct q_ok as [_ [_ [_ Hq]]]. destruct (Hq (filter f ss)) as [Hp _].
    apply (Permutation_in _ (Permutation_sym Hp)), filter_In in H. exact H.
  Qed.

  Lemma rows_sorted :
    StronglySorted (fun a b => row_le v a b = true) (map s_name (sort_suites q ss)).
  Proof.
    unfold sort_suites. rewrite !map_app.
    assert (G0 : forall s, Nat.ltb 0 (s_fail s) = true -> grp s = 0%nat).
    { intros s H. unfold grp. now rewrite H. }
    assert (G1 : forall s, negb (Nat.ltb 0 (s_fail s)) && negb (prefixb nonregress_prefix (s_name s)) = true ->
                           grp s = 1%nat).
    { intros s H. apply andb_true_iff in H as [H1 H2]. unfold grp.
      apply negb_true_iff in H1, H2. now rewrite H1, H2. }
    assert (G2 : forall s, negb (Nat.ltb 0 (s_fail s)) && prefixb nonregress_prefix (s_name s) = true ->
                           grp s = 2%nat).
    { intros s H. apply andb_true_iff in H as [H1 H2]. unfold grp.
      apply negb_true_iff in H1. now rewrite H1, H2. }
    assert (Hcross : forall f1 f2 g1 g2 a b,
              (forall s, f1 s = true -> grp s = g1) -> (forall s, f2 s = true -> grp s = g2) ->
              (g1 < g2)%nat ->
              In a (map s_name (qs_suites q (filter f1 ss))) ->
              In b (map s_name (qs_suites q (filter f2 ss))) -> row_le v a b = true).
    { intros f1 f2 g1 g2 a b H1 H2 Hlt Ha Hb.
      apply in_map_iff in Ha. destruct Ha as [sa [<- Ha]]. apply in_part in Ha. destruct Ha as [Ha Hfa].
      apply in_map_iff in Hb. destruct Hb as [sb [<- Hb]]. apply in_part in Hb. destruct Hb as [Hb Hfb].
      unfold row_le. rewrite <- (grp_spec sa Ha), <- (grp_spec sb Hb), (H1 sa Hfa), (H2 sb Hfb).
      apply Nat.ltb_lt in Hlt. now rewrite Hlt. }
    apply ssorted_app; [eapply part_sorted, G0| |].
    - apply ssorted_app; [eapply part_sorted, G1|eapply part_sorted, G2|].
      intros a b. apply (Hcross _ _ 1%nat 2%nat); auto.
    - intros a b Ha Hb. apply in_app_or in Hb as [Hb|Hb].
      + apply (Hcross _ _ 0%nat 1%nat _ _ G0 G1); auto.
      + apply (Hcross _ _ 0%nat 2%nat _ _ G0 G2); auto.
  Qed.

  (* the rows of the page, under the guards *)
  Lemma rows_cells b vs :
    Permutation v vs -> StronglySorted time_ge vs -> distinct_times v -> one_run_per_suite v ->
    forall s, In s ss ->
      walk b (map rinv_of vs) 0 (qs_runs q (s_runs s)) [] = RowOk (spec_row vs (s_name s)).
  Proof.
    intros Hp Hs Hd Ho s Hin. destruct ss_inv as [_ [He _]]. destruct (He s Hin) as [Hr _].
    rewrite Hr. now apply row_of_suite.
  Qed.
End Rows.

(* ---- the page ---- *)

Lemma page_shape q inp pg : qsorts_ok q -> run_html q inp = Some pg ->
  exists v vs, view (walk_dirs q) inp = Some v /\ inp <> [] /\
    Permutation v vs /\ StronglySorted time_ge vs /\
    p_cols pg = map (fun I => render_column (rinv_of I)) vs /\
    p_rows pg = map (render_suite q (map rinv_of vs))
                    (sort_suites q (fold_left add_run (flat_map runs_of v) [])).
Proof.
  intros Hq H. apply run_html_view in H. destruct H as [v [Hv [Hne Hpg]]].
  destruct (cols_of_view q v Hq) as [vs [He [Hp Hs]]].
  exists v, vs. repeat split; try assumption.
  - rewrite Hpg. unfold render. cbn [p_cols st_invs]. rewrite He, map_map. reflexivity.
  - rewrite Hpg. unfold render. cbn [p_rows st_invs st_suites]. now rewrite He.
Qed.

Lemma trim_cells_nth (l : list cell) j : nth j (trim_cells l) None = nth j l None.
Proof.
  revert j. induction l as [|c l IH]; intros j; [reflexivity|]. cbn [trim_cells].
  destruct c as [x|].
  - destruct j; cbn; [reflexivity|apply IH].
  - destruct (trim_cells l) eqn:E.
    + destruct j; cbn; [reflexivity|]. rewrite <- IH. now destruct j.
    + destruct j; cbn; [reflexivity|apply IH].
Qed.

Lemma trim_cells_length (l : list cell) : (List.length (trim_cells l) <= List.length l)%nat.
Proof.
  induction l as [|c l IH]; [cbn; lia|]. cbn [trim_cells].
  destruct c; [cbn; lia|]. destruct (trim_cells l); cbn in *; lia.
Qed.

Lemma spec_cell_ran S I : spec_cell S I <> None <-> ran_in S I.
Proof.
  unfold spec_cell, ran_in. destruct (find _ _) as [sr|] eqn:E.
  - apply find_some in E. destruct E as [Hin He]. apply beq_eq in He. split; [|discriminate].
    intros _. rewrite <- He. now apply in_map.
  - split; [congruence|]. intros Hin. apply in_map_iff in Hin. destruct Hin as [sr [<- Hsr]].
    apply (find_none _ _ E) in Hsr. now rewrite beq_refl in Hsr.
Qed.

Lemma spec_cell_run S I st href : spec_cell S I = Some (st, href) ->
  exists sr, In sr (si_runs I) /\ sr_suite sr = S /\
             st = spec_status (sr_exit sr) (sr_content sr) /\
             href = pjoin (pjoin (si_arch I) (si_date I)) (sr_log sr).
Proof.
  unfold spec_cell. destruct (find _ _) as [sr|] eqn:E; [|discriminate].
  apply find_some in E. destruct E as [Hin He]. apply beq_eq in He.
  intros H. injection H as <- <-. exists sr. repeat split; assumption.
Qed.

(* the matrix of the page under the guards: every row is the specified one *)
Lemma matrix_partial q inp pg : qsorts_ok q -> run_html q inp = Some pg ->
  exists v vs, view (walk_dirs q) inp = Some v /\ Permutation v vs /\ StronglySorted time_ge vs /\
    p_cols pg = map (fun I => render_column (rinv_of I)) vs /\
    (distinct_times v -> one_run_per_suite v ->
     forall S row, In (S, row) (p_rows pg) -> row = RowOk (spec_row vs S)).
Proof.
  intros Hq H. destruct (page_shape q inp pg Hq H) as [v [vs [Hv [_ [Hp [Hs [Hc Hr]]]]]]].
  exists v, vs. repeat split; try assumption.
  intros Hd Ho S row Hin. rewrite Hr in Hin. apply in_map_iff in Hin. destruct Hin as [s [He Hin]].
  rewrite render_suite_eq in He. injection He as <- <-.
  apply (Permutation_in _ (Permutation_sym (sort_suites_perm q _ Hq))) in Hin.
  apply (rows_cells q Hq v); assumption.
Qed.

Lemma walk_s_bounded rest : forall runs acc, exists cells, walk_s true rest runs acc = RowOk cells.
Proof.
  induction rest as [|c rest IH]; intros runs acc; cbn.
  - destruct runs; eauto.
  - destruct runs as [|r runs]; [eauto|]. destruct (r_time r <? ri_time c)%Z; apply IH.
Qed.

Lemma walk_bounded cols i runs acc : exists cells, walk true cols i runs acc = RowOk cells.
Proof. rewrite walk_eq. apply walk_s_bounded. Qed.

(* ---- pass rate ---- *)

Lemma rate_int_spec total fail :
  rate_int (Z.of_nat total) (Z.of_nat fail) = spec_rate total fail.
Proof.
  unfold rate_int, spec_rate. destruct total as [|n]; [reflexivity|].
  cbn [Nat.eqb]. destruct (Z.ltb_spec 0 (Z.of_nat (S n))); [|lia].
  f_equal. lia.
Qed.

Lemma column_rate I :
  c_rate (render_column (rinv_of I)) =
  render_Z (rate_of (Z.of_nat (si_total I)) (Z.of_nat (si_fail I))) ++ [PERCENT].
Proof. reflexivity. Qed.

Lemma column_ident I :
  c_arch (render_column (rinv_of I)) = si_arch I /\ c_date (render_column (rinv_of I)) = si_date I.
Proof. split; reflexivity. Qed.

(* ---- the statements of Properties_C14.v ---- *)

Lemma nth_map_error {A B} (f : A -> B) l j x d : nth_error l j = Some x -> nth j (map f l) d = f x.
Proof.
  revert j. induction l as [|y l IH]; intros [|j] H; cbn in *; try discriminate.
  - now injection H as ->.
  - now apply IH.
Qed.

Definition cells_correct (vs : list sinv) (S : bytes) (cells : list cell) : Prop :=
  (List.length cells <= List.length vs)%nat /\
  forall j I, nth_error vs j = Some I ->
    (nth j cells None <> None <-> ran_in S I) /\
    (forall st href, nth j cells None = Some (st, href) ->
       exists sr, In sr (si_runs I) /\ sr_suite sr = S /\
                  st = spec_status (sr_exit sr) (sr_content sr) /\
                  href = pjoin (pjoin (si_arch I) (si_date I)) (sr_log sr)).

Lemma spec_row_correct vs S : cells_correct vs S (spec_row vs S).
Proof.
  unfold spec_row. split.
  - eapply Nat.le_trans; [apply trim_cells_length|]. now rewrite map_length.
  - intros j I Hj. rewrite trim_cells_nth, (nth_map_error _ _ _ _ _ Hj). split.
    + apply spec_cell_ran.
    + apply spec_cell_run.
Qed.

Definition page_of_view (q : qsorts) (inp : input) (pg : page) (v vs : list sinv) : Prop :=
  view (walk_dirs q) inp = Some v /\ Permutation v vs /\ StronglySorted time_ge vs /\
  p_cols pg = map (fun I => render_column (rinv_of I)) vs.

Lemma columns_sorted q inp pg : qsorts_ok q -> run_html q inp = Some pg ->
  exists v vs, page_of_view q inp pg v vs /\
    List.length (p_cols pg) = List.length v /\
    (forall j I, nth_error vs j = Some I ->
       exists c, nth_error (p_cols pg) j = Some c /\ c_arch c = si_arch I /\ c_date c = si_date I /\
                 c_dmesg c = pjoin (pjoin (si_arch I) (si_date I)) name_dmesg) /\
    (forall i j I J, (i < j)%nat -> nth_error vs i = Some I -> nth_error vs j = Some J ->
       (si_time J <= si_time I)%Z).
Proof.
  intros Hq H. destruct (page_shape q inp pg Hq H) as [v [vs [Hv [_ [Hp [Hs [Hc _]]]]]]].
  exists v, vs. split; [repeat split; assumption|]. split; [|split].
  - rewrite Hc, map_length. symmetry. now apply Permutation_length.
  - intros j I Hj. exists (render_column (rinv_of I)). split; [|repeat split].
    rewrite Hc. exact (map_nth_error (fun I => render_column (rinv_of I)) j vs Hj).
  - intros i j I J Hij Hi Hj. clear - Hs Hij Hi Hj. revert i j Hij Hi Hj.
    induction Hs as [|x l Hs IH Hall]; intros i j Hij Hi Hj; [destruct i; discriminate|].
    destruct j as [|j]; [lia|]. cbn in Hj. destruct i as [|i].
    + cbn in Hi. injection Hi as ->. rewrite Forall_forall in Hall. apply Hall. eapply nth_error_In, Hj.
    + cbn in Hi. apply (IH i j); [lia|assumption|assumption].
Qed.

Lemma cells_partial q inp pg : qsorts_ok q -> run_html q inp = Some pg ->
  exists v vs, page_of_view q inp pg v vs /\
    (distinct_times v -> one_run_per_suite v ->
     forall S row, In (S, row) (p_rows pg) ->
       exists cells, row = RowOk cells /\ cells_correct vs S cells).
Proof.
  intros Hq H. destruct (matrix_partial q inp pg Hq H) as [v [vs [Hv [Hp [Hs [Hc Hr]]]]]].
  exists v, vs. split; [repeat split; assumption|].
  intros Hd Ho S row Hin. exists (spec_row vs S). split; [now apply Hr|apply spec_row_correct].
Qed.

Lemma rows_order q inp pg : qsorts_ok q -> run_html q inp = Some pg ->
  exists v, view (walk_dirs q) inp = Some v /\
    Permutation (map fst (p_rows pg)) (spec_suites v) /\ NoDup (map fst (p_rows pg)) /\
    StronglySorted (fun S T => row_le v S T = true) (map fst (p_rows pg)).
Proof.
  intros Hq H. destruct (page_shape q inp pg Hq H) as [v [vs [Hv [_ [_ [_ [_ Hr]]]]]]].
  exists v. split; [exact Hv|].
  assert (Hn : map fst (p_rows pg) = map s_name (sort_suites q (fold_left add_run (flat_map runs_of v) []))).
  { rewrite Hr, map_map. reflexivity. }
  rewrite Hn. split; [now apply sorted_names_perm|]. split; [now apply sorted_names_nodup|now apply rows_sorted].
Qed.

(* a suite that failed somewhere is never below one that failed nowhere; a
   suite outside the regress directory that failed nowhere comes after all others *)
Lemma failing_first q inp pg : qsorts_ok q -> run_html q inp = Some pg ->
  exists v, view (walk_dirs q) inp = Some v /\
    forall a S b T c, map fst (p_rows pg) = a ++ S :: b ++ T :: c ->
      ((0 < spec_fail v T)%nat -> (0 < spec_fail v S)%nat) /\
      ((0 < spec_fail v T)%nat -> (spec_fail v T <= spec_fail v S)%nat) /\
      (spec_fail v S = 0%nat -> prefixb nonregress_prefix S = true ->
         spec_fail v T = 0%nat /\ prefixb nonregress_prefix T = true) /\
      (spec_fail v S = spec_fail v T ->
       prefixb nonregress_prefix S = prefixb nonregress_prefix T -> strcmp S T = Lt).
Proof.
  intros Hq H. destruct (rows_order q inp pg Hq H) as [v [Hv [_ [Hnd Hs]]]].
  exists v. split; [exact Hv|]. intros a S b T c E. rewrite E in Hs, Hnd.
  assert (Hle : row_le v S T = true).
  { clear - Hs. induction a as [|x a IH]; cbn in Hs; inversion Hs; subst.
    - rewrite Forall_forall in H2. apply H2. apply in_or_app. right. now left.
    - now apply IH. }
  assert (Hne : S <> T).
  { intros ->. apply NoDup_remove_2 in Hnd. apply Hnd. apply in_or_app. right.
    apply in_or_app. right. now left. }
  assert (Hrow : (spec_group v S < spec_group v T)%nat \/
                 (spec_group v S = spec_group v T /\
                  ((spec_fail v T < spec_fail v S)%nat \/
                   (spec_fail v S = spec_fail v T /\ strcmp S T <> Gt)))).
  { unfold row_le in Hle.
    destruct (Nat.ltb_spec (spec_group v S) (spec_group v T)); [now left|].
    destruct (Nat.ltb_spec (spec_group v T) (spec_group v S)); [discriminate|].
    right. split; [lia|].
    destruct (Nat.ltb_spec (spec_fail v T) (spec_fail v S)); [now left|].
    destruct (Nat.ltb_spec (spec_fail v S) (spec_fail v T)); [discriminate|].
    right. split; [lia|]. intros E'. now rewrite E' in Hle. }
  clear Hle Hs Hnd E.
  unfold spec_group in Hrow.
  destruct (Nat.ltb_spec 0 (spec_fail v S)) as [HS|HS]; destruct (Nat.ltb_spec 0 (spec_fail v T)) as [HT|HT];
    destruct (prefixb nonregress_prefix S) eqn:PS; destruct (prefixb nonregress_prefix T) eqn:PT;
    (split; [intros; lia|]); (split; [intros; lia|]);
    (split; [intros; try lia; try discriminate; try (split; [lia|reflexivity])|]);
    (intros Hf Hp; first [discriminate Hp | lia |
         destruct Hrow as [Hrow|[_ [Hrow|[_ Hrow]]]]; try lia;
         destruct (strcmp S T) eqn:EC; [exfalso; apply Hne, (LsProofs.strcmp_eq _ _ EC)|reflexivity|congruence]]).
Qed.

(* the pass rate *)
Definition rate_holds : Prop :=
  forall q inp pg, qsorts_ok q -> run_html q inp = Some pg ->
  exists v vs, page_of_view q inp pg v vs /\
    map c_rate (p_cols pg) =
    map (fun I => render_Z (spec_rate (si_total I) (si_fail I)) ++ [PERCENT]) vs.

Lemma rate_holds_if_integer : rate_is_integer = true -> rate_holds.
Proof.
  intros Hi q inp pg Hq H. destruct (page_shape q inp pg Hq H) as [v [vs [Hv [_ [Hp [Hs [Hc _]]]]]]].
  exists v, vs. split; [repeat split; assumption|].
  rewrite Hc, map_map. apply map_ext. intros I. rewrite column_rate. unfold rate_of. rewrite Hi.
  now rewrite rate_int_spec.
Qed.

Lemma rate_float_trivial total :
  rate_float 0 0 = 0%Z /\ ((0 < total)%Z -> rate_float total 0 = 100%Z).
Proof.
  split; [reflexivity|]. intros H. unfold rate_float. apply Z.ltb_lt in H. rewrite H. reflexivity.
Qed.

(* enumeration of the small cases: the float form is right or one too small,
   and it can only be one too small where the exact quotient is an integer *)
Definition rate_float_class (total fail : nat) : bool :=
  let t := Z.of_nat total in let f := Z.of_nat fail in
  (rate_float t f =? spec_rate total fail)%Z ||
  ((rate_float t f =? spec_rate total fail - 1)%Z && ((100 * (t - f)) mod t =? 0)%Z).

Lemma rate_float_small : forallb (fun t => forallb (fun f => rate_float_class t f) (seq 0 (S t))) (seq 1 64) = true.
Proof. vm_compute. reflexivity. Qed.

Lemma rate_float_upto_64 total fail : (1 <= total <= 64)%nat -> (fail <= total)%nat ->
  rate_float (Z.of_nat total) (Z.of_nat fail) = spec_rate total fail \/
  (rate_float (Z.of_nat total) (Z.of_nat fail) = (spec_rate total fail - 1)%Z /\
   ((100 * (Z.of_nat total - Z.of_nat fail)) mod Z.of_nat total = 0)%Z).
Proof.
  intros Ht Hf. pose proof rate_float_small as H. rewrite forallb_forall in H.
  specialize (H total). rewrite in_seq in H. specialize (H ltac:(lia)).
  rewrite forallb_forall in H. specialize (H fail). rewrite in_seq in H. specialize (H ltac:(lia)).
  unfold rate_float_class in H. apply orb_true_iff in H as [H|H].
  - left. now apply Z.eqb_eq.
  - right. apply andb_true_iff in H as [H1 H2]. split; now apply Z.eqb_eq.
Qed.

(* the column pointer *)
Definition no_oob : Prop :=
  forall q inp pg S row, run_html q inp = Some pg -> In (S, row) (p_rows pg) ->
    exists cells, row = RowOk cells.

Lemma no_oob_if_bounded : walk_is_bounded = true -> no_oob.
Proof.
  intros Hb q inp pg S row H Hin.
  unfold run_html in H. destruct inp as [|a inp]; [discriminate|].
  destruct (parse_all q (a :: inp) _) as [st|]; [|discriminate]. injection H as <-.
  unfold render in Hin. cbn [p_rows] in Hin. apply in_map_iff in Hin. destruct Hin as [s [He _]].
  rewrite render_suite_eq, Hb in He. injection He as _ <-. apply walk_bounded.
Qed.

Lemma no_oob_partial q inp pg : qsorts_ok q -> run_html q inp = Some pg ->
  exists v, view (walk_dirs q) inp = Some v /\
    (distinct_times v -> one_run_per_suite v ->
     forall S row, In (S, row) (p_rows pg) -> exists cells, row = RowOk cells).
Proof.
  intros Hq H. destruct (cells_partial q inp pg Hq H) as [v [vs [[Hv _] Hr]]].
  exists v. split; [exact Hv|]. intros Hd Ho S row Hin.
  destruct (Hr Hd Ho S row Hin) as [cells [-> _]]. now exists cells.
Qed.

(* ---- the oracle says what it is meant to say ---- *)

Lemma clause_nil (b : bool) (k : N) rest : (if b then [] else [k]) ++ rest = [] -> b = true /\ rest = [].
Proof. destruct b; cbn; [auto|discriminate]. Qed.

Lemma spec_ok_reject inp o :
  spec_ok inp o = true -> view (walk_dirs exec_qsorts) inp = None -> o_exit o = 1.
Proof.
  unfold spec_ok, spec_check. intros H Hv. rewrite Hv in H.
  destruct (N.eqb_spec (o_exit o) 1); [assumption|discriminate].
Qed.

Lemma spec_ok_sound inp o v :
  spec_ok inp o = true -> view (walk_dirs exec_qsorts) inp = Some v ->
  inp <> [] -> nodupb (map sinv_dir v) = true ->
  o_exit o = 0 /\
  exists cols, all_some (map (find_inv v) (o_cols o)) = Some cols /\
    List.length cols = List.length v /\ nodupb (map sinv_dir cols) = true /\
    sorted_desc (map si_time cols) = true /\
    forallb (fun p => column_ok (fst p) (snd p)) (combine cols (o_cols o)) = true /\
    forallb (fun p => rate_ok (fst p) (snd p)) (combine cols (o_cols o)) = true /\
    list_eqb beq (map or_suite (o_rows o)) (isort (row_le v) (spec_suites v)) = true /\
    (forall r, In r (o_rows o) ->
       beq (or_href r) (suite_href (or_suite r)) = true /\
       list_all2 ocell_ok (spec_row cols (or_suite r)) (or_cells r) = true /\
       (List.length (or_cells r) <= List.length cols)%nat) /\
    tree_ok (spec_tree v) (o_tree o) = true.
Proof.
  unfold spec_ok, spec_check. intros H Hv Hne Hnd. rewrite Hv in H.
  destruct inp as [|a inp]; [congruence|]. cbn [orb] in H. rewrite Hnd in H. cbn [negb] in H.
  destruct (N.eqb_spec (o_exit o) 0) as [E0|E0]; cbn [negb] in H; [|discriminate].
  split; [exact E0|].
  destruct (all_some (map (find_inv v) (o_cols o))) as [cols|]; [|discriminate].
  exists cols. split; [reflexivity|].
  destruct (_ ++ _) eqn:E in H; [|discriminate]. clear H.
  apply clause_nil in E as [H2 E]. apply clause_nil in E as [H3 E]. apply clause_nil in E as [H4 E].
  apply clause_nil in E as [H5 E]. apply clause_nil in E as [H6 E]. apply clause_nil in E as [H7 E].
  assert (H8 : tree_ok (spec_tree v) (o_tree o) = true) by (destruct (tree_ok _ _); [reflexivity|discriminate]).
  apply andb_true_iff in H2 as [H2 H2c]. apply andb_true_iff in H2 as [H2a H2b].
  apply andb_true_iff in H5 as [H5a H5b].
  repeat split; try assumption.
  - now apply Nat.eqb_eq.
  - rewrite forallb_forall in H5b. now apply H5b.
  - rewrite forallb_forall in H6. now apply H6.
  - rewrite forallb_forall in H7. apply Nat.leb_le. now apply H7.
Qed.
