(* HtmlTie.v - what the translator (harness/t_html.py -> gen/Gen_Html.v) found
   in regress-html.c, checked against what the full theorems of property C14
   need: render_rate is the integer form and render_suite bounds its column
   pointer (the repairs of defects D8 and D9), with end = ri + VECTOR_LENGTH and the
   loop test ri < end (HtmlProofs.walk_params_sane).  These lemmas stop compiling when
   either repair is taken out again; the check then also replays
   corpus/C14/00_d8_two_of_five.json, 03_d9_oob_one_invocation.json and
   04_d9_oob_full_vector.json on the real binary. *)
From Robsd Require Import Html.HtmlProofs.
From RobsdGen Require Import Gen_Html.

Lemma rate_is_fixed : rate_is_integer = true.
Proof. reflexivity. Qed.

Lemma walk_is_fixed : walk_is_bounded = true.
Proof. reflexivity. Qed.

Lemma rate_full : rate_holds.
Proof. exact (rate_holds_if_integer rate_is_fixed). Qed.

Lemma no_oob_full : no_oob.
Proof. exact (no_oob_if_bounded walk_is_fixed). Qed.

Lemma variants : rate_is_integer = true /\ walk_is_bounded = true.
Proof. exact (conj rate_is_fixed walk_is_fixed). Qed.

(* the end pointer of render_suite: end = ri + VECTOR_LENGTH(r->invocations), loop test ri < end *)
Lemma variants_full :
  rate_is_integer = true /\ walk_is_bounded = true /\ walk_end_extra = 0%Z /\ walk_end_strict = true.
Proof.
  split; [exact rate_is_fixed|]. split; [exact walk_is_fixed|].
  destruct walk_params_sane as [Hb|H]; [rewrite walk_is_fixed in Hb; discriminate|exact H].
Qed.
