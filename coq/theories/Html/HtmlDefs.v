(* HtmlDefs.v - executable model of robsd-regress-html: regress-html.c
   (regress_html_parse, parse_invocation, parse_run_log, create_regress_invocation,
   copy_files, copy_patches, find_suite, sort_suites, render_*, duration_delta,
   the three comparison functions, write_log), robsd-regress-html.c main,
   invocation.c (invocation_read / match_directory / invocation_alloc with
   INVOCATION_SORT_ASC / invocation_walk / invocation_find / invocation_has_tag).
   Definitions only.

   The step file parser is C01's model (Step/StepDefs.v parse_file, get_field,
   find_by_name), the log functions are C13's model (RegressLog/RLDefs.v parse,
   peek, trim).  The status table, the timeout exit code, the delta threshold,
   the "../" prefix, the file names and WHICH render_rate / render_suite the
   source contains come from the translator (gen/Gen_Html.v).

   libc's qsort is a parameter [q : qsorts] of the model (four instances, one
   per element type); [exec_qsorts] (insertion sort, stable - what glibc's
   merge sort does) is what the extracted driver runs.

   What the model returns for one command line: None for exit status 1, or the
   page: the header columns, the body rows (cells as rendered, left to right)
   and the output tree (directories and files in creation order).  index.html
   itself is compared as this matrix, not as bytes. *)
From Robsd Require Export Base.Bytes Base.Decimal Base.ISort Step.StepDefs RegressLog.RLDefs.
From Robsd Require Inv.LsDefs.
From RobsdGen Require Import Gen_Html Gen_Step.
From Coq Require Import String.
Local Open Scope N_scope.

Definition strcmp := LsDefs.strcmp.

(* ---- statuses (FOR_RUN_STATUSES; tied to Gen_Html.run_statuses in HtmlProofs) ---- *)

Inductive status := PASS | FAIL | XFAIL | XPASS | SKIP | NOTERM.

Definition all_statuses : list status := [PASS; FAIL; XFAIL; XPASS; SKIP; NOTERM].

Definition status_str (s : status) : bytes :=
  Eval vm_compute in
  match s with
  | PASS => bs "PASS" | FAIL => bs "FAIL" | XFAIL => bs "XFAIL"
  | XPASS => bs "XPASS" | SKIP => bs "SKIP" | NOTERM => bs "NOTERM"
  end.

(* is_run_status_failure *)
Definition status_failure (s : status) : bool :=
  match s with FAIL | XPASS | NOTERM => true | PASS | XFAIL | SKIP => false end.

Definition status_eqb (a b : status) : bool :=
  match a, b with
  | PASS, PASS | FAIL, FAIL | XFAIL, XFAIL | XPASS, XPASS | SKIP, SKIP | NOTERM, NOTERM => true
  | _, _ => false
  end.

(* ---- input: what the command line names ---- *)

(* one readdir(3) entry of an arch's robsd directory; for a directory the
   content of its step.csv (None: cannot be opened) and its other regular files *)
Record entry := mkentry {
  e_name : bytes;
  e_isdir : bool;
  e_step : option bytes;
  e_files : list (bytes * bytes);
}.

(* one "arch:path" argument *)
Record archarg := mkarch { a_arch : bytes; a_entries : list entry }.
Definition input := list archarg.

Fixpoint assoc {B} (k : bytes) (l : list (bytes * B)) : option B :=
  match l with
  | [] => None
  | (k', v) :: l' => if beq k' k then Some v else assoc k l'
  end.

(* the regular files of an invocation directory, step.csv included *)
Definition all_files (e : entry) : list (bytes * bytes) :=
  match e_step e with
  | Some c => (name_step_csv, c) :: e_files e
  | None => e_files e
  end.

(* ---- state (struct regress_html) ---- *)

Inductive delta := DNone | Faster | Slower.

Record rinv := mkrinv {           (* struct regress_invocation *)
  ri_arch : bytes;
  ri_date : bytes;
  ri_time : Z;
  ri_seconds : Z;
  ri_delta : delta;
  ri_total : nat;
  ri_fail : nat;
  ri_cvs : bool;
  ri_patches : nat;
}.

Record run := mkrun {             (* struct run *)
  r_log : bytes;                  (* arch/date/log: the link *)
  r_time : Z;
  r_exit : Z;
  r_status : status;
}.

Record suite := mksuite {         (* struct suite *)
  s_name : bytes;
  s_fail : nat;
  s_runs : list run;
}.

(* the output directory: path -> None (directory) | Some content, in creation order *)
Definition tree := list (bytes * option bytes).

Record state := mkstate {
  st_invs : list rinv;            (* r->invocations, in VECTOR_CALLOC order *)
  st_suites : list suite;         (* r->suites, in insertion order (MAP_ITERATE order) *)
  st_tree : tree;
}.

(* qsort(3), one instance per element type *)
Record qsorts := mkqs {
  qs_dirs : list entry -> list entry;
  qs_invs : list rinv -> list rinv;
  qs_runs : list run -> list run;
  qs_suites : list suite -> list suite;
}.

(* ---- the comparison functions, as "cmp(a, b) <= 0" ---- *)

(* directory_asc_cmp(a, b) = -strcmp(a->path, b->path); the paths share the directory *)
Definition dir_le (a b : entry) : bool :=
  match strcmp (e_name a) (e_name b) with Lt => false | _ => true end.

(* regress_invocation_cmp: descending by time *)
Definition inv_le (a b : rinv) : bool := (ri_time b <=? ri_time a)%Z.

(* run_cmp: descending by time *)
Definition run_le (a b : run) : bool := (r_time b <=? r_time a)%Z.

(* suite_cmp: descending by fail, then strcmp of the names *)
Definition suite_le (a b : suite) : bool :=
  if Nat.ltb (s_fail a) (s_fail b) then false
  else if Nat.ltb (s_fail b) (s_fail a) then true
  else match strcmp (s_name a) (s_name b) with Gt => false | _ => true end.

Definition exec_qsorts : qsorts :=
  mkqs (isort dir_le) (isort inv_le) (isort run_le) (isort suite_le).

(* ---- paths and the output tree ---- *)

Definition SLASH : N := 47.
Definition pjoin (a b : bytes) : bytes := a ++ SLASH :: b.

Definition tree_has (t : tree) (p : bytes) : bool := existsb (fun e => beq (fst e) p) t.

(* write_log: open(O_WRONLY | O_CREAT | O_EXCL); an existing path is left alone *)
Definition write_log (t : tree) (p c : bytes) : tree :=
  if tree_has t p then t else t ++ [(p, Some c)].

(* mkdir tolerating EEXIST *)
Definition mkdir_p (t : tree) (p : bytes) : tree :=
  if tree_has t p then t else t ++ [(p, None)].

(* mkdir failing on EEXIST *)
Definition mkdir_x (t : tree) (p : bytes) : option tree :=
  if tree_has t p then None else Some (t ++ [(p, None)]).

(* ---- invocation.c ---- *)

Definition hidden (name : bytes) : bool :=
  match name with c :: _ => c =? 46 | [] => false end.

(* invocation_read with match_directory: DT_DIR, not hidden, not <robsddir>/attic *)
Definition accepted (e : entry) : bool :=
  negb (hidden (e_name e)) && e_isdir e && negb (beq (e_name e) name_attic).

(* invocation_alloc(..., INVOCATION_SORT_ASC) then invocation_walk until NULL:
   sorted with directory_asc_cmp, popped from the end *)
Definition walk_dirs (q : qsorts) (es : list entry) : list entry :=
  rev (qs_dirs q (filter accepted es)).

(* strstr: first occurrence of [tag]; the byte before it and what follows it *)
Fixpoint find_first (tag : bytes) (prev : option N) (s : bytes) : option (option N * bytes) :=
  match s with
  | [] => if prefixb tag [] then Some (prev, []) else None
  | c :: s' => if prefixb tag s then Some (prev, skipn (List.length tag) s)
               else find_first tag (Some c) s'
  end.

(* invocation_has_tag on the content of the tags file *)
Definition has_tag (tag : bytes) (content : option bytes) : bool :=
  match content with
  | None => false
  | Some c =>
      match find_first tag None (cstr c) with
      | None => false
      | Some (prev, rest) =>
          match prev with None => true | Some p => p =? 32 end &&
          match rest with [] => true | x :: _ => (x =? 32) || (x =? 10) end
      end
  end.

(* invocation_find(directory, "src.diff.*"): fnmatch without flags - the prefix decides *)
Definition patches_of (e : entry) : list (bytes * bytes) :=
  filter (fun f => negb (hidden (fst f)) && prefixb patch_prefix (fst f)) (all_files e).

(* ---- parse_run_log ---- *)

Definition fl_xpassed := mkflags false false false true false.
Definition fl_xfailed := mkflags false false true false false.
Definition fl_skipped := mkflags false true false false false.
Definition fl_failures := mkflags true false true true false.      (* FAILED | XFAILED | XPASSED *)
Definition fl_skipped_nl (nl : bool) := mkflags false true false false nl.

Definition classify (exit : Z) (log : bytes) : status :=
  if (exit =? ex_timeout)%Z then NOTERM
  else if negb (exit =? 0)%Z then
    (if Nat.ltb 0 (peek fl_xpassed log) then XPASS else FAIL)
  else if Nat.ltb 0 (peek fl_xfailed log) then XFAIL
  else if Nat.ltb 0 (peek fl_skipped log) then SKIP
  else PASS.

(* what is written below the output directory for the run *)
Definition extract_log (st : status) (log : bytes) : bytes :=
  let '(nfail, bf1) := parse fl_failures log [] in
  let '(nskip, bf2) := parse (fl_skipped_nl (Nat.ltb 0 nfail)) log bf1 in
  if Nat.ltb 0 nfail then bf2
  else if negb (status_failure st) && Nat.ltb 0 nskip then bf2
  else trim log.                       (* regress_log_trim resets the buffer first *)

(* ---- parse_invocation ---- *)

Definition f_name := Eval vm_compute in bs "name".
Definition f_log := Eval vm_compute in bs "log".
Definition f_exit := Eval vm_compute in bs "exit".
Definition f_time := Eval vm_compute in bs "time".
Definition f_duration := Eval vm_compute in bs "duration".
Definition name_tags := Eval vm_compute in bs "tags".

Definition int_field (r : row) (name : bytes) : Z :=
  match get_field r name with Some (VInt z) => z | _ => 0%Z end.
Definition str_field (r : row) (name : bytes) : bytes :=
  match get_field r name with Some (VStr s) => s | _ => [] end.

(* is_regress_step: strchr(name, '/') != NULL *)
Definition is_regress_step (name : bytes) : bool := existsb (N.eqb SLASH) name.

(* duration_delta *)
Definition duration_delta (a b : Z) : delta :=
  let d := (a - b)%Z in
  let ab := if (d <? 0)%Z then (- d)%Z else d in
  if (ab <=? delta_threshold)%Z then DNone
  else if (d <? 0)%Z then Faster else Slower.

(* what access(2)/read(2) say about <directory>/<log> *)
Inductive logres := LogMissing | LogDir | LogFile (c : bytes).
Definition lookup_log (e : entry) (name : bytes) : logres :=
  match name with
  | [] => LogDir                        (* "<directory>/" *)
  | _ => match assoc name (all_files e) with
         | Some c => LogFile c
         | None => LogMissing
         end
  end.

(* the loop over the steps: the runs of this invocation in file order, each
   with its suite name; the copies of the logs *)
Fixpoint rows_loop (dir : bytes) (time : Z) (e : entry) (rows : list row)
    (acc : list (bytes * run)) (t : tree) : option (list (bytes * run) * tree) :=
  match rows with
  | [] => Some (acc, t)
  | r :: rows' =>
      let name := str_field r f_name in
      if negb (is_regress_step name) then rows_loop dir time e rows' acc t
      else
        let lg := str_field r f_log in
        match lookup_log e lg with
        | LogFile c =>
            let ex := int_field r f_exit in
            let st := classify ex c in
            let href := pjoin dir lg in
            rows_loop dir time e rows' (acc ++ [(name, mkrun href time ex st)])
                      (write_log t href (extract_log st c))
        | _ => None                     (* access fails, or nothing can be read *)
        end
  end.

Definition count_fail (rs : list (bytes * run)) : nat :=
  List.length (filter (fun nr => status_failure (r_status (snd nr))) rs).

(* find_suite + VECTOR_CALLOC(suite->runs) + suite->fail++ *)
Fixpoint add_run (ss : list suite) (nr : bytes * run) : list suite :=
  let '(name, r) := nr in
  let f := if status_failure (r_status r) then 1%nat else 0%nat in
  match ss with
  | [] => [mksuite name f [r]]
  | s :: ss' =>
      if beq (s_name s) name then mksuite (s_name s) (s_fail s + f) (s_runs s ++ [r]) :: ss'
      else s :: add_run ss' nr
  end.

Fixpoint write_all (t : tree) (dir : bytes) (fs : list (bytes * bytes)) : tree :=
  match fs with
  | [] => t
  | (n, c) :: fs' => write_all (write_log t (pjoin dir n) c) dir fs'
  end.

(* [prev]: duration of the previous invocation of the same arch argument, if
   any (regress_html_parse sets the delta right after parse_invocation) *)
Definition parse_invocation (arch : bytes) (prev : option Z) (e : entry) (st : state)
  : option (state * Z) :=
  match e_step e with
  | None => None                                            (* steps_parse: open fails *)
  | Some content =>
      match parse_file content with
      | None => None
      | Some [] => None                                     (* no steps found *)
      | Some ((first :: _) as rows) =>
          match find_by_name rows name_end with
          | None => None                                    (* end step not found *)
          | Some last =>
              let duration := int_field last f_duration in
              let time := int_field first f_time in
              let date := e_name e in
              let dir := pjoin arch date in
              (* create_regress_invocation *)
              let t1 := mkdir_p (st_tree st) arch in
              match mkdir_x t1 dir with
              | None => None
              | Some t2 =>
                  (* copy_files *)
                  let t3 := match assoc name_dmesg (all_files e) with
                            | Some c => write_log t2 (pjoin dir name_dmesg) c | None => t2 end in
                  let t4 := match assoc name_comment (all_files e) with
                            | Some c => write_log t3 (pjoin dir name_comment) c | None => t3 end in
                  let cvs := has_tag name_tag_cvs (assoc name_tags (all_files e)) in
                  (* copy_patches *)
                  match mkdir_x t4 (pjoin dir name_diff) with
                  | None => None
                  | Some t5 =>
                      let ps := patches_of e in
                      let t6 := write_all t5 (pjoin dir name_diff) ps in
                      match rows_loop dir time e rows [] t6 with
                      | None => None
                      | Some (rs, t7) =>
                          let dl := match prev with
                                    | Some p => duration_delta duration p
                                    | None => DNone end in
                          let ri := mkrinv arch date time duration dl (List.length rs) (count_fail rs)
                                           cvs (List.length ps) in
                          Some (mkstate (st_invs st ++ [ri]) (fold_left add_run rs (st_suites st)) t7,
                                duration)
                      end
                  end
              end
          end
      end
  end.

(* regress_html_parse: the loop over one arch's invocations *)
Fixpoint arch_loop (arch : bytes) (prev : option Z) (es : list entry) (st : state)
  : option state :=
  match es with
  | [] => Some st
  | e :: es' =>
      match parse_invocation arch prev e st with
      | None => None
      | Some (st', d) => arch_loop arch (Some d) es' st'
      end
  end.

(* main: the loop over the arguments *)
Fixpoint parse_all (q : qsorts) (inp : input) (st : state) : option state :=
  match inp with
  | [] => Some st
  | a :: inp' =>
      match arch_loop (a_arch a) None (walk_dirs q (a_entries a)) st with
      | None => None
      | Some st' => parse_all q inp' st'
      end
  end.

(* ---- render_rate ---- *)

(* IEEE 754 binary32 arithmetic with round-to-nearest-even on the values that
   occur (positive, far from the exponent limits), as exact rationals (n, d):
   [fround] maps a non-negative rational to the nearest value with a 24 bit
   significand *)
Local Open Scope Z_scope.

(* nearest integer to n/d, ties to even; n >= 0, d > 0 *)
Definition rne (n d : Z) : Z :=
  let qt := n / d in
  let r := n mod d in
  if 2 * r <? d then qt
  else if d <? 2 * r then qt + 1
  else if Z.even qt then qt else qt + 1.

(* floor(log2(n/d)); n, d > 0 *)
Definition ilog2 (n d : Z) : Z :=
  let k := Z.log2 n - Z.log2 d in
  if 0 <=? k then (if n <? d * 2 ^ k then k - 1 else k)
  else (if n * 2 ^ (- k) <? d then k - 1 else k).

Definition fround (x : Z * Z) : Z * Z :=
  let '(n, d) := x in
  if n <=? 0 then (0, 1)
  else
    let s := 23 - ilog2 n d in
    if 0 <=? s then (rne (n * 2 ^ s) d, 2 ^ s)
    else (rne n (d * 2 ^ (- s)) * 2 ^ (- s), 1).

Definition f_of_int (n : Z) : Z * Z := fround (n, 1).
Definition f_div (a b : Z * Z) : Z * Z := fround (fst a * snd b, snd a * fst b).
Definition f_sub (a b : Z * Z) : Z * Z := fround (fst a * snd b - fst b * snd a, snd a * snd b).
Definition f_mul (a b : Z * Z) : Z * Z := fround (fst a * fst b, snd a * snd b).
Definition f_trunc (a : Z * Z) : Z := fst a / snd a.      (* (int) of a non-negative value *)

(* float rate = 0; if (total > 0) rate = 1 - (fail / (float)total); (int)(rate * 100) *)
Definition rate_float (total fail : Z) : Z :=
  if 0 <? total then
    f_trunc (f_mul (f_sub (f_of_int 1) (f_div (f_of_int fail) (f_of_int total))) (f_of_int 100))
  else 0.

(* int rate = 0; if (total > 0) rate = (int)(((int64_t)(total - fail) * 100) / total) *)
Definition rate_int (total fail : Z) : Z :=
  if 0 <? total then ((total - fail) * 100) / total else 0.

Definition rate_of (total fail : Z) : Z :=
  if rate_is_integer then rate_int total fail else rate_float total fail.

Definition PERCENT : N := 37%N.
Definition render_rate (ri : rinv) : bytes :=
  render_Z (rate_of (Z.of_nat (ri_total ri)) (Z.of_nat (ri_fail ri))) ++ [PERCENT].

(* (int) of an int64_t *)
Definition to_int32 (z : Z) : Z := (z + 2147483648) mod 4294967296 - 2147483648.

Local Open Scope N_scope.

(* ---- rendering ---- *)

Record column := mkcolumn {
  c_rate : bytes;                        (* "80%" *)
  c_date : bytes;
  c_hours : Z; c_minutes : Z;            (* "%dh%dm" *)
  c_delta : delta;                       (* the arrow *)
  c_cvs : option bytes;                  (* link to the comment, or n/a *)
  c_patches : option (nat * bytes);      (* "patches (n)" and its link, or n/a *)
  c_arch : bytes;
  c_dmesg : bytes;                       (* link behind the architecture *)
}.

Definition render_column (ri : rinv) : column :=
  let dir := pjoin (ri_arch ri) (ri_date ri) in
  mkcolumn (render_rate ri) (ri_date ri)
    (to_int32 (Z.quot (ri_seconds ri) 3600)) (to_int32 (Z.quot (Z.rem (ri_seconds ri) 3600) 60))
    (ri_delta ri)
    (if ri_cvs ri then Some (pjoin dir name_comment) else None)
    (if Nat.ltb 0 (ri_patches ri) then Some (ri_patches ri, pjoin dir name_diff) else None)
    (ri_arch ri) (pjoin dir name_dmesg).

(* a cell as rendered: empty, or status + link *)
Definition cell := option (status * bytes).

Inductive rowres :=
| RowOk (cells : list cell)
| RowOOB (cells : list cell).   (* the column pointer was dereferenced at or beyond
                                   r->invocations + VECTOR_LENGTH: cells rendered until then *)

(* for (; ri->time > run->time; ri++) <td></td>   with ri = &invocations[i];
   checked access: [rest] = invocations[i..]; an empty rest is a read outside the vector.
   Returns the index reached, the cells, and whether the end was hit. *)
Fixpoint skip_from (rest : list rinv) (i : nat) (t : Z) (acc : list cell)
  : nat * list cell * bool :=
  match rest with
  | [] => (i, acc, true)
  | c :: rest' => if (t <? ri_time c)%Z then skip_from rest' (S i) t (acc ++ [None])
                  else (i, acc, false)
  end.

Definition skip_cols (cols : list rinv) (i : nat) (t : Z) (acc : list cell) :=
  skip_from (skipn i cols) i t acc.

(* the loop over the runs of render_suite as a checked walk - the reference the
   proofs use; [bounded]: the end test of findings/D9_bound.diff.  What the
   program's own pointer arithmetic does is [walk_ix] below; HtmlProofs.walk_ix_exact
   / walk_ix_none relate the two *)
Fixpoint walk (bounded : bool) (cols : list rinv) (i : nat) (runs : list run) (acc : list cell)
  : rowres :=
  match runs with
  | [] => RowOk acc
  | r :: runs' =>
      let '(j, acc', atend) := skip_cols cols i (r_time r) acc in
      if atend then (if bounded then RowOk acc' else RowOOB acc')
      else walk bounded cols (S j) runs' (acc' ++ [Some (r_status r, r_log r)])
  end.

(* The same loop with the pointer arithmetic the source really has (what the
   translator read out of render_suite):
     ri  = &r->invocations[i]
     end = ri + VECTOR_LENGTH(r->invocations) + walk_end_extra
     for (; ri < end && ri->time > run->time; ri++) <td></td>      [< or <=: walk_end_strict]
     if (ri == end) break;                                          [== or >=: walk_break_eq]
     ri++; render_run
   Every read of ri->time goes through the checked accessor: [rest] = invocations[i..],
   an empty rest is a read at or beyond invocations + VECTOR_LENGTH.  [None]: the
   source has no end pointer at all (as shipped before the repair of defect D9). *)
Record wlimit := mkwl { wl_end : Z; wl_strict : bool; wl_break_eq : bool }.

Definition in_range (lim : option wlimit) (i : nat) : bool :=
  match lim with
  | None => true
  | Some l => if wl_strict l then (Z.of_nat i <? wl_end l)%Z else (Z.of_nat i <=? wl_end l)%Z
  end.

Definition at_end (lim : option wlimit) (i : nat) : bool :=
  match lim with
  | None => false
  | Some l => if wl_break_eq l then (Z.of_nat i =? wl_end l)%Z else (wl_end l <=? Z.of_nat i)%Z
  end.

Inductive skipres := SkStop | SkOOB.

Fixpoint skip_ix (lim : option wlimit) (rest : list rinv) (i : nat) (t : Z) (acc : list cell)
  {struct rest} : nat * list cell * skipres :=
  match rest with
  | [] => if in_range lim i then (i, acc, SkOOB) else (i, acc, SkStop)
  | c :: rest' =>
      if in_range lim i then
        (if (t <? ri_time c)%Z then skip_ix lim rest' (S i) t (acc ++ [None]) else (i, acc, SkStop))
      else (i, acc, SkStop)
  end.

Fixpoint walk_ix (lim : option wlimit) (cols : list rinv) (i : nat) (runs : list run) (acc : list cell)
  : rowres :=
  match runs with
  | [] => RowOk acc
  | r :: runs' =>
      let '(j, acc', res) := skip_ix lim (skipn i cols) i (r_time r) acc in
      match res with
      | SkOOB => RowOOB acc'
      | SkStop => if at_end lim j then RowOk acc'
                  else walk_ix lim cols (S j) runs' (acc' ++ [Some (r_status r, r_log r)])
      end
  end.

Definition walk_limit (cols : list rinv) : option wlimit :=
  if walk_is_bounded
  then Some (mkwl (Z.of_nat (List.length cols) + walk_end_extra)%Z walk_end_strict walk_break_eq)
  else None.

Definition render_suite (q : qsorts) (cols : list rinv) (s : suite) : bytes * rowres :=
  (s_name s, walk_ix (walk_limit cols) cols 0 (qs_runs q (s_runs s)) []).

(* sort_suites *)
Definition sort_suites (q : qsorts) (ss : list suite) : list suite :=
  let failing := filter (fun s => Nat.ltb 0 (s_fail s)) ss in
  let nonreg := filter (fun s => negb (Nat.ltb 0 (s_fail s)) && prefixb nonregress_prefix (s_name s)) ss in
  let pass := filter (fun s => negb (Nat.ltb 0 (s_fail s)) && negb (prefixb nonregress_prefix (s_name s))) ss in
  qs_suites q failing ++ qs_suites q pass ++ qs_suites q nonreg.

Record page := mkpage {
  p_cols : list column;
  p_rows : list (bytes * rowres);
  p_tree : tree;
}.

(* regress_html_render *)
Definition render (q : qsorts) (st : state) : page :=
  let cols := qs_invs q (st_invs st) in
  mkpage (map render_column cols)
         (map (render_suite q cols) (sort_suites q (st_suites st)))
         (st_tree st).

(* robsd-regress-html -o out arch:path ... into an empty output directory *)
Definition run_html (q : qsorts) (inp : input) : option page :=
  match inp with
  | [] => None                                               (* usage *)
  | _ => match parse_all q inp (mkstate [] [] []) with
         | None => None
         | Some st => Some (render q st)
         end
  end.

Definition run_html_exec := run_html exec_qsorts.

(* cvsweb_url *)
Definition suite_href (name : bytes) : bytes := cvsweb_prefix ++ name.
