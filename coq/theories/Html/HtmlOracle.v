(* HtmlOracle.v - the executable oracle [spec_check] (HtmlSpec.v), which the
   harness applies to what robsd-regress-html rendered, applied to what the
   MODEL renders (obs_of (run_html_exec inp)): for every command line with arch
   and directory names free of '/', every clause except clause 6 (a cell) is
   accepted, and clause 6 is accepted too as soon as every suite satisfies the
   per-row guard.  So the only verdict the oracle can have against the model is
   the known finding run-shown-under-wrong-invocation. *)
From Robsd Require Export Html.HtmlRow.
From Robsd Require Import Html.HtmlWitness.
From Robsd Require Import Base.Sort.
From Robsd Require Inv.LsProofs.
From RobsdGen Require Import Gen_Html.
From Coq Require Import Sorting.Sorted Sorting.Permutation.
Local Open Scope N_scope.

(* ---- names ---- *)

Definition plain_input (inp : input) : Prop :=
  forall a, In a inp -> noslash (a_arch a) /\ forall e, In e (a_entries a) -> noslash (e_name e).

Lemma view_arch_names arch es : forall prev v, view_arch arch prev es = Some v ->
  forall I, In I v -> si_arch I = arch /\ exists e, In e es /\ si_date I = e_name e.
Proof.
  induction es as [|e es IH]; intros prev v Hv I HI; cbn [view_arch] in Hv.
  - injection Hv as <-. destruct HI.
  - destruct (sinv_of arch prev e) as [I0|] eqn:E0; [|discriminate].
    destruct (view_arch arch _ es) as [v'|] eqn:Ev; [|discriminate]. injection Hv as <-.
    destruct HI as [<-|HI].
    + destruct (sinv_of_names _ _ _ _ E0) as [Ha Hd]. split; [exact Ha|]. exists e. split; [now left|exact Hd].
    + destruct (IH _ _ Ev I HI) as [Ha [e' [He' Hd]]]. split; [exact Ha|]. exists e'. split; [now right|exact Hd].
Qed.

Lemma walk_dirs_sub q es e : qsorts_ok q -> In e (walk_dirs q es) -> In e es.
Proof.
  intros [Hd _] H. unfold walk_dirs in H. apply in_rev in H.
  destruct (Hd (filter accepted es)) as [Hp _].
  apply (Permutation_in _ (Permutation_sym Hp)), filter_In in H. tauto.
Qed.

Lemma view_plain q inp : qsorts_ok q -> plain_input inp -> forall v,
  view (walk_dirs q) inp = Some v -> forall I, In I v -> plain I.
Proof.
  intros Hq. induction inp as [|a inp IH]; intros Hpl v Hv I HI; cbn [view] in Hv.
  - injection Hv as <-. destruct HI.
  - destruct (view_arch _ _ _) as [l|] eqn:El; [|discriminate].
    destruct (view (walk_dirs q) inp) as [r|] eqn:Er; [|discriminate]. injection Hv as <-.
    apply in_app_or in HI as [HI|HI].
    + destruct (view_arch_names _ _ _ _ El I HI) as [Ha [e [He Hd]]].
      destruct (Hpl a (or_introl eq_refl)) as [Hpa Hpe]. split; [now rewrite Ha|].
      rewrite Hd. apply Hpe. eapply walk_dirs_sub; eassumption.
    + apply (IH (fun b Hb => Hpl b (or_intror Hb)) r eq_refl I HI).
Qed.

(* ---- small facts about the oracle's helpers ---- *)

Lemma all_some_map_id {A B} (f : B -> option A) (g : A -> B) l :
  (forall x, In x l -> f (g x) = Some x) -> all_some (map f (map g l)) = Some l.
Proof.
  induction l as [|x l IH]; intros H; [reflexivity|]. cbn [map all_some].
  rewrite (H x (or_introl eq_refl)), IH; [reflexivity|]. intros y Hy. apply H. now right.
Qed.

Lemma nodup_map_inj {A B} (f : A -> B) l a b :
  NoDup (map f l) -> In a l -> In b l -> f a = f b -> a = b.
Proof.
  induction l as [|x l IH]; intros Hnd Ha Hb E; [destruct Ha|]. cbn in Hnd. inversion Hnd as [|? ? Hni Hnd']; subst.
  destruct Ha as [<-|Ha]; destruct Hb as [<-|Hb]; try reflexivity.
  - exfalso. apply Hni. rewrite E. now apply in_map.
  - exfalso. apply Hni. rewrite <- E. now apply in_map.
  - now apply IH.
Qed.

Lemma find_inv_column v I : NoDup (map sinv_dir v) -> In I v ->
  find_inv v (render_column (rinv_of I)) = Some I.
Proof.
  intros Hnd HI. unfold find_inv. cbn [render_column rinv_of c_arch c_date ri_arch ri_date].
  destruct (find _ v) as [J|] eqn:E.
  - apply find_some in E. destruct E as [HJ Hb]. apply andb_true_iff in Hb as [H1 H2].
    apply beq_eq in H1, H2. f_equal. apply (nodup_map_inj sinv_dir v J I Hnd HJ HI).
    unfold sinv_dir. now rewrite H1, H2.
  - apply (find_none _ _ E) in HI. now rewrite !beq_refl in HI.
Qed.

Lemma forallb_combine_map {A B} (P : A -> B -> bool) (f : A -> B) l :
  (forall x, In x l -> P x (f x) = true) ->
  forallb (fun p => P (fst p) (snd p)) (combine l (map f l)) = true.
Proof.
  induction l as [|x l IH]; intros H; [reflexivity|]. cbn [map combine forallb fst snd].
  rewrite (H x (or_introl eq_refl)), IH; [reflexivity|]. intros y Hy. apply H. now right.
Qed.

Lemma sorted_desc_ssorted ts : StronglySorted (fun a b => (b <= a)%Z) ts -> sorted_desc ts = true.
Proof.
  induction 1 as [|x l Hs IH Hall]; [reflexivity|]. destruct l as [|y l]; [reflexivity|].
  change (sorted_desc (x :: y :: l)) with ((y <=? x)%Z && sorted_desc (y :: l)).
  rewrite IH. inversion Hall; subst. apply Z.leb_le in H1. now rewrite H1.
Qed.

Lemma list_eqb_refl {A} (eq : A -> A -> bool) l : (forall x, eq x x = true) -> list_eqb eq l l = true.
Proof. intros H. induction l as [|x l IH]; [reflexivity|]. cbn. now rewrite H, IH. Qed.

Lemma column_ok_model I : column_ok I (render_column (rinv_of I)) = true.
Proof.
  unfold column_ok, render_column, rinv_of, sinv_dir.
  cbn [c_date c_arch c_hours c_minutes c_delta c_cvs c_patches c_dmesg
       ri_arch ri_date ri_seconds ri_delta ri_cvs ri_patches].
  rewrite !beq_refl, !Z.eqb_refl. cbn [andb].
  assert (Hd : delta_eqb (spec_delta I) (spec_delta I) = true) by (destruct (spec_delta I); reflexivity).
  rewrite Hd. cbn [andb].
  assert (Hc : opt_eqb beq (if si_cvs I then Some (pjoin (pjoin (si_arch I) (si_date I)) name_comment) else None)
                       (if si_cvs I then Some (pjoin (pjoin (si_arch I) (si_date I)) name_comment) else None) = true).
  { destruct (si_cvs I); cbn; [apply beq_refl|reflexivity]. }
  rewrite Hc. cbn [andb]. destruct (si_patches I) as [|p ps]; cbn; [reflexivity|].
  now rewrite Nat.eqb_refl, beq_refl.
Qed.

Lemma rate_ok_model I : rate_ok I (render_column (rinv_of I)) = true.
Proof.
  unfold rate_ok. rewrite column_rate. unfold rate_of. rewrite rate_is_fixed, rate_int_spec. apply beq_refl.
Qed.

Lemma ocell_ok_refl c : ocell_ok c (ocell_of c) = true.
Proof. destruct c as [[st href]|]; cbn; [now rewrite !beq_refl|reflexivity]. Qed.

Lemma list_all2_ocell l : list_all2 ocell_ok l (map ocell_of l) = true.
Proof. induction l as [|c l IH]; [reflexivity|]. cbn. now rewrite ocell_ok_refl, IH. Qed.

Lemma tree_ok_refl t : NoDup (map fst t) -> tree_ok t t = true.
Proof.
  intros Hnd. unfold tree_ok. rewrite Nat.eqb_refl. cbn [andb]. apply forallb_forall.
  intros [p c] Hin. cbn [fst snd]. rewrite (tree_lookup_in t p c Hnd Hin).
  destruct c; cbn; [apply beq_refl|reflexivity].
Qed.

(* ---- the order of the rows: row_le is a total order on suite names ---- *)

Section RowOrder.
  Variable v : list sinv.

  Lemma row_le_total a b : row_le v a b = true \/ row_le v b a = true.
  Proof.
    unfold row_le.
    destruct (Nat.ltb_spec (spec_group v a) (spec_group v b)); [now left|].
    destruct (Nat.ltb_spec (spec_group v b) (spec_group v a)); [now right|].
    destruct (Nat.ltb_spec (spec_fail v b) (spec_fail v a)); [now left|].
    destruct (Nat.ltb_spec (spec_fail v a) (spec_fail v b)); [now right|].
    apply strcmp_le_total.
  Qed.

  Lemma row_le_trans a b c : row_le v a b = true -> row_le v b c = true -> row_le v a c = true.
  Proof.
    unfold row_le.
    destruct (Nat.ltb_spec (spec_group v a) (spec_group v b)) as [G1|G1].
    - destruct (Nat.ltb_spec (spec_group v b) (spec_group v c)) as [G2|G2].
      + destruct (Nat.ltb_spec (spec_group v a) (spec_group v c)); [reflexivity|lia].
      + destruct (Nat.ltb_spec (spec_group v c) (spec_group v b)); [discriminate|].
        destruct (Nat.ltb_spec (spec_group v a) (spec_group v c)); [reflexivity|lia].
    - destruct (Nat.ltb_spec (spec_group v b) (spec_group v a)) as [G1'|G1']; [discriminate|].
      destruct (Nat.ltb_spec (spec_group v b) (spec_group v c)) as [G2|G2].
      + destruct (Nat.ltb_spec (spec_group v a) (spec_group v c)); [reflexivity|lia].
      + destruct (Nat.ltb_spec (spec_group v c) (spec_group v b)) as [G2'|G2']; [discriminate|].
        destruct (Nat.ltb_spec (spec_group v a) (spec_group v c)); [lia|].
        destruct (Nat.ltb_spec (spec_group v c) (spec_group v a)); [lia|].
        destruct (Nat.ltb_spec (spec_fail v b) (spec_fail v a)) as [F1|F1].
        * destruct (Nat.ltb_spec (spec_fail v c) (spec_fail v b)) as [F2|F2].
          -- destruct (Nat.ltb_spec (spec_fail v c) (spec_fail v a)); [reflexivity|lia].
          -- destruct (Nat.ltb_spec (spec_fail v b) (spec_fail v c)); [discriminate|].
             destruct (Nat.ltb_spec (spec_fail v c) (spec_fail v a)); [reflexivity|lia].
        * destruct (Nat.ltb_spec (spec_fail v a) (spec_fail v b)) as [F1'|F1']; [discriminate|].
          destruct (Nat.ltb_spec (spec_fail v c) (spec_fail v b)) as [F2|F2].
          -- destruct (Nat.ltb_spec (spec_fail v c) (spec_fail v a)); [reflexivity|lia].
          -- destruct (Nat.ltb_spec (spec_fail v b) (spec_fail v c)) as [F2'|F2']; [discriminate|].
             destruct (Nat.ltb_spec (spec_fail v c) (spec_fail v a)); [lia|].
             destruct (Nat.ltb_spec (spec_fail v a) (spec_fail v c)); [lia|].
             apply strcmp_le_trans.
  Qed.

  Lemma row_le_antisym a b : row_le v a b = true -> row_le v b a = true -> a = b.
  Proof.
    unfold row_le.
    destruct (Nat.ltb_spec (spec_group v a) (spec_group v b)).
    { destruct (Nat.ltb_spec (spec_group v b) (spec_group v a)); [lia|]. discriminate. }
    destruct (Nat.ltb_spec (spec_group v b) (spec_group v a)); [discriminate|].
    destruct (Nat.ltb_spec (spec_fail v b) (spec_fail v a)).
    { destruct (Nat.ltb_spec (spec_fail v a) (spec_fail v b)); [lia|]. discriminate. }
    destruct (Nat.ltb_spec (spec_fail v a) (spec_fail v b)); [discriminate|].
    unfold strcmp. pose proof (LsProofs.strcmp_antisym a b) as Ha.
    destruct (LsDefs.strcmp a b) eqn:E; destruct (LsDefs.strcmp b a) eqn:E'; cbn in Ha;
      try discriminate Ha; intros H3 H4; try discriminate; now apply LsProofs.strcmp_eq.
  Qed.

  (* two row_le-sorted arrangements of the same distinct names coincide *)
  Lemma row_sorted_unique l l1 l2 :
    NoDup l -> Permutation l l1 -> Permutation l l2 ->
    StronglySorted (fun a b => row_le v a b = true) l1 ->
    StronglySorted (fun a b => row_le v a b = true) l2 -> l1 = l2.
  Proof.
    intros Hnd H1 H2 S1 S2.
    apply (sorted_perm_unique bytes (fun a b => row_le v a b = true /\ a <> b)
                              ltac:(intros a [_ H]; now apply H)
                              ltac:(intros a b c [Hab Nab] [Hbc Nbc]; split;
                                    [exact (row_le_trans a b c Hab Hbc)|
                                     intros ->; apply Nab; exact (row_le_antisym _ _ Hab Hbc)])
                              (fun a b => row_le v a b = true)
                              ltac:(intros a b Hab; destruct (beq_spec a b) as [->|Hne]; [now right|left; now split])
                              row_le_trans l l1 l2 Hnd H1 H2);
      now apply StronglySorted_Sorted.
  Qed.
End RowOrder.

(* the rows of a page are THE sorted arrangement of the suites (what the oracle compares) *)
Lemma rows_eq_isort q inp pg : qsorts_ok q -> run_html q inp = Some pg ->
  exists v, view (walk_dirs q) inp = Some v /\ map fst (p_rows pg) = isort (row_le v) (spec_suites v).
Proof.
  intros Hq H. destruct (rows_order q inp pg Hq H) as [v [Hv [Hperm [_ Hsr]]]].
  exists v. split; [exact Hv|]. apply (row_sorted_unique v (spec_suites v)).
  - apply dedup_nodup.
  - now apply Permutation_sym.
  - apply isort_perm.
  - exact Hsr.
  - apply isort_sorted; [apply row_le_total|apply row_le_trans].
Qed.

(* ---- the page of the model, clause by clause ---- *)

Definition cell_clause (vs : list sinv) (rows : list (bytes * rowres)) : bool :=
  forallb (fun r => list_all2 ocell_ok (spec_row vs (or_suite r)) (or_cells r)) (map orow_of rows).

Lemma check_of_page inp v pg vs :
  view (walk_dirs exec_qsorts) inp = Some v -> inp <> [] -> NoDup (map sinv_dir v) ->
  run_html_exec inp = Some pg -> page_of_view exec_qsorts inp pg v vs ->
  spec_check inp (obs_of (Some pg)) = if cell_clause vs (p_rows pg) then [] else [6].
Proof.
  intros Hv Hne Hnd Hrun [_ [Hp [Hs Hc]]].
  pose proof exec_qsorts_ok as Hq.
  unfold spec_check. rewrite Hv. destruct inp as [|a inp]; [congruence|]. cbn [orb].
  apply nodupb_NoDup in Hnd. rewrite Hnd. cbn [negb obs_of o_exit o_cols o_rows o_tree N.eqb].
  apply nodupb_NoDup in Hnd.
  rewrite Hc.
  rewrite (all_some_map_id (find_inv v) (fun I => render_column (rinv_of I)) vs).
  2:{ intros I HI. apply find_inv_column; [exact Hnd|]. now apply (Permutation_in _ (Permutation_sym Hp)). }
  (* 2 *)
  rewrite <- (Permutation_length Hp), Nat.eqb_refl.
  assert (H2b : nodupb (map sinv_dir vs) = true).
  { apply nodupb_NoDup. eapply Permutation_NoDup; [apply Permutation_map; exact Hp|exact Hnd]. }
  assert (H2c : sorted_desc (map si_time vs) = true) by (apply sorted_desc_ssorted; now apply ssorted_map).
  rewrite H2b, H2c. cbn [andb app].
  (* 3, 4 *)
  rewrite (forallb_combine_map column_ok) by (intros; apply column_ok_model).
  rewrite (forallb_combine_map rate_ok) by (intros; apply rate_ok_model). cbn [app].
  (* 5 *)
  assert (H5 : map or_suite (map orow_of (p_rows pg)) = isort (row_le v) (spec_suites v)).
  { rewrite map_map. change (fun x => or_suite (orow_of x)) with (@fst bytes rowres).
    destruct (rows_order exec_qsorts (a :: inp) pg Hq Hrun) as [v' [Hv' [Hperm [Hndr Hsr]]]].
    assert (v' = v) by congruence. subst v'.
    apply (row_sorted_unique v (spec_suites v)).
    - apply dedup_nodup.
    - now apply Permutation_sym.
    - apply isort_perm.
    - exact Hsr.
    - apply isort_sorted; [apply row_le_total|apply row_le_trans]. }
  rewrite H5, (list_eqb_refl beq _ beq_refl).
  assert (H5b : forallb (fun r => beq (or_href r) (suite_href (or_suite r))) (map orow_of (p_rows pg)) = true).
  { apply forallb_forall. intros r Hr. apply in_map_iff in Hr. destruct Hr as [x [<- _]]. apply beq_refl. }
  rewrite H5b. cbn [andb app].
  (* 7 *)
  assert (H7 : forallb (fun r => Nat.leb (List.length (or_cells r)) (List.length v)) (map orow_of (p_rows pg)) = true).
  { apply forallb_forall. intros r Hr. apply in_map_iff in Hr. destruct Hr as [[S row] [<- Hin]].
    destruct (cells_sound exec_qsorts (a :: inp) pg Hq Hrun) as [v' [vs' [_ Hrows]]].
    destruct (Hrows S row Hin) as [cells [-> [Hlen _]]]. cbn [orow_of or_cells snd].
    rewrite map_length. apply Nat.leb_le. rewrite Hc, map_length, <- (Permutation_length Hp) in Hlen. exact Hlen. }
  rewrite H7.
  (* 8 *)
  destruct (page_tree exec_qsorts (a :: inp) pg Hrun) as [v' [Hv' Ht]].
  assert (v' = v) by congruence. subst v'.
  rewrite Ht, tree_ok_refl by (apply first_wins_nodup).
  fold (cell_clause vs (p_rows pg)). destruct (cell_clause vs (p_rows pg)); reflexivity.
Qed.

Lemma cell_clause_rows vs rows :
  (forall S row, In (S, row) rows -> row = RowOk (spec_row vs S)) -> cell_clause vs rows = true.
Proof.
  intros H. unfold cell_clause. apply forallb_forall. intros r Hr.
  apply in_map_iff in Hr. destruct Hr as [[S row] [<- Hin]].
  rewrite (H S row Hin). cbn [orow_of or_suite or_cells fst snd]. apply list_all2_ocell.
Qed.

(* ---- the agreement theorem ---- *)

Lemma check_none inp :
  run_html_exec inp = None ->
  (view (walk_dirs exec_qsorts) inp = None \/ inp = [] \/
   exists v, view (walk_dirs exec_qsorts) inp = Some v /\ nodupb (map sinv_dir v) = false) ->
  spec_check inp (obs_of (run_html_exec inp)) = [].
Proof.
  intros Hrun H. rewrite Hrun. unfold spec_check. cbn [obs_of o_exit].
  destruct H as [Hv|[->|[v [Hv Hd]]]].
  - now rewrite Hv.
  - reflexivity.
  - rewrite Hv, Hd. cbn [negb]. now rewrite orb_true_r.
Qed.

Lemma oracle_accepts_model inp : plain_input inp ->
  (forall k, In k (spec_check inp (obs_of (run_html_exec inp))) -> k = 6) /\
  (forall v, view (walk_dirs exec_qsorts) inp = Some v ->
     (forall S, In S (spec_suites v) -> row_guard v S) ->
     spec_ok inp (obs_of (run_html_exec inp)) = true).
Proof.
  intros Hpl. pose proof exec_qsorts_ok as Hq. unfold spec_ok.
  destruct (view (walk_dirs exec_qsorts) inp) as [v|] eqn:Hv.
  2:{ rewrite (check_none inp (run_html_invalid _ _ Hv)) by (now left).
      split; [intros k []|reflexivity]. }
  destruct inp as [|a inp].
  { rewrite (check_none []) by (reflexivity || (right; now left)). split; [intros k []|reflexivity]. }
  assert (Hplv : forall I, In I v -> plain I) by (apply (view_plain _ _ Hq Hpl v Hv)).
  destruct (fits [] v) eqn:Hf.
  - assert (Hs : exists pg, run_html exec_qsorts (a :: inp) = Some pg).
    { apply run_html_success. split; [discriminate|]. eauto. }
    destruct Hs as [pg Hrun].
    destruct (row_guarded exec_qsorts (a :: inp) pg Hq Hrun) as [v' [vs [Hpv [Hnd Hrows]]]].
    assert (v' = v) by (destruct Hpv as [E _]; congruence). subst v'.
    unfold run_html_exec. rewrite Hrun.
    rewrite (check_of_page (a :: inp) v pg vs Hv ltac:(discriminate) Hnd Hrun Hpv).
    split.
    + intros k Hk. destruct (cell_clause vs (p_rows pg)); [destruct Hk|]. destruct Hk as [<-|[]]. reflexivity.
    + intros v' Ev' Hg. injection Ev' as <-. rewrite cell_clause_rows; [reflexivity|].
      intros S row Hin. apply Hrows; [exact Hin|]. apply Hg.
      destruct (rows_order exec_qsorts (a :: inp) pg Hq Hrun) as [v' [Hv' [Hperm _]]].
      assert (v' = v) by congruence. subst v'.
      apply (Permutation_in _ Hperm). apply (in_map fst) in Hin. exact Hin.
  - assert (Hrun : run_html_exec (a :: inp) = None).
    { apply run_html_none. right. right. exists v. split; [exact Hv|]. now apply fits_collision. }
    rewrite (check_none (a :: inp) Hrun).
    + split; [intros k []|reflexivity].
    + right. right. exists v. split; [exact Hv|].
      destruct (nodupb (map sinv_dir v)) eqn:En; [|reflexivity].
      apply nodupb_NoDup in En. apply (fits_plain v Hplv) in En. congruence.
Qed.

(* outside the guard: an arch name with '/' in it lets the directory of one
   invocation be the arch directory of another; the model (like the program,
   whose mkdir fails) exits 1, the oracle expects a page *)
From Coq Require Import String.
Local Open Scope string_scope.

Definition w_slash : input :=
  let step := Some (bs "step,name,exit,duration,delta,log,user,time,skip
1,x/s,0,1,0,s.log,root,1000,0
2,end,0,100,0,,root,1010,0
") in
  [mkarch (bs "a/b") [mkentry (bs "c") true step [(bs "s.log", bs "ok
")]];
   mkarch (bs "a") [mkentry (bs "b") true step [(bs "s.log", bs "ok
")]]].

Lemma oracle_slash_witness :
  ~ plain_input w_slash /\ run_html_exec w_slash = None /\
  spec_check w_slash (obs_of (run_html_exec w_slash)) = [1].
Proof.
  split; [|split; vm_compute; reflexivity].
  intros H. destruct (H _ (or_introl eq_refl)) as [Hn _]. apply Hn. vm_compute. right. now left.
Qed.

Lemma page_slash_witness :
  exists v, view (walk_dirs exec_qsorts) w_slash = Some v /\ NoDup (map sinv_dir v) /\ w_slash <> [] /\
            run_html_exec w_slash = None.
Proof.
  eexists. split; [vm_compute; reflexivity|]. split; [apply nodupb_NoDup; vm_compute; reflexivity|].
  split; [discriminate|vm_compute; reflexivity].
Qed.

(* ---- the column pointer on the duplicate-suite input: before and after the repair ---- *)
Lemma oob_walks :
  walk false [oob_col] 0 [oob_r1; oob_r2] [] = RowOOB [Some (PASS, [108; 49]%N)] /\
  walk_ix None [oob_col] 0 [oob_r1; oob_r2] [] = RowOOB [Some (PASS, [108; 49]%N)] /\
  walk_ix (walk_limit [oob_col]) [oob_col] 0 [oob_r1; oob_r2] [] = RowOk [Some (PASS, [108; 49]%N)].
Proof. repeat split; vm_compute; reflexivity. Qed.

Lemma oob_page_current :
  exists pg, run_html_exec w_oob = Some pg /\
    p_rows pg = [(bs "x/s", RowOk [Some (PASS, bs "a1/2022-10-25.1/s1.log")])].
Proof. eexists. split; vm_compute; reflexivity. Qed.
