(* HtmlRerun.v - generating into an output directory that is not empty.  The
   theorems of property C14 are about [run_html], which starts from an empty
   output directory.  What the program does otherwise, in the model: as soon as
   the arch/date directory of the first invocation it walks exists already,
   create_regress_invocation's mkdir fails (only the arch directory tolerates
   EEXIST) and the program exits 1 - whatever the rest of the input is.  So a page
   cannot be regenerated in place; the check's rerun lane observes on the real
   program that nothing below the output directory is touched in that case. *)
From Robsd Require Export Html.HtmlDefs.
From RobsdGen Require Import Gen_Html.
Local Open Scope N_scope.

Lemma mkdir_x_exists t p : tree_has t p = true -> mkdir_x t p = None.
Proof. intros H. unfold mkdir_x. now rewrite H. Qed.

Lemma tree_has_mkdir_p t a p : tree_has t p = true -> tree_has (mkdir_p t a) p = true.
Proof.
  intros H. unfold mkdir_p. destruct (tree_has t a); [exact H|].
  unfold tree_has in *. now rewrite existsb_app, H.
Qed.

Lemma parse_invocation_exists arch prev e st :
  tree_has (st_tree st) (pjoin arch (e_name e)) = true -> parse_invocation arch prev e st = None.
Proof.
  intros H. unfold parse_invocation. destruct (e_step e) as [c|]; [|reflexivity].
  destruct (parse_file c) as [[|first rows]|]; try reflexivity.
  destruct (find_by_name (first :: rows) name_end); [|reflexivity].
  now rewrite (mkdir_x_exists _ _ (tree_has_mkdir_p _ arch _ H)).
Qed.

(* the first arch argument, the first directory invocation_walk hands out *)
Lemma regeneration_refused q a inp e es st :
  walk_dirs q (a_entries a) = e :: es ->
  tree_has (st_tree st) (pjoin (a_arch a) (e_name e)) = true ->
  parse_all q (a :: inp) st = None.
Proof.
  intros Hw H. cbn [parse_all]. rewrite Hw. cbn [arch_loop]. now rewrite (parse_invocation_exists _ _ _ _ H).
Qed.
