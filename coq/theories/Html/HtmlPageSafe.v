(* HtmlPageSafe.v - the guard of the round-trip theorem on the INPUT: when the
   arch names, invocation directory names and suite names of the view are
   non-empty, hold no less-than sign and no double quote and no white space at
   either end, and no log name holds a double quote, the page the model renders
   satisfies page_safe (so index_roundtrip applies).  Plus a witness outside the
   guard: a suite named a<b>/c. *)
From Robsd Require Export Html.HtmlPageProofs.
From Robsd Require Import Html.HtmlWitness.
From RobsdGen Require Import Gen_Html.
From Coq Require Import String Sorting.Permutation.
Local Open Scope N_scope.

Definition name_ok (s : bytes) : Prop := text_okb s = true /\ attr_ok s.

Definition view_safe (v : list sinv) : Prop :=
  forall I, In I v ->
    name_ok (si_arch I) /\ name_ok (si_date I) /\
    forall sr, In sr (si_runs I) -> name_ok (sr_suite sr) /\ attr_ok (sr_log sr).

Lemma attr_ok_app a b : attr_ok a -> attr_ok b -> attr_ok (a ++ b).
Proof. unfold attr_ok, attr_okb. intros Ha Hb. now rewrite forallb_app, Ha, Hb. Qed.

Lemma attr_ok_pjoin a b : attr_ok a -> attr_ok b -> attr_ok (pjoin a b).
Proof.
  intros Ha Hb. unfold pjoin. apply attr_ok_app; [exact Ha|].
  change (SLASH :: b) with ([SLASH] ++ b). apply attr_ok_app; [reflexivity|exact Hb].
Qed.

Lemma col_safe_view I :
  name_ok (si_arch I) -> name_ok (si_date I) -> col_safeb (render_column (rinv_of I)) = true.
Proof.
  intros [Ha1 Ha2] [Hd1 Hd2]. unfold col_safeb, render_column, rinv_of.
  cbn [c_rate c_date c_arch c_dmesg c_cvs c_patches ri_arch ri_date ri_cvs ri_patches].
  assert (Hdir : attr_ok (pjoin (si_arch I) (si_date I))) by (now apply attr_ok_pjoin).
  unfold render_rate. rewrite text_ok_rate, Hd1, Ha1. cbn [andb].
  assert (H1 : attr_okb (pjoin (pjoin (si_arch I) (si_date I)) name_dmesg) = true) by (now apply attr_ok_pjoin).
  rewrite H1. cbn [andb].
  assert (H2 : match (if si_cvs I then Some (pjoin (pjoin (si_arch I) (si_date I)) name_comment) else None) with
               | Some h => attr_okb h | None => true end = true).
  { destruct (si_cvs I); [|reflexivity]. now apply attr_ok_pjoin. }
  rewrite H2. cbn [andb].
  destruct (Nat.ltb 0 (List.length (si_patches I))); [|reflexivity]. now apply attr_ok_pjoin.
Qed.

Lemma in_spec_suites v S : In S (spec_suites v) -> exists I sr, In I v /\ In sr (si_runs I) /\ sr_suite sr = S.
Proof.
  unfold spec_suites, all_runs. rewrite dedup_in, in_map_iff. intros [sr [E Hin]].
  apply in_flat_map in Hin. destruct Hin as [I [HI Hsr]]. eauto.
Qed.

Theorem view_page_safe q inp pg v :
  qsorts_ok q -> run_html q inp = Some pg -> view (walk_dirs q) inp = Some v -> view_safe v -> page_safe pg.
Proof.
  intros Hq Hrun Hv Hs. unfold page_safe, page_safeb. apply andb_true_iff. split; apply forallb_forall.
  - intros c Hc. destruct (cells_sound q inp pg Hq Hrun) as [v' [vs [[Hv' [Hp [_ Hcols]]] _]]].
    assert (v' = v) by congruence. subst v'. rewrite Hcols in Hc. apply in_map_iff in Hc.
    destruct Hc as [I [<- HI]]. apply (Permutation_in _ (Permutation_sym Hp)) in HI.
    destruct (Hs I HI) as [Ha [Hd _]]. now apply col_safe_view.
  - intros [S row] Hin. unfold row_safeb. cbn [fst snd].
    destruct (rows_order q inp pg Hq Hrun) as [v' [Hv' [Hperm _]]]. assert (v' = v) by congruence. subst v'.
    assert (HS : In S (spec_suites v)) by (apply (Permutation_in _ Hperm); now apply (in_map fst) in Hin).
    destruct (in_spec_suites v S HS) as [I [sr [HI [Hsr <-]]]].
    destruct (Hs I HI) as [_ [_ Hruns]]. destruct (Hruns sr Hsr) as [[Hn1 Hn2] _].
    rewrite Hn1. cbn [andb].
    assert (Hh : attr_okb (suite_href (sr_suite sr)) = true).
    { unfold suite_href. apply attr_ok_app; [reflexivity|exact Hn2]. }
    rewrite Hh. cbn [andb]. apply forallb_forall. intros c Hc.
    destruct c as [[st href]|]; [|reflexivity].
    destruct (cells_sound q inp pg Hq Hrun) as [v' [vs [[Hv'' _] Hrows]]]. assert (v' = v) by congruence. subst v'.
    destruct (Hrows _ _ Hin) as [cells [-> [_ Hcells]]]. cbn [rowres_cells] in Hc.
    apply In_nth_error in Hc. destruct Hc as [j Hj].
    destruct (Hcells j st href Hj) as [I' [sr' [_ [HI' [Hsr' [_ [_ [-> _]]]]]]]].
    destruct (Hs I' HI') as [[_ Ha] [[_ Hd] Hruns']]. destruct (Hruns' sr' Hsr') as [_ Hl].
    apply attr_ok_pjoin; [now apply attr_ok_pjoin|exact Hl].
Qed.

(* reading the model's file back gives the model's matrix, stated on the input *)
Corollary index_roundtrip_view q inp pg v :
  qsorts_ok q -> run_html q inp = Some pg -> view (walk_dirs q) inp = Some v -> view_safe v ->
  parse_index (page_bytes pg) = POk (p_cols pg) (map orow_of (p_rows pg)).
Proof. intros Hq Hrun Hv Hs. apply index_roundtrip. exact (view_page_safe q inp pg v Hq Hrun Hv Hs). Qed.

(* ---- outside the guard ---- *)
Local Open Scope string_scope.

Definition w_markup : input :=
  [mkarch (bs "a1")
     [mkentry (bs "2022-10-25.1") true
        (Some (bs "step,name,exit,duration,delta,log,user,time,skip
1,a<b>/c,0,1,0,s.log,root,1000,0
2,end,0,100,0,,root,1010,0
"))
        [(bs "s.log", bs "ok
")]]].

(* html.c escapes nothing: the name is written into the markup as it is, <b> opens
   an element that is never closed, and the strict reader rejects the file (a
   lenient one shows a row named a/c) *)
Lemma index_unsafe_witness :
  exists pg v, run_html_exec w_markup = Some pg /\ view (walk_dirs exec_qsorts) w_markup = Some v /\
    map fst (p_rows pg) = [bs "a<b>/c"] /\ ~ view_safe v /\ page_safeb pg = false /\
    parse_index (page_bytes pg) = PFail 2.
Proof.
  eexists. eexists. split; [vm_compute; reflexivity|]. split; [vm_compute; reflexivity|].
  split; [vm_compute; reflexivity|]. split; [|split; vm_compute; reflexivity].
  intros H. destruct (H _ (or_introl eq_refl)) as [_ [_ Hr]].
  destruct (Hr _ (or_introl eq_refl)) as [[Ht _] _]. vm_compute in Ht. discriminate.
Qed.

(* non-vacuity: the example page of HtmlWitness (two arches, three invocations) is safe,
   its file is read back to its matrix, and the file is not trivial *)
Lemma example_index :
  exists pg, run_html_exec w_example = Some pg /\ page_safeb pg = true /\
    parse_index (page_bytes pg) = POk (p_cols pg) (map orow_of (p_rows pg)) /\
    List.length (p_cols pg) = 3%nat /\ List.length (p_rows pg) = 3%nat /\
    Nat.ltb 2000 (List.length (page_bytes pg)) = true.
Proof. eexists. split; [vm_compute; reflexivity|]. repeat split; vm_compute; reflexivity. Qed.
