(* HtmlParse.v - a strict reader for index.html, in three stages.  Definitions only
   (the extracted driver applies [parse_index] to the file the program wrote; the
   oracle [spec_check] judges the matrix it returns).

     tokenize    bytes -> tokens.  One pass, one byte at a time ([tstep]).  Outside a
                 tag everything up to the next '<' is character data; a run of data
                 becomes one text token with the white space at both ends removed, and
                 no token when nothing is left.  A tag is <name>, <name k=QvQ ...>
                 (Q the double quote), </name> or <!...>; names and keys are [a-z0-9]+,
                 exactly one blank before a key, a value is everything up to the next
                 double quote, a key must not occur twice in a tag.  Anything else is an error.  Nothing is
                 decoded (no character references).
     build       tokens -> forest.  Every element is closed by its own end tag, in
                 order; meta is the only void element; <!...> is allowed as the very
                 first token only; nothing may be open at the end.
     matrix_of   forest -> header columns and body rows.  The forest must be exactly
                 html(lang) > head > (meta, style, title), body > (h1, table >
                 (thead > the six header rows, tbody > one tr per suite)), with the
                 attributes regress-html.c writes and nothing else.

   [parse_index] returns the matrix or the number of the stage that failed. *)
From Robsd Require Export Html.HtmlPage.
Local Open Scope N_scope.

(* ---- tokens ---- *)

Inductive token :=
| TOpen (tag : bytes) (at_ : attrs)
| TClose (tag : bytes)
| TText (s : bytes)
| TDecl (s : bytes).

Definition is_ws (c : N) : bool := (c =? 32) || (c =? 10) || (c =? 9) || (c =? 13) || (c =? 12).
Definition name_char (c : N) : bool := ((97 <=? c) && (c <=? 122)) || ((48 <=? c) && (c <=? 57)).

Fixpoint ltrim (s : bytes) : bytes :=
  match s with
  | c :: r => if is_ws c then ltrim r else s
  | [] => []
  end.
Definition trim (s : bytes) : bytes := rev (ltrim (rev (ltrim s))).

(* the text token of a run of character data, [acc] holds it reversed *)
Definition flush_text (acc : bytes) (toks : list token) : list token :=
  match trim (rev acc) with
  | [] => toks
  | t => TText t :: toks
  end.

Fixpoint has_key (k : bytes) (at_ : attrs) : bool :=
  match at_ with
  | [] => false
  | (k', _) :: r => beq k' k || has_key k r
  end.

(* accumulators hold bytes and attributes in reverse *)
Inductive mode :=
| MText (acc : bytes)                                 (* character data since the last tag *)
| MLt                                                 (* after the less-than sign *)
| MClose (name : bytes)                               (* after the slash of an end tag *)
| MName (name : bytes)                                (* the name of a start tag *)
| MAttrs (name : bytes) (at_ : attrs)                 (* after the closing quote of a value *)
| MKey (name : bytes) (at_ : attrs) (key : bytes)     (* after the blank before a key *)
| MQuote (name : bytes) (at_ : attrs) (key : bytes)   (* after the equals sign *)
| MVal (name : bytes) (at_ : attrs) (key val : bytes) (* inside the quotes *)
| MDecl (acc : bytes)                                 (* after the exclamation mark *)
| MErr (why : N).

Definition tstate := (list token * mode)%type.

Definition tstep (st : tstate) (c : N) : tstate :=
  let '(toks, m) := st in
  match m with
  | MText acc => if c =? 60 then (flush_text acc toks, MLt) else (toks, MText (c :: acc))
  | MLt => if c =? 47 then (toks, MClose [])
           else if c =? 33 then (toks, MDecl [])
           else if name_char c then (toks, MName [c])
           else (toks, MErr 1)
  | MClose n => if name_char c then (toks, MClose (c :: n))
                else if c =? 62 then (match n with [] => (toks, MErr 2) | _ => (TClose (rev n) :: toks, MText []) end)
                else (toks, MErr 2)
  | MName n => if name_char c then (toks, MName (c :: n))
               else if c =? 62 then (TOpen (rev n) [] :: toks, MText [])
               else if c =? 32 then (toks, MKey (rev n) [] [])
               else (toks, MErr 3)
  | MAttrs n a => if c =? 62 then (TOpen n (rev a) :: toks, MText [])
                  else if c =? 32 then (toks, MKey n a [])
                  else (toks, MErr 4)
  | MKey n a k => if name_char c then (toks, MKey n a (c :: k))
                  else if c =? 61 then
                    (match k with
                     | [] => (toks, MErr 5)
                     | _ => if has_key (rev k) a then (toks, MErr 6) else (toks, MQuote n a (rev k))
                     end)
                  else (toks, MErr 5)
  | MQuote n a k => if c =? 34 then (toks, MVal n a k []) else (toks, MErr 7)
  | MVal n a k v => if c =? 34 then (toks, MAttrs n ((k, rev v) :: a)) else (toks, MVal n a k (c :: v))
  | MDecl acc => if c =? 62 then (TDecl (rev acc) :: toks, MText []) else (toks, MDecl (c :: acc))
  | MErr w => (toks, MErr w)
  end.

Definition trun (st : tstate) (l : bytes) : tstate := fold_left tstep l st.

Definition tokenize (l : bytes) : option (list token) :=
  match trun ([], MText []) l with
  | (toks, MText acc) => Some (rev (flush_text acc toks))
  | _ => None
  end.

(* ---- the forest ---- *)

Inductive pnode :=
| PE (tag : bytes) (at_ : attrs) (kids : list pnode)
| PT (s : bytes).

Definition is_void (tag : bytes) : bool := beq tag t_meta.

(* an open element: tag, attributes, children so far (reversed) *)
Definition frame := (bytes * attrs * list pnode)%type.

(* [top]: the finished top-level nodes (reversed) *)
Definition add_node (n : pnode) (top : list pnode) (stack : list frame) : list pnode * list frame :=
  match stack with
  | [] => (n :: top, [])
  | (t, a, k) :: st => (top, (t, a, n :: k) :: st)
  end.

Fixpoint build (ts : list token) (top : list pnode) (stack : list frame) : option (list pnode) :=
  match ts with
  | [] => match stack with [] => Some (rev top) | _ => None end
  | TText s :: r => let '(top', st') := add_node (PT s) top stack in build r top' st'
  | TOpen tag a :: r =>
      if is_void tag then let '(top', st') := add_node (PE tag a []) top stack in build r top' st'
      else build r top ((tag, a, []) :: stack)
  | TClose tag :: r =>
      match stack with
      | [] => None
      | (t, a, k) :: st =>
          if beq t tag && negb (is_void tag)
          then let '(top', st') := add_node (PE t a (rev k)) top st in build r top' st'
          else None
      end
  | TDecl _ :: _ => None
  end.

(* <!doctype ...> may stand in front *)
Definition build_doc (ts : list token) : option (list pnode) :=
  match ts with
  | TDecl _ :: r => build r [] []
  | _ => build ts [] []
  end.

(* ---- the matrix ---- *)

(* decimal, as printf %d writes it: optional minus sign, at least one digit *)
Definition parse_int (s : bytes) : option Z :=
  match s with
  | [] => None
  | c :: r =>
      if c =? 45 then
        match r with
        | [] => None
        | _ => match uint_of_bytes r with Some u => Some (- Z.of_uint u)%Z | None => None end
        end
      else match uint_of_bytes s with Some u => Some (Z.of_uint u) | None => None end
  end.

(* the part before the first [c] and the part after it *)
Fixpoint split_at (c : N) (s : bytes) : option (bytes * bytes) :=
  match s with
  | [] => None
  | x :: r => if x =? c then Some ([], r)
              else match split_at c r with Some (a, b) => Some (x :: a, b) | None => None end
  end.

(* %dh%dm *)
Definition parse_duration (s : bytes) : option (Z * Z) :=
  match split_at 104 s with
  | None => None
  | Some (h, r) =>
      match split_at 109 r with
      | Some (m, []) =>
          match parse_int h, parse_int m with
          | Some hz, Some mz => Some (hz, mz)
          | _, _ => None
          end
      | _ => None
      end
  end.

Fixpoint strip_prefix (p s : bytes) : option bytes :=
  match p, s with
  | [], _ => Some s
  | x :: p', y :: s' => if x =? y then strip_prefix p' s' else None
  | _ :: _, [] => None
  end.

(* patches (%d) *)
Definition parse_patches_text (s : bytes) : option nat :=
  match strip_prefix x_patches_open s with
  | None => None
  | Some r =>
      match split_at 41 r with
      | Some (n, []) => match parse_int n with
                        | Some z => if (0 <=? z)%Z then Some (Z.to_nat z) else None
                        | None => None
                        end
      | _ => None
      end
  end.

Definition x_faster_t : bytes := Eval vm_compute in trim x_faster.
Definition x_slower_t : bytes := Eval vm_compute in trim x_slower.

Definition parse_arrow (kids : list pnode) : option delta :=
  match kids with
  | [] => Some DNone
  | [PT s] => if beq s x_faster_t then Some Faster else if beq s x_slower_t then Some Slower else None
  | _ => None
  end.

(* <th class=cls> kids </th> *)
Definition th_kids (cls : bytes) (n : pnode) : option (list pnode) :=
  match n with
  | PE tag [(k, v)] kids => if beq tag t_th && beq k k_class && beq v cls then Some kids else None
  | _ => None
  end.

Definition p_text_cell (cls : bytes) (n : pnode) : option bytes :=
  match th_kids cls n with Some [PT s] => Some s | _ => None end.

Definition p_duration_cell (n : pnode) : option (Z * Z * delta) :=
  match th_kids v_duration n with
  | Some [PT s; PE tag [] ks] =>
      if beq tag t_span then
        match parse_duration s, parse_arrow ks with
        | Some (h, m), Some d => Some (h, m, d)
        | _, _ => None
        end
      else None
  | _ => None
  end.

(* <a href=h> text </a> *)
Definition p_link (n : pnode) : option (bytes * bytes) :=
  match n with
  | PE tag [(k, h)] [PT s] => if beq tag t_a && beq k k_href then Some (h, s) else None
  | _ => None
  end.

Definition p_changelog_cell (n : pnode) : option (option bytes) :=
  match th_kids v_cvs n with
  | Some [PT s] => if beq s x_na then Some None else None
  | Some [l] => match p_link l with
                | Some (h, s) => if beq s x_cvs then Some (Some h) else None
                | None => None
                end
  | _ => None
  end.

Definition p_patches_cell (n : pnode) : option (option (nat * bytes)) :=
  match th_kids v_patch n with
  | Some [PT s] => if beq s x_na then Some None else None
  | Some [l] => match p_link l with
                | Some (h, s) => match parse_patches_text s with
                                 | Some k => Some (Some (k, h))
                                 | None => None
                                 end
                | None => None
                end
  | _ => None
  end.

Definition p_arch_cell (n : pnode) : option (bytes * bytes) :=
  match th_kids v_arch n with
  | Some [l] => match p_link l with Some (h, s) => Some (s, h) | None => None end
  | _ => None
  end.

(* <tr> <th> title </th> cells </tr> *)
Definition p_hdr_row {A} (title : bytes) (cell : pnode -> option A) (n : pnode) : option (list A) :=
  match n with
  | PE tag [] (PE tag0 [] [PT s] :: cells) =>
      if beq tag t_tr && beq tag0 t_th && beq s title then all_some (map cell cells) else None
  | _ => None
  end.

Fixpoint zip_columns (rates dates : list bytes) (durs : list (Z * Z * delta)) (cvs : list (option bytes))
    (pats : list (option (nat * bytes))) (arches : list (bytes * bytes)) : option (list column) :=
  match rates, dates, durs, cvs, pats, arches with
  | [], [], [], [], [], [] => Some []
  | r :: rates', d :: dates', (h, m, dl) :: durs', c :: cvs', p :: pats', (a, dm) :: arches' =>
      match zip_columns rates' dates' durs' cvs' pats' arches' with
      | Some l => Some (mkcolumn r d h m dl c p a dm :: l)
      | None => None
      end
  | _, _, _, _, _, _ => None
  end.

Definition p_thead (n : pnode) : option (list column) :=
  match n with
  | PE tag [] [r1; r2; r3; r4; r5; r6] =>
      if beq tag t_thead then
        match p_hdr_row x_pass_rate (p_text_cell v_pass) r1, p_hdr_row x_date (p_text_cell v_date) r2,
              p_hdr_row x_duration p_duration_cell r3, p_hdr_row x_changelog p_changelog_cell r4,
              p_hdr_row x_patches p_patches_cell r5, p_hdr_row x_architecture p_arch_cell r6 with
        | Some a, Some b, Some c, Some d, Some e, Some f => zip_columns a b c d e f
        | _, _, _, _, _, _ => None
        end
      else None
  | _ => None
  end.

(* <td></td> or <td class=C> <a class=status href=h> T </a> </td> *)
Definition p_cell (n : pnode) : option (option ocell) :=
  match n with
  | PE tag [] [] => if beq tag t_td then Some None else None
  | PE tag [(k, cls)] [PE tag1 [(k1, v1); (k2, h)] [PT s]] =>
      if beq tag t_td && beq k k_class && beq tag1 t_a && beq k1 k_class && beq v1 v_status && beq k2 k_href
      then Some (Some (mkocell s cls h)) else None
  | _ => None
  end.

(* <tr> <td> <a class=suite href=h> name </a> </td> cells </tr> *)
Definition p_row (n : pnode) : option orow :=
  match n with
  | PE tag [] (PE tag0 [] [PE tag1 [(k1, v1); (k2, h)] [PT s]] :: cells) =>
      if beq tag t_tr && beq tag0 t_td && beq tag1 t_a && beq k1 k_class && beq v1 v_suite && beq k2 k_href
      then match all_some (map p_cell cells) with
           | Some cs => Some (mkorow s h cs)
           | None => None
           end
      else None
  | _ => None
  end.

Definition p_table (n : pnode) : option (list column * list orow) :=
  match n with
  | PE tag [] [hd; PE tagb [] rows] =>
      if beq tag t_table && beq tagb t_tbody then
        match p_thead hd, all_some (map p_row rows) with
        | Some cols, Some rs => Some (cols, rs)
        | _, _ => None
        end
      else None
  | _ => None
  end.

Definition p_head_ok (n : pnode) : bool :=
  match n with
  | PE tag [] [PE tm [(kc, vc)] []; PE ts [] [PT _]; PE ttl [] [PT _]] =>
      beq tag t_head && beq tm t_meta && beq kc k_charset && beq vc v_utf8 && beq ts t_style && beq ttl t_title
  | _ => false
  end.

Definition matrix_of (f : list pnode) : option (list column * list orow) :=
  match f with
  | [PE tag [(kl, vl)] [hd; PE tagb [] [PE tagh [] [PT _]; tbl]]] =>
      if beq tag t_html && beq kl k_lang && beq vl v_en && p_head_ok hd && beq tagb t_body && beq tagh t_h1
      then p_table tbl else None
  | _ => None
  end.

(* ---- all three ---- *)

Inductive presult :=
| POk (cols : list column) (rows : list orow)
| PFail (stage : N).        (* 1 tokenize, 2 build, 3 matrix_of *)

Definition parse_index (l : bytes) : presult :=
  match tokenize l with
  | None => PFail 1
  | Some ts =>
      match build_doc ts with
      | None => PFail 2
      | Some f =>
          match matrix_of f with
          | None => PFail 3
          | Some (cols, rows) => POk cols rows
          end
      end
  end.

(* the observation the oracle judges, from what is on disk: exit status, the bytes
   of index.html (if the file exists), the output tree *)
Definition obs_of_files (exit : N) (index : option bytes) (t : tree) : option obs :=
  match index with
  | None => Some (mkobs exit [] [] t)
  | Some l => match parse_index l with
              | POk cols rows => Some (mkobs exit cols rows t)
              | PFail _ => None
              end
  end.

(* ---- the guard of the round-trip theorem, as booleans (the driver reports them) ---- *)

(* a text: not empty, no less-than sign, no white space at either end *)
Definition text_okb (s : bytes) : bool :=
  match s, rev s with
  | c :: _, e :: _ => negb (is_ws c) && negb (is_ws e) && forallb (fun x => negb (x =? 60)) s
  | _, _ => false
  end.
(* an attribute value: no double quote *)
Definition attr_okb (s : bytes) : bool := forallb (fun x => negb (x =? 34)) s.

Definition col_safeb (c : column) : bool :=
  text_okb (c_rate c) && text_okb (c_date c) && text_okb (c_arch c) && attr_okb (c_dmesg c) &&
  match c_cvs c with Some h => attr_okb h | None => true end &&
  match c_patches c with Some (_, h) => attr_okb h | None => true end.

Definition row_safeb (r : bytes * rowres) : bool :=
  text_okb (fst r) && attr_okb (suite_href (fst r)) &&
  forallb (fun c => match c with Some (_, h) => attr_okb h | None => true end) (rowres_cells (snd r)).

Definition page_safeb (pg : page) : bool := forallb col_safeb (p_cols pg) && forallb row_safeb (p_rows pg).
