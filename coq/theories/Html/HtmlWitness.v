(* HtmlWitness.v - concrete inputs on which the shipped code does not do what
   property C14 says (defects D8 and D9), evaluated on the model by vm_compute.
   The same inputs are replayed on the real robsd-regress-html by the check
   (corpus/C14/*.json). *)
From Robsd Require Import Html.HtmlProofs.
From RobsdGen Require Import Gen_Html.
From Coq Require Import String Sorting.Sorted Sorting.Permutation.
Local Open Scope string_scope.

Definition hdr : string := "step,name,exit,duration,delta,log,user,time,skip
".
Definition log_pass : bytes := bs "==== t ====
PASSED
".
Definition log_fail : bytes := bs "==== t ====
FAILED
".
Definition std_files : list (bytes * bytes) :=
  [(bs "dmesg", bs "dmesg
"); (bs "comment", bs "comment
"); (bs "tags", bs "tags
")].

(* ---- D8: 2 of 5 suites pass, the page says 39% ---- *)
Definition w_rate : input :=
  [mkarch (bs "amd64")
     [mkentry (bs "2022-10-25.1") true
        (Some (bs (hdr ++ "1,a/1,1,1,0,1.log,root,1000,0
2,a/2,1,1,0,2.log,root,1001,0
3,a/3,1,1,0,3.log,root,1002,0
4,a/4,0,1,0,4.log,root,1003,0
5,a/5,0,1,0,5.log,root,1004,0
6,end,0,100,0,,root,1010,0
")))
        (std_files ++ [(bs "1.log", log_fail); (bs "2.log", log_fail); (bs "3.log", log_fail);
                       (bs "4.log", log_pass); (bs "5.log", log_pass)])%list]].

Lemma rate_float_witness :
  rate_float 5 3 = 39%Z /\ spec_rate 5 3 = 40%Z /\ rate_int 5 3 = 40%Z.
Proof. vm_compute. repeat split; reflexivity. Qed.

Lemma rate_page_witness :
  exists pg I, run_html (mkqs (isort dir_le) (isort inv_le) (isort run_le) (isort suite_le)) w_rate = Some pg /\
    view (walk_dirs exec_qsorts) w_rate = Some [I] /\ si_total I = 5%nat /\ si_fail I = 3%nat /\
    map c_rate (p_cols pg) =
      [(render_Z (rate_of 5 3) ++ [PERCENT])%list].
Proof.
  eexists. eexists. split; [vm_compute; reflexivity|].
  split; [vm_compute; reflexivity|]. repeat split; vm_compute; reflexivity.
Qed.

(* ---- D9a: two invocations with equal start times (two arches): a suite that
   ran only under a2 is shown, with a2's log, in a1's column ---- *)
Definition w_tie : input :=
  [mkarch (bs "a1")
     [mkentry (bs "2022-10-25.1") true
        (Some (bs (hdr ++ "1,x/common,0,1,0,c.log,root,1000,0
2,end,0,100,0,,root,1010,0
")))
        (std_files ++ [(bs "c.log", log_pass)])%list];
   mkarch (bs "a2")
     [mkentry (bs "2022-10-25.1") true
        (Some (bs (hdr ++ "1,x/common,0,1,0,c.log,root,1000,0
2,x/only2,0,1,0,o.log,root,1001,0
3,end,0,100,0,,root,1010,0
")))
        (std_files ++ [(bs "c.log", log_pass); (bs "o.log", log_pass)])%list]].

Lemma tie_witness :
  exists pg v I S st href,
    run_html_exec w_tie = Some pg /\ view (walk_dirs exec_qsorts) w_tie = Some v /\
    one_run_per_suite v /\ In I v /\
    nth_error (p_cols pg) 0 = Some (render_column (rinv_of I)) /\
    In (S, RowOk [Some (st, href)]) (p_rows pg) /\
    ~ ran_in S I /\ spec_cell S I = None /\
    si_arch I = bs "a1" /\ href = bs "a2/2022-10-25.1/o.log".
Proof.
  do 2 eexists. exists (match view (walk_dirs exec_qsorts) w_tie with Some (x :: _) => x | _ => mksinv [] [] 0%Z 0%Z None false None None [] [] end).
  exists (bs "x/only2"). do 2 eexists.
  split; [vm_compute; reflexivity|]. split; [vm_compute; reflexivity|].
  split.
  { intros I [<-|[<-|[]]]; vm_compute; repeat constructor; cbn; intuition discriminate. }
  split; [vm_compute; left; reflexivity|].
  split; [vm_compute; reflexivity|].
  split; [vm_compute; right; left; reflexivity|].
  split; [vm_compute; intuition discriminate|].
  split; [vm_compute; reflexivity|]. split; vm_compute; reflexivity.
Qed.

(* ---- D9b: the same suite twice in one invocation ---- *)
Definition w_dup : input :=
  [mkarch (bs "a1")
     [mkentry (bs "2022-10-25.1") true
        (Some (bs (hdr ++ "1,x/s,0,1,0,s1.log,root,2000,0
2,x/s,0,1,0,s2.log,root,2001,0
3,end,0,100,0,,root,2010,0
")))
        (std_files ++ [(bs "s1.log", log_pass); (bs "s2.log", log_pass)])%list;
      mkentry (bs "2022-10-24.1") true
        (Some (bs (hdr ++ "1,x/t,0,1,0,t.log,root,1000,0
2,end,0,100,0,,root,1010,0
")))
        (std_files ++ [(bs "t.log", log_pass)])%list]].

(* distinct start times, and still a run under an invocation it did not run in *)
Lemma dup_witness :
  exists pg v I S c0 st href,
    run_html_exec w_dup = Some pg /\ view (walk_dirs exec_qsorts) w_dup = Some v /\
    distinct_times v /\ In I v /\
    nth_error (p_cols pg) 1 = Some (render_column (rinv_of I)) /\
    In (S, RowOk [c0; Some (st, href)]) (p_rows pg) /\ ~ ran_in S I /\
    href = bs "a1/2022-10-25.1/s2.log" /\ si_date I = bs "2022-10-24.1".
Proof.
  do 2 eexists. exists (match view (walk_dirs exec_qsorts) w_dup with Some (x :: _) => x | _ => mksinv [] [] 0%Z 0%Z None false None None [] [] end).
  exists (bs "x/s"). do 3 eexists.
  split; [vm_compute; reflexivity|]. split; [vm_compute; reflexivity|].
  split; [vm_compute; repeat constructor; cbn; intuition discriminate|].
  split; [vm_compute; left; reflexivity|].
  split; [vm_compute; reflexivity|].
  split; [vm_compute; left; reflexivity|].
  split; [vm_compute; intuition discriminate|]. split; vm_compute; reflexivity.
Qed.

(* ... and the column pointer is dereferenced past the last invocation *)
Definition w_oob : input :=
  [mkarch (bs "a1")
     [mkentry (bs "2022-10-25.1") true
        (Some (bs (hdr ++ "1,x/s,0,1,0,s1.log,root,2000,0
2,x/s,0,1,0,s2.log,root,2001,0
3,end,0,100,0,,root,2010,0
")))
        (std_files ++ [(bs "s1.log", log_pass); (bs "s2.log", log_pass)])%list]].

Lemma oob_walk_witness :
  let c := mkrinv (bs "a1") (bs "d") 2000 100 DNone 2 0 false 0 in
  let r1 := mkrun (bs "l1") 2000 0 PASS in
  let r2 := mkrun (bs "l2") 2000 0 PASS in
  walk false [c] 0 [r1; r2] [] = RowOOB [Some (PASS, bs "l1")] /\
  walk true [c] 0 [r1; r2] [] = RowOk [Some (PASS, bs "l1")].
Proof. vm_compute. split; reflexivity. Qed.

Lemma oob_page_witness :
  exists v, view (walk_dirs exec_qsorts) w_oob = Some v /\ distinct_times v /\
    match run_html_exec w_oob with
    | Some pg => p_rows pg = [(bs "x/s", (if walk_is_bounded then RowOk else RowOOB)
                                           [Some (PASS, bs "a1/2022-10-25.1/s1.log")])]
    | None => False
    end.
Proof.
  eexists. split; [vm_compute; reflexivity|].
  split; [vm_compute; repeat constructor; cbn; intuition discriminate|].
  vm_compute. reflexivity.
Qed.

(* ---- the equal-start-time defect does not depend on how qsort breaks ties ---- *)

Lemma sorts_nil {A} (le : A -> A -> bool) f : sorts le f -> f [] = [].
Proof. intros H. destruct (H []) as [Hp _]. now apply Permutation_nil in Hp. Qed.

Lemma sorts_one {A} (le : A -> A -> bool) f x : sorts le f -> f [x] = [x].
Proof. intros H. destruct (H [x]) as [Hp _]. now apply Permutation_length_1_inv in Hp. Qed.

Lemma sorts_two {A} (le : A -> A -> bool) f x y : sorts le f ->
  (f [x; y] = [x; y] /\ le x y = true) \/ (f [x; y] = [y; x] /\ le y x = true).
Proof.
  intros H. destruct (H [x; y]) as [Hp Hs].
  apply Permutation_length_2_inv in Hp. destruct Hp as [E|E]; rewrite E in Hs |- *.
  - left. split; [reflexivity|]. inversion Hs as [|? ? _ Hall]; subst. now inversion Hall.
  - right. split; [reflexivity|]. inversion Hs as [|? ? _ Hall]; subst. now inversion Hall.
Qed.

(* two arches, equal start times, each with a suite of its own *)
Definition w_tie2 : input :=
  [mkarch (bs "a1")
     [mkentry (bs "2022-10-25.1") true
        (Some (bs (hdr ++ "1,x/1,0,1,0,l.log,root,1000,0
2,end,0,100,0,,root,1010,0
")))
        (std_files ++ [(bs "l.log", log_pass)])%list];
   mkarch (bs "a2")
     [mkentry (bs "2022-10-25.1") true
        (Some (bs (hdr ++ "1,x/2,0,1,0,l.log,root,1000,0
2,end,0,100,0,,root,1010,0
")))
        (std_files ++ [(bs "l.log", log_pass)])%list]].

Definition w_tie2_state : state :=
  match parse_all exec_qsorts w_tie2 (mkstate [] [] []) with Some st => st | None => mkstate [] [] [] end.

Lemma w_tie2_parse q : qsorts_ok q ->
  parse_all q w_tie2 (mkstate [] [] []) = Some w_tie2_state.
Proof.
  intros [Hd _].
  assert (Hw : forall e, accepted e = true -> walk_dirs q [e] = [e]).
  { intros e He. unfold walk_dirs. cbn [filter]. rewrite He. now rewrite (sorts_one _ _ _ Hd). }
  unfold w_tie2. cbn [parse_all a_entries a_arch]. rewrite !Hw by reflexivity. vm_compute. reflexivity.
Qed.

Lemma w_tie2_view q : qsorts_ok q ->
  view (walk_dirs q) w_tie2 = view (walk_dirs exec_qsorts) w_tie2.
Proof.
  intros [Hd _].
  assert (Hw : forall e, accepted e = true -> walk_dirs q [e] = [e]).
  { intros e He. unfold walk_dirs. cbn [filter]. rewrite He. now rewrite (sorts_one _ _ _ Hd). }
  unfold w_tie2. cbn [view a_entries a_arch]. rewrite !Hw by reflexivity. reflexivity.
Qed.

(* whatever qsort does with the two equal keys: the first column belongs to one
   of the two invocations, and the row of the suite that ran only in the OTHER
   one shows its run there *)
Lemma tie_any_qsort q : qsorts_ok q ->
  exists pg v I S st href,
    run_html q w_tie2 = Some pg /\ view (walk_dirs q) w_tie2 = Some v /\
    one_run_per_suite v /\ In I v /\
    nth_error (p_cols pg) 0 = Some (render_column (rinv_of I)) /\
    In (S, RowOk [Some (st, href)]) (p_rows pg) /\ ~ ran_in S I.
Proof.
  intros Hq. pose proof Hq as [_ [Hi [Hr Hs]]].
  assert (Hrun : run_html q w_tie2 = Some (render q w_tie2_state)).
  { unfold run_html. change w_tie2 with (hd (mkarch [] []) w_tie2 :: tl w_tie2) at 1.
    cbv beta iota. now rewrite (w_tie2_parse q Hq). }
  rewrite Hrun, (w_tie2_view q Hq).
  unfold render.
  remember (st_invs w_tie2_state) as invs eqn:Ei. vm_compute in Ei.
  remember (st_suites w_tie2_state) as ss eqn:Es. vm_compute in Es.
  remember (st_tree w_tie2_state) as tr eqn:Et. clear Et.
  subst invs ss.
  unfold sort_suites. cbn [filter s_fail s_name Nat.ltb Nat.leb negb andb].
  match goal with |- context [prefixb nonregress_prefix ?n] =>
    change (prefixb nonregress_prefix n) with false end.
  match goal with |- context [prefixb nonregress_prefix ?n] =>
    change (prefixb nonregress_prefix n) with false end.
  cbn [negb andb]. rewrite (sorts_nil _ _ Hs). cbn [app].
  match goal with |- context [qs_suites q [?a; ?b]] =>
    destruct (sorts_two _ _ a b Hs) as [[E _]|[_ E]]; [rewrite E|vm_compute in E; discriminate] end.
  unfold render_suite. cbn [app].
  match goal with |- context [map ?f [?a; ?b]] => change (map f [a; b]) with [f a; f b] end.
  cbv beta. cbn [s_name s_runs]. rewrite !(sorts_one _ _ _ Hr).
  match goal with |- context [qs_invs q [?a; ?b]] =>
    destruct (sorts_two _ _ a b Hi) as [[E' _]|[E' _]]; rewrite E'; clear E E' end.
  - do 2 eexists. exists (match view (walk_dirs exec_qsorts) w_tie2 with Some (x :: _) => x | _ => mksinv [] [] 0%Z 0%Z None false None None [] [] end).
    exists (bs "x/2"). do 2 eexists.
    split; [reflexivity|]. split; [vm_compute; reflexivity|].
    split. { intros I [<-|[<-|[]]]; vm_compute; repeat constructor; cbn; intuition discriminate. }
    split; [vm_compute; left; reflexivity|].
    split; [vm_compute; reflexivity|].
    split; [vm_compute; right; left; reflexivity|]. vm_compute; intuition discriminate.
  - do 2 eexists. exists (match view (walk_dirs exec_qsorts) w_tie2 with Some (_ :: x :: _) => x | _ => mksinv [] [] 0%Z 0%Z None false None None [] [] end).
    exists (bs "x/1"). do 2 eexists.
    split; [reflexivity|]. split; [vm_compute; reflexivity|].
    split. { intros I [<-|[<-|[]]]; vm_compute; repeat constructor; cbn; intuition discriminate. }
    split; [vm_compute; right; left; reflexivity|].
    split; [vm_compute; reflexivity|].
    split; [vm_compute; left; reflexivity|]. vm_compute; intuition discriminate.
Qed.

(* ---- which form the source has now (gen/Gen_Html.v), and what follows ---- *)

Lemma rate_current :
  (rate_is_integer = false /\ rate_of 5 3 = 39%Z) \/ (rate_is_integer = true /\ rate_holds).
Proof.
  destruct rate_is_integer eqn:E.
  - right. split; [reflexivity|]. apply rate_holds_if_integer, E.
  - left. split; [reflexivity|]. unfold rate_of. rewrite E. vm_compute. reflexivity.
Qed.

Lemma no_oob_current :
  (walk_is_bounded = false /\
   exists S cells pg, run_html_exec w_oob = Some pg /\ In (S, RowOOB cells) (p_rows pg)) \/
  (walk_is_bounded = true /\ no_oob).
Proof.
  destruct walk_is_bounded eqn:E.
  - right. split; [reflexivity|]. apply no_oob_if_bounded, E.
  - left. split; [reflexivity|].
    pose proof oob_page_witness as [v [_ [_ H]]]. rewrite E in H.
    destruct (run_html_exec w_oob) as [pg|]; [|destruct H].
    do 3 eexists. split; [reflexivity|]. rewrite H. now left.
Qed.

(* ---- non-vacuity ---- *)
Definition log_skip : bytes := bs "==== t ====
SKIPPED
".
Definition w_example : input :=
  [mkarch (bs "amd64")
     [mkentry (bs "2022-10-24.1") true
        (Some (bs (hdr ++ "1,env,0,1,0,env.log,root,1000,0
2,bin/ksh,0,1,0,ksh.log,root,1001,0
3,lib/old,1,1,0,old.log,root,1002,0
4,end,0,3600,0,,root,1010,0
")))
        (std_files ++ [(bs "ksh.log", log_pass); (bs "old.log", log_fail)])%list;
      mkentry (bs "2022-10-25.1") true
        (Some (bs (hdr ++ "1,bin/ksh,124,1,0,ksh.log,root,3000,0
2,bin/new,0,1,0,new.log,root,3001,0
3,end,0,7200,0,,root,3010,0
")))
        (std_files ++ [(bs "ksh.log", log_pass); (bs "new.log", log_skip)])%list;
      mkentry (bs "attic") true None []];
   mkarch (bs "arm64")
     [mkentry (bs "2022-10-24.2") true
        (Some (bs (hdr ++ "1,bin/ksh,0,1,0,ksh.log,root,2000,0
2,end,0,60,0,,root,2010,0
")))
        (std_files ++ [(bs "ksh.log", log_pass)])%list]].

Definition w_example_suites : list bytes := [bs "bin/ksh"; bs "lib/old"; bs "bin/new"].
Definition w_example_rows : list rowres :=
  [RowOk [Some (NOTERM, bs "amd64/2022-10-25.1/ksh.log"); Some (PASS, bs "arm64/2022-10-24.2/ksh.log");
          Some (PASS, bs "amd64/2022-10-24.1/ksh.log")];
   RowOk [None; None; Some (FAIL, bs "amd64/2022-10-24.1/old.log")];
   RowOk [Some (SKIP, bs "amd64/2022-10-25.1/new.log")]].

Lemma example_page :
  exists pg v, run_html_exec w_example = Some pg /\ view (walk_dirs exec_qsorts) w_example = Some v /\
    List.length v = 3%nat /\ distinct_times v /\ one_run_per_suite v /\
    map fst (p_rows pg) = w_example_suites /\
    map snd (p_rows pg) = w_example_rows.
Proof.
  do 2 eexists. split; [vm_compute; reflexivity|]. split; [vm_compute; reflexivity|].
  split; [reflexivity|].
  split; [vm_compute; repeat constructor; cbn; intuition discriminate|].
  split.
  { intros J [<-|[<-|[<-|[]]]]; vm_compute; repeat constructor; cbn; intuition discriminate. }
  split; vm_compute; reflexivity.
Qed.

(* ---- the link of a run whose log file name is shared with another run of the
   same invocation leads to the OTHER run's extraction (the first creation of a
   path decides, and the extraction depends on the status) ---- *)
Definition w_shared : input :=
  [mkarch (bs "a1")
     [mkentry (bs "2022-10-25.1") true
        (Some (bs (hdr ++ "1,x/a,0,1,0,s.log,root,1000,0
2,x/b,1,1,0,s.log,root,1001,0
3,end,0,100,0,,root,1010,0
")))
        (std_files ++ [(bs "s.log", bs "cc -o t t.c
==== t ====
SKIPPED
")])%list]].

Lemma link_witness :
  exists pg v I sr other,
    run_html_exec w_shared = Some pg /\ view (walk_dirs exec_qsorts) w_shared = Some v /\
    In I v /\ In sr (si_runs I) /\ sr_suite sr = bs "x/b" /\
    tree_lookup (p_tree pg) (pjoin (pjoin (si_arch I) (si_date I)) (sr_log sr)) = Some (Some other) /\
    other <> spec_extract (spec_status (sr_exit sr) (sr_content sr)) (sr_content sr).
Proof.
  do 2 eexists.
  exists (match view (walk_dirs exec_qsorts) w_shared with Some (x :: _) => x | _ => mksinv [] [] 0%Z 0%Z None false None None [] [] end).
  exists (match view (walk_dirs exec_qsorts) w_shared with
          | Some (x :: _) => nth 1 (si_runs x) (mksrun [] 0%Z [] [])
          | _ => mksrun [] 0%Z [] [] end).
  eexists.
  split; [vm_compute; reflexivity|]. split; [vm_compute; reflexivity|].
  split; [vm_compute; left; reflexivity|]. split; [vm_compute; right; left; reflexivity|].
  split; [vm_compute; reflexivity|]. split; [vm_compute; reflexivity|].
  vm_compute. discriminate.
Qed.

(* ---- the duplicate-suite defect does not depend on qsort either ---- *)

Definition w_dup_state : state :=
  match parse_all exec_qsorts w_dup (mkstate [] [] []) with Some st => st | None => mkstate [] [] [] end.

Lemma w_dup_walk q : qsorts_ok q ->
  walk_dirs q (a_entries (hd (mkarch [] []) w_dup)) = walk_dirs exec_qsorts (a_entries (hd (mkarch [] []) w_dup)).
Proof.
  intros [Hd _]. unfold walk_dirs.
  destruct (filter accepted (a_entries (hd (mkarch [] []) w_dup))) as [|e1 [|e2 [|e3 l]]] eqn:Ef;
    try (vm_compute in Ef; discriminate).
  vm_compute in Ef. injection Ef as <- <-.
  match goal with |- context [qs_dirs q [?a; ?b]] =>
    destruct (sorts_two _ _ a b Hd) as [[E _]|[_ E]]; [rewrite E|vm_compute in E; discriminate] end.
  vm_compute. reflexivity.
Qed.

Lemma dup_any_qsort q : qsorts_ok q ->
  exists pg v I S c0 st href,
    run_html q w_dup = Some pg /\ view (walk_dirs q) w_dup = Some v /\
    distinct_times v /\ In I v /\
    nth_error (p_cols pg) 1 = Some (render_column (rinv_of I)) /\
    In (S, RowOk [c0; Some (st, href)]) (p_rows pg) /\ ~ ran_in S I /\
    si_date I = bs "2022-10-24.1" /\ prefixb (bs "a1/2022-10-25.1/") href = true.
Proof.
  intros Hq. pose proof Hq as [_ [Hi [Hr Hs]]].
  assert (Hparse : parse_all q w_dup (mkstate [] [] []) = Some w_dup_state).
  { change w_dup with (hd (mkarch [] []) w_dup :: tl w_dup) at 1.
    cbn [parse_all]. rewrite (w_dup_walk q Hq). vm_compute. reflexivity. }
  assert (Hview : view (walk_dirs q) w_dup = view (walk_dirs exec_qsorts) w_dup).
  { change w_dup with (hd (mkarch [] []) w_dup :: tl w_dup).
    cbn [view]. rewrite (w_dup_walk q Hq). reflexivity. }
  assert (Hrun : run_html q w_dup = Some (render q w_dup_state)).
  { unfold run_html. change w_dup with (hd (mkarch [] []) w_dup :: tl w_dup) at 1.
    cbv beta iota. change (hd (mkarch [] []) w_dup :: tl w_dup) with w_dup. now rewrite Hparse. }
  rewrite Hrun, Hview. unfold render.
  remember (st_invs w_dup_state) as invs eqn:Ei. vm_compute in Ei.
  remember (st_suites w_dup_state) as ss eqn:Es. vm_compute in Es.
  remember (st_tree w_dup_state) as tr eqn:Et. clear Et.
  subst invs ss.
  unfold sort_suites. cbn [filter s_fail s_name Nat.ltb Nat.leb negb andb].
  repeat match goal with |- context [prefixb nonregress_prefix ?n] =>
    change (prefixb nonregress_prefix n) with false end.
  cbn [negb andb]. rewrite (sorts_nil _ _ Hs). cbn [app].
  match goal with |- context [qs_suites q [?a; ?b]] =>
    destruct (sorts_two _ _ a b Hs) as [[E E2]|[E E2]]; try (vm_compute in E2; discriminate E2); rewrite E; clear E2 end.
  cbn [app map]. rewrite !render_suite_eq. cbn [s_name s_runs]. rewrite !(sorts_one _ _ _ Hr).
  match goal with |- context [qs_invs q [?a; ?b]] =>
    destruct (sorts_two _ _ a b Hi) as [[E' E2]|[E' E2]]; try (vm_compute in E2; discriminate E2); rewrite E'; clear E E' E2 end.
  match goal with |- context [qs_runs q [?a; ?b]] =>
    destruct (sorts_two _ _ a b Hr) as [[E _]|[E _]]; rewrite E; clear E end.
  - do 2 eexists. exists (match view (walk_dirs exec_qsorts) w_dup with Some (x :: _) => x | _ => mksinv [] [] 0%Z 0%Z None false None None [] [] end).
    exists (bs "x/s"). do 3 eexists.
    split; [reflexivity|]. split; [vm_compute; reflexivity|].
    split; [vm_compute; repeat constructor; cbn; intuition discriminate|].
    split; [vm_compute; left; reflexivity|].
    split; [vm_compute; reflexivity|].
    split; [vm_compute; left; reflexivity|].
    split; [vm_compute; intuition discriminate|]. split; vm_compute; reflexivity.
  - do 2 eexists. exists (match view (walk_dirs exec_qsorts) w_dup with Some (x :: _) => x | _ => mksinv [] [] 0%Z 0%Z None false None None [] [] end).
    exists (bs "x/s"). do 3 eexists.
    split; [reflexivity|]. split; [vm_compute; reflexivity|].
    split; [vm_compute; repeat constructor; cbn; intuition discriminate|].
    split; [vm_compute; left; reflexivity|].
    split; [vm_compute; reflexivity|].
    split; [vm_compute; left; reflexivity|].
    split; [vm_compute; intuition discriminate|]. split; vm_compute; reflexivity.
Qed.
