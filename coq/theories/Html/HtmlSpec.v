(* HtmlSpec.v - specification of the regress HTML matrix, written as
   comprehensions over the invocations, not as the loops of regress-html.c:

     view      what the command line denotes: per arch argument the invocation
               directories in the order they are walked, each with its start time
               (time of the first step), duration (of the step named end) and its
               runs = the steps whose name contains '/', with exit code, log name
               and log content;
     status    of a run, from its exit code and the lines of its log after the
               leading shell trace (independent of regress_log_peek's loop);
     cell      (S, I) = the first run of suite S in invocation I, if any;
     rate      floor(100 * (total - fail) / total);
     order     of the rows: a key (group, -fail, name) per suite.

   Plus the boolean oracle [spec_check] / [spec_ok] applied to what the
   implementation rendered (matrix parsed from index.html, output tree). *)
From Robsd Require Export Html.HtmlDefs RegressLog.RLSpec.
From RobsdGen Require Import Gen_Html.
Local Open Scope N_scope.

(* ---- the view ---- *)

Record srun := mksrun {
  sr_suite : bytes;
  sr_exit : Z;
  sr_log : bytes;          (* name of the log inside the invocation directory *)
  sr_content : bytes;      (* its content *)
}.

Record sinv := mksinv {
  si_arch : bytes;
  si_date : bytes;         (* name of the invocation directory *)
  si_time : Z;
  si_seconds : Z;
  si_prev : option Z;      (* duration of the previous invocation of the same argument *)
  si_cvs : bool;
  si_dmesg : option bytes;
  si_comment : option bytes;
  si_patches : list (bytes * bytes);
  si_runs : list srun;
}.

Definition srun_of (e : entry) (r : row) : option srun :=
  match lookup_log e (str_field r f_log) with
  | LogFile c => Some (mksrun (str_field r f_name) (int_field r f_exit) (str_field r f_log) c)
  | _ => None
  end.

Definition sinv_of (arch : bytes) (prev : option Z) (e : entry) : option sinv :=
  match e_step e with
  | None => None
  | Some content =>
      match parse_file content with
      | None | Some [] => None
      | Some ((first :: _) as rows) =>
          match find_by_name rows name_end with
          | None => None
          | Some last =>
              match all_some (map (srun_of e)
                              (filter (fun r => is_regress_step (str_field r f_name)) rows)) with
              | None => None
              | Some runs =>
                  Some (mksinv arch (e_name e) (int_field first f_time) (int_field last f_duration)
                          prev (has_tag name_tag_cvs (assoc name_tags (all_files e)))
                          (assoc name_dmesg (all_files e)) (assoc name_comment (all_files e))
                          (patches_of e) runs)
              end
          end
      end
  end.

Fixpoint view_arch (arch : bytes) (prev : option Z) (es : list entry) : option (list sinv) :=
  match es with
  | [] => Some []
  | e :: es' =>
      match sinv_of arch prev e with
      | None => None
      | Some si =>
          match view_arch arch (Some (si_seconds si)) es' with
          | None => None
          | Some r => Some (si :: r)
          end
      end
  end.

(* [walk]: the order in which invocation_walk hands out an arch's directories *)
Fixpoint view (walk : list entry -> list entry) (inp : input) : option (list sinv) :=
  match inp with
  | [] => Some []
  | a :: inp' =>
      match view_arch (a_arch a) None (walk (a_entries a)), view walk inp' with
      | Some l, Some r => Some (l ++ r)
      | _, _ => None
      end
  end.

(* ---- status, cell, rate ---- *)

Definition log_has (sel : bytes -> bool) (log : bytes) : bool :=
  existsb sel (drop_trace (clines log)).

Definition spec_status (exit : Z) (log : bytes) : status :=
  if (exit =? ex_timeout)%Z then NOTERM
  else if negb (exit =? 0)%Z then (if log_has isxpassed log then XPASS else FAIL)
  else if log_has isxfailed log then XFAIL
  else if log_has isskipped log then SKIP
  else PASS.

Definition sinv_dir (I : sinv) : bytes := pjoin (si_arch I) (si_date I).

Definition srun_status (sr : srun) : status := spec_status (sr_exit sr) (sr_content sr).

Definition spec_cell (S : bytes) (I : sinv) : cell :=
  match find (fun sr => beq (sr_suite sr) S) (si_runs I) with
  | Some sr => Some (srun_status sr, pjoin (sinv_dir I) (sr_log sr))
  | None => None
  end.

Definition ran_in (S : bytes) (I : sinv) : Prop := In S (map sr_suite (si_runs I)).

Definition si_total (I : sinv) : nat := List.length (si_runs I).
Definition si_fail (I : sinv) : nat :=
  List.length (filter (fun sr => status_failure (srun_status sr)) (si_runs I)).

Definition spec_rate (total fail : nat) : Z :=
  if Nat.eqb total 0 then 0%Z
  else ((100 * (Z.of_nat total - Z.of_nat fail)) / Z.of_nat total)%Z.

(* ---- global guards under which the shipped column walk is right for every row
   (the per-row guard [row_guard] and the unguarded characterisation are in HtmlRow.v) ---- *)

Definition distinct_times (v : list sinv) : Prop := NoDup (map si_time v).
Definition one_run_per_suite (v : list sinv) : Prop :=
  forall I, In I v -> NoDup (map sr_suite (si_runs I)).

(* ---- suites and their order ---- *)

Definition all_runs (v : list sinv) : list srun := flat_map si_runs v.

Fixpoint dedup (l : list bytes) : list bytes :=
  match l with
  | [] => []
  | x :: l' => x :: filter (fun y => negb (beq y x)) (dedup l')
  end.

(* the suites, in order of first appearance *)
Definition spec_suites (v : list sinv) : list bytes := dedup (map sr_suite (all_runs v)).

Definition spec_fail (v : list sinv) (S : bytes) : nat :=
  List.length (filter (fun sr => beq (sr_suite sr) S && status_failure (srun_status sr)) (all_runs v)).

(* 0: failing somewhere, 1: never failing, 2: never failing and outside the regress directory *)
Definition spec_group (v : list sinv) (S : bytes) : nat :=
  if Nat.ltb 0 (spec_fail v S) then 0%nat
  else if prefixb nonregress_prefix S then 2%nat else 1%nat.

(* row S may stand above row T *)
Definition row_le (v : list sinv) (S T : bytes) : bool :=
  if Nat.ltb (spec_group v S) (spec_group v T) then true
  else if Nat.ltb (spec_group v T) (spec_group v S) then false
  else if Nat.ltb (spec_fail v T) (spec_fail v S) then true
  else if Nat.ltb (spec_fail v S) (spec_fail v T) then false
  else match strcmp S T with Gt => false | _ => true end.

(* trailing empty cells are not rendered *)
Fixpoint trim_cells (l : list cell) : list cell :=
  match l with
  | [] => []
  | c :: l' => match c, trim_cells l' with
               | None, [] => []
               | _, r => c :: r
               end
  end.

Definition spec_row (cols : list sinv) (S : bytes) : list cell :=
  trim_cells (map (spec_cell S) cols).

(* ---- the output tree ---- *)

Definition spec_extract (st : status) (log : bytes) : bytes :=
  let bf := file_blocks fl_failures log in
  let bs_ := file_blocks fl_skipped log in
  match bf with
  | _ :: _ => render_from false 0 bf ++ render_from true 0 bs_
  | [] => if negb (status_failure st) && nonempty bs_ then render_from false 0 bs_
          else trim log
  end.

Definition opt_file (p : bytes) (c : option bytes) : tree :=
  match c with Some x => [(p, Some x)] | None => [] end.

(* what one invocation contributes, in the order the program creates it *)
Definition spec_tree_inv (I : sinv) : tree :=
  let d := sinv_dir I in
  [(si_arch I, None); (d, None)] ++
  opt_file (pjoin d name_dmesg) (si_dmesg I) ++
  opt_file (pjoin d name_comment) (si_comment I) ++
  [(pjoin d name_diff, None)] ++
  map (fun f => (pjoin (pjoin d name_diff) (fst f), Some (snd f))) (si_patches I) ++
  map (fun sr => (pjoin d (sr_log sr), Some (spec_extract (srun_status sr) (sr_content sr)))) (si_runs I).

(* an existing path is never overwritten: the first entry of a path decides *)
Fixpoint first_wins (seen : list bytes) (t : tree) : tree :=
  match t with
  | [] => []
  | (p, c) :: t' => if existsb (beq p) seen then first_wins seen t'
                    else (p, c) :: first_wins (p :: seen) t'
  end.

Definition spec_tree (v : list sinv) : tree := first_wins [] (flat_map spec_tree_inv v).

(* the program stops when an invocation directory exists already *)
Fixpoint nodupb (l : list bytes) : bool :=
  match l with
  | [] => true
  | x :: l' => negb (existsb (beq x) l') && nodupb l'
  end.

(* ---- the oracle ---- *)

(* what the harness reads out of index.html and the output directory *)
Record ocell := mkocell { oc_text : bytes; oc_class : bytes; oc_href : bytes }.
Record orow := mkorow { or_suite : bytes; or_href : bytes; or_cells : list (option ocell) }.
Record obs := mkobs {
  o_exit : N;
  o_cols : list column;
  o_rows : list orow;
  o_tree : tree;
}.

Definition opt_eqb {A} (eq : A -> A -> bool) (a b : option A) : bool :=
  match a, b with
  | None, None => true
  | Some x, Some y => eq x y
  | _, _ => false
  end.

Fixpoint list_eqb {A} (eq : A -> A -> bool) (a b : list A) : bool :=
  match a, b with
  | [], [] => true
  | x :: a', y :: b' => eq x y && list_eqb eq a' b'
  | _, _ => false
  end.

Fixpoint list_all2 {A B} (f : A -> B -> bool) (a : list A) (b : list B) : bool :=
  match a, b with
  | [], [] => true
  | x :: a', y :: b' => f x y && list_all2 f a' b'
  | _, _ => false
  end.

Definition delta_eqb (a b : delta) : bool :=
  match a, b with DNone, DNone | Faster, Faster | Slower, Slower => true | _, _ => false end.

Definition spec_delta (I : sinv) : delta :=
  match si_prev I with Some p => duration_delta (si_seconds I) p | None => DNone end.

(* every header field of a column except the pass rate *)
Definition column_ok (I : sinv) (c : column) : bool :=
  let d := sinv_dir I in
  beq (c_date c) (si_date I) && beq (c_arch c) (si_arch I) &&
  (c_hours c =? to_int32 (Z.quot (si_seconds I) 3600))%Z &&
  (c_minutes c =? to_int32 (Z.quot (Z.rem (si_seconds I) 3600) 60))%Z &&
  delta_eqb (c_delta c) (spec_delta I) &&
  opt_eqb beq (c_cvs c) (if si_cvs I then Some (pjoin d name_comment) else None) &&
  opt_eqb (fun a b => Nat.eqb (fst a) (fst b) && beq (snd a) (snd b)) (c_patches c)
    (match si_patches I with [] => None | ps => Some (List.length ps, pjoin d name_diff) end) &&
  beq (c_dmesg c) (pjoin d name_dmesg).

Definition rate_ok (I : sinv) (c : column) : bool :=
  beq (c_rate c) (render_Z (spec_rate (si_total I) (si_fail I)) ++ [PERCENT]).

Definition find_inv (v : list sinv) (c : column) : option sinv :=
  find (fun I => beq (si_arch I) (c_arch c) && beq (si_date I) (c_date c)) v.

Fixpoint sorted_desc (ts : list Z) : bool :=
  match ts with
  | a :: (b :: _) as r => (b <=? a)%Z && sorted_desc r
  | _ => true
  end.

Definition ocell_ok (want : cell) (got : option ocell) : bool :=
  match want, got with
  | None, None => true
  | Some (st, href), Some oc =>
      beq (oc_text oc) (status_str st) && beq (oc_class oc) (status_str st) && beq (oc_href oc) href
  | _, _ => false
  end.

Fixpoint tree_lookup (t : tree) (p : bytes) : option (option bytes) :=
  match t with
  | [] => None
  | (p', c) :: t' => if beq p' p then Some c else tree_lookup t' p
  end.

Definition tree_ok (want got : tree) : bool :=
  Nat.eqb (List.length want) (List.length got) &&
  forallb (fun e => match tree_lookup got (fst e) with
                    | Some c => opt_eqb beq c (snd e)
                    | None => false
                    end) want.

(* clause numbers: 1 exit status, 2 columns are not the invocations in descending
   start-time order, 3 a header field, 4 pass rate, 5 the suites or their order,
   6 a cell, 7 a row with more cells than columns, 8 the output tree *)
Definition spec_check (inp : input) (o : obs) : list N :=
  match view (walk_dirs exec_qsorts) inp with
  | None => if o_exit o =? 1 then [] else [1]
  | Some v =>
      if match inp with [] => true | _ => false end || negb (nodupb (map sinv_dir v))
      then (if o_exit o =? 1 then [] else [1])
      else if negb (o_exit o =? 0) then [1]
      else
        match all_some (map (find_inv v) (o_cols o)) with
        | None => [2]
        | Some cols =>
            let ncols := List.length cols in
            (if Nat.eqb ncols (List.length v) && nodupb (map sinv_dir cols) &&
                sorted_desc (map si_time cols) then [] else [2]) ++
            (if forallb (fun p => column_ok (fst p) (snd p)) (combine cols (o_cols o)) then [] else [3]) ++
            (if forallb (fun p => rate_ok (fst p) (snd p)) (combine cols (o_cols o)) then [] else [4]) ++
            (if list_eqb beq (map or_suite (o_rows o)) (isort (row_le v) (spec_suites v)) &&
                forallb (fun r => beq (or_href r) (suite_href (or_suite r))) (o_rows o) then [] else [5]) ++
            (if forallb (fun r => list_all2 ocell_ok (spec_row cols (or_suite r)) (or_cells r)) (o_rows o)
             then [] else [6]) ++
            (if forallb (fun r => Nat.leb (List.length (or_cells r)) ncols) (o_rows o) then [] else [7]) ++
            (if tree_ok (spec_tree v) (o_tree o) then [] else [8])
        end
  end.

Definition spec_ok (inp : input) (o : obs) : bool :=
  match spec_check inp o with [] => true | _ => false end.

(* the model's page as an observation (for the agreement theorem and the driver) *)
Definition ocell_of (c : cell) : option ocell :=
  match c with
  | Some (st, href) => Some (mkocell (status_str st) (status_str st) href)
  | None => None
  end.

Definition orow_of (r : bytes * rowres) : orow :=
  mkorow (fst r) (suite_href (fst r))
         (map ocell_of (match snd r with RowOk c => c | RowOOB c => c end)).

Definition obs_of (p : option page) : obs :=
  match p with
  | None => mkobs 1 [] [] []
  | Some pg => mkobs 0 (p_cols pg) (map orow_of (p_rows pg)) (p_tree pg)
  end.
