(* HtmlRowOracle.v - the cell clause of the oracle, row by row.

   [spec_check] (HtmlSpec.v) answers clause 6 when SOME row of the rendered
   matrix is not the specified row.  The harness must not take "some suite of
   the case is recorded twice / two invocations share a start time" as a licence
   for every failing row of that case: the known finding
   run-shown-under-wrong-invocation concerns exactly the rows whose OWN suite
   violates [row_guard] (HtmlRow.v).  [rows_report] gives per row of the
   observation:

     rr_cells_ok   the row is the specified row (the summand of clause 6),
     rr_once       the suite is recorded at most once in every invocation,
     rr_noties     no invocation in which the suite ran shares its start time
                   with another invocation          (both together: row_guard),
     rr_sound      what holds without any guard (HtmlRow.cells_sound): the row is
                   no longer than the header and every non-empty cell carries the
                   status and the arch/date/log link of SOME run of that suite, in
                   a column that started no later than that run's invocation.

   Proved here: clause 6 is exactly "some row has rr_cells_ok = false"
   (clause6_rows); the two booleans are row_guard (row_guardb_iff, for pairwise
   distinct arch/date directories, which every page has); and for the page the
   MODEL renders, whatever the input, every row is sound and every row whose
   suite satisfies the guard is ok (rows_report_model).  So a failing row with
   the guard is never the known finding, and a failing row without it is the
   known finding only while it is sound. *)
From Robsd Require Export Html.HtmlOracle Html.HtmlRowDefs.
From Robsd Require Import Base.Sort.
From RobsdGen Require Import Gen_Html.
From Coq Require Import Sorting.Sorted Sorting.Permutation.
Local Open Scope N_scope.

Lemma onceb_iff S I : onceb S I = true <-> once S I.
Proof. unfold onceb, once, suite_is. apply Nat.leb_le. Qed.

Lemma ranb_iff S I : ranb S I = true <-> ran_in S I.
Proof.
  unfold ranb, ran_in, suite_is. rewrite existsb_exists, in_map_iff. split.
  - intros [sr [Hin He]]. apply beq_eq in He. eauto.
  - intros [sr [He Hin]]. exists sr. split; [exact Hin|]. now apply beq_eq.
Qed.

Lemma row_onceb_iff v S : row_onceb v S = true <-> forall I, In I v -> once S I.
Proof.
  unfold row_onceb. rewrite forallb_forall. split; intros H I HI; apply onceb_iff, H, HI.
Qed.

Lemma row_notiesb_iff v S : NoDup (map sinv_dir v) ->
  row_notiesb v S = true <->
  (forall I J, In I v -> In J v -> ran_in S I -> si_time I = si_time J -> I = J).
Proof.
  intros Hnd. unfold row_notiesb. rewrite forallb_forall. split.
  - intros H I J HI HJ Hran Ht. specialize (H I HI). apply ranb_iff in Hran. rewrite Hran in H.
    cbn [negb orb] in H. rewrite forallb_forall in H. specialize (H J HJ).
    rewrite Ht, Z.eqb_refl in H. cbn [negb orb] in H. apply beq_eq in H.
    exact (nodup_map_inj sinv_dir v I J Hnd HI HJ H).
  - intros H I HI. destruct (ranb S I) eqn:Er; [|reflexivity]. cbn [negb orb].
    apply forallb_forall. intros J HJ. destruct (Z.eqb_spec (si_time I) (si_time J)) as [Ht|_]; [|reflexivity].
    cbn [negb orb]. apply ranb_iff in Er. rewrite (H I J HI HJ Er Ht). apply beq_refl.
Qed.

Lemma row_guardb_iff v S : NoDup (map sinv_dir v) -> (row_guardb v S = true <-> row_guard v S).
Proof.
  intros Hnd. unfold row_guardb, row_guard. rewrite andb_true_iff, row_onceb_iff, (row_notiesb_iff v S Hnd).
  reflexivity.
Qed.

(* clause 6 of spec_check is "some row of the report is not ok" *)
Lemma in_clause (b : bool) (k x : N) : In x (if b then [] else [k]) <-> b = false /\ x = k.
Proof. destruct b; cbn; split; try tauto; intros; intuition congruence. Qed.

Lemma clause6_rows inp o :
  In 6 (spec_check inp o) <->
  exists v rep, view (walk_dirs exec_qsorts) inp = Some v /\
    inp <> [] /\ nodupb (map sinv_dir v) = true /\ o_exit o = 0 /\
    rows_report inp o = Some rep /\ existsb (fun r => negb (rr_cells_ok r)) rep = true.
Proof.
  unfold spec_check, rows_report.
  destruct (view (walk_dirs exec_qsorts) inp) as [v|] eqn:Hv.
  2:{ split.
      - destruct (o_exit o =? 1); cbn; intros H; [destruct H|destruct H as [H|[]]; discriminate].
      - intros [v [rep [H _]]]. discriminate. }
  destruct (match inp with [] => true | _ :: _ => false end || negb (nodupb (map sinv_dir v))) eqn:Hg.
  { split.
    - destruct (o_exit o =? 1); cbn; intros H; [destruct H|destruct H as [H|[]]; discriminate].
    - intros [v' [rep [E [Hne [Hnd _]]]]]. injection E as <-. rewrite Hnd in Hg.
      destruct inp; [congruence|discriminate]. }
  apply orb_false_iff in Hg. destruct Hg as [Hne Hnd]. apply negb_false_iff in Hnd.
  destruct (N.eqb_spec (o_exit o) 0) as [He|He]; cbn [negb].
  2:{ split.
      - intros [H|[]]; discriminate.
      - intros [v' [rep [_ [_ [_ [E _]]]]]]. contradiction. }
  destruct (all_some (map (find_inv v) (o_cols o))) as [cols|] eqn:Hc.
  2:{ split.
      - intros [H|[]]; discriminate.
      - intros [v' [rep [_ [_ [_ [_ [E _]]]]]]]. discriminate. }
  rewrite !in_app_iff, !in_clause.
  split.
  - intros H. exists v, (map (row_report v cols) (o_rows o)).
    split; [reflexivity|]. split; [destruct inp; [discriminate|discriminate]|].
    split; [exact Hnd|]. split; [exact He|]. split; [reflexivity|].
    assert (H6 : forallb (fun r => list_all2 ocell_ok (spec_row cols (or_suite r)) (or_cells r)) (o_rows o) = false).
    { destruct H as [[_ H]|[[_ H]|[[_ H]|[[_ H]|[[H _]|[[_ H]|[_ H]]]]]]]; try discriminate. exact H. }
    clear H. induction (o_rows o) as [|r rows IH]; [discriminate|]. cbn [forallb map existsb] in *.
    unfold row_report at 1. cbn [rr_cells_ok].
    destruct (list_all2 ocell_ok (spec_row cols (or_suite r)) (or_cells r)); cbn [negb orb andb] in *; [now apply IH|reflexivity].
  - intros [v' [rep [E [_ [_ [_ [Er Hex]]]]]]]. injection E as <-. injection Er as <-.
    right. right. right. right. left. split; [|reflexivity].
    induction (o_rows o) as [|r rows IH]; [discriminate|]. cbn [forallb map existsb] in *.
    unfold row_report at 1 in Hex. cbn [rr_cells_ok] in Hex.
    destruct (list_all2 ocell_ok (spec_row cols (or_suite r)) (or_cells r)); cbn [negb orb andb] in *; [now apply IH|reflexivity].
Qed.

(* ---- the model's page, row by row ---- *)

Lemma cons_eq_inv {A} (x y : A) a b : x :: a = y :: b -> x = y /\ a = b.
Proof. intros E. injection E as -> ->. now split. Qed.

Lemma cells_soundb_intro v S cols : forall cells,
  (List.length cells <= List.length cols)%nat ->
  (forall j oc J, nth_error cells j = Some oc -> nth_error cols j = Some J -> cell_sound v S J oc = true) ->
  cells_soundb v S cols cells = true.
Proof.
  induction cols as [|J cols IH]; intros [|c cells] Hlen H; cbn [cells_soundb]; try reflexivity.
  - cbn in Hlen. lia.
  - rewrite (H 0%nat c J eq_refl eq_refl). cbn [andb]. apply IH.
    + cbn in Hlen. lia.
    + intros j oc J' Hj HJ. exact (H (Datatypes.S j) oc J' Hj HJ).
Qed.

Lemma rows_report_model inp rep :
  rows_report inp (obs_of (run_html_exec inp)) = Some rep ->
  forall r, In r rep ->
    rr_sound r = true /\
    (rr_once r = true -> rr_noties r = true -> rr_cells_ok r = true).
Proof.
  pose proof exec_qsorts_ok as Hq. unfold rows_report.
  destruct (view (walk_dirs exec_qsorts) inp) as [v|] eqn:Hv; [|discriminate].
  destruct (run_html_exec inp) as [pg|] eqn:Hrun.
  2:{ cbn [obs_of o_cols o_rows map all_some]. intros E. injection E as <-. intros r []. }
  unfold run_html_exec in Hrun.
  destruct (row_guarded exec_qsorts inp pg Hq Hrun) as [v' [vs [Hpv [Hnd Hrows]]]].
  assert (v' = v) by (destruct Hpv as [E _]; congruence). subst v'.
  destruct (cells_sound exec_qsorts inp pg Hq Hrun) as [v' [vs' [Hpv' Hsound]]].
  assert (v' = v) by (destruct Hpv' as [E _]; congruence). subst v'.
  destruct Hpv as [_ [Hp [Hs Hc]]]. destruct Hpv' as [_ [Hp' [Hs' Hc']]].
  assert (vs' = vs).
  { rewrite Hc in Hc'. clear - Hc' Hnd Hp Hp'.
    assert (Hinj : forall I J, In I v -> In J v -> render_column (rinv_of I) = render_column (rinv_of J) -> I = J).
    { intros I J HI HJ E. apply (nodup_map_inj sinv_dir v I J Hnd HI HJ).
      unfold sinv_dir. apply (f_equal c_arch) in E as Ea. apply (f_equal c_date) in E as Ed.
      cbn in Ea, Ed. now rewrite Ea, Ed. }
    assert (Hsub : forall I, In I vs -> In I v) by (intros I HI; apply (Permutation_in _ (Permutation_sym Hp) HI)).
    assert (Hsub' : forall I, In I vs' -> In I v) by (intros I HI; apply (Permutation_in _ (Permutation_sym Hp') HI)).
    clear Hp Hp'. revert vs' Hc' Hsub'. induction vs as [|I vs IH]; intros [|J vs'] E Hs'; cbn [map] in E; try discriminate; [reflexivity|].
    apply cons_eq_inv in E. destruct E as [E1 E2]. f_equal.
    - symmetry. apply Hinj; [apply Hsub; now left|apply Hs'; now left|exact E1].
    - apply IH; [intros K HK; apply Hsub; now right|exact E2|intros K HK; apply Hs'; now right]. }
  subst vs'. cbn [obs_of o_cols o_rows]. rewrite Hc.
  rewrite (all_some_map_id (find_inv v) (fun I => render_column (rinv_of I)) vs).
  2:{ intros I HI. apply find_inv_column; [exact Hnd|]. now apply (Permutation_in _ (Permutation_sym Hp)). }
  intros E. injection E as <-. intros r Hr. rewrite map_map in Hr. apply in_map_iff in Hr.
  destruct Hr as [[S row] [<- Hin]]. unfold row_report. cbn [orow_of or_suite or_cells fst snd rr_sound rr_once rr_noties rr_cells_ok].
  split.
  - destruct (Hsound S row Hin) as [cells [-> [Hlen Hcells]]].
    apply cells_soundb_intro.
    + rewrite map_length. rewrite Hc, map_length in Hlen. exact Hlen.
    + intros j oc J Hj HJ. rewrite nth_error_map in Hj.
      destruct (nth_error cells j) as [[[st href]|]|] eqn:Ec; cbn in Hj; try discriminate; injection Hj as <-; [|reflexivity].
      destruct (Hcells j st href Ec) as [I [sr [J' [HI [Hsr [HS [Hst [Hh [HJ' Ht]]]]]]]]].
      assert (J' = J) by congruence. subst J'.
      cbn [cell_sound ocell_of]. apply existsb_exists. exists I. split; [exact HI|].
      apply andb_true_iff. split; [now apply Z.leb_le|].
      apply existsb_exists. exists sr. split; [exact Hsr|].
      apply andb_true_iff. split; [unfold suite_is; now apply beq_eq|].
      unfold srun_status, sinv_dir. rewrite <- Hst, <- Hh. cbn [ocell_ok oc_text oc_class oc_href].
      now rewrite !beq_refl.
  - intros Ho Ht. assert (Hg : row_guard v S).
    { apply (row_guardb_iff v S Hnd). unfold row_guardb. now rewrite Ho, Ht. }
    destruct (Hrows S row Hin Hg) as [-> _]. apply list_all2_ocell.
Qed.

(* for reference in the Properties file: the per-row form of "the oracle accepts the model" *)
Definition row_verdicts_justified : Prop :=
  forall inp rep, rows_report inp (obs_of (run_html_exec inp)) = Some rep ->
    forall r, In r rep ->
      rr_sound r = true /\ (rr_once r = true -> rr_noties r = true -> rr_cells_ok r = true).

Lemma row_verdicts_hold : row_verdicts_justified.
Proof. exact rows_report_model. Qed.
