(* HtmlPage.v - the bytes of index.html: html.c (html_head_enter, html_head_leave,
   html_node_enter, html_node_leave, html_text, html_indent, html_write) and the
   render_* functions of regress-html.c (regress_html_render, render_pass_rates,
   render_dates, render_durations, render_duration, render_changelog,
   render_patches, render_arches, render_suite, render_run).  Definitions only.

   html.c keeps a buffer and a depth.  HTML_NODE(type) { body } is
   html_node_enter (indent by 2*depth blanks, depth++, "<type k="v" ...>\n"),
   the body, html_node_leave (depth--, indent, "</type>\n"); HTML_TEXT(str) is
   html_text (indent, "%s\n").  Nothing is escaped anywhere.  A document is
   written here as a tree of the three shapes regress-html.c uses:

     Node tag attrs kids      HTML_NODE[_ATTR] whose body emits elements only
     Leaf tag attrs s         HTML_NODE[_ATTR] whose body is one HTML_TEXT(s)
     LeafSpan tag attrs s a   ... one HTML_TEXT of the string "s<span>a</span>"
                              (render_duration builds that string with sprintf)

   [emit] gives the bytes.  [page_bytes pg] is the whole file for the page the
   model computes (HtmlDefs.page); the correspondence check compares it byte for
   byte with the index.html the program wrote. *)
From Robsd Require Export Html.HtmlSpec.
From Coq Require Import String.
Local Open Scope N_scope.

Definition attrs := list (bytes * bytes).

Inductive hnode :=
| Node (tag : bytes) (at_ : attrs) (kids : list hnode)
| Leaf (tag : bytes) (at_ : attrs) (s : bytes)
| LeafSpan (tag : bytes) (at_ : attrs) (s a : bytes).

(* html_indent *)
Definition indent (d : nat) : bytes := repeat 32 (2 * d).

(* " %s=\"%s\"" *)
Definition attr_bytes (kv : bytes * bytes) : bytes := 32 :: fst kv ++ [61; 34] ++ snd kv ++ [34].

(* "<%s" attributes ">" and "</%s>" *)
Definition open_bytes (tag : bytes) (at_ : attrs) : bytes := 60 :: tag ++ flat_map attr_bytes at_ ++ [62].
Definition close_bytes (tag : bytes) : bytes := 60 :: 47 :: tag ++ [62].

(* html_node_enter at depth d (before the increment), html_node_leave back at depth d, html_text *)
Definition node_enter (d : nat) (tag : bytes) (at_ : attrs) : bytes := indent d ++ open_bytes tag at_ ++ [10].
Definition node_leave (d : nat) (tag : bytes) : bytes := indent d ++ close_bytes tag ++ [10].
Definition text_line (d : nat) (s : bytes) : bytes := indent d ++ s ++ [10].

Definition t_span : bytes := Eval vm_compute in bs "span".

Fixpoint emit (d : nat) (n : hnode) : bytes :=
  match n with
  | Node tag at_ kids => node_enter d tag at_ ++ flat_map (emit (S d)) kids ++ node_leave d tag
  | Leaf tag at_ s => node_enter d tag at_ ++ text_line (S d) s ++ node_leave d tag
  | LeafSpan tag at_ s a =>
      node_enter d tag at_ ++ text_line (S d) (s ++ open_bytes t_span [] ++ a ++ close_bytes t_span) ++
      node_leave d tag
  end.

(* ---- the names ---- *)

Definition t_table := Eval vm_compute in bs "table".
Definition t_thead := Eval vm_compute in bs "thead".
Definition t_tbody := Eval vm_compute in bs "tbody".
Definition t_tr := Eval vm_compute in bs "tr".
Definition t_th := Eval vm_compute in bs "th".
Definition t_td := Eval vm_compute in bs "td".
Definition t_a := Eval vm_compute in bs "a".
Definition t_h1 := Eval vm_compute in bs "h1".
Definition t_title := Eval vm_compute in bs "title".
Definition t_html := Eval vm_compute in bs "html".
Definition t_head := Eval vm_compute in bs "head".
Definition t_body := Eval vm_compute in bs "body".
Definition t_meta := Eval vm_compute in bs "meta".
Definition t_style := Eval vm_compute in bs "style".
Definition k_class := Eval vm_compute in bs "class".
Definition k_href := Eval vm_compute in bs "href".
Definition k_lang := Eval vm_compute in bs "lang".
Definition k_charset := Eval vm_compute in bs "charset".
Definition v_en := Eval vm_compute in bs "en".
Definition v_utf8 := Eval vm_compute in bs "utf-8".
Definition v_pass := Eval vm_compute in bs "pass".
Definition v_date := Eval vm_compute in bs "date".
Definition v_duration := Eval vm_compute in bs "duration".
Definition v_cvs := Eval vm_compute in bs "cvs".
Definition v_patch := Eval vm_compute in bs "patch".
Definition v_arch := Eval vm_compute in bs "arch".
Definition v_suite := Eval vm_compute in bs "suite".
Definition v_status := Eval vm_compute in bs "status".
Definition x_pass_rate := Eval vm_compute in bs "pass rate".
Definition x_date := Eval vm_compute in bs "date".
Definition x_duration := Eval vm_compute in bs "duration".
Definition x_changelog := Eval vm_compute in bs "changelog".
Definition x_patches := Eval vm_compute in bs "patches".
Definition x_architecture := Eval vm_compute in bs "architecture".
Definition x_cvs := Eval vm_compute in bs "cvs".
Definition x_na := Eval vm_compute in bs "n/a".
Definition x_patches_open := Eval vm_compute in bs "patches (".
Definition x_title := Eval vm_compute in bs "OpenBSD regress".
Definition x_h1 := Eval vm_compute in bs "OpenBSD regress latest test results".
Definition x_faster := Eval vm_compute in bs " &#8600;".
Definition x_slower := Eval vm_compute in bs " &#8599;".

(* ---- regress-html.c ---- *)

(* render_duration: "%dh%dm<span>%s</span>" with the arrow of the delta *)
Definition duration_text (c : column) : bytes := render_Z (c_hours c) ++ [104] ++ render_Z (c_minutes c) ++ [109].
Definition arrow (d : delta) : bytes :=
  match d with DNone => [] | Faster => x_faster | Slower => x_slower end.

(* a header row: <tr> <th> title </th> one <th class=...> per invocation </tr> *)
Definition hdr_row (title : bytes) (cells : list hnode) : hnode :=
  Node t_tr [] (Leaf t_th [] title :: cells).

Definition th_rate (c : column) : hnode := Leaf t_th [(k_class, v_pass)] (c_rate c).
Definition th_date (c : column) : hnode := Leaf t_th [(k_class, v_date)] (c_date c).
Definition th_duration (c : column) : hnode :=
  LeafSpan t_th [(k_class, v_duration)] (duration_text c) (arrow (c_delta c)).
Definition th_changelog (c : column) : hnode :=
  match c_cvs c with
  | Some h => Node t_th [(k_class, v_cvs)] [Leaf t_a [(k_href, h)] x_cvs]
  | None => Leaf t_th [(k_class, v_cvs)] x_na
  end.
Definition patches_text (n : nat) : bytes := x_patches_open ++ render_Z (Z.of_nat n) ++ [41].
Definition th_patches (c : column) : hnode :=
  match c_patches c with
  | Some (n, h) => Node t_th [(k_class, v_patch)] [Leaf t_a [(k_href, h)] (patches_text n)]
  | None => Leaf t_th [(k_class, v_patch)] x_na
  end.
Definition th_arch (c : column) : hnode :=
  Node t_th [(k_class, v_arch)] [Leaf t_a [(k_href, c_dmesg c)] (c_arch c)].

(* render_run, and the padding cell of render_suite *)
Definition td_cell (c : cell) : hnode :=
  match c with
  | None => Node t_td [] []
  | Some (st, href) =>
      Node t_td [(k_class, status_str st)] [Leaf t_a [(k_class, v_status); (k_href, href)] (status_str st)]
  end.

Definition rowres_cells (r : rowres) : list cell := match r with RowOk c => c | RowOOB c => c end.

(* render_suite *)
Definition tr_suite (r : bytes * rowres) : hnode :=
  Node t_tr [] (Node t_td [] [Leaf t_a [(k_class, v_suite); (k_href, suite_href (fst r))] (fst r)]
                :: map td_cell (rowres_cells (snd r))).

Definition thead_of (cols : list column) : hnode :=
  Node t_thead []
    [hdr_row x_pass_rate (map th_rate cols); hdr_row x_date (map th_date cols);
     hdr_row x_duration (map th_duration cols); hdr_row x_changelog (map th_changelog cols);
     hdr_row x_patches (map th_patches cols); hdr_row x_architecture (map th_arch cols)].

Definition table_of (pg : page) : hnode :=
  Node t_table [] [thead_of (p_cols pg); Node t_tbody [] (map tr_suite (p_rows pg))].

(* ---- html.c: html_head_enter's literal, html_head_leave's, html_write's ---- *)

Local Open Scope string_scope.
Definition head_literal : bytes := Eval vm_compute in bs
"<!doctype html>
<html lang=""en"">
<head>
  <meta charset=""utf-8"">
  <style>
    table { border-spacing: 0; }
    thead { background: #fff; position: sticky; top: 0; }
    td, th { border: #fff 1px solid; }
    th { font-weight: normal; text-align: left; }
    td.PASS { background: #80ff80; }
    td.FAIL { background: #ff8080; }
    td.XFAIL { background: #80ffc0; }
    td.XPASS { background: #ff80c0; }
    td.SKIP { background: #8080ff; }
    td.NOTERM { background: #ffff80; }
    a.status { color: #000; }
  </style>
".
Definition head_leave_literal : bytes := Eval vm_compute in bs
"</head>
<body>
".
Definition write_literal : bytes := Eval vm_compute in bs
"</body>
</html>
".
Local Close Scope string_scope.

(* regress_html_render + html_write *)
Definition page_bytes (pg : page) : bytes :=
  head_literal ++ emit 1 (Leaf t_title [] x_title) ++ head_leave_literal ++
  emit 0 (Leaf t_h1 [] x_h1) ++ emit 0 (table_of pg) ++ write_literal.

(* what the program leaves in <out>/index.html: nothing when it exits 1 before rendering *)
Definition index_bytes (p : option page) : option bytes :=
  match p with Some pg => Some (page_bytes pg) | None => None end.
