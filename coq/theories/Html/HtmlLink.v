(* HtmlLink.v - the proviso of C14_link_target_partial ("every creation of the
   link's path writes the extraction of that run's log") follows from conditions
   one can check on the input: arch and directory names without '/', pairwise
   distinct arch/date directories (every page has them), and within the run's
   invocation log names that are pairwise distinct, hold no '/' and are none of
   dmesg, comment, diff.  robsd's own log names (NNN-name.log with a running
   number, '/' replaced) are such names. *)
From Robsd Require Export Html.HtmlOracle.
From RobsdGen Require Import Gen_Html.
Local Open Scope N_scope.

Definition logs_distinct (I : sinv) : Prop :=
  NoDup (map sr_log (si_runs I)) /\
  forall sr, In sr (si_runs I) ->
    noslash (sr_log sr) /\ sr_log sr <> name_dmesg /\ sr_log sr <> name_comment /\ sr_log sr <> name_diff.

Lemma pjoin_inj d a b : pjoin d a = pjoin d b -> a = b.
Proof. unfold pjoin. intros H. apply app_inv_head in H. now injection H. Qed.

Lemma pjoin_neq_self d a : pjoin d a <> d.
Proof.
  intros H. pose proof (beq_pjoin_self d a) as Hb. rewrite H in Hb. now rewrite beq_refl in Hb.
Qed.

Lemma link_proviso v I sr :
  (forall J, In J v -> plain J) -> NoDup (map sinv_dir v) -> In I v -> In sr (si_runs I) -> logs_distinct I ->
  forall c, In (pjoin (sinv_dir I) (sr_log sr), c) (flat_map spec_tree_inv v) ->
            c = Some (spec_extract (srun_status sr) (sr_content sr)).
Proof.
  intros Hpl Hnd HI Hsr [Hlogs Hnames] c Hin.
  apply in_flat_map in Hin. destruct Hin as [J [HJ Hin]].
  assert (Hu : under J (pjoin (sinv_dir I) (sr_log sr))).
  { apply spec_tree_inv_under. apply (in_map fst) in Hin. exact Hin. }
  assert (Ed : sinv_dir I = sinv_dir J) by (apply (under_sub I J (sr_log sr)); auto).
  assert (J = I) by (symmetry; apply (nodup_map_inj sinv_dir v I J Hnd HI HJ Ed)). subst J.
  destruct (Hnames sr Hsr) as [Hns [Hn1 [Hn2 Hn3]]].
  destruct (Hpl I HI) as [Hpa Hpd].
  unfold spec_tree_inv in Hin. cbn [app] in Hin.
  destruct Hin as [E|[E|Hin]].
  - exfalso. injection E as E _. apply Hpa. rewrite E. unfold pjoin, sinv_dir, pjoin.
    rewrite <- app_assoc. apply in_or_app. right. now left.
  - exfalso. injection E as E _. symmetry in E. exact (pjoin_neq_self _ _ E).
  - apply in_app_or in Hin as [Hin|Hin].
    { unfold opt_file in Hin. destruct (si_dmesg I); [|destruct Hin].
      destruct Hin as [E|[]]. injection E as E _. apply pjoin_inj in E. congruence. }
    apply in_app_or in Hin as [Hin|Hin].
    { unfold opt_file in Hin. destruct (si_comment I); [|destruct Hin].
      destruct Hin as [E|[]]. injection E as E _. apply pjoin_inj in E. congruence. }
    destruct Hin as [E|Hin].
    { injection E as E _. apply pjoin_inj in E. congruence. }
    apply in_app_or in Hin as [Hin|Hin].
    + apply in_map_iff in Hin. destruct Hin as [f [E _]]. injection E as E _.
      rewrite pjoin_assoc in E. apply pjoin_inj in E. exfalso. apply Hns. rewrite <- E.
      unfold pjoin. apply in_or_app. right. now left.
    + apply in_map_iff in Hin. destruct Hin as [sr' [E Hsr']]. injection E as E <-.
      apply pjoin_inj in E.
      assert (sr' = sr) by (apply (nodup_map_inj sr_log (si_runs I) sr' sr Hlogs Hsr' Hsr E)). now subst sr'.
Qed.

(* the link of a run leads to the extraction of THAT run's log - under checkable conditions *)
Lemma link_target_checkable q inp pg : run_html q inp = Some pg ->
  exists v, view (walk_dirs q) inp = Some v /\
    forall I sr, (forall J, In J v -> plain J) -> In I v -> In sr (si_runs I) -> logs_distinct I ->
      tree_lookup (p_tree pg) (pjoin (pjoin (si_arch I) (si_date I)) (sr_log sr)) =
      Some (Some (spec_extract (spec_status (sr_exit sr) (sr_content sr)) (sr_content sr))).
Proof.
  intros H. destruct (link_target q inp pg H) as [v [Hv [_ Hl]]]. exists v. split; [exact Hv|].
  intros I sr Hpl HI Hsr Hd. apply Hl; [exact HI|exact Hsr|].
  pose proof (run_html_dirs_nodup q inp pg v H Hv) as Hnd.
  exact (link_proviso v I sr Hpl Hnd HI Hsr Hd).
Qed.
